#!/usr/bin/env python3
# usage: neutralimport.py <root> <first_contact_result_file> <current_result_file> <tag>
# stores every refactoring of <root>/<Cxx>/<k>/ that is silent in <current_result_file> as neutral/<Cxx>-<tag><k>/
import sys, os, re, json, shutil
root, first, cur, tag = sys.argv[1:5]
def parse(f):
    out = {}
    for l in open(f):
        m = re.match(r'(C\d\d)/(\w) suite=(\w+) demofail=\[(.*?)\] fired=\[(.*?)\]', l)
        if m:
            out[(m.group(1), m.group(2))] = (m.group(3), m.group(4).split(), [x for x in m.group(5).split(',') if x])
    return out
fc, cu = parse(first), parse(cur)
n = 0
for (pid, k), (suite, demofail, fired) in sorted(cu.items()):
    if suite != 'pass' or fired:
        continue
    src = os.path.join(root, pid, k)
    dst = os.path.join('/verif/neutral', '%s-%s%s' % (pid, tag, k))
    os.makedirs(dst, exist_ok=True)
    shutil.copy(os.path.join(src, 'patch.diff'), dst)
    shutil.copy(os.path.join(src, 'notes.md'), dst)
    files = sorted(set(re.findall(r'^\+\+\+ b/(\S+)', open(os.path.join(src, 'patch.diff')).read(), re.M)))
    ff = fc.get((pid, k), (None, [], []))[2]
    meta = {
        "id": os.path.basename(dst), "property": pid,
        "properties": sorted(set([pid] + ff)),
        "kind": "behaviour-preserving refactoring",
        "origin": "fresh sub-agent given only the property record and its own scratch worktree; asked for refactorings that keep every behaviour",
        "files_touched": files,
        "confirmed_by_me": {"how": "tools/neutralrun.sh on a scratch worktree: existing suite passes; seeded demonstrations of the property re-run on the refactored tree",
                            "existing_suite": "pass",
                            "seeded_demos_of_property": "pass" if not demofail else "not applicable to: " + " ".join(demofail) + " (these demonstrations name unexported identifiers the refactoring renames)"},
        "expected": "every registered check stays silent",
        "first_contact": "silent" if not ff else "false alarm from " + ",".join(ff) + " (checker repaired, see DESIGN.md §11)",
        "observed": "all 20 quick checks silent (tools/neutralbatch.sh)",
    }
    json.dump(meta, open(os.path.join(dst, 'meta.json'), 'w'), indent=1)
    n += 1
print("stored", n)
