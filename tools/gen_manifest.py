#!/usr/bin/env python3
"""Generates /verif/MANIFEST.json from the table below (single source of truth)."""
import json, os, sys
HERE = os.path.dirname(os.path.dirname(os.path.abspath(__file__)))

TRUST = "Trusted: go/types and go/ssa (x/tools v0.29.0) represent the program faithfully; documented pre/post-conditions of reflect, strings, strconv, regexp, sync, container/list. The check analyses /repo's current source on every run and executes nothing from it; unresolved anchors, unrecognised shapes and analyser panics fail the check."

CLAIMED = {
 "C06": dict(
   technique="structural dataflow on SSA of the splice (span equality by canonical linear terms), regex language equivalence of the three patterns, loop-index linear form for application order, provenance of merge operands (static analysis)",
   text="Decides the clause 'every byte outside the annotated fields' tag literals is unchanged' for all files: the splice keeps exactly contents[:A] and contents[B:] around the replaced copy of contents[A:B]; only the trailing literal can be replaced (pattern language compared exactly); areas are applied in descending offset order; the new literal is old.override(injected) rendered `k:v k:v`; nothing else touches the bytes between read and write and the same path is written. CLI plumbing is not decided (DESIGN.md §6).",
   ref="DESIGN.md §4 C06"),
 "C07": dict(
   technique="identity dataflow between read and write when the area list is empty + dominance of area construction by a non-empty @tag match (static analysis)",
   text="Decides 'a file with no @tag annotations is left unchanged' for all files, plus necessary conditions of the re-run case (existing keys keep position and the injected value wins; the literal is replaced wholesale). ",
   ref="DESIGN.md §4 C07"),
 "C08": dict(
   technique="key-completeness dependency analysis on the abstract interpretation of the cache user (inputs of stored value ⊆ inputs of key), miss-path and who-stores rules, store inventory on cached memory (static analysis)",
   text="Memoisation soundness for every history and every CacheEr implementation: the cached per-type info depends only on what its key contains (type and tag name), a miss returns the freshly computed value after a single Load, cached memory is never written, and the global is assigned only in init and under sync.Once. Purity of reflect.Type methods is trusted.",
   ref="DESIGN.md §4 C08"),
 "C09": dict(
   technique="abstract interpretation of every cache method with container/list operations and the abstract list length n±k as observed domain; pairing/ends/capacity/callback rules per path (static analysis)",
   text="Structural necessary conditions of a bounded LRU map on every path: list and map updated in pairs, insertion/touch/eviction ends consistent, Load and Store hits touch, Store hit replaces the value, exactly one eviction iff count after insertion exceeds capacity, callback exactly once with the removed pair, Len's sentinel only on mismatch. Trace equivalence with a reference LRU over all operation sequences is a history property and is NOT decided.",
   ref="DESIGN.md §4 C09"),
 "C11": dict(
   technique="effects inventory over everything reachable from the entry points (global writes, global map updates), pool field discipline by abstract interpretation of constructors/releasers, lockset rule of C10 (static analysis)",
   text="Decides absence of shared mutable state between concurrent validation calls for all schedules: no package-level state is written on a validation path, every pooled object is fully re-initialised or reset, builders are Reset before Put, and the only shared object (type cache) obeys the lock discipline. Races inside user callbacks and registration concurrent with validation are outside (property's assumption).",
   ref="DESIGN.md §4 C11"),
 "C12": dict(
   technique="non-interference by effects: pool/global inventories, cache key completeness, slice-family aliasing analysis after zero-copy conversions, reflect-setter and rule-map write inventory (static analysis)",
   text="Shows there is no channel through which an earlier call can influence a later one or a later call alter an earlier result: nothing survives in pooled objects or globals, the cache is transparent and immutable, zero-copy strings never share memory that is written afterwards, inputs and rule maps are never written. User-supplied functions are outside.",
   ref="DESIGN.md §4 C12"),
 "C14": dict(
   technique="segmented-string abstract evaluation of the parser over an exhaustive family of text skeletons (complete input/output table), path enumeration of the splitter's transition table over byte classes, writer/reader constant-table agreement, fast-path dominance (static analysis)",
   text="The parser's complete table: for every rule-text skeleton (plain, bar, eq, eq+bar; message present or not; later '=' and '|') ParseValidNameKV returns exactly the specified key, value and labelled message and cannot index out of range (C14-PARSE); builder and parser agree on '=' and '|', joiner and splitter default agree, the fast path is guarded by 'no quote'. ",
   ref="DESIGN.md §4 C14"),
 "C19": dict(
   technique="dominance/ordering rules on the handler's CFG, file-mutation call inventory over the call graph, loop-exit discipline, optional-pointer nil-guard rule, bounds prover with regex-inclusion fact (static analysis)",
   text="No write after a failed parse or for a non-.go name, the only mutation reachable is the write of the read path after a successful read, directory/glob loops cannot be cut short by one file, nothing reachable exits or panics explicitly, optional go/ast pointers are nil-tested, all index/slice expressions of the injector are proved in bounds. Filesystem faults are outside.",
   ref="DESIGN.md §4 C19"),
 "C20": dict(
   technique="abstract interpretation of the two mutually recursive emitters per reflect kind with container sizes 0..3 enumerated; emitted token sequences validated against the JSON shape per kind (static analysis)",
   text="Decides well-formedness (balanced, exactly-one-comma separation, keys and strings quoted exactly once, null for nil pointers) of everything the dumper can emit for structs, slices/arrays, maps and scalars of every kind, for container sizes 0..3 with size-independent loop bodies, and the float bit size per kind. Textual equality of scalars with encoding/json and embedded-struct flattening are NOT decided.",
   ref="DESIGN.md §4 C20"),
 "C04": dict(
   technique="abstract interpretation of the struct walker (kind-set typestate): descent table, label provenance, guard dominance; call-graph who-may-call (static analysis)",
   text="Decides the inductive step of nested validation for every kind: which kinds are descended into (once / per element / per map value / not at all), that each nested call is labelled with the very index or iterator key that produced the value, that descents happen only on non-zero, non-time.Time values through exported fields, that time.Time fields are excluded when the type is analysed, that nil sub-objects are skipped silently, and who may call the recursive walker. The recursion is the same function, so the step covers arbitrary depth and width.",
   ref="DESIGN.md §4 C04"),
 "C16": dict(
   technique="abstract interpretation of the walkers and of SetRule: lookup-order facts at every rule call, provenance of the rule string and of the rule set (static analysis)",
   text="On every path: per-call function table before the global one, error clause and no call on a double miss; a field's rule string is exactly the non-empty programmatic rule or else the tag rule; the unscoped rule set only for the outermost object when no type-scoped set exists; SetRule keys by pointer-stripped type or sentinel.",
   ref="DESIGN.md §4 C16"),
 "C17": dict(
   technique="dependency rule on the group key + provenance of registered members + exhaustive abstract evaluation of either/botheq for group sizes 1..3 (static analysis)",
   text="The accumulation key depends on object path and rule text and every multi-object walker records its object path, so groups are per object for all object graphs; no ValueOf(reflect.Value) type confusion; either/botheq verdicts are enumerated for sizes 1..3 over every emptiness/equality pattern (all-empty, all-equal, single-member error). Sizes above 3 rest on the loop body not depending on the size.",
   ref="DESIGN.md §4 C17"),
 "C18": dict(
   technique="sibling cross-check of the four walkers on their abstract interpretation + structural URL-splitting hazards (static analysis)",
   text="All four entry points perform the same steps around the shared rule functions (default split, empty-item skip, parse, lookup by key, nil-means-builtin, zero-skip, call with the unparsed item and the scalar's own Value); URL values keep everything after the first '='. Two listed known findings: whole-URL decoding before splitting (pinned by tests) and interface-typed map values.",
   ref="DESIGN.md §4 C18"),
 "C02": dict(
   technique="CFG loop-exit discipline of the walkers + path-sensitive abstract interpretation of all rule functions (write counting, clause provenance) + dominance rules on error materialisation (static analysis)",
   text="Decides the reporting machinery structurally for all inputs: no walker loop that can produce a clause has an exit other than its header (never stops at the first failure); every rule function writes at most one constructed, separator-terminated clause per path, naming the field it was called for; getError evaluates groups first, returns nil iff the buffer is empty and trims exactly one separator; every walking path of Valid returns getError. Does not decide that each individual verdict is right (C01/C05/C03).",
   ref="DESIGN.md §4 C02"),
 "C03": dict(
   technique="abstract interpretation of the four walkers with a reflect kind-set typestate: zero-skip dominance, required truth table, rule-key enumeration, interface unwrapping (static analysis)",
   text="For every path of one pass of each walker: rule functions are only called on a value proved non-empty; the built-in required writes exactly one clause unless the value was proved non-empty (and non-zero length where collections are supported) and none otherwise, including via the nested descent; map/URL walkers enumerate rule keys (missing entries); map elements are unwrapped from interfaces. One listed known finding (interface-typed map values).",
   ref="DESIGN.md §4 C03"),
 "C05": dict(
   technique="abstract interpretation of every content rule function compared with specification formulas over library predicates + regular-language equivalence by automata product + symbolic layout comparison (static analysis)",
   text="Per rule and kind, on every path the verdict equals a frozen specification formula over the trusted predicates actually consulted (which pattern, ParseIP/To4, time.Parse with the exact layout for default and custom separators, HasPrefix/HasSuffix argument order, json.Valid, Stat/IsDir, ==/Contains for in/include); the languages of the phone/email/idcard/int/float patterns are compared with reference languages exactly (decidable); ToStr's rendering table is checked per type. The escaped-quote scan of re and the bracket parsing of in are data-dependent loops and are not decided.",
   ref="DESIGN.md §4 C05"),
 "C13": dict(
   technique="kind-set typestate over all paths of entry points, walkers, group evaluation and rule functions (reflect preconditions as proof obligations) + bounds/nil/assert obligations (static analysis)",
   text="Every reflect call reachable from the four entry points is checked against its documented precondition for every kind the receiver may have there (input = any kind, nil included; rule text opaque); reachable index/slice expressions, pointer dereferences of input-derived pointers, unchecked assertions and nil-map stores are proof obligations discharged from dominating guards. A dropped guard leaves an undischarged obligation however exotic the triggering input.",
   ref="DESIGN.md §4 C13"),
 "C15": dict(
   technique="abstract interpretation of every rule function (custom-message diamond), regex language check of the CJK pattern, dependency rule on the extractor (static analysis)",
   text="On every path of every rule function the default text is written only when the rule's own custom message is empty, and otherwise exactly that message with the same object, field and input; label selection and the extractor's clause independence/bounds are decided structurally. Exact extractor output on look-alike text is not decided.",
   ref="DESIGN.md §4 C15"),
 "C01": dict(
   technique="path-sensitive abstract interpretation of the rule functions over a finite order-class/sign/kind domain, exhaustive, compared with a specification table (static analysis)",
   text="Every size rule x reflect kind x order class of the measure against each bound x bound sign x custom-message presence is enumerated completely in a finite abstract domain (no concrete values): the verdict the code computes must equal the specification table, the measure must be the documented one, and bound conversions must preserve order. Exact boundaries, signedness hazards and missing kinds are decided for all values, not sampled. It decides the rule functions; which kinds the entry points pass through is C18/C03.",
   ref="DESIGN.md §4 C01"),
 "C10": dict(
   technique="lockset dataflow on SSA over every path of every method of the mutex-bearing cache type (static analysis)",
   text="Static lock-discipline proof over all paths: every access to guarded cache state is under the mutex (write mode when mutating), each operation is a single critical section released on every exit, the private helper is only entered with the write lock, no re-entry, no escape of internals, no outside access. Decides race freedom, self-deadlock freedom and per-operation atomicity for all schedules; sequential meaning of the operations is C09's clause, not this one.",
   ref="DESIGN.md §4 C10"),
}

# rules added after the seeded rounds (DESIGN.md §10); appended to the claim text
BASE = " Foundation groups shared with other properties (each a necessary condition of this one, DESIGN.md §10a) are reported as %s-BASE-<GROUP>: "
ADDED = {
 "C01": "Round 6: value-preserving conversions on every platform (an int64 measure is never narrowed to int before the comparison). Round 5: the rule text in force for an object is selected correctly (C01-BASE-RULESRC), exported fields are recognised exactly (C01-BASE-EXPORT), every entry point hands all its parameters on (C01-BASE-FACADE). Round 4: C01-EXACT, a measure from Int()/Uint()/Float() is never converted before the comparison to a type that cannot hold every value of its own (no int64/uint64 -> float64 detour: integers above 2^53 collapse). Also: a conversion of the measure must be value preserving (float->int, uint64->int64 rejected); C01-ENTRY: the value measured is the caller's through every entry point (C18-URL decode-once / own text, C18-FIELDID, C18-VARKINDS, C18-SKEL). One listed known finding (whole-URL decoding, same construct as C18's)." + BASE % "C01" + "DECLARED (cached rule info never written), STATE (pools/globals), ALIAS, LOOP, TEXT (rule text split and parsed faithfully, delimiters by first occurrence).",
 "C02": "Round 6: C02-REQDESCEND (required writes its clause or reaches the nested descent on every path), C02-LIVE-LITERAL (no literal copy of the default separator). Round 5: C02-ALLELEMS (every element of a top-level slice/array/map reaches the walker), C02-MISSING-ALL, C02-LIVE (the clause separator ErrEndFlag is read at the time of use, never frozen at package initialisation), C02-BASE-EXPORT, C02-BASE-FACADE. Round 4: a violated required is reported for every kind (C02-REQUIRED = C03-REQ). Also: field values read at the offset of the entry that names the field (C02-FIELDID), rule source/scope (C02-RULESRC = C16-SCOPE/REPLACE); cached per-type rule info is never written by a walker (C02-DECLARED); group clauses name every member by its object path (C02-GROUP = C17-KEY/EVAL); a key present in the input is not reported again as missing (C02-MISSING-ONCE); map keys in paths are rendered by the fmt default of ToStr (C02-PATHKEY)." + BASE % "C02" + "STATE, ALIAS, TEXT.",
 "C03": "Round 6: C18-URL first-question-mark (the query is cut at the first '?'). Round 5: the required clause is written only on paths that found the value zero or an empty collection (C03-REQ proof of emptiness), C03-MISSING-ALL (the missing-key reporter enumerates the rule keys on every path), C03-ALLELEMS, C03-BASE-RULESRC/EXPORT/FACADE. Round 4: the exempt type denotes time.Time (C03-EXEMPT). Also: C03-FIELDID, C03-URLENTRY (= C18-URL; one listed known finding: whole-URL decoding); the missing-key bookkeeping of the keyed walkers (C03-SEEN: fresh per-pass key set, filled on every iteration with the lookup key, reporter skips exactly seen keys and non-required rules), rule loops leave only through their headers (C03-LOOP), zero sub-objects are never descended into (C03-DESCENT)." + BASE % "C03" + "DECLARED, STATE, ALIAS, TEXT.",
 "C04": "Round 6: C04-REQDESCEND. Round 5: C04-ALLELEMS, C04-BASE-RULESRC (an unscoped rule set is never consulted for a nested object); the pooled validator's rule map is reset on every releaser path (found after the interpreter was made to restore client cells between traces). Round 4: C04-EXEMPT. Also: the export predicate accepts exactly first bytes 'A'..'Z' (C04-EXPORT, interval analysis), pointer stripping returns a non-pointer (C04-STRIP), map keys in labels are rendered through ToStr's fmt default (C04-PATHKEY), the type name is accepted as object path only on the outermost-object edge, cached rule info is never written (C04-DECLARED)." + BASE % "C04" + "STATE, LOOP.",
 "C05": "Round 6: C05-TOSTR follows the value through phis to the formatting call and rejects a narrowing conversion on the way (Itoa(int(int64))). Round 5: C05-BASE-ZEROSKIP (every walker calls a rule function exactly when the value itself is non-empty: no TrimSpace notion of empty in one carrier), C05-BASE-RULESRC/EXPORT/FACADE. Round 4: C05-INLIST, the option list of in/include is the text from the first '(' to the last ')' for every value skeleton (segmented-string evaluation with a probe at the splitter call). Also: verdict flags carried around element loops are monotone and not degenerate (C05-STICKY), unique inserts every element and compares counts for equality (C05-UNIQUE), default date separators only when the rule has no value, ToStr has no interface/reflect.Value case (C05-TOSTRCASES)." + BASE % "C05" + "DECLARED, STATE, ALIAS, LOOP, TEXT (includes the splitter's transition table used for in/include options).",
 "C06": "Round 6: C06-ONLY whole file (ReadAll is given the opened file, not a limiting reader). Round 5: C06-UNITS (byte offsets and rune counts never mixed, e.g. in the directory-separator helper), C19-DISPATCH imported (each of -f/-p/-d reaches the handler of its own kind, unmodified). Round 4: the merged tag text is installed literally (replace-literal; a genuine defect found and fixed, commit 01fe667), declaration and field loops leave only through their headers (all-fields), the matched element is read before it is removed in place. Also decided since DESIGN.md §10: the key-wise merge (C06-MERGE: dataflow shape of override/newTagItems), statelessness of package file (C06-STATE), one fresh FileSet per file, write-back on every path after the areas were applied, every .go file handled (C06-ALLFILES).",
 "C07": "Round 6: C07-ONLY whole file. Round 4: replace-literal (same fixed defect), one annotation source per field (no Field.Doc), read-before-remove, all-fields. Also decided since DESIGN.md §10: the conditions under which the merge is a fixpoint on the second run (C07-MERGE: match on keys, first match, replaced in place, removed from the remainder), no package-level state in the injector (C07-STATE), one run injects every field (C07-ONEPASS). The statement 'a merge that appends is not detected' no longer holds for the repository's merge shape; another shape is reported undecided.",
 "C08": "Round 5: C08-BASE-FACADE (the tag name a caller passes is forwarded by every entry point on every path). Also: an entry is complete when published (C08-PUBLISH), no path answers from state that is not part of the key (second memo), " + "the default LRU is a correct map for every capacity (C08-BASE-LRU = C09 rules), pooled validators carry nothing over (C08-BASE-STATE).",
 "C09": "Round 5: C09-CONFIG default only without argument (NewLRU(0) is a capacity-0 cache, not the default). Also: map mutations act on the live map and Load returns the found element's value (C09-LIVE); the rebuild copies every entry unconditionally (C09-REBUILD); constructor stores the requested capacity unchanged, the setter stores the caller's callback, the removed element's key is found by element identity (C09-CONFIG).",
 "C10": "Round 5: the sequential LRU rules are imported (C10-BASE-LRU): capacity bound and internal consistency at quiescence. Also: an operation composed of several lock-taking methods is reported as non-atomic; the address of a guarded field handed to a call counts as a write; the mutex is never copied (pointer receivers only, no struct copy); pooled builders used by Dump are released last and reset before reuse (C10-BASE-STATE).",
 "C11": "Round 5: release-once (a pooled builder is released at most once per function: no explicit release next to the deferred one); a package-level slice is never re-sliced into a per-call object. Round 4: nothing touches an object after Put inside the releaser (put-last), no package-level map is stored into a per-call object (global-map-alias), the LRU rules (C11-BASE-LRU). Also: entries of the type cache are complete when published and never written (C11-CACHE); objects reached from a global and mutated through their methods count as shared state; an object handed to a pool's releaser by a non-deferred call is not used afterwards.",
 "C12": "Round 5: C12-BASE-FACADE, release-once, global slice alias. Round 4: put-last, global-map-alias, and values taken out of reflect.Value.Interface() are never sorted, copied into or stored into (interface-alias). Also: C12-MEMO (package-level concurrent maps written on a validation path store f(key) under key), C12-PARAMWRITE (no store into slice parameters); zero-copy strings are only made from bytes freshly allocated by the same call (never a pooled/shared buffer); the library never writes a caller's rule map, setup paths included (RM.Set / map updates on caller-provided RMs); cache entries complete when published.",
 "C13": "Round 6: C13-EXPORTED (= C04-GUARD), C13-BASE-LRU (a cache that panics at capacity 0 makes every validation panic). Round 5: C13-NILTYPE (the value to validate never reaches reflect.TypeOf followed by an unguarded method call), C13-ERRPAIR (results paired with an error are dereferenced only behind the error test), C13-INITGLOBAL (dereferenced package-level pointers are initialised at package init or under a dedicated Once). Round 4: reflect Field is called with the recorded index of the field analysed (C13-FIELDIDX = C18-FIELDID). Also: no == between interface values of arbitrary dynamic type (C13-IFACECMP); export predicate exact (C13-EXPORT: reflect refuses Interface() on unexported fields), ToStr never calls String() itself (nil receivers), pointer stripping returns a non-pointer (C13-STRIP)." + BASE % "C13" + "STATE, ALIAS.",
 "C14": "Round 6: C14-FAST rejects a piece limit on the fast path (SplitN with n >= 0). Round 5: C14-VARSET (Var's rule strings accumulate in the validator's own map), C14-CONV (the zero-copy conversions return their whole argument). Since DESIGN.md §10 the splitter's quote-aware slow path IS decided: its complete transition table over (inside-quotes, byte class) is extracted from the code and compared with the specification (C14-SPLIT), with the stack's contract (C14-STACK); RM.Set accumulates per field only (C14-SET); the parser's shape rules (GUARD, ORDER, FIRST, VERBATIM) are applied only when the table is undecided or mismatched; every rule list goes through ValidNamesSplit (C14-USE)." + BASE % "C14" + "STATE, ALIAS, LABEL.",
 "C15": "Round 6: C15-LIVE-LITERAL. Round 5: C15-MSGARG (the custom-message parameter receives the parsed message part, never the raw rule item), C15-LIVE. Also: the message of a quoted-argument rule (re) is parsed from the rule text with the quoted span removed (C15-QUOTED); the extractor writes the separator iff output is non-empty and cuts right after the label found (C15-JOIN)." + BASE % "C15" + "DECLARED, STATE, ALIAS, TEXT, MAT.",
 "C16": "Round 6: C16-DECLARED carries C08-KEY (cache key includes the requested tag name). Round 5: C16-SETFN (the per-object function setter stores on every path). Round 4: the per-call rule table is filled by SetRule only (filled-by-SetRule-only). Also: walker getValidFn wrappers only delegate (C16-DELEGATE); the rule name is looked up before any emptiness test of the value (C16-UNKNOWN), exported wrappers pass an unscoped rule set without an object (C16-API), cached rule info is never written (C16-DECLARED)." + BASE % "C16" + "STATE (per-call function tables do not survive in pooled validators), LOOP, TEXT.",
 "C17": "Round 6: C17-LIVE-LITERAL. Round 5: C17-ALLELEMS, C17-LIVE, C17-BASE-RULESRC/EXPORT/FACADE. Round 4: object paths of nested objects tell map entries apart (C17-OBJPATH = C04-LABEL); URL members carry their whole own value (C17-URLVALUE). Also: the clause of a violated group names every member; the type name is accepted as object path only on the outermost-object edge; members keep their own value until evaluation (C17-OWNVALUE); map keys rendered by ToStr's fmt default (C17-PATHKEY)." + BASE % "C17" + "DECLARED, STATE, ALIAS, LOOP, TEXT, MAT.",
 "C18": "Round 6: C18-URL first-question-mark, C18-LIVE, C18-BASE-MAT. Round 5: C18-FORWARD (all 13 entry points hand every parameter on), C18-REQUIRED (= C03-REQ), C18-BASE-ZEROSKIP/RULESRC/EXPORT. Round 4: the variable entry point asks ReflectKindIsNum with the float flag (admits-floats); SplitN with a count other than 2 is lossy. Also: struct fields read at the offset of the entry that names them (C18-FIELDID); URL values are query-decoded exactly once from the caller's untransformed text, key and value come from the parameter's own text (no loop-carried variable), ReflectKindIsNum's table is enumerated for every kind and flag (C18-VARKINDS), rule loops leave only through their headers (C18-LOOP)." + BASE % "C18" + "DECLARED, STATE, ALIAS, TEXT.",
 "C19": "Round 6: C19-KEEP carries C06-ONLY (whole file read); C19-DISPATCH decided by interpreting main with package flag modelled. Round 5: C19-DISPATCH (parser and writer are called by the per-file handler only; flag variables written by package flag only and handed to the handler of their kind), C19-KEEP (the splice returns prefix, field text and suffix on every path). Also: one fresh FileSet per parsed file (premise of the area-offset axiom).",
 "C20": "Round 6: C20-SCALAR narrowing (no Itoa(int(tv.Int()))), package-level scratch array never handed to Append*. Round 5: C20-GET and C20-FACADE (what the emitters wrote is what the caller gets: no post-processing, no shortcut result), the numeric scratch buffer is per dumper (global slice alias). Round 4: every emitted member was found exported on its own path; C20-EXEMPT. Also: every reflect Field(i) is proved within NumField() (C20-FIELDIDX, bounds prover), numbers rendered from the accessor of their own kind class (C20-SCALAR), export predicate exact (C20-EXPORT), no separator state in fields of the shared dumper (C20-REENTRANT)." + BASE % "C20" + "STATE (pooled builders).",
}

NOT_YET = "check under construction in this session (see DESIGN.md §4); not claimed until its rules are armed and tested both ways"
ALL = ["C%02d" % i for i in range(1, 21)]

def main():
    checks = []
    for pid in ALL:
        if pid not in CLAIMED: continue
        c = CLAIMED[pid]
        checks.append({
            "property_id": pid,
            "quick_cmd": "./check.sh %s quick" % pid,
            "thorough_cmd": "./check.sh %s thorough" % pid,
            "evidence_file": "/verif/evidence/%s.json" % pid,
            "replay_cmd_template": "cat {path}",
            "engine": "pgv",
            "level_claimed": {"category": "other", "text": c["text"] + (" " + ADDED[pid] if pid in ADDED else ""), "design_ref": c["ref"] + (" and §10" if pid in ADDED else "")},
            "level_note": c.get("note", TRUST),
            "technique": c["technique"],
        })
    na = [{"property_id": pid, "reason": NOT_YET} for pid in ALL if pid not in CLAIMED]
    m = {
        "version": 1,
        "setup_cmd": "cd checker && GOFLAGS=-mod=vendor GOPROXY=off GOSUMDB=off GOTOOLCHAIN=local GOWORK=off go build -o bin/pgv ./cmd/pgv",
        "hooks": {
            "guard": "verif",
            "enable": "none needed: static analysis reads /repo's sources; no instrumentation is compiled in (thorough tier additionally analyses the tree with -tags verif)",
            "baseline_off_cmd": "cd /repo && go test -vet=off -count=1 ./...",
            "source_commits": [],
            "add_only": True,
        },
        "engines": [{"name": "pgv", "path": "checker/", "serves_properties": [c["property_id"] for c in checks],
                     "kind_free_text": "repository-specific static analyser on go/packages + go/types + go/ssa: lockset, kind typestate, bounds, finite-domain abstract interpretation, regex language comparison, effect/ordering rules"}],
        "checks": checks,
        "not_applicable": na,
        "notes": "All checks are static analysis (family fixed for this task). Genuine defects found are repaired by 'fix:' commits in /repo or listed in known_findings.json. selftest: checker/bin/pgv -selftest -prop all (overlay kill-matrix; tests the checker).",
    }
    with open(os.path.join(HERE, "MANIFEST.json"), "w") as f:
        json.dump(m, f, indent=1, ensure_ascii=False); f.write("\n")

if __name__ == "__main__":
    main()
