#!/usr/bin/env python3
"""Generates /verif/MANIFEST.json from the table below (single source of truth)."""
import json, os, sys
HERE = os.path.dirname(os.path.dirname(os.path.abspath(__file__)))

TRUST = "Trusted: go/types and go/ssa (x/tools v0.29.0) represent the program faithfully; documented pre/post-conditions of reflect, strings, strconv, regexp, sync, container/list. The check analyses /repo's current source on every run and executes nothing from it; unresolved anchors, unrecognised shapes and analyser panics fail the check."

CLAIMED = {
 "C01": dict(
   technique="path-sensitive abstract interpretation of the rule functions over a finite order-class/sign/kind domain, exhaustive, compared with a specification table (static analysis)",
   text="Every size rule x reflect kind x order class of the measure against each bound x bound sign x custom-message presence is enumerated completely in a finite abstract domain (no concrete values): the verdict the code computes must equal the specification table, the measure must be the documented one, and bound conversions must preserve order. Exact boundaries, signedness hazards and missing kinds are decided for all values, not sampled. It decides the rule functions; which kinds the entry points pass through is C18/C03.",
   ref="DESIGN.md §4 C01"),
 "C10": dict(
   technique="lockset dataflow on SSA over every path of every method of the mutex-bearing cache type (static analysis)",
   text="Static lock-discipline proof over all paths: every access to guarded cache state is under the mutex (write mode when mutating), each operation is a single critical section released on every exit, the private helper is only entered with the write lock, no re-entry, no escape of internals, no outside access. Decides race freedom, self-deadlock freedom and per-operation atomicity for all schedules; sequential meaning of the operations is C09's clause, not this one.",
   ref="DESIGN.md §4 C10"),
}

NOT_YET = "check under construction in this session (see DESIGN.md §4); not claimed until its rules are armed and tested both ways"
ALL = ["C%02d" % i for i in range(1, 21)]

def main():
    checks = []
    for pid in ALL:
        if pid not in CLAIMED: continue
        c = CLAIMED[pid]
        checks.append({
            "property_id": pid,
            "quick_cmd": "./check.sh %s quick" % pid,
            "thorough_cmd": "./check.sh %s thorough" % pid,
            "evidence_file": "/verif/evidence/%s.json" % pid,
            "replay_cmd_template": "cat {path}",
            "engine": "pgv",
            "level_claimed": {"category": "other", "text": c["text"], "design_ref": c["ref"]},
            "level_note": c.get("note", TRUST),
            "technique": c["technique"],
        })
    na = [{"property_id": pid, "reason": NOT_YET} for pid in ALL if pid not in CLAIMED]
    m = {
        "version": 1,
        "setup_cmd": "cd checker && GOFLAGS=-mod=vendor GOPROXY=off GOSUMDB=off GOTOOLCHAIN=local GOWORK=off go build -o bin/pgv ./cmd/pgv",
        "hooks": {
            "guard": "verif",
            "enable": "none needed: static analysis reads /repo's sources; no instrumentation is compiled in (thorough tier additionally analyses the tree with -tags verif)",
            "baseline_off_cmd": "cd /repo && go test -vet=off -count=1 ./...",
            "source_commits": [],
            "add_only": True,
        },
        "engines": [{"name": "pgv", "path": "checker/", "serves_properties": [c["property_id"] for c in checks],
                     "kind_free_text": "repository-specific static analyser on go/packages + go/types + go/ssa: lockset, kind typestate, bounds, finite-domain abstract interpretation, regex language comparison, effect/ordering rules"}],
        "checks": checks,
        "not_applicable": na,
        "notes": "All checks are static analysis (family fixed for this task). Genuine defects found are repaired by 'fix:' commits in /repo or listed in known_findings.json. selftest: checker/bin/pgv -selftest -prop all (overlay kill-matrix; tests the checker).",
    }
    with open(os.path.join(HERE, "MANIFEST.json"), "w") as f:
        json.dump(m, f, indent=1, ensure_ascii=False); f.write("\n")

if __name__ == "__main__":
    main()
