#!/bin/bash
# usage: seedverify.sh <seed dir with patch.diff + demo*.go>   (confirms a seeded change in a scratch worktree)
# prints: clean_demo=pass|fail patched_demo=pass|fail patched_suite=pass|fail
set -u
d=$(readlink -f "$1"); name=$(echo "$d" | tr '/' '_')
export GOFLAGS=-mod=mod GOPROXY=off GOSUMDB=off GOTOOLCHAIN=local GOWORK=off
W=/tmp/sv/$name
rm -rf $W; git -C /repo worktree prune; git -C /repo worktree add --detach $W HEAD >/dev/null 2>&1 || { echo "worktree failed"; exit 2; }
trap 'git -C /repo worktree remove --force $W 2>/dev/null; rm -rf $W' EXIT
demo=$(ls $d/*_test.go 2>/dev/null | head -1)
RACE=${RACE:-}
run_demo() {
  if [ -n "$demo" ]; then
    pkg=$(grep -m1 '^package ' $demo | awk '{print $2}')
    case $pkg in valid|valid_test) sub=valid;; file|file_test) sub=file;; main|main_test) sub=.;; internal|internal_test) sub=valid/internal;; log) sub=log;; *) sub=valid;; esac
    cp $demo $W/$sub/zz_seed_demo_test.go
    (cd $W && timeout 600 go test $RACE -vet=off -count=1 -run "${DEMORUN:-Seed|seed|SEED|Demo|ZZ}" ./$sub/ > /tmp/sv/$name.demo.log 2>&1); rc=$?
    rm -f $W/$sub/zz_seed_demo_test.go
    return $rc
  else
    m=$(ls $d/*.go | head -1); mkdir -p $W/zzdemo; cp $m $W/zzdemo/main.go
    (cd $W && timeout 600 go run $RACE ./zzdemo > /tmp/sv/$name.demo.log 2>&1); rc=$?
    rm -rf $W/zzdemo; return $rc
  fi
}
run_demo && c=pass || c=fail
cp /tmp/sv/$name.demo.log /tmp/sv/$name.clean.log
(cd $W && git apply $d/patch.diff) || { echo "patch does not apply"; exit 2; }
(cd $W && go build ./... ) || { echo "patched tree does not build"; exit 2; }
run_demo && p=pass || p=fail
(cd $W && go test -vet=off -count=1 ./... > /tmp/sv/$name.suite.log 2>&1) && s=pass || s=fail
echo "clean_demo=$c patched_demo=$p patched_suite=$s"
