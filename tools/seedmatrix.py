#!/usr/bin/env python3
"""Runs every seeded change against the registered quick checks the documented way (tools/seedrun.sh: apply the
patch to /repo, run the checks, revert straight afterwards), records in each meta.json which checks
reported it (and the first rule that fired for its own property), and writes seeded/MATRIX.md.
usage: seedmatrix.py [seed-id ...]"""
import json, os, re, subprocess, sys
root = '/verif/seeded'
ids = sys.argv[1:] or sorted(d for d in os.listdir(root) if os.path.isdir(os.path.join(root, d)))
rows = []
for sid in ids:
    d = os.path.join(root, sid)
    meta = json.load(open(os.path.join(d, 'meta.json')))
    env = dict(os.environ, SEEDLINES='60', SEEDCOLS='500')
    out = subprocess.run(['/verif/tools/seedrun.sh', os.path.join(d, 'patch.diff'), 'all', 'quick'], capture_output=True, text=True, errors='replace', env=env).stdout
    fired = sorted(set(re.findall(r'^VIOLATION property=(C\d+)', out, re.M)))
    own = meta['property']
    rules = []
    for m in re.finditer(r'^\s+(?:violated|undecided): (C\d+)/([^/]+)/(\S+)', out, re.M):
        if m.group(1) == own:
            rules.append(m.group(2) + ' @ ' + m.group(3))
    meta['checks_run'] = 'tools/seedrun.sh <patch> all quick (git -C /repo apply; every registered quick check on /repo; git -C /repo checkout -- .)'
    meta['reported_by'] = fired
    meta['reported_by_own_property'] = own in fired
    meta['own_property_obligations'] = sorted(set(rules))[:6]
    json.dump(meta, open(os.path.join(d, 'meta.json'), 'w'), indent=1, ensure_ascii=False)
    rows.append((sid, own, own in fired, fired, sorted(set(rules))[:2]))
    print(sid, 'OWN' if own in fired else ('other' if fired else 'MISSED'), fired, flush=True)
# matrix over all seeds (re-read every meta)
allrows = []
for sid in sorted(os.listdir(root)):
    mp = os.path.join(root, sid, 'meta.json')
    if os.path.exists(mp):
        m = json.load(open(mp))
        allrows.append(m)
with open(os.path.join(root, 'MATRIX.md'), 'w') as f:
    f.write('# Seeded changes and the checks that report them\n\n')
    f.write('Each row is a change written by a fresh sub-agent that saw only the property record; each was confirmed (demo passes on the unchanged tree, fails with the change; the existing suite still passes with it) and then run against every registered quick check with tools/seedrun.sh.\n\n')
    f.write('| seed | property | own check reports it | all checks reporting | first obligations (own property) |\n|---|---|---|---|---|\n')
    for m in allrows:
        if 'reported_by' not in m: continue
        f.write('| %s | %s | %s | %s | %s |\n' % (m['id'], m['property'], 'yes' if m['reported_by_own_property'] else '**no**', ' '.join(m['reported_by']) or '—', '; '.join(m.get('own_property_obligations', [])[:2]).replace('|', '\\|')))
    n = sum(1 for m in allrows if 'reported_by' in m); k = sum(1 for m in allrows if m.get('reported_by_own_property')); a = sum(1 for m in allrows if m.get('reported_by'))
    f.write('\n%d seeds; %d reported by the check of their own property; %d reported by at least one check.\n' % (n, k, a))
