#!/bin/bash
# usage: mut.sh <file-in-repo> <python-replace-old> <new> <props>   (quick manual mutant; always reverts)
f=$1; old=$2; new=$3; props=$4
python3 - "$f" "$old" "$new" <<'PY'
import sys
p='/repo/'+sys.argv[1]; s=open(p).read()
assert sys.argv[2] in s, "pattern not found"
open(p,'w').write(s.replace(sys.argv[2], sys.argv[3], 1))
PY
(cd /repo && go build ./... 2>&1 | head -3)
for p in ${props//,/ }; do /verif/check.sh $p quick | grep -E "^property|violated:|undecided:|VIOLATION" | cut -c1-330 | head -${MUTLINES:-6}; done
git -C /repo checkout -- .
