#!/usr/bin/env python3
"""Import confirmed seeded changes from a staging root (root/<PROP>/<k>/{patch.diff,demo_test.go,notes.md})
into /verif/seeded/<PROP>-<k>/ and (re)write meta.json from the notes and from the results of
tools/seedbatch.sh in /tmp/seed_results. usage: seedimport.py <root> [round]"""
import json, os, re, shutil, sys
root = sys.argv[1]; rnd = sys.argv[2] if len(sys.argv) > 2 else "1"
for prop in sorted(os.listdir(root)):
    pd = os.path.join(root, prop)
    if not os.path.isdir(pd): continue
    for k in sorted(os.listdir(pd)):
        d = os.path.join(pd, k)
        if not os.path.isfile(os.path.join(d, 'patch.diff')): continue
        res = os.path.join(os.environ.get('RESDIR', '/tmp/seed_results'), '%s_%s.txt' % (prop, k))
        ver = open(res + '.verify').read().strip() if os.path.exists(res + '.verify') else ''
        if 'clean_demo=pass patched_demo=fail patched_suite=pass' not in ver:
            print('SKIP (not confirmed)', prop, k, ver); continue
        sid = '%s-%s%s' % (prop, ('r%s' % rnd) if rnd != '1' else '', k)
        out = os.path.join('/verif/seeded', sid); os.makedirs(out, exist_ok=True)
        for f in os.listdir(d):
            if f.endswith('.go') or f in ('patch.diff', 'notes.md'):
                shutil.copy(os.path.join(d, f), os.path.join(out, f))
        notes = open(os.path.join(d, 'notes.md')).read() if os.path.exists(os.path.join(d, 'notes.md')) else ''
        m = re.search(r'[Nn]eeds? to manifest:?\*{0,2}:?\s*(.+?)(?:\n\n|\Z)', notes, re.S)
        if not m:
            m = re.search(r'(?:[Ii]t needs exactly|\*\*Needs\*\*|Needs|needs exactly|Manifests?|Trigger)\s*:?\s*(.+?)(?:\n\n|\Z)', notes, re.S)
        if not m:
            body = re.sub(r'^#.*\n', '', notes).strip()
            m = re.match(r'(.+?)(?:\n\n\*\*Demo|\n\nDemo|\n\n\*\*Commands|\Z)', body, re.S)
        needs = re.sub(r'\s+', ' ', m.group(1)).strip()[:1200] if m else ''
        files = re.findall(r'^\+\+\+ b/(\S+)', open(os.path.join(d, 'patch.diff')).read(), re.M)
        demo = [f for f in os.listdir(out) if f.endswith('_test.go')]
        meta = {
            'id': sid, 'property': prop, 'round': int(rnd),
            'origin': 'fresh sub-agent given only the property record and its own scratch worktree (nothing from /verif)',
            'files_touched': files,
            'needs_to_manifest': needs or 'see notes.md',
            'demonstration': (demo[0] + ' (copy into the package directory named by its package clause as zz_seed_demo_test.go; go test -vet=off -count=1 -run Seed)') if demo else 'see notes.md',
            'confirmed_by_me': {
                'how': 'tools/seedverify.sh in a scratch worktree under /tmp/sv (removed afterwards): demo on unchanged tree, demo on patched tree, whole existing suite on patched tree',
                'unchanged_tree_demo': 'pass', 'patched_tree_demo': 'fail', 'patched_tree_existing_suite': 'pass'},
        }
        json.dump(meta, open(os.path.join(out, 'meta.json'), 'w'), indent=1, ensure_ascii=False)
        print('imported', sid)
