#!/bin/bash
# usage: neutralall.sh [resdir]  -- every stored behaviour-preserving refactoring (neutral/<id>/) against all 20 quick checks
RES=${1:-/tmp/neutral_all}; mkdir -p $RES
cd /verif && (cd checker && GOFLAGS=-mod=vendor GOPROXY=off GOSUMDB=off GOTOOLCHAIN=local GOWORK=off go build -o bin/pgv ./cmd/pgv) || exit 2
ls /verif/neutral | xargs -P ${JOBS:-6} -I{} sh -c 'prop=$(python3 -c "import json;print(json.load(open(\"/verif/neutral/{}/meta.json\"))[\"property\"])"); /verif/tools/neutralrun.sh /verif/neutral/{} $prop > '$RES'/{}.txt 2>&1'
for x in $(ls /verif/neutral); do echo "$x $(head -1 $RES/$x.txt)"; done
