#!/bin/bash
# usage: neutralrun.sh <dir with patch.diff> <PROP>   -- behaviour-preserving candidate: suite + the property's seeded
# demos must pass on the patched tree (evidence that behaviour is preserved), then every quick check must stay silent
set -u
d=$(readlink -f "$1"); prop=$2
D=/verif
export GOPROXY=off GOSUMDB=off GOTOOLCHAIN=local GOWORK=off
S=$(mktemp -d /tmp/neu.XXXXXX); mkdir -p $S/v/evidence $S/v/reports $S/v/selftest
cp $D/known_findings.json $S/v/; cp $D/selftest/catalogue.json $S/v/selftest/
git -C /repo worktree add --detach $S/r HEAD >/dev/null 2>&1 || exit 2
trap 'git -C /repo worktree remove --force $S/r 2>/dev/null; rm -rf $S' EXIT
git -C $S/r apply "$d/patch.diff" 2>$S/apply.err || { echo "APPLYFAIL $(head -1 $S/apply.err)"; exit 0; }
(cd $S/r && GOFLAGS=-mod=mod go build ./... >/dev/null 2>&1) || { echo "BUILDFAIL"; exit 0; }
(cd $S/r && GOFLAGS=-mod=mod go test -vet=off -count=1 ./... > $S/suite.log 2>&1) && suite=pass || suite=FAIL
demofail=""
for sd in $D/seeded/$prop-*; do
  demo=$(ls $sd/*_test.go 2>/dev/null | head -1); [ -n "$demo" ] || continue
  pkg=$(grep -m1 '^package ' $demo | awk '{print $2}')
  case $pkg in valid|valid_test) sub=valid;; file|file_test) sub=file;; main|main_test) sub=.;; internal|internal_test) sub=valid/internal;; *) sub=valid;; esac
  cp $demo $S/r/$sub/zz_seed_demo_test.go
  (cd $S/r && GOFLAGS=-mod=mod timeout 300 go test -vet=off -count=1 -run "Seed|seed|SEED|Demo|ZZ" ./$sub/ > $S/demo.log 2>&1) || demofail="$demofail $(basename $sd)"
  rm -f $S/r/$sub/zz_seed_demo_test.go
done
GOFLAGS=-mod=vendor ${PGV:-$D/checker/bin/pgv} -repo $S/r -verif $S/v -prop all -tier quick > $S/out.txt 2>&1
fired=$(grep -o "^VIOLATION property=C[0-9]*" $S/out.txt | sed 's/VIOLATION property=//' | tr '\n' ',')
echo "suite=$suite demofail=[$demofail] fired=[$fired]"
grep -E "^\s+(violated|undecided)" $S/out.txt | cut -c1-420 | head -${NEULINES:-8}
