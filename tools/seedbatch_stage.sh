#!/bin/bash
# usage: seedbatch_stage.sh <staging root: root/<ID>/<k>/patch.diff> <resdir> [ID ...]
# exploration on scratch worktrees only (never touches /repo's working tree): confirms every staged change
# (tools/seedverify.sh) and runs all quick checks against it (tools/seedrun_wt.sh); JOBS in parallel.
root=$1; RES=$2; shift 2; mkdir -p $RES
cd /verif && (cd checker && GOFLAGS=-mod=vendor GOPROXY=off GOSUMDB=off GOTOOLCHAIN=local GOWORK=off go build -o bin/pgv ./cmd/pgv) || exit 2
ids=${@:-$(ls $root)}
list=$(for id in $ids; do for k in $(ls $root/$id); do [ -f $root/$id/$k/patch.diff ] && echo "$id/$k"; done; done)
echo "$list" | xargs -P ${JOBS:-6} -I{} sh -c 'n=$(echo {} | tr / _); [ -n "$NOVERIFY" ] && [ -f '$RES'/$n.txt.verify ] || /verif/tools/seedverify.sh '$root'/{} 2>&1 | tail -1 > '$RES'/$n.txt.verify; SEEDLINES=40 /verif/tools/seedrun_wt.sh '$root'/{}/patch.diff all quick > '$RES'/$n.txt 2>&1'
for x in $list; do n=$(echo $x | tr / _); own=$(echo $x | cut -d/ -f1)
  fired=$(grep -o "^VIOLATION property=C[0-9]*" $RES/$n.txt | sed 's/VIOLATION property=//' | tr '\n' ',')
  case ",$fired" in *",$own,"*) o=OWN;; *) if [ -n "$fired" ]; then o=other; else o=MISSED; fi;; esac
  echo "$x $(cat $RES/$n.txt.verify) $o [$fired]"; done
