#!/bin/bash
# usage: seedrun_wt.sh <patch.diff> [props|all] [tier]   -- like seedrun.sh but on a scratch worktree of /repo
# (exploration only; the recorded results come from tools/seedrun.sh, which applies the patch to /repo itself)
set -u
patch=$(readlink -f "$1"); props=${2:-all}; tier=${3:-quick}
D="$(cd "$(dirname "$0")/.." && pwd)"
export GOFLAGS=-mod=vendor GOPROXY=off GOSUMDB=off GOTOOLCHAIN=local GOWORK=off
S=$(mktemp -d /tmp/seedwt.XXXXXX); mkdir -p $S/v/evidence $S/v/reports $S/v/selftest
cp "$D/known_findings.json" $S/v/; cp "$D/selftest/catalogue.json" $S/v/selftest/ 2>/dev/null
git -C /repo worktree add --detach $S/r HEAD >/dev/null 2>&1 || exit 2
trap 'git -C /repo worktree remove --force $S/r 2>/dev/null; rm -rf $S' EXIT
git -C $S/r apply "$patch" || { echo "patch does not apply"; exit 2; }
"${PGV:-$D/checker/bin/pgv}" -repo $S/r -verif $S/v -prop "$props" -tier "$tier" > $S/out.txt 2>&1
echo "exit=$?"
grep -E "^VIOLATION" $S/out.txt | cut -c1-60
grep -E "^\s+(violated|undecided|unresolved|vacuous)" $S/out.txt | cut -c1-${SEEDCOLS:-300} | head -${SEEDLINES:-12}
