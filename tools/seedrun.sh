#!/bin/bash
# usage: seedrun.sh <patch.diff> [props|all] [tier]
# Applies a seeded change to /repo, runs the registered checks against /repo's working tree
# (evidence/reports go to a scratch verif dir so /verif/evidence is not overwritten by a
# mutated tree), and always reverts /repo straight afterwards.
set -u
patch=$(readlink -f "$1"); props=${2:-all}; tier=${3:-quick}
D="$(cd "$(dirname "$0")/.." && pwd)"
export GOFLAGS=-mod=vendor GOPROXY=off GOSUMDB=off GOTOOLCHAIN=local GOWORK=off
(cd "$D/checker" && go build -o bin/pgv ./cmd/pgv) || exit 2
S=$(mktemp -d /tmp/seedrun.XXXXXX); mkdir -p $S/evidence $S/reports $S/selftest
cp "$D/known_findings.json" $S/; cp "$D/selftest/catalogue.json" $S/selftest/ 2>/dev/null
if [ -n "$(git -C /repo status --porcelain)" ]; then echo "/repo not clean"; exit 2; fi
git -C /repo apply "$patch" || { echo "patch does not apply"; exit 2; }
trap 'git -C /repo checkout -- . ; git -C /repo clean -fdq; rm -rf $S' EXIT
(cd /repo && GOFLAGS=-mod=mod go build ./... 2>&1 | head -3)
"$D/checker/bin/pgv" -verif $S -prop "$props" -tier "$tier" > $S/out.txt 2>&1
echo "exit=$?"
grep -E "^VIOLATION|^KNOWN" $S/out.txt | cut -c1-200
grep -E "^\s+(violated|undecided|unresolved|vacuous)" $S/out.txt | cut -c1-${SEEDCOLS:-400} | head -${SEEDLINES:-12}
