#!/usr/bin/env python3
"""usage: finding.py <property> <status known|fixed> <key> <commit or -> <what>"""
import json, sys, os
p = os.path.join(os.path.dirname(os.path.dirname(os.path.abspath(__file__))), "known_findings.json")
d = json.load(open(p))
prop, status, key, commit, what = sys.argv[1:6]
e = {"property": prop, "key": key, "status": status, "what": what}
if commit != "-": e["commit"] = commit
if status == "fixed":
    e["record"] = "fixed: property=%s %s %s" % (prop, commit, what)
d["findings"] = [f for f in d["findings"] if not (f["property"] == prop and f["key"] == key)] + [e]
json.dump(d, open(p, "w"), indent=1, ensure_ascii=False); open(p, "a").write("\n")
