#!/bin/bash
# parallel exploration run of every seed in /verif/seeded on scratch worktrees; summary only
cd /verif && (cd checker && GOFLAGS=-mod=vendor GOPROXY=off GOSUMDB=off GOTOOLCHAIN=local GOWORK=off go build -o bin/pgv ./cmd/pgv) || exit 2
mkdir -p /tmp/seed_wt_results
ls /verif/seeded | grep -v MATRIX | xargs -P ${JOBS:-5} -I{} sh -c 'SEEDLINES=40 /verif/tools/seedrun_wt.sh /verif/seeded/{}/patch.diff all quick > /tmp/seed_wt_results/{}.txt 2>&1'
for s in $(ls /verif/seeded | grep -v MATRIX); do
  own=$(echo $s | cut -d- -f1)
  fired=$(grep -o "^VIOLATION property=C[0-9]*" /tmp/seed_wt_results/$s.txt | sed 's/VIOLATION property=//' | tr '\n' ',')
  case ",$fired" in *",$own,"*) o=OWN;; *) if [ -n "$fired" ]; then o=other; else o=MISSED; fi;; esac
  echo "$s $o [$fired]"
done
