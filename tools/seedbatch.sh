#!/bin/bash
# usage: seedbatch.sh <root of seed dirs: root/<ID>/<k>/patch.diff>  [ID ...]
# verifies every seed and runs all quick checks against it; summary to stdout, details in /tmp/seed_results
root=$1; shift
RESDIR=${RESDIR:-/tmp/seed_results}; mkdir -p $RESDIR
ids=${@:-$(ls $root)}
for id in $ids; do for k in $(ls $root/$id); do
  d=$root/$id/$k; [ -f $d/patch.diff ] || continue
  out=$RESDIR/${id}_$k.txt
  if [ -z "${FORCE:-}" ] && [ -f $out.verify ]; then v=$(cat $out.verify); else v=$(/verif/tools/seedverify.sh $d 2>&1 | tail -1); echo "$v" > $out.verify; fi
  /verif/tools/seedrun.sh $d/patch.diff all quick > $out 2>&1
  fired=$(grep -o "^VIOLATION property=C[0-9]*" $out | sed 's/VIOLATION property=//' | tr '\n' ',')
  echo "$id/$k  $v  fired=[$fired]"
done; done
