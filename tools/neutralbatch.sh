#!/bin/bash
# usage: neutralbatch.sh <root> <resdir>
root=$1; RES=$2; mkdir -p $RES
cd /verif && (cd checker && GOFLAGS=-mod=vendor GOPROXY=off GOSUMDB=off GOTOOLCHAIN=local GOWORK=off go build -o bin/pgv ./cmd/pgv) || exit 2
list=$(for id in $(ls $root); do for k in $(ls $root/$id); do [ -f $root/$id/$k/patch.diff ] && [ -f $root/$id/$k/notes.md ] && echo "$id/$k"; done; done)
echo "$list" | xargs -P ${JOBS:-6} -I{} sh -c 'n=$(echo {} | tr / _); id=$(echo {} | cut -d/ -f1); /verif/tools/neutralrun.sh '$root'/{} $id > '$RES'/$n.txt 2>&1'
for x in $list; do n=$(echo $x | tr / _); echo "$x $(head -1 $RES/$n.txt)"; done
