#!/bin/bash
# usage: seedbatch_par.sh <staging root> <resdir>  -- verify + explore (scratch worktrees, parallel) every staged seed
root=$1; RES=$2; mkdir -p $RES
cd /verif && (cd checker && GOFLAGS=-mod=vendor GOPROXY=off GOSUMDB=off GOTOOLCHAIN=local GOWORK=off go build -o bin/pgv ./cmd/pgv) || exit 2
list=$(for id in $(ls $root); do for k in $(ls $root/$id); do [ -f $root/$id/$k/patch.diff ] && [ -f $root/$id/$k/notes.md ] && echo "$id/$k"; done; done)
echo "$list" | xargs -P ${JOBS:-6} -I{} sh -c 'n=$(echo {} | tr / _); [ -f '$RES'/$n.txt.verify ] || /verif/tools/seedverify.sh '$root'/{} 2>&1 | tail -1 > '$RES'/$n.txt.verify; SEEDLINES=40 /verif/tools/seedrun_wt.sh '$root'/{}/patch.diff all quick > '$RES'/$n.txt 2>&1'
for x in $list; do n=$(echo $x | tr / _); own=$(echo $x | cut -d/ -f1)
  fired=$(grep -o "^VIOLATION property=C[0-9]*" $RES/$n.txt | sed 's/VIOLATION property=//' | tr '\n' ',')
  case ",$fired" in *",$own,"*) o=OWN;; *) if [ -n "$fired" ]; then o=other; else o=MISSED; fi;; esac
  echo "$x $(cat $RES/$n.txt.verify | sed 's/clean_demo=//;s/patched_demo=//;s/patched_suite=//') $o [$fired]"
done
