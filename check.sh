#!/bin/sh
# usage: check.sh <property id> [quick|thorough]
# Rebuilds the checker if needed (offline, vendored deps) and decides the property from
# the CURRENT working tree of the repository (default /repo). Nothing from the repository
# is executed.
D="$(cd "$(dirname "$0")" && pwd)"
export GOFLAGS=-mod=vendor GOPROXY=off GOSUMDB=off GOTOOLCHAIN=local GOWORK=off
(cd "$D/checker" && go build -o bin/pgv ./cmd/pgv) || { echo "checker build failed"; exit 2; }
TIER="${2:-${VERIF_TIER:-quick}}"
exec "$D/checker/bin/pgv" -verif "$D" -prop "$1" -tier "$TIER"
