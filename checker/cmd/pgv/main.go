// pgv: static checks of the protoc-go-valid properties. Decides from /repo's current
// source on every run; executes nothing from /repo.
package main

import (
	"flag"
	"fmt"
	"os"
	"path/filepath"
	"strings"

	"verif/checker/engine"
)

func main() {
	prop := flag.String("prop", "", "property id (C01..C20) or 'all'")
	tier := flag.String("tier", "quick", "quick|thorough")
	repo := flag.String("repo", envOr("VERIF_REPO", "/repo"), "repository directory")
	verif := flag.String("verif", envOr("VERIF_DIR", "/verif"), "verif directory (evidence, reports, known_findings.json)")
	selftest := flag.Bool("selftest", false, "run the overlay kill-matrix for -prop (tests the checker, not the repository)")
	debug := flag.String("debug", "", "debug: traces:<rule>")
	flag.Parse()
	if strings.HasPrefix(*debug, "miss:") {
		engine.DebugMiss(*repo, strings.TrimPrefix(*debug, "miss:"))
		return
	}
	if *debug == "baseline" {
		p, err := engine.Load(engine.Config{Repo: *repo})
		if err != nil {
			fmt.Fprintln(os.Stderr, err)
			os.Exit(2)
		}
		os.Stdout.Write(engine.BaselineOf(p))
		return
	}
	if strings.HasPrefix(*debug, "ssa:") {
		p, err := engine.Load(engine.Config{Repo: *repo})
		if err != nil {
			fmt.Fprintln(os.Stderr, err)
			os.Exit(2)
		}
		for _, n := range p.Normalised {
			fmt.Println("# normalised:", n)
		}
		for _, fn := range p.Funcs {
			if strings.Contains(p.FuncName(fn), strings.TrimPrefix(*debug, "ssa:")) {
				fn.WriteTo(os.Stdout)
			}
		}
		return
	}
	if *debug == "tables" {
		p, err := engine.Load(engine.Config{Repo: *repo})
		if err != nil {
			fmt.Fprintln(os.Stderr, err)
			os.Exit(2)
		}
		engine.DebugTables(p)
		return
	}
	if *debug == "items" {
		engine.DebugItems(*repo)
		return
	}
	if *debug == "ctx" {
		engine.DebugCtx(*repo)
		return
	}
	if strings.HasPrefix(*debug, "walkpc:") {
		engine.DebugWalkPC(*repo, strings.TrimPrefix(*debug, "walkpc:"), 40)
		return
	}
	if strings.HasPrefix(*debug, "walk:") {
		engine.DebugWalk(*repo, strings.TrimPrefix(*debug, "walk:"))
		return
	}
	if strings.HasPrefix(*debug, "traces:") {
		parts := strings.Split(strings.TrimPrefix(*debug, "traces:"), ":")
		if len(parts) == 2 {
			engine.DebugTracesKind(*repo, parts[0], parts[1])
		} else {
			engine.DebugTraces(*repo, parts[0])
		}
		return
	}
	if t := os.Getenv("VERIF_TIER"); t != "" && !isFlagSet("tier") {
		*tier = t
	}
	if *tier != "quick" && *tier != "thorough" {
		fmt.Fprintln(os.Stderr, "bad tier")
		os.Exit(2)
	}
	abs, err := filepath.Abs(*repo)
	if err == nil {
		*repo = abs
	}
	ff, err := engine.LoadFindings(filepath.Join(*verif, "known_findings.json"))
	if err != nil {
		fmt.Fprintln(os.Stderr, "known_findings.json:", err)
		os.Exit(2)
	}
	var ids []string
	if *prop == "all" {
		ids = engine.PropIDs()
	} else {
		ids = strings.Split(*prop, ",")
	}
	if *selftest {
		os.Exit(engine.SelfTest(ids, *repo, *verif))
	}
	cache := map[string]*engine.Prog{}
	code := 0
	for _, id := range ids {
		pd := engine.Lookup(id)
		if pd == nil {
			fmt.Fprintf(os.Stderr, "unknown or unclaimed property %q\n", id)
			os.Exit(2)
		}
		o := engine.RunProperty(pd, *repo, *tier, cache)
		if *tier == "thorough" {
			// kill-matrix of this property's rules (tests the checker; reported in evidence only)
			if rs, err := engine.RunKillMatrix([]string{id}, *repo, *verif, ff); err == nil {
				o.Extra["kill_matrix"] = engine.Summarise(rs)
			} else {
				o.Extra["kill_matrix"] = map[string]interface{}{"error": err.Error()}
			}
		}
		if o.Emit(*verif, ff) != 0 {
			code = 1
		}
	}
	os.Exit(code)
}

func envOr(k, d string) string {
	if v := os.Getenv(k); v != "" {
		return v
	}
	return d
}

func isFlagSet(name string) bool {
	set := false
	flag.Visit(func(f *flag.Flag) {
		if f.Name == name {
			set = true
		}
	})
	return set
}
