package engine

import (
	"fmt"
	"go/constant"
	"go/token"
	"go/types"
	"reflect"
	"sort"
	"strings"

	"golang.org/x/tools/go/ssa"
)

// Registry: rule name -> function, read from the composite literal that initialises the
// global rule table (role: the map[string]CommonValidFn written in package init).
type RegEntry struct {
	Name string
	Fn   *ssa.Function // nil: built-in handled by the walkers
	Pos  token.Pos
}

func registryTable(p *Prog) ([]RegEntry, *ssa.Global, error) {
	sp := p.Pkg("valid")
	if sp == nil {
		return nil, nil, fmt.Errorf("package valid not loaded")
	}
	initFn := sp.Func("init")
	if initFn == nil {
		return nil, nil, fmt.Errorf("valid.init not found")
	}
	// find the global of type map[string]CommonValidFn (Name2FnMap)
	var table *ssa.Global
	var readOnly []*ssa.Global
	for _, m := range sp.Members {
		g, ok := m.(*ssa.Global)
		if !ok {
			continue
		}
		mt, ok := g.Type().(*types.Pointer).Elem().Underlying().(*types.Map)
		if !ok {
			continue
		}
		if isNamed(mt.Elem(), ModPath+"/valid", "CommonValidFn") {
			// the registry is the table the registration API writes; further read-only tables of the same
			// type (aliases, fallbacks consulted after it) are not it
			if readOnlyGlobalMap(p, g) {
				readOnly = append(readOnly, g)
				continue
			}
			if table != nil {
				return nil, nil, fmt.Errorf("two rule tables: %s and %s", table.Name(), g.Name())
			}
			table = g
		}
	}
	if table == nil && len(readOnly) == 1 {
		table = readOnly[0] // no registration API at all: the only table is the registry
	}
	if table == nil {
		return nil, nil, fmt.Errorf("no package-level map[string]CommonValidFn in valid")
	}
	var out []RegEntry
	for _, b := range initFn.Blocks {
		for _, ins := range b.Instrs {
			st, ok := ins.(*ssa.Store)
			if !ok || st.Addr != table {
				continue
			}
			mk := unwrapChange(st.Val)
			for _, r := range refs(mk) {
				mu, ok := r.(*ssa.MapUpdate)
				if !ok || mu.Map != mk {
					continue
				}
				k, ok := constString(mu.Key)
				if !ok {
					return nil, nil, fmt.Errorf("non-constant rule name in table at %s", p.Pos(mu.Pos()))
				}
				e := RegEntry{Name: k, Pos: mu.Pos()}
				switch v := unwrapChange(mu.Value).(type) {
				case *ssa.Function:
					e.Fn = v
				case *ssa.Const:
				case *ssa.MakeClosure:
					e.Fn = v.Fn.(*ssa.Function)
				default:
					return nil, nil, fmt.Errorf("rule %q: unrecognised function value %T", k, v)
				}
				out = append(out, e)
			}
		}
	}
	sort.Slice(out, func(i, j int) bool { return out[i].Name < out[j].Name })
	return out, table, nil
}

// reflect kinds by number
var kindNames = func() []string {
	var s []string
	for k := reflect.Invalid; k <= reflect.UnsafePointer; k++ {
		s = append(s, k.String())
	}
	return s
}()

func kindOfName(n string) int {
	for i, s := range kindNames {
		if s == n {
			return i
		}
	}
	return -1
}

// ---------------------------------------------------------------------------------------
// Common models for interpreting rule functions.

func isReflectValue(t types.Type) bool { return isNamed(t, "reflect", "Value") }

// reflect.Value method preconditions by kind class.
var reflectNeeds = map[string][]reflect.Kind{
	"Int":      {reflect.Int, reflect.Int8, reflect.Int16, reflect.Int32, reflect.Int64},
	"Uint":     {reflect.Uint, reflect.Uint8, reflect.Uint16, reflect.Uint32, reflect.Uint64, reflect.Uintptr},
	"Float":    {reflect.Float32, reflect.Float64},
	"Bool":     {reflect.Bool},
	"Len":      {reflect.Array, reflect.Chan, reflect.Map, reflect.Slice, reflect.String},
	"Index":    {reflect.Array, reflect.Slice, reflect.String},
	"Elem":     {reflect.Ptr, reflect.Interface},
	"Field":    {reflect.Struct},
	"NumField": {reflect.Struct},
	"MapRange": {reflect.Map},
	"MapKeys":  {reflect.Map},
	"MapIndex": {reflect.Map},
	"IsNil":    {reflect.Chan, reflect.Func, reflect.Interface, reflect.Map, reflect.Ptr, reflect.Slice, reflect.UnsafePointer},
	"Bytes":    {reflect.Slice, reflect.Array},
	"Complex":  {reflect.Complex64, reflect.Complex128},
}

// valid kinds a value handed to a rule function can have (anything valid).
func anyValidKind() []int {
	var ks []int
	for k := 1; k < len(kindNames); k++ {
		ks = append(ks, k)
	}
	return ks
}

// RuleEnv configures the interpretation of a rule function.
type RuleEnv struct {
	In *Interp
	// Kinds admissible for the symbolic reflect.Value "tv" (by number).
	Kinds []int
}

func kindAtom(key string) string { return "kind(" + key + ")" }

// alwaysValid: reflect.Values obtained from a valid container are valid.
func alwaysValid(key string) bool {
	if key == "tv" {
		return true
	}
	for _, suf := range []string{".Index(", ".Field(", ".Key()", ".Value()"} {
		if i := strings.LastIndex(key, suf); i >= 0 && !strings.Contains(key[i:], ".Elem()") {
			return true
		}
	}
	return false
}

// chooseKind decides the kind of a symbolic reflect.Value among the admissible kinds.
// 0 (Invalid) is only chosen through the separate validity atom.
func (re *RuleEnv) chooseKind(in *Interp, v AVal) int {
	key := keyOf(v)
	ks := re.Kinds
	if key != "tv" {
		ks = anyValidKind()
		if !alwaysValid(key) && in.Choose("valid("+key+")", 2) == 0 {
			return 0
		}
	}
	i := in.Choose(kindAtom(key), len(ks))
	return ks[i]
}

// isValid decides only the validity of a symbolic reflect.Value.
func (re *RuleEnv) isValid(in *Interp, v AVal) bool {
	key := keyOf(v)
	if alwaysValid(key) {
		return true
	}
	return in.Choose("valid("+key+")", 2) == 1
}

func kindFromTrace(t Trace, kinds []int, key string) (int, bool) {
	i, ok := t.PC[kindAtom(key)]
	if !ok {
		return 0, false
	}
	return kinds[i], true
}

// installCommonModels: clause constructors, builder writes, errors, reflect accessors.
func (re *RuleEnv) installCommonModels() {
	re.In.Unmodelled = reflectUnmodelled
	in := re.In
	in.LocalBuilders = true
	for _, n := range []string{"valid.ParseValidNameKV", "valid.ToStr", "valid.ValidNamesSplit", "valid.newStrBuf", "valid.putStrBuf", "valid.StrEscape"} {
		in.NoInline[n] = true
	}
	in.Models["(*strings.Builder).WriteString"] = func(in *Interp, site ssa.Instruction, cc *ssa.CallCommon, a []AVal) (AVal, bool) {
		in.Emit("write", site, a[0], a[1])
		return Tup{E: []AVal{Sym{K: "n", T: types.Typ[types.Int]}, Cst{}}}, true
	}
	in.Models["(*strings.Builder).WriteByte"] = func(in *Interp, site ssa.Instruction, cc *ssa.CallCommon, a []AVal) (AVal, bool) {
		in.Emit("write", site, a[0], a[1])
		return Cst{}, true
	}
	in.Models["(*strings.Builder).Write"] = in.Models["(*strings.Builder).WriteString"]
	in.Models["valid.GetJoinValidErrStr"] = func(in *Interp, site ssa.Instruction, cc *ssa.CallCommon, a []AVal) (AVal, bool) {
		args := []AVal{a[0], a[1], a[2]}
		if len(a) > 3 {
			switch o := a[3].(type) {
			case Slc:
				for i := o.Lo; i < o.Hi; i++ {
					args = append(args, in.load(Ptr{C: o.Arr.Elems[i]}, nil, site))
				}
			case Cst: // nil slice
			default:
				args = append(args, Sym{K: "others:" + keyOf(o)})
			}
		}
		return Tok{Dom: "clause", Name: "valid", Args: args}, true
	}
	in.Models["valid.GetJoinFieldErr"] = func(in *Interp, site ssa.Instruction, cc *ssa.CallCommon, a []AVal) (AVal, bool) {
		return Tok{Dom: "clause", Name: "field", Args: a}, true
	}
	in.Models["errors.New"] = func(in *Interp, site ssa.Instruction, cc *ssa.CallCommon, a []AVal) (AVal, bool) {
		return Tok{Dom: "err", Name: "new", Args: a}, true // never nil
	}
	in.Models["fmt.Errorf"] = func(in *Interp, site ssa.Instruction, cc *ssa.CallCommon, a []AVal) (AVal, bool) {
		if t, ok := a[0].(Tok); ok && t.Dom == "clause" {
			return Ifc{V: Tok{Dom: "err", Name: "errorf", Args: []AVal{t}}, Dyn: types.Universe.Lookup("error").Type()}, true
		}
		return nil, false
	}
	in.Models["invoke:*.Error"] = func(in *Interp, site ssa.Instruction, cc *ssa.CallCommon, a []AVal) (AVal, bool) {
		v := a[0]
		if i, ok := v.(Ifc); ok {
			v = i.V
		}
		if t, ok := v.(Tok); ok && t.Dom == "err" && len(t.Args) == 1 {
			return t.Args[0], true
		}
		return Sym{K: keyOf(v) + ".Error()", T: types.Typ[types.String]}, true
	}
	// reflect.Value accessors on symbolic values
	for _, m := range []string{"Kind", "String", "Int", "Uint", "Float", "Bool", "Len", "Index", "Elem", "Interface", "IsZero", "IsNil", "IsValid", "Type", "Field", "NumField", "MapRange", "CanInterface"} {
		m := m
		in.Models["(reflect.Value)."+m] = func(in *Interp, site ssa.Instruction, cc *ssa.CallCommon, a []AVal) (AVal, bool) {
			recv := a[0]
			rk := keyOf(recv)
			resT := cc.Signature().Results().At(0).Type()
			if m == "Kind" {
				k := re.chooseKind(in, recv)
				return Cst{V: constant.MakeInt64(int64(k)), T: resT}, true
			}
			if need, ok := reflectNeeds[m]; ok {
				k := re.chooseKind(in, recv)
				okk := false
				for _, n := range need {
					if int(n) == k {
						okk = true
					}
				}
				if !okk {
					in.Panics(site, "reflect.Value.%s on a value of kind %s", m, kindNames[k])
				}
			} else if m == "IsValid" {
				return cstBool(re.isValid(in, recv)), true
			} else if m != "String" {
				if !re.isValid(in, recv) {
					in.Panics(site, "reflect.Value.%s on the zero (Invalid) Value", m)
				}
			}
			if m == "IsNil" && rk == "tv" {
				// the value a rule function receives is non-zero (zero-skip of every walker, rule C03-SKIP): a
				// nil slice, map, pointer, func, chan or interface is the zero value of its type
				return cstBool(false), true
			}
			ks := []string{}
			for _, x := range a[1:] {
				ks = append(ks, keyOf(x))
			}
			return Sym{K: rk + "." + m + "(" + strings.Join(ks, ", ") + ")", T: resT}, true
		}
	}
}

// ruleArgs: the symbolic arguments of a CommonValidFn.
func ruleArgs(fn *ssa.Function) []AVal {
	names := []string{"errBuf", "validName", "objName", "fieldName", "tv"}
	var out []AVal
	for i, p := range fn.Params {
		n := p.Name()
		if i < len(names) {
			n = names[i]
		}
		out = append(out, Sym{K: n, T: p.Type()})
	}
	return out
}

// clause classification ----------------------------------------------------------------

type ClauseInfo struct {
	Class  string // "V" default verdict, "M" custom message, "E" config/type error, "?" unrecognised
	Obj    AVal
	Field  AVal
	Input  AVal
	Others []AVal
	Site   ssa.Instruction
	Buf    AVal
	Raw    AVal
}

const cusMsgMarker = "valid.ParseValidNameKV("

func isCusMsgSym(v AVal) bool {
	s, ok := v.(Sym)
	return ok && strings.HasPrefix(s.K, cusMsgMarker) && strings.HasSuffix(s.K, "#2")
}

// classify turns a "write" event into clause information.
func classifyWrite(e Event) ClauseInfo {
	ci := ClauseInfo{Class: "?", Site: e.Site, Buf: e.Args[0], Raw: e.Args[1]}
	t, ok := e.Args[1].(Tok)
	if !ok || t.Dom != "clause" {
		return ci
	}
	switch t.Name {
	case "field":
		ci.Class = "E"
		ci.Obj, ci.Field = t.Args[0], t.Args[1]
		if len(t.Args) > 2 {
			ci.Others = t.Args[2:]
		}
	case "valid":
		ci.Obj, ci.Field, ci.Input = t.Args[0], t.Args[1], t.Args[2]
		ci.Others = t.Args[3:]
		switch {
		case len(ci.Others) == 1 && isCusMsgSym(ci.Others[0]):
			ci.Class = "M"
		case len(ci.Others) >= 2 && keyOf(ci.Others[0]) == `"explain:"`:
			ci.Class = "V"
			if s, ok := isCstStr(ci.Others[1]); ok && s == "it must is string" {
				ci.Class = "E" // type error of CheckFieldIsStr
			}
		case len(ci.Others) == 1 && strings.HasSuffix(keyOf(ci.Others[0]), ".Error()"):
			ci.Class = "E" // environment error (os.Stat) reported as a clause
		}
	}
	return ci
}

func writesOf(t Trace, bufKey string) []ClauseInfo {
	var out []ClauseInfo
	for _, e := range t.Events {
		if e.Kind == "write" && keyOf(e.Args[0]) == bufKey {
			out = append(out, classifyWrite(e))
		}
	}
	return out
}
