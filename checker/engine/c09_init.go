package engine

import (
	"fmt"
	"go/token"
	"go/types"
	"sort"
	"strings"

	"golang.org/x/tools/go/ssa"
)

// C09-INIT: Len, Load, Delete and Dump are part of every history — also of the histories that start
// with them. The list (a pointer) and the node map exist whenever a method dereferences them: either
// every constructor path installs them, or every dereferencing use is dominated by their installation
// (a lazy initialiser, also under sync.Once) or by a nil test. A nil *list.List panics in every
// method, a nil map panics on insertion.
func runC09Init(c *Ctx, named *types.Named) {
	p := c.P
	c.Rule("C09-INIT", "the list and the node map are installed (non-nil) by the constructor on every path, or every dereferencing use in a method is dominated by their installation or by a nil test", 1)
	tn := named.Obj().Name()
	st := named.Underlying().(*types.Struct)
	need := map[int]bool{}
	for i := 0; i < st.NumFields(); i++ {
		switch t := st.Field(i).Type().Underlying().(type) {
		case *types.Pointer:
			if _, isStruct := t.Elem().Underlying().(*types.Struct); isStruct {
				need[i] = true
			}
		case *types.Map:
			need[i] = true
		}
	}
	if len(need) == 0 {
		c.OK("C09-INIT", tn, "fields", token.NoPos, "no pointer or map field")
		return
	}
	fieldOfLoad := func(v ssa.Value) (int, bool) {
		u, ok := v.(*ssa.UnOp)
		if !ok || u.Op != token.MUL {
			return 0, false
		}
		fa, ok := u.X.(*ssa.FieldAddr)
		if !ok || namedOf(fa.X.Type()) != named {
			return 0, false
		}
		return fa.Field, true
	}
	// must-initialised dataflow; summaries of repository callees (methods of the cache, closures)
	type set map[int]bool
	// coInstalled(f): the fields that every function installing f installs in the same go (same block
	// sequence is not required: they are stores of one function) — finding f installed proves them installed
	var coMemo map[int]set
	coInstalled := func(f int) set {
		if coMemo == nil {
			coMemo = map[int]set{}
			per := map[*ssa.Function]set{}
			for _, fn := range p.Funcs {
				if fn.Blocks == nil || fn.Pkg == nil || !strings.HasPrefix(fn.Pkg.Pkg.Path(), ModPath) {
					continue
				}
				for _, b := range fn.Blocks {
					for _, ins := range b.Instrs {
						if stt, ok := ins.(*ssa.Store); ok {
							if fa, ok := stt.Addr.(*ssa.FieldAddr); ok && namedOf(fa.X.Type()) == named && !isNilConst(stt.Val) && need[fa.Field] {
								if per[fn] == nil {
									per[fn] = set{}
								}
								per[fn][fa.Field] = true
							}
						}
					}
				}
			}
			// a function that also READS the field it stores replaces an installed value (the periodic
			// map rebuild); only functions that store without reading are installers
			// (a read that only feeds a nil comparison is the lazy initialiser's own test; a read that happens
			// AFTER the store — Store's lookup behind its inlined initialiser — uses the installed value)
			reads := map[*ssa.Function]set{}
			for fn := range per {
				reads[fn] = set{}
				var stores []ssa.Instruction
				for _, b := range fn.Blocks {
					for _, ins := range b.Instrs {
						if stt, ok := ins.(*ssa.Store); ok {
							if fa, ok := stt.Addr.(*ssa.FieldAddr); ok && namedOf(fa.X.Type()) == named && !isNilConst(stt.Val) {
								stores = append(stores, ins)
							}
						}
					}
				}
				for _, b := range fn.Blocks {
					for idx, ins := range b.Instrs {
						u, ok := ins.(*ssa.UnOp)
						if !ok {
							continue
						}
						f, ok := fieldOfLoad(u)
						if !ok {
							continue
						}
						onlyNilTests := true
						for _, r := range refs(u) {
							if bo, ok := r.(*ssa.BinOp); ok && (bo.Op == token.EQL || bo.Op == token.NEQ) && (isNilConst(bo.X) || isNilConst(bo.Y)) {
								continue
							}
							onlyNilTests = false
						}
						if onlyNilTests {
							continue
						}
						// does a store of the same field come after this read?
						after := map[ssa.Instruction]bool{}
						for _, later := range instrsReachableAfter(b, idx) {
							after[later] = true
						}
						for _, st := range stores {
							if fa := st.(*ssa.Store).Addr.(*ssa.FieldAddr); fa.Field == f && after[st] {
								reads[fn][f] = true
							}
						}
					}
				}
			}
			for g := range need {
				var inter set
				for fn, fs := range per {
					if !fs[g] || reads[fn][g] {
						continue
					}
					if inter == nil {
						inter = set{}
						for k := range fs {
							inter[k] = true
						}
					} else {
						for k := range inter {
							if !fs[k] {
								delete(inter, k)
							}
						}
					}
				}
				coMemo[g] = inter
			}
		}
		return coMemo[f]
	}
	var summary func(fn *ssa.Function, depth int) set
	memo := map[*ssa.Function]set{}
	flow := func(fn *ssa.Function, depth int, entry set, visit func(ins ssa.Instruction, have set)) set {
		if fn == nil || len(fn.Blocks) == 0 {
			return set{}
		}
		in := map[*ssa.BasicBlock]set{fn.Blocks[0]: entry}
		edgeAdd := func(b *ssa.BasicBlock, succIdx int) (int, bool) {
			iff, ok := b.Instrs[len(b.Instrs)-1].(*ssa.If)
			if !ok {
				return 0, false
			}
			// `e, ok := l.m[k]; if ok`: a hit proves the map was installed
			cond := iff.Cond
			// a named result spilled to memory (the function defers): `node, ok := m[k]` stores ok into its
			// cell and the test loads it back
			if ld, ok := cond.(*ssa.UnOp); ok && ld.Op == token.MUL {
				if cell, ok := ld.X.(*ssa.Alloc); ok {
					var last ssa.Value
					for _, ins := range b.Instrs {
						if ins == ssa.Instruction(ld) {
							break
						}
						if stt, ok := ins.(*ssa.Store); ok && stt.Addr == ssa.Value(cell) {
							last = stt.Val
						}
					}
					if last != nil {
						cond = last
					}
				}
			}
			if ex, ok := cond.(*ssa.Extract); ok && ex.Index == 1 && succIdx == 0 {
				if lk, ok := ex.Tuple.(*ssa.Lookup); ok && lk.CommaOk {
					if f, ok := fieldOfLoad(lk.X); ok {
						return f, true
					}
				}
			}
			bo, ok := iff.Cond.(*ssa.BinOp)
			if !ok || (bo.Op != token.NEQ && bo.Op != token.EQL) {
				return 0, false
			}
			for _, pr := range [][2]ssa.Value{{bo.X, bo.Y}, {bo.Y, bo.X}} {
				if f, ok := fieldOfLoad(pr[0]); ok && isNilConst(pr[1]) {
					if (bo.Op == token.NEQ && succIdx == 0) || (bo.Op == token.EQL && succIdx == 1) {
						return f, true
					}
				}
			}
			return 0, false
		}
		transfer := func(b *ssa.BasicBlock, have set, vis bool) set {
			cur := set{}
			for k := range have {
				cur[k] = true
			}
			for _, ins := range b.Instrs {
				if vis && visit != nil {
					visit(ins, cur)
				}
				switch x := ins.(type) {
				case *ssa.Store:
					if fa, ok := x.Addr.(*ssa.FieldAddr); ok && namedOf(fa.X.Type()) == named && !isNilConst(x.Val) {
						cur[fa.Field] = true
					}
				case ssa.CallInstruction:
					cc := x.Common()
					if _, isDefer := ins.(*ssa.Defer); isDefer {
						continue
					}
					if _, isGo := ins.(*ssa.Go); isGo {
						continue
					}
					var callee *ssa.Function
					if calleeName(cc) == "(*sync.Once).Do" && len(cc.Args) == 2 {
						switch f := cc.Args[1].(type) {
						case *ssa.MakeClosure:
							callee, _ = f.Fn.(*ssa.Function)
						case *ssa.Function:
							callee = f
						}
					} else if sc := staticCallee(cc); sc != nil && sc.Pkg != nil && strings.HasPrefix(sc.Pkg.Pkg.Path(), ModPath) {
						callee = sc
					}
					if callee != nil && depth < 3 {
						for k := range summary(callee, depth+1) {
							cur[k] = true
						}
					}
				}
			}
			return cur
		}
		reach := reachableBlocks(fn)
		work := []*ssa.BasicBlock{fn.Blocks[0]}
		for steps := 0; len(work) > 0 && steps < 5000; steps++ {
			b := work[0]
			work = work[1:]
			out := transfer(b, in[b], false)
			for i, s := range b.Succs {
				if !reach[s] {
					continue
				}
				o := set{}
				for k := range out {
					o[k] = true
				}
				if f, ok := edgeAdd(b, i); ok {
					o[f] = true
					for g := range coInstalled(f) {
						o[g] = true
					}
				}
				old, had := in[s]
				if !had {
					in[s] = o
					work = append(work, s)
					continue
				}
				changed := false
				for k := range old {
					if !o[k] {
						delete(old, k)
						changed = true
					}
				}
				if changed {
					work = append(work, s)
				}
			}
		}
		// result: intersection over return blocks; visiting pass
		var res set
		for _, b := range fn.Blocks {
			if !reach[b] {
				continue
			}
			have, ok := in[b]
			if !ok {
				continue
			}
			out := transfer(b, have, true)
			if _, isRet := b.Instrs[len(b.Instrs)-1].(*ssa.Return); isRet {
				if res == nil {
					res = set{}
					for k := range out {
						res[k] = true
					}
				} else {
					for k := range res {
						if !out[k] {
							delete(res, k)
						}
					}
				}
			}
		}
		if res == nil {
			res = set{}
		}
		return res
	}
	summary = func(fn *ssa.Function, depth int) set {
		if s, ok := memo[fn]; ok {
			return s
		}
		memo[fn] = set{} // recursion: assume nothing
		s := flow(fn, depth, set{}, nil)
		memo[fn] = s
		return s
	}
	// constructors: package-level functions returning *T
	ctorInit := set{}
	nCtor := 0
	for _, fn := range p.Funcs {
		if fn.Pkg == nil || !strings.HasPrefix(fn.Pkg.Pkg.Path(), ModPath) || fn.Signature.Recv() != nil || fn.Parent() != nil || fn.Signature.Results().Len() != 1 || fn.Blocks == nil {
			continue
		}
		pt, ok := fn.Signature.Results().At(0).Type().(*types.Pointer)
		if !ok || namedOf(pt.Elem()) != named {
			continue
		}
		allocs := false
		for _, b := range fn.Blocks {
			for _, ins := range b.Instrs {
				if a, ok := ins.(*ssa.Alloc); ok && namedOf(a.Type()) == named {
					allocs = true
				}
			}
		}
		if !allocs {
			continue
		}
		s := flow(fn, 0, set{}, nil)
		if nCtor == 0 {
			for k := range s {
				ctorInit[k] = true
			}
		} else {
			for k := range ctorInit {
				if !s[k] {
					delete(ctorInit, k)
				}
			}
		}
		nCtor++
		c.Funcs[fnName(fn)] = true
	}
	if nCtor == 0 {
		c.Unk("C09-INIT", tn, "constructor", token.NoPos, "no constructor (package-level function allocating and returning the cache) found")
		return
	}
	// dereferencing uses in the methods
	var bad []string
	uses := 0
	// unexported methods are helpers: they start with what is installed at ALL their call sites inside the type
	siteSets := map[*ssa.Function][]set{}
	var methods []*ssa.Function
	for _, fn := range p.Funcs {
		if recvNamed(fn) == named && fn.Blocks != nil && fn.Parent() == nil {
			methods = append(methods, fn)
		}
	}
	sort.Slice(methods, func(i, j int) bool { // exported first, so that helper call sites are known
		ei, ej := methods[i].Object() != nil && methods[i].Object().Exported(), methods[j].Object() != nil && methods[j].Object().Exported()
		if ei != ej {
			return ei
		}
		return fnName(methods[i]) < fnName(methods[j])
	})
	for _, fn := range methods {
		fn := fn
		entry := set{}
		if fn.Object() != nil && !fn.Object().Exported() && len(siteSets[fn]) > 0 {
			for k := range siteSets[fn][0] {
				entry[k] = true
			}
			for _, o := range siteSets[fn][1:] {
				for k := range entry {
					if !o[k] {
						delete(entry, k)
					}
				}
			}
		}
		flow(fn, 0, entry, func(ins ssa.Instruction, have set) {
			if ci, ok := ins.(ssa.CallInstruction); ok {
				if sc := staticCallee(ci.Common()); sc != nil && recvNamed(sc) == named && sc != fn {
					cp := set{}
					for k := range have {
						cp[k] = true
					}
					siteSets[sc] = append(siteSets[sc], cp)
				}
			}
			chk := func(v ssa.Value, what string) {
				f, ok := fieldOfLoad(v)
				if !ok || !need[f] {
					return
				}
				uses++
				if ctorInit[f] || have[f] {
					return
				}
				bad = append(bad, fmt.Sprintf("%s: %s %s field %s, which the constructor leaves nil on some path and nothing on the way installs or tests: a history that starts here panics", p.Pos(ins.Pos()), fnName(fn), what, st.Field(f).Name()))
			}
			switch x := ins.(type) {
			case ssa.CallInstruction:
				cc := x.Common()
				if sc := staticCallee(cc); sc != nil && sc.Signature.Recv() != nil && len(cc.Args) > 0 && !cc.IsInvoke() {
					if _, isPtr := sc.Signature.Recv().Type().(*types.Pointer); isPtr && (sc.Pkg == nil || !strings.HasPrefix(sc.Pkg.Pkg.Path(), ModPath)) {
						chk(cc.Args[0], "calls "+sc.Name()+" on")
					}
				}
			case *ssa.MapUpdate:
				chk(x.Map, "inserts into")
			case *ssa.FieldAddr:
				chk(x.X, "dereferences")
			}
		})
	}
	var names []string
	for f := range need {
		names = append(names, st.Field(f).Name())
	}
	sort.Strings(names)
	c.Sites += uses
	c.Check(len(bad) == 0 && uses > 0, "C09-INIT", tn, "installed-before-use", named.Obj().Pos(), fmt.Sprintf("fields %v: %d dereferencing uses in the methods, all after the installation (%d constructors)", names, uses, nCtor), uniqJoin(bad, 3))
}
