package engine

import (
	"fmt"
	"go/token"
	"go/types"
	"os"
	"reflect"
	"regexp"
	"strings"

	"golang.org/x/tools/go/ssa"
)

func init() {
	register(&PropDef{
		ID: "C04",
		Explain: "Nested validation decided on the abstract interpretation of the struct walker and by call-graph rules: C04-KIND the descent table of exist/required is exactly Ptr/Struct -> the object, Slice/Array -> each element, Map -> each value, every other kind -> no descent (and a 'nonsupport' clause only under exist); " +
			"C04-LABEL each nested call is labelled Parent.Field, Parent.Field[i] with the very index used to fetch the element, or Parent.Field[key] with the key of the very iterator that yields the value (same for top-level slices/arrays/maps); C04-GUARD descents happen only on non-zero values, never into time.Time, only through exported fields, and time.Time fields are excluded when the type is analysed; " +
			"C04-WHO only Valid and exist call the recursive walker, exist is reached only for the rules exist and required. Nil sub-objects are skipped silently (shared with C13). The recursion is the same function, so the inductive step is the whole argument for arbitrary depth.",
		Assume:  []string{"acyclic object graphs (property's exclusion)"},
		Trusted: []string{"go/types", "go/ssa"},
		Run: func(c *Ctx) {
			runC04(c)
			sharedDeclaredRules(c)
			runExportPred(c, "C04-EXPORT")
			base(c, "STATE", "LOOP", "RULESRC")
			runToStrCases(c, "C04-PATHKEY")
			runC04Strip(c, "C04-STRIP")
			runFieldIdentity(c, "C04-FIELDID")
			runExemptType(c, "C04-EXEMPT")
			runAllElems(c, "C04-ALLELEMS")
			runReqDescend(c, "C04-REQDESCEND")
		},
	})
}

type descend struct {
	we                walkEvent
	label, value      string
	flagKnown, strict bool
	kset, pkset       uint32
	hasP              bool
}

func descends(wl *walkLayers) []descend {
	var out []descend
	for _, we := range walkEvents(wl, "call") {
		a := we.E.Args
		name, _ := isCstStr(a[0])
		if name != "(*valid.VStruct).validate" || len(a) < 5 {
			continue
		}
		d := descend{we: we, label: keyOf(a[2]), value: keyOf(a[3])}
		if f, ok := a[4].(Slc); ok {
			if f.Hi-f.Lo == 0 {
				d.flagKnown, d.strict = true, true
			} else if b, known := isCstBool(f.Arr.Elems[f.Lo].V); known {
				d.flagKnown, d.strict = true, !b
			}
		} else if c, ok := a[4].(Cst); ok && c.V == nil {
			d.flagKnown, d.strict = true, true
		}
		for _, x := range a[5:] {
			if k, ok := x.(Tok); ok {
				m, _ := isCstInt(k.Args[0])
				switch k.Dom {
				case "kset":
					d.kset = uint32(m)
				case "pkset":
					d.pkset, d.hasP = uint32(m), true
				}
			}
		}
		out = append(out, d)
	}
	return out
}

func runC04(c *Ctx) {
	p := c.P
	wl := runWalkLayers(p)
	for _, r := range wl.Runs {
		c.Funcs[fnName(r.Fn)] = true
	}
	c.Rule("C04-KIND", "descent table: Ptr/Struct -> once, Slice/Array -> each element, Map -> each value, other kinds -> none", 1)
	c.Rule("C04-LABEL", "labels: Parent.Field / Parent.Field[i] with the index used for Index(i) / Parent.Field[key] with the key of the iterator whose Value() is passed", 2)
	c.Rule("C04-GUARD", "descent only on non-zero values, never into time.Time, only through exported fields; time.Time fields excluded and export = IsExported(name) when the type is analysed", 2)
	var onceMask, elemMask, mapMask uint32
	var kindBad, labelBad, guardBad []string
	nOnce, nElem, nMap := 0, 0, 0
	var pos token.Pos
	for _, d := range descends(wl) {
		if d.we.E.Fn == nil {
			continue
		}
		where := d.we.E.Fn.Name()
		pc := d.we.E.PC
		at := p.Pos(instrPos(d.we.E.Site))
		c.Sites++
		switch where {
		case "exist":
			pos = d.we.E.Fn.Pos()
			// container = the field value: TV.Field(<FI>.offset)
			var cont, shape, idx string
			switch {
			case strings.HasSuffix(d.value, ".MapRange().Value()"):
				cont, shape = strings.TrimSuffix(d.value, ".MapRange().Value()"), "map"
				idx = cont + ".MapRange().Key()"
			case parentKey(d.value) != "" && strings.HasPrefix(d.value, parentKey(d.value)+".Index("):
				cont, shape = parentKey(d.value), "elem"
				idx = strings.TrimSuffix(strings.TrimPrefix(d.value, cont+".Index("), ")")
			default:
				cont, shape = d.value, "once"
			}
			_, fargs, ok := splitCall(cont)
			if !ok || !strings.Contains(cont, ".Field(") || len(fargs) == 0 || !strings.HasSuffix(fargs[len(fargs)-1], ".offset") {
				labelBad = append(labelBad, at+": nested value is not derived from a field of the object being walked: "+shorten(d.value, 80))
				continue
			}
			fi := strings.TrimSuffix(fargs[len(fargs)-1], ".offset")
			fld := fi + ".name"
			// expected label
			okLabel := false
			objs := []string{"structName"}
			if li := strings.LastIndex(fi, ".fieldInfos["); pc[outermostAtom(p)] == 1 && li < 0 {
				labelBad = append(labelBad, at+": the field information the nested value is read with does not come from the analysed type's field list: "+shorten(fi, 80))
				continue
			}
			if pc[outermostAtom(p)] == 1 { // outermost object: the path is the type's name
				objs = append(objs, strings.TrimSuffix(fi[:strings.LastIndex(fi, ".fieldInfos[")], "")+".name")
			}
			for _, obj := range objs {
				var want AVal = strCat(strCat(Sym{K: obj}, cstStr(".")), Sym{K: fld})
				if shape != "once" {
					want = strCat(strCat(strCat(want, cstStr("[")), Sym{K: "valid.ToStr(" + idx + ")"}), cstStr("]"))
				}
				if keyOf(want) == d.label || (shape == "elem" && keyOf(want) == normIndexText(d.label)) {
					okLabel = true
				}
			}
			if !okLabel {
				labelBad = append(labelBad, fmt.Sprintf("%s: label of the nested %s does not name Parent.Field%s with the index/key of the value passed: %s", at, shape, map[string]string{"once": "", "elem": "[i]", "map": "[key]"}[shape], shorten(d.label, 140)))
			}
			// kinds
			switch shape {
			case "once":
				nOnce++
				onceMask |= d.kset
				if d.kset&^kmask(reflect.Ptr, reflect.Struct) != 0 {
					kindBad = append(kindBad, at+": single-object descent for kinds "+kmaskNames(d.kset&^kmask(reflect.Ptr, reflect.Struct)))
				}
				if v, ok := pc["eq("+cont+".Type(),g:valid.timeReflectType)"]; !ok || v != 0 {
					if v2, ok2 := pc["eq(g:valid.timeReflectType,"+cont+".Type())"]; !ok2 || v2 != 0 {
						guardBad = append(guardBad, at+": single-object descent is not guarded by 'type is not time.Time'")
					}
				}
			case "elem":
				nElem++
				elemMask |= d.pkset
				if !d.hasP || d.pkset&^kmask(reflect.Slice, reflect.Array) != 0 {
					kindBad = append(kindBad, at+": element descent for kinds "+kmaskNames(d.pkset&^kmask(reflect.Slice, reflect.Array)))
				}
			case "map":
				nMap++
				elemMaskM := d.pkset
				mapMask |= elemMaskM
				if !d.hasP || d.pkset&^kmask(reflect.Map) != 0 {
					kindBad = append(kindBad, at+": map-value descent for kinds "+kmaskNames(d.pkset&^kmask(reflect.Map)))
				}
			}
			if shape != "once" && d.flagKnown && d.strict {
				kindBad = append(kindBad, at+": collection elements are handed to the struct walker in strict mode: a []int under required/exist would yield 'is not struct' clauses")
			}
			if v, ok := pc["zero("+cont+")"]; !ok || v != 0 {
				guardBad = append(guardBad, at+": descent into a value not proved non-zero")
			}
			if v, ok := pc[fi+".export"]; !ok || v != 1 {
				guardBad = append(guardBad, at+": descent through a field not proved exported")
			}
		}
	}
	if nOnce+nElem+nMap == 0 {
		c.Unk("C04-KIND", "(*valid.VStruct).exist", "table", token.NoPos, "no nested descent observed (anchor unresolved)")
		return
	}
	if onceMask&kmask(reflect.Ptr) == 0 || onceMask&kmask(reflect.Struct) == 0 {
		kindBad = append(kindBad, "no single-object descent for "+kmaskNames(kmask(reflect.Ptr, reflect.Struct)&^onceMask))
	}
	if elemMask&kmask(reflect.Slice) == 0 || elemMask&kmask(reflect.Array) == 0 {
		kindBad = append(kindBad, "no element descent for "+kmaskNames(kmask(reflect.Slice, reflect.Array)&^elemMask))
	}
	if mapMask&kmask(reflect.Map) == 0 {
		kindBad = append(kindBad, "no map-value descent")
	}
	c.Check(len(kindBad) == 0, "C04-KIND", "(*valid.VStruct).exist", "table", pos, fmt.Sprintf("once=%d elem=%d map=%d descents", nOnce, nElem, nMap), uniqJoin(kindBad, 4))
	c.Check(len(labelBad) == 0, "C04-LABEL", "(*valid.VStruct).exist", "labels", pos, "labels match the value passed", uniqJoin(labelBad, 3))
	c.Check(len(guardBad) == 0, "C04-GUARD", "(*valid.VStruct).exist", "guards", pos, "non-zero, not time.Time, exported", uniqJoin(guardBad, 3))
	runC04Top(c, wl)
	runC04Cache(c)
	runC04Who(c)
	runC04Nil(c, wl)
}

// runC04Top: top-level dispatch in Valid.
func runC04Top(c *Ctx, wl *walkLayers) {
	p := c.P
	var bad []string
	nElem, nMap, nPlain := 0, 0, 0
	var pos token.Pos
	for _, d := range descends(wl) {
		if d.we.E.Fn == nil || d.we.E.Fn.Name() != "Valid" {
			continue
		}
		pos = d.we.E.Fn.Pos()
		at := p.Pos(instrPos(d.we.E.Site))
		switch {
		case strings.HasSuffix(d.value, ".MapRange().Value()"):
			nMap++
			it := strings.TrimSuffix(d.value, ".Value()")
			want := keyOf(strCat(strCat(cstStr("map["), Sym{K: "valid.ToStr(" + it + ".Key())"}), cstStr("]")))
			if d.label != want {
				bad = append(bad, at+": top-level map entry is not labelled map[<its own key>]: "+shorten(d.label, 100))
			}
			if !d.hasP || d.pkset&^kmask(reflect.Map) != 0 {
				bad = append(bad, at+": map iteration over kinds "+kmaskNames(d.pkset&^kmask(reflect.Map)))
			}
		case parentKey(d.value) != "" && strings.HasPrefix(d.value, parentKey(d.value)+".Index("):
			nElem++
			idx := strings.TrimSuffix(strings.TrimPrefix(d.value, parentKey(d.value)+".Index("), ")")
			if !strings.HasSuffix(normIndexText(d.label), `"["+valid.ToStr(`+idx+`)+"]"`) && !bracketInPrefix(d.we.E.Fn, normIndexText(d.label), idx) {
				bad = append(bad, at+": top-level element is not labelled with the index used to fetch it: "+shorten(d.label, 100))
			}
			if !d.hasP || d.pkset&^kmask(reflect.Slice, reflect.Array) != 0 {
				bad = append(bad, at+": element iteration over kinds "+kmaskNames(d.pkset&^kmask(reflect.Slice, reflect.Array)))
			}
		default:
			nPlain++
			if d.label != `""` {
				bad = append(bad, at+": the outermost object is not walked with the empty path (outermost-only rule sets depend on it)")
			}
		}
	}
	c.Check(len(bad) == 0 && nElem > 0 && nMap > 0 && nPlain > 0, "C04-LABEL", "(*valid.VStruct).Valid", "top-level", pos,
		fmt.Sprintf("elements=%d map entries=%d single=%d", nElem, nMap, nPlain), uniqJoin(append(bad, fmt.Sprintf("observed elements=%d map entries=%d single=%d", nElem, nMap, nPlain)), 3))
}

// runC04Cache: when the type is analysed, time.Time fields are skipped and export is
// IsExported(name) of the same field.
func runC04Cache(c *Ctx) { runC04CacheRule(c, "C04-GUARD") }

// runC04CacheRule: the per-type analysis records, for every field it keeps, the index of the very
// field it read the name and the tag from (offset), skips time.Time and sets export = IsExported(name).
func runC04CacheRule(c *Ctx, rule string) {
	p := c.P
	fn := p.Method("valid", "VStruct", "getCacheStructType")
	if fn == nil {
		c.Unk(rule, "(*valid.VStruct).getCacheStructType", "analysis", token.NoPos, "type analysis function not found")
		return
	}
	c.Funcs[fnName(fn)] = true
	w := NewWalkEnv(p)
	w.In.NoInline["valid.IsExported"] = true
	w.In.TraceStores = true
	trs := w.In.Explore(fn, symArgs(fn), 2000)
	var bad []string
	stores := 0
	for _, t := range trs {
		if t.Cut != "" {
			c.Unk(rule, fnName(fn), "analysis", fn.Pos(), t.Cut)
			return
		}
		for _, e := range t.Events {
			if e.Kind != "store-cell" || !strings.Contains(keyOf(e.Args[0]), "makeslice") {
				continue
			}
			if os.Getenv("PGV_DBG") != "" {
				fmt.Printf("DBG store-cell %s := %s (%T)\n", keyOf(e.Args[0]), keyOf(e.Args[1]), e.Args[1])
			}
			sv, ok := e.Args[1].(StructVal)
			cellKey := keyOf(e.Args[0])
			if !ok {
				// filled in place, field by field (info := &infos[i]; info.export = ...): the stores into the
				// fields of one element are judged together once its last field (in declaration-independent
				// order: whichever comes last on the path) has been written — here: at the store of "offset",
				// with the other fields looked up among the path's earlier and later stores
				if j := strings.LastIndex(cellKey, "]."); j < 0 || cellKey[j+2:] != "offset" {
					continue
				}
				elem := cellKey[:strings.LastIndex(cellKey, "].")+1]
				fields := map[string]AVal{}
				for _, e2 := range t.Events {
					if e2.Kind == "store-cell" && strings.HasPrefix(keyOf(e2.Args[0]), elem+".") {
						fields[strings.TrimPrefix(keyOf(e2.Args[0]), elem+".")] = e2.Args[1]
					}
				}
				st := structOfElem(fn, "fieldInfos")
				if st == nil {
					continue
				}
				sv = StructVal{T: st, F: map[int]AVal{}}
				for i := 0; i < structOf(st).NumFields(); i++ {
					if fv, ok := fields[structOf(st).Field(i).Name()]; ok {
						sv.F[i] = fv
					}
				}
				cellKey = elem
			}
			stores++
			idxKey := ""
			if i := strings.LastIndex(cellKey, "["); i >= 0 {
				idxKey = strings.TrimSuffix(cellKey[i+1:], "]")
			}
			fieldExpr := "ty.Field(" + idxKey + ")"
			// time.Time fields are not stored
			tOK := false
			for k, v := range e.PC {
				if strings.Contains(k, "g:valid.timeReflectType") && strings.Contains(k, fieldExpr+".Type") && v == 0 {
					tOK = true
				}
			}
			if !tOK {
				bad = append(bad, "a field is recorded without having been compared with time.Time")
			}
			names := map[string]string{}
			if st := structOf(sv.T); st != nil {
				for i, fv := range sv.F {
					names[st.Field(i).Name()] = keyOf(fv)
				}
			}
			if names["export"] != "valid.IsExported("+fieldExpr+".Name)" {
				bad = append(bad, "export flag is not IsExported(name of the same field): "+names["export"])
			}
			if names["offset"] != idxKey {
				bad = append(bad, "offset recorded differs from the index of the field analysed")
			}
			if names["name"] != fieldExpr+".Name" {
				bad = append(bad, "name recorded is not the field's name")
			}
		}
	}
	c.Check(len(bad) == 0 && stores > 0, rule, fnName(fn), "analysis", fn.Pos(), fmt.Sprintf("%d recording paths: time.Time skipped, export = IsExported(name), offset = index", stores), uniqJoin(append(bad, fmt.Sprintf("%d recording paths", stores)), 3))
}

// structOfElem: the element type of the slice field `field` of the struct the function returns.
func structOfElem(fn *ssa.Function, field string) types.Type {
	res := fn.Signature.Results()
	if res.Len() == 0 {
		return nil
	}
	st := structOf(res.At(0).Type())
	if st == nil {
		return nil
	}
	for i := 0; i < st.NumFields(); i++ {
		if st.Field(i).Name() == field {
			if sl, ok := st.Field(i).Type().Underlying().(*types.Slice); ok {
				return sl.Elem()
			}
		}
	}
	return nil
}

func runC04Who(c *Ctx) {
	p := c.P
	c.Rule("C04-WHO", "only Valid and exist call the recursive struct walker; exist is called only from the walker (rule exist) and from required; required only from the walker", 3)
	callers := func(target *ssa.Function) map[string]bool {
		out := map[string]bool{}
		for _, fn := range p.Funcs {
			for _, b := range fn.Blocks {
				for _, ins := range b.Instrs {
					if call, ok := ins.(ssa.CallInstruction); ok && staticCallee(call.Common()) == target {
						out[fn.Name()] = true
					}
				}
			}
		}
		return out
	}
	check := func(method string, allowed ...string) {
		fn := p.Method("valid", "VStruct", method)
		if fn == nil {
			c.Unk("C04-WHO", "(*valid.VStruct)."+method, "callers", token.NoPos, "method not found")
			return
		}
		got := callers(fn)
		var extra []string
		// a caller is acceptable if it is one of the allowed functions, or an unexported helper of the
		// same receiver that is itself only called by acceptable functions (code extracted out of them)
		var acceptable func(name string, depth int) bool
		acceptable = func(name string, depth int) bool {
			for _, a := range allowed {
				if a == name {
					return true
				}
			}
			if depth > 3 {
				return false
			}
			h := p.Method("valid", "VStruct", name)
			if h == nil || h.Object() == nil || h.Object().Exported() {
				return false
			}
			hc := callers(h)
			if len(hc) == 0 {
				return false
			}
			for k := range hc {
				if k == name || !acceptable(k, depth+1) {
					return false
				}
			}
			return true
		}
		for k := range got {
			if !acceptable(k, 0) {
				extra = append(extra, k)
			}
		}
		c.Sites++
		c.Check(len(extra) == 0 && len(got) > 0, "C04-WHO", fnName(fn), "callers", fn.Pos(), fmt.Sprintf("called from %v", keysOf(got)), fmt.Sprintf("unexpected callers %v (allowed %v)", extra, allowed))
	}
	check("validate", "Valid", "exist")
	check("exist", "validate", "required")
	check("required", "validate")
}

// runC04Nil: an invalid (nil) sub-object is skipped without a clause.
func runC04Nil(c *Ctx, wl *walkLayers) {
	c.Rule("C04-NIL", "a nil sub-object (Invalid after pointer stripping) is skipped: no clause, no descent", 1)
	for _, r := range wl.Runs {
		if fnName(r.Fn) != "(*valid.VStruct).validate" {
			continue
		}
		n, bad := 0, 0
		for _, t := range r.Traces {
			if t.Cut != "" || t.Panic != "" || t.Converged {
				continue
			}
			invalid := false
			for k := range t.PC {
				if strings.HasPrefix(k, "kind(") && strings.Contains(k, ")∈{") {
					key := k[5:strings.Index(k, ")∈{")]
					tt := t
					if traceMask(&tt, key) == 1 { // only Invalid remains possible
						invalid = true
					}
				}
			}
			if !invalid {
				continue
			}
			n++
			for _, e := range t.Events {
				if e.Kind == "write" || e.Kind == "call" || e.Kind == "rulecall" {
					bad++
				}
			}
		}
		c.Check(n > 0 && bad == 0, "C04-NIL", fnName(r.Fn), "skip", r.Fn.Pos(), fmt.Sprintf("%d paths with an Invalid value: silent", n), fmt.Sprintf("%d paths with an Invalid value, %d observable effects (want none; 0 paths means the guard is missing)", n, bad))
	}
}

func structOf(t types.Type) *types.Struct {
	if t == nil {
		return nil
	}
	st, _ := t.Underlying().(*types.Struct)
	return st
}

// runC04Strip: the pointer-stripping helpers. Every walker relies on "after RemoveValuePtr the
// value is not a pointer: it is the pointee at the end of the chain, or the invalid Value when
// the chain ends in nil" (nil sub-objects are then skipped silently). Decided on the helper:
// its loop is left only on the edge where Kind() == Ptr is false, and each iteration replaces
// the value by its Elem(). A second exit (e.g. "&& !IsNil()") returns a nil pointer of kind Ptr,
// which the walkers report as "is not struct" under exist.
// isZeroReflectValue: reflect.Value{} — a nil-valued constant of that type, or the load of a local that is
// never stored to.
func isZeroReflectValue(v ssa.Value) bool {
	if !isNamed(v.Type(), "reflect", "Value") {
		return false
	}
	if c, ok := v.(*ssa.Const); ok {
		return c.Value == nil
	}
	if u, ok := v.(*ssa.UnOp); ok && u.Op == token.MUL {
		if al, ok := u.X.(*ssa.Alloc); ok {
			for _, r := range refs(al) {
				if _, isStore := r.(*ssa.Store); isStore {
					return false
				}
				if _, isLoad := r.(*ssa.UnOp); !isLoad {
					return false
				}
			}
			return true
		}
	}
	return false
}

func runC04Strip(c *Ctx, rule string) {
	p := c.P
	c.Rule(rule, "RemoveValuePtr / RemoveTypePtr return a non-pointer: the stripping loop exits only where Kind() == Ptr is false and steps with Elem()", 2)
	for _, name := range []string{"RemoveValuePtr", "RemoveTypePtr"} {
		fn := p.Func("valid", name)
		if fn == nil {
			c.Unk(rule, "valid."+name, "strip", token.NoPos, "helper not found")
			continue
		}
		c.Funcs[fnName(fn)] = true
		c.Sites++
		var bad []string
		loops := naturalLoops(fn)
		if len(loops) != 1 {
			c.Unk(rule, fnName(fn), "strip", fn.Pos(), fmt.Sprintf("expected one stripping loop, found %d", len(loops)))
			continue
		}
		l := loops[0]
		isKindPtrOf := func(cond ssa.Value, v ssa.Value) (eq bool, ok bool) {
			bo, isB := cond.(*ssa.BinOp)
			if !isB || (bo.Op != token.EQL && bo.Op != token.NEQ) {
				return false, false
			}
			k, isK := constInt(bo.Y)
			if !isK || k != int64(reflect.Ptr) {
				return false, false
			}
			call, isC := bo.X.(*ssa.Call)
			if !isC {
				return false, false
			}
			cc := &call.Call
			var recv ssa.Value
			if cc.IsInvoke() && cc.Method.Name() == "Kind" {
				recv = cc.Value
			} else if calleeName(cc) == "(reflect.Value).Kind" {
				recv = cc.Args[0]
			}
			if recv != v {
				return false, false
			}
			return bo.Op == token.EQL, true
		}
		// the carried value
		var ph *ssa.Phi
		for _, ins := range l.Header.Instrs {
			if x, ok := ins.(*ssa.Phi); ok {
				ph = x
			}
		}
		if ph == nil {
			c.Unk(rule, fnName(fn), "strip", fn.Pos(), "loop-carried value not found")
			continue
		}
		zeroExit := map[*ssa.BasicBlock]bool{}
		for _, ee := range l.exitEdges() {
			iff, ok := ee[0].Instrs[len(ee[0].Instrs)-1].(*ssa.If)
			if !ok {
				bad = append(bad, "the loop is left unconditionally")
				continue
			}
			eq, okc := isKindPtrOf(iff.Cond, ph)
			onTrue := ee[0].Succs[0] == ee[1]
			// `if v.IsNil() { return reflect.Value{} }` inside the loop: the zero Value is exactly what Elem() of a
			// nil pointer yields, so this exit hands back the stripped value too
			if nc, isCall := iff.Cond.(*ssa.Call); isCall && onTrue && calleeName(&nc.Call) == "(reflect.Value).IsNil" && nc.Call.Args[0] == ssa.Value(ph) {
				if r, ok := ee[1].Instrs[len(ee[1].Instrs)-1].(*ssa.Return); ok && len(r.Results) == 1 && isZeroReflectValue(r.Results[0]) {
					zeroExit[ee[1]] = true
					continue
				}
			}
			if !okc || eq == onTrue {
				bad = append(bad, "the stripping loop can be left while the value is still of kind Ptr (exit at "+p.Pos(iff.Pos())+"): a nil pointer at the end of the chain is returned as a pointer instead of the invalid Value")
			}
		}
		for i, e := range ph.Edges {
			if !l.Body[ph.Block().Preds[i]] {
				continue
			}
			call, ok := e.(*ssa.Call)
			okStep := false
			if ok {
				cc := &call.Call
				if cc.IsInvoke() && cc.Method.Name() == "Elem" && cc.Value == ph {
					okStep = true
				}
				if calleeName(cc) == "(reflect.Value).Elem" && cc.Args[0] == ph {
					okStep = true
				}
			}
			if !okStep {
				bad = append(bad, "an iteration does not replace the value by its Elem()")
			}
		}
		// returns the carried value
		for _, b := range fn.Blocks {
			if r, ok := b.Instrs[len(b.Instrs)-1].(*ssa.Return); ok {
				if zeroExit[b] {
					continue
				}
				if len(r.Results) != 1 || r.Results[0] != ph {
					bad = append(bad, "the value returned is not the stripped value")
				}
			}
		}
		c.Check(len(bad) == 0, rule, fnName(fn), "strip", fn.Pos(), "loop exits only with Kind() != Ptr", uniqJoin(bad, 2))
	}
}

// normIndexText: an integer index rendered with strconv.Itoa is the same text as ToStr of it.
func normIndexText(s string) string {
	return strings.ReplaceAll(s, "strconv.Itoa(", "valid.ToStr(")
}

// bracketInPrefix: the label is P + ToStr(idx) + "]" where P is a loop-carried variable (a φ) every value
// of which is some text + "[" (the opening bracket hoisted into the prefix that is built once).
func bracketInPrefix(fn *ssa.Function, label, idx string) bool {
	tail := `+valid.ToStr(` + idx + `)+"]"`
	if fn == nil || !strings.HasSuffix(label, tail) {
		return false
	}
	m := regexp.MustCompile(`^φ:[^:]*:(\d+):(t\d+):\w+$`).FindStringSubmatch(strings.TrimSuffix(label, tail))
	if m == nil {
		return false
	}
	var start *ssa.Phi
	for _, b := range fn.Blocks {
		if fmt.Sprint(b.Index) != m[1] {
			continue
		}
		for _, ins := range b.Instrs {
			if ph, ok := ins.(*ssa.Phi); ok && ph.Name() == m[2] {
				start = ph
			}
		}
	}
	if start == nil {
		return false
	}
	seen := map[ssa.Value]bool{}
	ok := true
	leaves := 0
	var walk func(v ssa.Value)
	walk = func(v ssa.Value) {
		if seen[v] {
			return
		}
		seen[v] = true
		switch x := v.(type) {
		case *ssa.Phi:
			for _, e := range x.Edges {
				walk(e)
			}
		case *ssa.Const:
			if s, isS := constString(x); !isS || s != "" {
				ok = false
			}
		case *ssa.BinOp:
			s, isS := constString(x.Y)
			if x.Op != token.ADD || !isS || !strings.HasSuffix(s, "[") {
				ok = false
			}
			leaves++
		default:
			ok = false
		}
	}
	walk(start)
	return ok && leaves > 0
}
