package engine

import (
	"fmt"
	"go/token"
	"go/types"
	"strings"

	"golang.org/x/tools/go/ssa"
)

func init() {
	register(&PropDef{
		ID: "C17",
		Explain: "C17-KEY dependency rule: the key under which group members are accumulated depends on the object path as well as on the rule text, and every walker that can visit several objects in one call (struct walker, map walker over a slice of maps) puts its current object path into the member it registers — so groups in different slice elements, nested objects or map entries cannot merge; " +
			"C17-VALUE no reflect.ValueOf is applied to something that already is a reflect.Value (the member would be a struct that is never zero and never equal); " +
			"C17-EVAL either/botheq evaluated abstractly for every group size 1..3 and every pattern of empty/equal members: one clause iff all members are empty (either) / some member differs from the first (botheq), that clause names every member of the group, a rule-writing error for a single member; the evaluation runs in every group-capable getError before the emptiness test (C02-MAT). " +
			"Not covered: reflect.DeepEqual's own semantics; group sizes above 3 (the loop body does not depend on the size).",
		Assume:  []string{"reflect.DeepEqual and IsZero semantics"},
		Trusted: []string{"go/types", "go/ssa"},
		Run: func(c *Ctx) {
			runC17(c)
			runToStrCases(c, "C17-PATHKEY")
			runAllElems(c, "C17-ALLELEMS")
			runLiveSettings(c, "C17-LIVE")
			base(c, "DECLARED", "STATE", "ALIAS", "LOOP", "TEXT", "MAT", "RULESRC", "EXPORT", "FACADE")
			importSome(c, "C18", runC18, "C17-URLVALUE", "a URL parameter registered as a group member carries its own, whole value: everything after the first '=' of its own text (rule C18-URL: first-equals, own-text, first-question-mark, decode-after-split, decoded-delimiters, query-decoding) — a value cut at a later '=' or at an encoded delimiter makes two different parameters look equal to botheq, or a supplied value look empty to either, and a member behind the cut is never registered", 2, func(key string) bool {
				return strings.Contains(key, "/C18-URL/") && !strings.HasSuffix(key, "/text-as-given")
			})
			importRules(c, "C04", runC04, "C17-OBJPATH", "groups are kept per object path, so the paths given to nested objects must tell them apart: Parent.Field, Parent.Field[index], Parent.Field[key] with the key rendered by ToStr (rule C04-LABEL) — a label that is the same for every entry of a map merges their groups", 2, ruleIn("C04-LABEL"))
			importRules(c, "C12", runC12Input, "C17-OWNVALUE", "each group member keeps the value of its own field/entry until the groups are evaluated at the end of the call: no reflect.Value setter refreshes a shared storage cell per entry (rule C12-INPUT)", 1, nil)
		},
	})
}

func runC17(c *Ctx) {
	p := c.P
	wl := runWalkLayers(p)
	for _, r := range wl.Runs {
		c.Funcs[fnName(r.Fn)] = true
	}
	// --- C17-VALUE
	c.Rule("C17-VALUE", "reflect.ValueOf is never applied to a reflect.Value when registering a group member", 1)
	bad := map[string]token.Pos{}
	n := 0
	for _, r := range wl.Runs {
		n += len(r.Env.Sites)
	}
	for _, we := range walkEvents(wl, "valueof-of-value") {
		bad[fnName(we.E.Site.Parent())] = instrPos(we.E.Site)
	}
	if len(bad) == 0 {
		c.OK("C17-VALUE", "valid", "valueof", token.NoPos, fmt.Sprintf("%d reflect call sites inspected, no ValueOf(reflect.Value)", n))
	}
	for fn, pos := range bad {
		c.Bad("C17-VALUE", fn, "valueof", pos, "reflect.ValueOf applied to a reflect.Value: the registered member describes the Value struct itself, so either never sees it empty and botheq never sees two members equal")
	}
	// --- C17-KEY (a): accumulation key
	c.Rule("C17-KEY", "group members are keyed by (object path, rule text); walkers that visit several objects per call record the object path in the member", 3)
	runC17Key(c)
	// (b) walkers register the object path
	type agg struct {
		n   int
		bad []string
		pos token.Pos
	}
	per := map[string]*agg{}
	for _, we := range walkEvents(wl, "group") {
		fn := fnName(we.Run.Fn)
		a := per[fn]
		if a == nil {
			a = &agg{pos: we.Run.Fn.Pos()}
			per[fn] = a
		}
		a.n++
		c.Sites++
		fields := map[string]string{}
		for _, x := range we.E.Args {
			if f, ok := x.(Tok); ok && f.Dom == "field" && len(f.Args) == 1 {
				fields[f.Name] = keyOf(f.Args[0])
			}
		}
		path := fields["objName"] + " " + fields["fieldName"]
		switch {
		case strings.Contains(fn, "VStruct"):
			// the path parameter, or (only on the outermost-object edge, where the path is empty) the type's name
			outer := we.E.PC[outermostAtom(p)] == 1
			if !(fields["objName"] == "structName" || outer && strings.HasSuffix(fields["objName"], ".name")) {
				a.bad = append(a.bad, "struct walker registers a member without its object path (objName = "+shorten(fields["objName"], 60)+")")
			}
		case strings.Contains(fn, "VMap"):
			if !strings.Contains(path, "prefix") {
				a.bad = append(a.bad, "map walker registers a member without the element prefix: groups of different maps in a slice of maps merge")
			}
		}
		if !strings.Contains(fields["validName"], "ValidNamesSplit(") {
			a.bad = append(a.bad, "member's rule text is not the unparsed rule item")
		}
		// the member's value must be the value being validated
		if rv := fields["reflectVal"]; strings.HasPrefix(rv, "reflect.ValueOf(") && strings.Contains(rv, ".Value()") {
			a.bad = append(a.bad, "member value is reflect.ValueOf(<reflect.Value>)")
		}
	}
	if len(per) < 3 {
		c.Unk("C17-KEY", "-", "walkers", token.NoPos, fmt.Sprintf("expected group registration in 3 walkers, observed %d", len(per)))
	}
	for fn, a := range per {
		c.Check(len(a.bad) == 0, "C17-KEY", fn, "member-path", a.pos, fmt.Sprintf("%d registrations carry the object path", a.n), uniqJoin(a.bad, 3))
	}
	runC17Eval(c)
	runC17When(c)
}

// runC17Key interprets the accumulation function with a symbolic member.
func runC17Key(c *Ctx) {
	p := c.P
	fn, regFields := groupRegistrar(p)
	if fn == nil {
		c.Unk("C17-KEY", "(*valid.validCommon).initValid2FieldsMap", "key", token.NoPos, "accumulation function not found (no function updates the group map)")
		return
	}
	c.Funcs[fnName(fn)] = true
	w := NewWalkEnv(p)
	in := w.In
	var args []AVal
	ruleTerm, pathTerm := "data.validName", "data.objName"
	if regFields == nil {
		args = []AVal{Sym{K: "v", T: fn.Params[0].Type()}, Ptr{C: &Cell{Label: "data", T: fn.Params[1].Type().(*types.Pointer).Elem()}}}
	} else {
		// the member's parts arrive as parameters: the key must be built from the ones that fill the
		// rule-text and object-path fields of the record
		delete(in.Models, fnName(fn))
		for i, prm := range fn.Params {
			args = append(args, Sym{K: fmt.Sprintf("arg%d:%s", i, prm.Name()), T: prm.Type()})
		}
		ruleTerm, pathTerm = "\x00none", "\x00none"
		if i, ok := regFields["validName"]; ok {
			ruleTerm = keyOf(args[i])
		}
		if i, ok := regFields["objName"]; ok {
			pathTerm = keyOf(args[i])
		}
	}
	trs := in.Explore(fn, args, 500)
	var keys []string
	for _, t := range trs {
		if t.Cut != "" {
			c.Unk("C17-KEY", fnName(fn), "key", fn.Pos(), t.Cut)
			return
		}
		for _, e := range t.Events {
			if e.Kind == "mapupdate" && strings.Contains(keyOf(e.Args[0]), "valid2FieldsMap") {
				keys = append(keys, keyOf(e.Args[1]))
			}
		}
	}
	if len(keys) == 0 {
		c.Unk("C17-KEY", fnName(fn), "key", fn.Pos(), "no store into the group map observed")
		return
	}
	var bad []string
	for _, k := range keys {
		if !strings.Contains(k, ruleTerm) {
			bad = append(bad, "key does not depend on the rule text: "+k)
		}
		if !strings.Contains(k, pathTerm) {
			bad = append(bad, "key depends on the rule text only ("+k+"): members with the same either=/botheq= id in different slice elements, nested objects or map entries fall into one group")
		}
	}
	c.Check(len(bad) == 0, "C17-KEY", fnName(fn), "key", fn.Pos(), "key = f(object path, rule text): "+keys[0], uniqJoin(bad, 2))
}

// runC17Eval: either / botheq for concrete group sizes.
func runC17Eval(c *Ctx) {
	p := c.P
	c.Rule("C17-EVAL", "either: exactly one clause iff every member is empty; botheq: exactly one clause iff some member differs from the first; a single-member group yields the rule-writing error; group sizes 1..3 enumerated with every emptiness/equality pattern", 6)
	for _, name := range []string{"either", "bothEq"} {
		fn := p.Method("valid", "validCommon", name)
		if fn == nil {
			c.Unk("C17-EVAL", "(*valid.validCommon)."+name, "anchor", token.NoPos, "group evaluation function not found")
			continue
		}
		c.Funcs[fnName(fn)] = true
		for size := 1; size <= 3; size++ {
			w := NewWalkEnv(p)
			in := w.In
			in.EagerWiden = false
			in.WidenAfter = 8
			in.MaxLoop = 12
			w.Suffix[".reflectVal"] = validKinds
			in.Models["reflect.DeepEqual"] = func(in *Interp, site ssa.Instruction, cc *ssa.CallCommon, a []AVal) (AVal, bool) {
				return Sym{K: "deq(" + keyOf(a[0]) + "," + keyOf(a[1]) + ")", T: types.Typ[types.Bool]}, true
			}
			// a concrete slice of `size` symbolic members
			elemT := fn.Params[2].Type().(*types.Slice).Elem()
			arr := &Cell{ID: 1000, T: types.NewArray(elemT, int64(size))}
			for i := 0; i < size; i++ {
				member := &Cell{Label: fmt.Sprintf("m%d", i), T: elemT.(*types.Pointer).Elem()}
				arr.Elems = append(arr.Elems, &Cell{ID: 1001 + i, T: elemT, V: Ptr{C: member}})
			}
			args := []AVal{Sym{K: "v", T: fn.Params[0].Type()}, Sym{K: "errBuf", T: fn.Params[1].Type()}, Slc{Arr: arr, Lo: 0, Hi: size}}
			trs := in.Explore(fn, args, 5000)
			var bad []string
			cases := 0
			for _, t := range trs {
				if t.Converged {
					continue
				}
				if t.Cut != "" || t.Panic != "" {
					bad = append(bad, "not decided: "+t.Cut+t.Panic)
					continue
				}
				cases++
				c.Sites++
				nW, nE := 0, 0
				named := map[int]bool{} // members whose field name was written to the clause's name list
				for _, e := range t.Events {
					if e.Kind == "write" && keyOf(e.Args[0]) == "errBuf" {
						if ci := classifyWrite(e); ci.Class == "E" {
							nE++
						} else {
							nW++
							// the member names may be part of the clause text itself (names joined into it)
							k := keyOf(e.Args[1])
							for i := 0; i < size; i++ {
								if strings.Contains(k, fmt.Sprintf("m%d.fieldName", i)) {
									named[i] = true
								}
							}
						}
					} else if e.Kind == "write" {
						k := keyOf(e.Args[1])
						for i := 0; i < size; i++ {
							if strings.Contains(k, fmt.Sprintf("m%d.fieldName", i)) {
								named[i] = true
							}
						}
					}
				}
				if size == 1 {
					if nE != 1 || nW != 0 {
						bad = append(bad, fmt.Sprintf("single-member group: %d rule-writing errors, %d group clauses (want 1, 0)", nE, nW))
					}
					continue
				}
				// a group clause written in pieces straight into the error buffer: one clause per separator written
				if nW > 1 {
					ends := 0
					for _, e := range t.Events {
						if e.Kind == "write" && keyOf(e.Args[0]) == "errBuf" && (strings.HasSuffix(keyOf(e.Args[1]), "valid.ErrEndFlag") || strings.HasSuffix(keyOf(e.Args[1]), `; "`)) {
							ends++
						}
					}
					if ends > 0 {
						nW = ends
					}
				}
				var viol, known bool
				if name == "either" {
					// violated iff every member is empty: one member found non-empty settles it (the remaining
					// members need not be looked at); "all empty" needs every member examined
					allZero, someNonZero := true, false
					for i := 0; i < size; i++ {
						v, ok := t.PC[fmt.Sprintf("zero(m%d.reflectVal)", i)]
						if !ok || v != 1 {
							allZero = false
						}
						if ok && v == 0 {
							someNonZero = true
						}
					}
					known = allZero || someNonZero
					viol = allZero
				} else {
					known = true
					differs := false
					seen := 0
					for k, v := range t.PC {
						if strings.HasPrefix(k, "deq(m0.reflectVal.Interface(),") {
							seen++
							if v == 0 {
								differs = true
							}
						}
					}
					if seen == 0 {
						known = false
					}
					if !differs && seen < size-1 {
						known = false // declared equal without comparing every member with the first
					}
					viol = differs
				}
				switch {
				case !known:
					bad = append(bad, fmt.Sprintf("size %d: verdict reached without examining every member (%s)", size, shorten(t.Describe(), 160)))
				case viol && (nW != 1 || nE != 0):
					bad = append(bad, fmt.Sprintf("size %d: violated group yields %d clauses", size, nW))
				case viol && len(named) != size:
					bad = append(bad, fmt.Sprintf("size %d: the clause of a violated group names %d of its %d members (%s)", size, len(named), size, shorten(t.Describe(), 120)))
				case !viol && nW+nE != 0:
					bad = append(bad, fmt.Sprintf("size %d: satisfied group yields %d clauses", size, nW+nE))
				}
			}
			c.Check(len(bad) == 0 && cases > 0, "C17-EVAL", fnName(fn), fmt.Sprintf("size%d", size), fn.Pos(), fmt.Sprintf("%d emptiness/equality patterns agree", cases), uniqJoin(append(bad, fmt.Sprintf("%d patterns", cases)), 3))
		}
	}
}

// runC17When: groups are judged once, after the whole input has been walked. A member is registered when
// its field is visited; an evaluation that runs while the walk is still going on (at the end of every
// object, say) sees the groups of the enclosing objects half filled — a correct two-member group is then
// reported as two single-member groups, or not at all.
func runC17When(c *Ctx) {
	p := c.P
	c.Rule("C17-WHEN", "the group evaluation is never invoked from a walker or anything a walker calls: it runs after the walk, when every member of every object has been registered", 1)
	judges := map[*ssa.Function]bool{}
	for _, name := range []string{"either", "bothEq"} {
		if fn := p.Method("valid", "validCommon", name); fn != nil {
			judges[fn] = true
		}
	}
	evaluators := map[*ssa.Function]bool{}
	for _, fn := range p.Funcs {
		if judges[fn] || fn.Blocks == nil {
			continue
		}
		for _, b := range fn.Blocks {
			for _, ins := range b.Instrs {
				if ci, ok := ins.(ssa.CallInstruction); ok {
					if cal := staticCallee(ci.Common()); cal != nil && judges[cal] {
						evaluators[fn] = true
					}
				}
			}
		}
	}
	if len(evaluators) == 0 {
		c.Unk("C17-WHEN", "valid", "evaluator", token.NoPos, "no function calling either/bothEq found (anchor unresolved)")
		return
	}
	inWalk := map[*ssa.Function]*ssa.Function{}
	for _, w := range findWalkers(p) {
		for f := range reachableFrom(w.Fn) {
			if inWalk[f] == nil {
				inWalk[f] = w.Fn
			}
		}
	}
	var bad []string
	n := 0
	for _, fn := range p.Funcs {
		if fn.Blocks == nil {
			continue
		}
		for _, b := range fn.Blocks {
			for _, ins := range b.Instrs {
				ci, ok := ins.(ssa.CallInstruction)
				if !ok {
					continue
				}
				cal := staticCallee(ci.Common())
				if cal == nil || !(evaluators[cal] || judges[cal]) || evaluators[fn] && judges[cal] {
					continue
				}
				n++
				if w := inWalk[fn]; w != nil {
					bad = append(bad, fmt.Sprintf("%s: %s evaluates the groups (%s) while %s is still walking: members of the enclosing objects that are declared later have not been registered yet", p.Pos(instrPos(ins)), fnName(fn), cal.Name(), fnName(w)))
					continue
				}
				// ... and not between two walks either (a flush at element boundaries of a top-level slice): after
				// the evaluation no walker call may still be reachable, in this function or — when this function
				// only wraps the evaluation — behind its own call sites
				var walkAfter func(site ssa.Instruction, host *ssa.Function, depth int) string
				walkAfter = func(site ssa.Instruction, host *ssa.Function, depth int) string {
					idx := indexIn(site)
					for _, later := range instrsReachableAfter(site.Block(), idx) {
						if lc, ok := later.(ssa.CallInstruction); ok {
							if g := staticCallee(lc.Common()); g != nil {
								for _, w := range findWalkers(p) {
									if g == w.Fn || reachableFrom(g)[w.Fn] {
										return fmt.Sprintf("%s: after the group evaluation at %s, %s still walks (%s): the clauses of groups are written between the clauses of later elements, and a group whose members lie on both sides is judged half filled", p.Pos(instrPos(later)), p.Pos(instrPos(site)), fnName(host), g.Name())
									}
								}
							}
						}
					}
					if depth >= 2 {
						return ""
					}
					for _, caller := range p.Funcs {
						for _, cb := range caller.Blocks {
							for _, ci := range cb.Instrs {
								if cc, ok := ci.(ssa.CallInstruction); ok && staticCallee(cc.Common()) == host && caller != host {
									if _, isDefer := ci.(*ssa.Defer); isDefer {
										continue
									}
									if r := walkAfter(ci, caller, depth+1); r != "" {
										return r
									}
								}
							}
						}
					}
					return ""
				}
				if r := walkAfter(ins, fn, 0); r != "" {
					bad = append(bad, r)
				}
			}
		}
	}
	c.Sites += n
	c.Check(len(bad) == 0 && n > 0, "C17-WHEN", "valid", "after-the-walk", token.NoPos, fmt.Sprintf("%d invocations of the group evaluation, none inside a walk", n), uniqJoin(bad, 3))
}
