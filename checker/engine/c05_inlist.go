package engine

import (
	"fmt"
	"go/token"

	"golang.org/x/tools/go/ssa"
)

// C05-INLIST: which part of the rule's value in/include take for their option list, decided by
// segmented-string evaluation of `in` up to the call of the splitter (engine P with a probe). Every
// value text has one of the skeletons
//
//	A '(' B ')' C      A without '(', C without ')', B anything      -> options = B
//	A                  A without '('                                  -> configuration error
//	A '(' C            A without '(', C without ')'                   -> configuration error
//
// ("the first '(' and the last ')'": an option may itself contain parentheses, quoted). A parser
// that stops at the first ')' or starts at the last '(' is exposed by the on-demand refinement of B.
func runC05InList(c *Ctx) {
	p := c.P
	c.Rule("C05-INLIST", "in/include: the option list handed to the splitter is exactly the text between the first '(' and the last ')' of the rule's value, and a value without such a pair ends in the configuration-error clause without reaching the splitter (segmented-string evaluation up to the splitter call)", 3)
	fn := p.Func("valid", "in")
	if fn == nil {
		c.Unk("C05-INLIST", "valid.in", "anchor", token.NoPos, "option-list function not found")
		return
	}
	c.Funcs[fnName(fn)] = true
	type icase struct {
		family string
		items  []pItem
		want   [2]int // boundaries of the option list; -1: must not reach the splitter
	}
	var cases []icase
	opt := []bool{false, true}
	for _, ha := range opt {
		for _, hc := range opt {
			var a, cc []pItem
			if ha {
				a = []pItem{{name: "A", excl: "("}}
			}
			if hc {
				cc = []pItem{{name: "C", excl: ")"}}
			}
			for _, hb := range opt {
				it := append(append([]pItem{}, a...), pItem{lit: '('})
				lo := len(it)
				if hb {
					it = append(it, pItem{name: "B"})
				}
				hi := len(it)
				it = append(it, pItem{lit: ')'})
				it = append(it, cc...)
				cases = append(cases, icase{"list", it, [2]int{lo, hi}})
			}
			// '(' but no ')' after it
			it := append(append(append([]pItem{}, a...), pItem{lit: '('}), cc...)
			cases = append(cases, icase{"no-closing", it, [2]int{-1, -1}})
		}
		if ha {
			cases = append(cases, icase{"no-opening", []pItem{{name: "A", excl: "("}}, [2]int{-1, -1}})
		} else {
			cases = append(cases, icase{"no-opening", nil, [2]int{-1, -1}})
		}
	}
	bad := map[string][]string{}
	und := map[string][]string{}
	npaths := 0
	for _, key := range []string{"in", "include"} {
		type work struct {
			ic    icase
			depth int
		}
		var queue []work
		for _, ic := range cases {
			queue = append(queue, work{ic, 0})
		}
		for len(queue) > 0 {
			w := queue[0]
			queue = queue[1:]
			ic := w.ic
			e := &pEval{p: p, fn: fn, items: ic.items, touched: map[ssa.Instruction]bool{}, unsafeI: map[ssa.Instruction]bool{}, probe: "valid.ValidNamesSplit", probeIdx: 0, forkEnv: true}
			e.model = func(call *ssa.Call) (pVal, bool) {
				if calleeName(&call.Call) == "valid.ParseValidNameKV" {
					return pTuple{pStr{[]pPart{{kind: 1, s: key}}}, e.norm(pStr{[]pPart{{kind: 0, a: 0, b: len(ic.items)}}}), pStr{}}, true
				}
				return nil, false
			}
			// the function's own text parameter is the whole rule item, not the value: make it opaque
			e.runWithParams(map[int]pVal{})
			if e.refine != nil && w.depth < 4 {
				undec := false
				for _, r := range e.results {
					undec = undec || r.undecided != ""
				}
				if undec {
					for _, items := range refineItems(ic.items, *e.refine) {
						shift := len(items) - len(ic.items)
						want := ic.want
						for i := range want {
							if want[i] > e.refine.item {
								want[i] += shift
							}
						}
						queue = append(queue, work{icase{ic.family, items, want}, w.depth + 1})
					}
					continue
				}
			}
			sk := skeletonText(ic.items)
			wantTxt := ""
			if ic.want[0] >= 0 {
				wantTxt = e.canon(pStr{[]pPart{{kind: 0, a: ic.want[0], b: ic.want[1]}}})
			}
			reached := 0
			for _, r := range e.results {
				npaths++
				switch {
				case r.undecided != "":
					und[ic.family] = append(und[ic.family], "for values "+sk+": "+r.undecided)
				case len(r.unsafe) > 0:
					bad[ic.family] = append(bad[ic.family], "for values "+sk+" the rule can panic: "+r.unsafe[0])
				case r.probed && ic.want[0] < 0:
					bad[ic.family] = append(bad[ic.family], fmt.Sprintf("for values %s (no '(' … ')' pair) the options %s are evaluated instead of reporting the configuration error", sk, orEmpty(r.probeArg)))
				case r.probed:
					reached++
					if r.probeArg != wantTxt {
						bad[ic.family] = append(bad[ic.family], fmt.Sprintf("for values %s the option list is %s, want %s (first '(' to last ')')", sk, orEmpty(r.probeArg), orEmpty(wantTxt)))
					}
				}
			}
			if ic.want[0] >= 0 && reached == 0 && len(und[ic.family]) == 0 && len(bad[ic.family]) == 0 {
				bad[ic.family] = append(bad[ic.family], "for values "+sk+" the options are never evaluated")
			}
		}
	}
	c.Sites += npaths
	for _, fam := range []string{"list", "no-closing", "no-opening"} {
		switch {
		case len(bad[fam]) > 0:
			c.Bad("C05-INLIST", fnName(fn), fam, fn.Pos(), uniqJoin(bad[fam], 3))
		case len(und[fam]) > 0:
			c.Unk("C05-INLIST", fnName(fn), fam, fn.Pos(), uniqJoin(und[fam], 2))
		default:
			c.OK("C05-INLIST", fnName(fn), fam, fn.Pos(), "every path over every skeleton of this family agrees with the specification")
		}
	}
}
