package engine

import (
	_ "embed"
	"encoding/json"
	"fmt"
	"go/ast"
	"go/types"
	"os"
	"sort"
	"strings"

	"golang.org/x/tools/go/packages"
)

// Rename normalisation. The rules of this checker are anchored on the names of unexported
// functions, methods, struct fields, parameters and named results of the repository (exported
// names are API and cannot change silently). A pure renaming must not turn into "anchor
// unresolved", so before analysis every such renaming relative to the baseline table
// (baseline.json, generated from the tree the rules were written against with
// `pgv -debug baseline`) is undone on an in-memory overlay:
//
//   function/method  a baseline function that is missing + exactly one function of the same
//                    package and receiver, with the same parameter and result types, whose name
//                    the baseline does not know  => renamed; all identifiers resolving to it are
//                    rewritten to the baseline name
//   struct field     same, per struct type and field type
//   parameter/result for a function present in the baseline with the same arity: positional names
//
// Only identifiers are rewritten; if the rewritten tree does not type-check (a clash), the
// normalisation is abandoned and the tree is analysed as it is.

//go:embed baseline.json
var baselineJSON []byte

type baseFunc struct {
	Pkg     string   `json:"pkg"`
	Recv    string   `json:"recv"`
	Name    string   `json:"name"`
	Sig     string   `json:"sig"`
	Params  []string `json:"params"`
	Results []string `json:"results"`
	Ord     int      `json:"ord"` // rank of the declaration in the package (file name, offset)
	RecvVar string   `json:"recvvar"`
}

type baseField struct {
	Pkg   string `json:"pkg"`
	Type  string `json:"type"`
	Name  string `json:"name"`
	FType string `json:"ftype"`
	Ord   int    `json:"ord"` // field index
}

type baseVar struct {
	Pkg  string `json:"pkg"`
	Name string `json:"name"`
	Type string `json:"type"`
	Ord  int    `json:"ord"`
	Init string `json:"init"` // source text of the initialiser, if any
}

type baseType struct {
	Pkg     string   `json:"pkg"`
	Name    string   `json:"name"`
	Shape   string   `json:"shape"` // underlying type with field types only (field names elided for structs)
	Methods []string `json:"methods"`
}

type baseTable struct {
	Funcs  []baseFunc  `json:"funcs"`
	Fields []baseField `json:"fields"`
	Vars   []baseVar   `json:"vars"`
	Types  []baseType  `json:"types"`
}

// typeShape: the underlying type, with struct field names elided (field renames are handled separately).
func typeShape(t types.Type, q types.Qualifier) string {
	if st, ok := t.Underlying().(*types.Struct); ok {
		var fs []string
		for i := 0; i < st.NumFields(); i++ {
			fs = append(fs, types.TypeString(st.Field(i).Type(), q))
		}
		return "struct{" + strings.Join(fs, "; ") + "}"
	}
	return types.TypeString(t.Underlying(), q)
}

func methodNames(tn *types.TypeName) []string {
	var out []string
	if n, ok := tn.Type().(*types.Named); ok {
		for i := 0; i < n.NumMethods(); i++ {
			out = append(out, n.Method(i).Name())
		}
	}
	sort.Strings(out)
	return out
}

func loadBaseline() *baseTable {
	var t baseTable
	if err := json.Unmarshal(baselineJSON, &t); err != nil {
		return &baseTable{}
	}
	return &t
}

func relQualifier(pk *types.Package) types.Qualifier {
	return func(o *types.Package) string {
		if o == pk {
			return ""
		}
		return o.Path()
	}
}

func sigString(sig *types.Signature, q types.Qualifier) string {
	var ps, rs []string
	for i := 0; i < sig.Params().Len(); i++ {
		t := types.TypeString(sig.Params().At(i).Type(), q)
		if sig.Variadic() && i == sig.Params().Len()-1 {
			t = "..." + strings.TrimPrefix(t, "[]")
		}
		ps = append(ps, t)
	}
	for i := 0; i < sig.Results().Len(); i++ {
		rs = append(rs, types.TypeString(sig.Results().At(i).Type(), q))
	}
	return "(" + strings.Join(ps, ", ") + ") (" + strings.Join(rs, ", ") + ")"
}

func recvName(sig *types.Signature) string {
	if sig.Recv() == nil {
		return ""
	}
	if n := namedOf(sig.Recv().Type()); n != nil {
		return n.Obj().Name()
	}
	return "?"
}

// declaredFuncs: package-level functions and methods declared in a package's own files.
func declaredFuncs(pk *packages.Package) []*types.Func {
	var out []*types.Func
	for _, f := range pk.Syntax {
		for _, d := range f.Decls {
			fd, ok := d.(*ast.FuncDecl)
			if !ok {
				continue
			}
			if obj, ok := pk.TypesInfo.Defs[fd.Name].(*types.Func); ok {
				out = append(out, obj)
			}
		}
	}
	return out
}

// BaselineOf dumps the baseline table of a loaded program (pgv -debug baseline).
func BaselineOf(p *Prog) []byte {
	var t baseTable
	var paths []string
	for path := range p.Pkgs {
		paths = append(paths, path)
	}
	sort.Strings(paths)
	for _, path := range paths {
		pk := p.Pkgs[path]
		q := relQualifier(pk.Types)
		dfs := declaredFuncs(pk)
		sort.SliceStable(dfs, func(i, j int) bool { return posKey(p, pk, dfs[i]) < posKey(p, pk, dfs[j]) })
		for ord, fn := range dfs {
			sig := fn.Type().(*types.Signature)
			bf := baseFunc{Pkg: Rel(path), Recv: recvName(sig), Name: fn.Name(), Sig: sigString(sig, q), Ord: ord}
			if sig.Recv() != nil {
				bf.RecvVar = sig.Recv().Name()
			}
			for i := 0; i < sig.Params().Len(); i++ {
				bf.Params = append(bf.Params, sig.Params().At(i).Name())
			}
			for i := 0; i < sig.Results().Len(); i++ {
				bf.Results = append(bf.Results, sig.Results().At(i).Name())
			}
			t.Funcs = append(t.Funcs, bf)
		}
		scope := pk.Types.Scope()
		for _, name := range scope.Names() {
			tn, ok := scope.Lookup(name).(*types.TypeName)
			if !ok {
				continue
			}
			st, ok := tn.Type().Underlying().(*types.Struct)
			if !ok {
				continue
			}
			for i := 0; i < st.NumFields(); i++ {
				f := st.Field(i)
				t.Fields = append(t.Fields, baseField{Pkg: Rel(path), Type: name, Name: f.Name(), FType: types.TypeString(f.Type(), q), Ord: i})
			}
		}
		inits := varInits(p, pk)
		var vobjs []types.Object
		for _, name := range scope.Names() {
			if o, ok := scope.Lookup(name).(*types.Var); ok {
				vobjs = append(vobjs, o)
			}
		}
		sort.SliceStable(vobjs, func(i, j int) bool { return posKey(p, pk, vobjs[i]) < posKey(p, pk, vobjs[j]) })
		vord := map[types.Object]int{}
		for i, o := range vobjs {
			vord[o] = i
		}
		for _, name := range scope.Names() {
			switch o := scope.Lookup(name).(type) {
			case *types.Var:
				t.Vars = append(t.Vars, baseVar{Pkg: Rel(path), Name: name, Type: types.TypeString(o.Type(), q), Ord: vord[o], Init: inits[o]})
			case *types.TypeName:
				if !o.IsAlias() {
					t.Types = append(t.Types, baseType{Pkg: Rel(path), Name: name, Shape: typeShape(o.Type(), q), Methods: methodNames(o)})
				}
			}
		}
	}
	sort.Slice(t.Funcs, func(i, j int) bool {
		a, b := t.Funcs[i], t.Funcs[j]
		return a.Pkg+"/"+a.Recv+"."+a.Name < b.Pkg+"/"+b.Recv+"."+b.Name
	})
	b, _ := json.MarshalIndent(t, "", " ")
	return b
}

type renameEdit struct {
	file     string
	off, len int
	to       string
}

// renameBack returns overlay contents undoing pure renamings, and a description of each.
func renameBack(p *Prog) (map[string][]byte, []string) {
	base := loadBaseline()
	if len(base.Funcs) == 0 {
		return nil, nil
	}
	renames := map[types.Object]string{}
	var notes []string
	for path, pk := range p.Pkgs {
		rel := Rel(path)
		q := relQualifier(pk.Types)
		cur := declaredFuncs(pk)
		curByKey := map[string]*types.Func{}
		for _, fn := range cur {
			sig := fn.Type().(*types.Signature)
			curByKey[recvName(sig)+"."+fn.Name()] = fn
		}
		baseNames := map[string]bool{}
		for _, bf := range base.Funcs {
			if bf.Pkg == rel {
				baseNames[bf.Recv+"."+bf.Name] = true
			}
		}
		// ---- functions and methods
		type fclass struct{ recv, sig string }
		fMissing := map[fclass][]pairMissing{}
		fCands := map[fclass][]pairCand{}
		for _, bf := range base.Funcs {
			if bf.Pkg != rel || ast.IsExported(bf.Name) {
				continue
			}
			if _, present := curByKey[bf.Recv+"."+bf.Name]; present {
				continue
			}
			k := fclass{bf.Recv, bf.Sig}
			fMissing[k] = append(fMissing[k], pairMissing{name: bf.Name, ord: bf.Ord})
		}
		for _, fn := range cur {
			sig := fn.Type().(*types.Signature)
			if baseNames[recvName(sig)+"."+fn.Name()] || ast.IsExported(fn.Name()) {
				continue
			}
			k := fclass{recvName(sig), sigString(sig, q)}
			fCands[k] = append(fCands[k], pairCand{obj: fn, key: posKey(p, pk, fn)})
		}
		for k, ms := range fMissing {
			for o, name := range pairRenamed(ms, fCands[k]) {
				renames[o] = name
				notes = append(notes, fmt.Sprintf("%s: %s.%s <- %s", rel, k.recv, name, o.Name()))
			}
		}
		// ---- struct fields
		scope := pk.Types.Scope()
		for _, tname := range scope.Names() {
			tn, ok := scope.Lookup(tname).(*types.TypeName)
			if !ok {
				continue
			}
			st, ok := tn.Type().Underlying().(*types.Struct)
			if !ok {
				continue
			}
			baseF := map[string]string{} // name -> type
			for _, f := range base.Fields {
				if f.Pkg == rel && f.Type == tname {
					baseF[f.Name] = f.FType
				}
			}
			if len(baseF) == 0 {
				continue
			}
			curF := map[string]*types.Var{}
			for i := 0; i < st.NumFields(); i++ {
				curF[st.Field(i).Name()] = st.Field(i)
			}
			baseOrd := map[string]int{}
			for _, f := range base.Fields {
				if f.Pkg == rel && f.Type == tname {
					baseOrd[f.Name] = f.Ord
				}
			}
			flMissing := map[string][]pairMissing{}
			flCands := map[string][]pairCand{}
			for bn, bt := range baseF {
				if _, present := curF[bn]; present || ast.IsExported(bn) {
					continue
				}
				flMissing[bt] = append(flMissing[bt], pairMissing{name: bn, ord: baseOrd[bn]})
			}
			for i := 0; i < st.NumFields(); i++ {
				cv := st.Field(i)
				if _, known := baseF[cv.Name()]; known || ast.IsExported(cv.Name()) {
					continue
				}
				ft := types.TypeString(cv.Type(), q)
				flCands[ft] = append(flCands[ft], pairCand{obj: cv, key: fmt.Sprintf("%09d", i)})
			}
			for bt, ms := range flMissing {
				for o, name := range pairRenamed(ms, flCands[bt]) {
					renames[o] = name
					notes = append(notes, fmt.Sprintf("%s: %s.%s <- %s", rel, tname, name, o.Name()))
				}
			}
		}
	}
	// ---- package-level variables and named types
	for path, pk := range p.Pkgs {
		rel := Rel(path)
		q := relQualifier(pk.Types)
		scope := pk.Types.Scope()
		baseV := map[string]string{}
		for _, v := range base.Vars {
			if v.Pkg == rel {
				baseV[v.Name] = v.Type
			}
		}
		inits := varInits(p, pk)
		vMissing := map[string][]pairMissing{}
		vCands := map[string][]pairCand{}
		for _, v := range base.Vars {
			if v.Pkg != rel || scope.Lookup(v.Name) != nil || ast.IsExported(v.Name) {
				continue
			}
			vMissing[v.Type] = append(vMissing[v.Type], pairMissing{name: v.Name, ord: v.Ord, init: v.Init})
		}
		for _, cn := range scope.Names() {
			cv, ok := scope.Lookup(cn).(*types.Var)
			if !ok || ast.IsExported(cn) {
				continue
			}
			if _, known := baseV[cn]; known {
				continue
			}
			vt := types.TypeString(cv.Type(), q)
			vCands[vt] = append(vCands[vt], pairCand{obj: cv, key: posKey(p, pk, cv), init: inits[cv]})
		}
		for vt, ms := range vMissing {
			for o, name := range pairRenamed(ms, vCands[vt]) {
				renames[o] = name
				notes = append(notes, fmt.Sprintf("%s: var %s <- %s", rel, name, o.Name()))
			}
		}
		baseT := map[string]baseType{}
		for _, t := range base.Types {
			if t.Pkg == rel {
				baseT[t.Name] = t
			}
		}
		for bn, bt := range baseT {
			if scope.Lookup(bn) != nil || ast.IsExported(bn) {
				continue
			}
			var cands []types.Object
			for _, cn := range scope.Names() {
				ct, ok := scope.Lookup(cn).(*types.TypeName)
				if !ok || ast.IsExported(cn) || ct.IsAlias() {
					continue
				}
				if _, known := baseT[cn]; known {
					continue
				}
				// the shape may mention the type's own (new) name: compare after substituting it
				shape := strings.ReplaceAll(typeShape(ct.Type(), q), cn, bn)
				if shape == bt.Shape && len(methodNames(ct)) == len(bt.Methods) {
					cands = append(cands, ct)
				}
			}
			if len(cands) == 1 {
				renames[cands[0]] = bn
				notes = append(notes, fmt.Sprintf("%s: type %s <- %s", rel, bn, cands[0].Name()))
			}
		}
	}
	// ---- parameters and named results (after function renames: match by baseline name)
	for path, pk := range p.Pkgs {
		rel := Rel(path)
		for _, fn := range declaredFuncs(pk) {
			sig := fn.Type().(*types.Signature)
			name := fn.Name()
			if old, ok := renames[fn]; ok {
				name = old
			}
			var bf *baseFunc
			for i := range base.Funcs {
				if base.Funcs[i].Pkg == rel && base.Funcs[i].Recv == recvName(sig) && base.Funcs[i].Name == name {
					bf = &base.Funcs[i]
				}
			}
			if bf == nil || len(bf.Params) != sig.Params().Len() || len(bf.Results) != sig.Results().Len() {
				continue
			}
			fnScope := fn.Scope()
			try := func(v *types.Var, want string) {
				if v.Name() == want || want == "" || want == "_" || v.Name() == "" || v.Name() == "_" {
					return
				}
				// clash: the baseline name is already used for something else inside the function
				if fnScope != nil {
					if _, o := fnScope.LookupParent(want, fnScope.End()-1); o != nil && o.Parent() != types.Universe && o.Pkg() == pk.Types && o.Parent() != pk.Types.Scope() {
						return
					}
					clash := false
					var visit func(s *types.Scope)
					visit = func(s *types.Scope) {
						if s.Lookup(want) != nil {
							clash = true
						}
						for i := 0; i < s.NumChildren(); i++ {
							visit(s.Child(i))
						}
					}
					visit(fnScope)
					if clash {
						return
					}
				}
				renames[v] = want
				notes = append(notes, fmt.Sprintf("%s: %s.%s parameter/result %s <- %s", rel, bf.Recv, bf.Name, want, v.Name()))
			}
			if sig.Recv() != nil {
				try(sig.Recv(), bf.RecvVar)
			}
			for i := 0; i < sig.Params().Len(); i++ {
				try(sig.Params().At(i), bf.Params[i])
			}
			for i := 0; i < sig.Results().Len(); i++ {
				try(sig.Results().At(i), bf.Results[i])
			}
		}
	}
	if len(renames) == 0 {
		return nil, nil
	}
	// ---- rewrite identifiers
	var edits []renameEdit
	for _, pk := range p.Pkgs {
		add := func(id *ast.Ident, o types.Object) {
			to, ok := renames[o]
			if !ok || id.Name == to {
				return
			}
			pos := pk.Fset.Position(id.Pos())
			edits = append(edits, renameEdit{pos.Filename, pos.Offset, len(id.Name), to})
		}
		for id, o := range pk.TypesInfo.Defs {
			if o != nil {
				add(id, o)
			}
		}
		for id, o := range pk.TypesInfo.Uses {
			add(id, o)
		}
	}
	byFile := map[string][]renameEdit{}
	for _, e := range edits {
		byFile[e.file] = append(byFile[e.file], e)
	}
	out := map[string][]byte{}
	for file, es := range byFile {
		src, ok := p.Cfg.Overlay[file]
		if !ok {
			b, err := os.ReadFile(file)
			if err != nil {
				return nil, nil
			}
			src = b
		}
		sort.Slice(es, func(i, j int) bool { return es[i].off > es[j].off })
		buf := append([]byte{}, src...)
		last := -1
		for _, e := range es {
			if e.off == last {
				continue
			}
			last = e.off
			if e.off+e.len > len(buf) {
				return nil, nil
			}
			buf = append(buf[:e.off], append([]byte(e.to), buf[e.off+e.len:]...)...)
		}
		out[file] = buf
	}
	sort.Strings(notes)
	return out, notes
}

// posLess orders declarations by file base name, then offset.
func posKey(p *Prog, pk *packages.Package, o types.Object) string {
	ps := pk.Fset.Position(o.Pos())
	f := ps.Filename
	if i := strings.LastIndex(f, "/"); i >= 0 {
		f = f[i+1:]
	}
	return fmt.Sprintf("%s:%09d", f, ps.Offset)
}

// varInits: source text of the initialiser of every package-level variable declared with one.
func varInits(p *Prog, pk *packages.Package) map[types.Object]string {
	out := map[types.Object]string{}
	for _, f := range pk.Syntax {
		fname := pk.Fset.Position(f.Pos()).Filename
		var src []byte
		if b, ok := p.Cfg.Overlay[fname]; ok {
			src = b
		} else if b, err := os.ReadFile(fname); err == nil {
			src = b
		}
		for _, d := range f.Decls {
			gd, ok := d.(*ast.GenDecl)
			if !ok {
				continue
			}
			for _, sp := range gd.Specs {
				vs, ok := sp.(*ast.ValueSpec)
				if !ok || len(vs.Values) != len(vs.Names) {
					continue
				}
				for i, n := range vs.Names {
					o := pk.TypesInfo.Defs[n]
					if o == nil {
						continue
					}
					a, b := pk.Fset.Position(vs.Values[i].Pos()).Offset, pk.Fset.Position(vs.Values[i].End()).Offset
					if a >= 0 && b <= len(src) && a < b {
						out[o] = string(src[a:b])
					}
				}
			}
		}
	}
	return out
}

type pairMissing struct {
	name string
	ord  int
	init string
}

type pairCand struct {
	obj  types.Object
	key  string // posKey
	init string
}

// pairRenamed matches the baseline names of one class (same receiver and signature, same struct and
// field type, same variable type) that are missing from the tree with the declarations of that class
// the baseline does not know. One of each: paired. Several of each, equally many: paired by equal
// initialiser text when that is a bijection, else by declaration order. Otherwise nothing is paired.
func pairRenamed(missing []pairMissing, cands []pairCand) map[types.Object]string {
	out := map[types.Object]string{}
	if len(missing) == 0 || len(missing) != len(cands) {
		return out
	}
	if len(missing) == 1 {
		out[cands[0].obj] = missing[0].name
		return out
	}
	byInit := map[string][]int{}
	for i, m := range missing {
		byInit[m.init] = append(byInit[m.init], i)
	}
	ok := true
	tmp := map[types.Object]string{}
	used := map[int]bool{}
	for _, c := range cands {
		is := byInit[c.init]
		if c.init == "" || len(is) != 1 || used[is[0]] {
			ok = false
			break
		}
		used[is[0]] = true
		tmp[c.obj] = missing[is[0]].name
	}
	if ok {
		return tmp
	}
	sort.Slice(missing, func(i, j int) bool { return missing[i].ord < missing[j].ord })
	sort.Slice(cands, func(i, j int) bool { return cands[i].key < cands[j].key })
	for i := range missing {
		out[cands[i].obj] = missing[i].name
	}
	return out
}
