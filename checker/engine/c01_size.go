package engine

import (
	"fmt"
	"go/constant"
	"go/token"
	"go/types"
	"reflect"
	"regexp"
	"sort"
	"strings"

	"golang.org/x/tools/go/ssa"
)

// C01 — size/comparison rules. Finite abstract domain: the measure of the value is a token
// (runes, bytes, int, uint, float, len); each integer bound is a token identified by the
// expression that parsed it; the relation measure-vs-bound is one of three order classes
// and the bound has one of three signs. Every comparison the code performs is resolved in
// that domain, so the verdict of every rule x kind x order class x sign is computed
// exactly; it is compared with the specification table below.

func init() {
	register(&PropDef{
		ID: "C01",
		Explain: "Path-sensitive abstract interpretation of each of the eight size/comparison rule functions taken from the rule table (helpers inlined), " +
			"enumerating completely: 26 reflect kinds x order class of the measure against each bound (<,=,>; 9 combinations for two bounds, which includes min>max) x sign of each bound x custom message present/absent. " +
			"The verdict computed for every abstract case is compared with the specification table (to/ge/le inclusive, oto/gt/lt exclusive, eq/noeq equality), " +
			"the measure used must be the documented one per kind (rune count, Int, Uint, Float, Len), conversions of bounds must be order preserving on the compared range (a negative bound converted to an unsigned type is modelled as a huge value), " +
			"and bounds must come from the value part of the rule text split at '~' in the right order. Every integer width is its own case, so a kind missing from a case list is found. " +
			"Not covered: which kinds the four entry points let through (C18/C03), malformed bounds (C13).",
		Assume:  []string{"reflect.Value accessors and strconv.Atoi behave as documented", "64-bit int on the default configuration (linux/386 analysed in the thorough tier)"},
		Trusted: []string{"go/types", "go/ssa", "specification table in c01_size.go (from README 4.2.1 and the property statement)"},
		Run: func(c *Ctx) {
			runC01(c)
			runC01Exact(c)
			importRules(c, "C18", func(s *Ctx) { runC18(s); runC18VarKinds(s); runFieldIdentity(s, "C18-FIELDID") }, "C01-ENTRY", "the value measured is the one the caller supplied, through every entry point: URL values decoded exactly once from the caller's text and cut from their own parameter, struct fields read at their own offset, Var admits every numeric kind, all walkers follow the common skeleton (rules C18-URL, C18-FIELDID, C18-VARKINDS, C18-SKEL)", 6, ruleIn("C18-URL", "C18-FIELDID", "C18-VARKINDS", "C18-SKEL"))
			base(c, "DECLARED", "STATE", "ALIAS", "LOOP", "TEXT", "RULESRC", "EXPORT", "FACADE")
		},
	})
}

type sizeSpec struct {
	two    bool
	violIf func(lo, hi int) (viol, known bool) // order classes: 0 m<b, 1 m=b, 2 m>b, -1 not compared
}

var sizeSpecs = map[string]sizeSpec{
	"to": {two: true, violIf: func(lo, hi int) (bool, bool) {
		if lo == 0 || hi == 2 {
			return true, true
		}
		return false, lo >= 0 && hi >= 0
	}},
	"oto": {two: true, violIf: func(lo, hi int) (bool, bool) {
		if (lo == 0 || lo == 1) || (hi == 2 || hi == 1) {
			return true, true
		}
		return false, lo >= 0 && hi >= 0
	}},
	"ge":   {violIf: func(b, _ int) (bool, bool) { return b == 0, b >= 0 }},
	"gt":   {violIf: func(b, _ int) (bool, bool) { return b == 0 || b == 1, b >= 0 }},
	"le":   {violIf: func(b, _ int) (bool, bool) { return b == 2, b >= 0 }},
	"lt":   {violIf: func(b, _ int) (bool, bool) { return b == 2 || b == 1, b >= 0 }},
	"eq":   {violIf: func(b, _ int) (bool, bool) { return b != 1, b >= 0 }},
	"noeq": {violIf: func(b, _ int) (bool, bool) { return b == 1, b >= 0 }},
}

// expected measure per kind (kinds outside this table are outside the property's scope).
func expectedMeasure(k reflect.Kind) string {
	switch k {
	case reflect.String:
		return "runes"
	case reflect.Int, reflect.Int8, reflect.Int16, reflect.Int32, reflect.Int64:
		return "int"
	case reflect.Uint, reflect.Uint8, reflect.Uint16, reflect.Uint32, reflect.Uint64:
		return "uint"
	case reflect.Float32, reflect.Float64:
		return "float"
	case reflect.Slice:
		return "len"
	}
	return ""
}

var nonNegMeasure = map[string]bool{"runes": true, "bytes": true, "uint": true, "len": true}

var (
	reBoundTwo = regexp.MustCompile(`^strings\.Split\(valid\.ParseValidNameKV\(validName\)#1, "~"\)\[(0|1)\]$`)
	// the same two bounds cut out by index instead of Split: V[:Index(V,'~')] and V[Index(V,'~')+1:]
	reBoundLoIdx = regexp.MustCompile(`^valid\.ParseValidNameKV\(validName\)#1\[:strings\.(?:Last)?Index(?:Byte)?\(valid\.ParseValidNameKV\(validName\)#1, (?:126|"~")\)\]$`)
	reBoundHiIdx = regexp.MustCompile(`^valid\.ParseValidNameKV\(validName\)#1\[\(strings\.(?:Last)?Index(?:Byte)?\(valid\.ParseValidNameKV\(validName\)#1, (?:126|"~")\) \+ 1\):\]$`)
	reBoundOne   = regexp.MustCompile(`^valid\.ParseValidNameKV\(validName\)#1$`)
)

// sizeDomain installs the measure/bound domain on an interpreter.
func sizeDomain(re *RuleEnv) {
	in := re.In
	convChain := func(t Tok, to types.Type) Tok {
		n := Tok{Dom: t.Dom, Name: t.Name}
		n.Args = append(append([]AVal{}, t.Args...), cstStr(shortType(to.Underlying().String())))
		return n
	}
	in.ConvHook = func(in *Interp, x AVal, to types.Type) (AVal, bool) {
		if t, ok := x.(Tok); ok && (t.Dom == "meas" || t.Dom == "bnd") {
			return convChain(t, to), true
		}
		if s, ok := x.(Sym); ok {
			if sl, ok := to.Underlying().(*types.Slice); ok {
				if b, ok := sl.Elem().Underlying().(*types.Basic); ok && b.Kind() == types.Int32 && strings.HasSuffix(s.K, ".String()") {
					return Tok{Dom: "runes", Name: s.K}, true
				}
			}
		}
		return nil, false
	}
	in.LenHook = func(in *Interp, x AVal) (AVal, bool) {
		switch v := x.(type) {
		case Tok:
			if v.Dom == "runes" && v.Name == "tv.String()" {
				return Tok{Dom: "meas", Name: "runes"}, true
			}
		case Sym:
			if v.K == "tv.String()" {
				return Tok{Dom: "meas", Name: "bytes"}, true
			}
		}
		return nil, false
	}
	in.Models["unicode/utf8.RuneCountInString"] = func(in *Interp, site ssa.Instruction, cc *ssa.CallCommon, a []AVal) (AVal, bool) {
		if keyOf(a[0]) == "tv.String()" {
			return Tok{Dom: "meas", Name: "runes"}, true
		}
		return nil, false
	}
	in.Models["strconv.Atoi"] = func(in *Interp, site ssa.Instruction, cc *ssa.CallCommon, a []AVal) (AVal, bool) {
		k := keyOf(a[0])
		return Tup{E: []AVal{Tok{Dom: "bnd", Name: k}, Sym{K: "strconv.Atoi(" + k + ")#1", T: types.Universe.Lookup("error").Type()}}}, true
	}
	base := in.Models["(reflect.Value).Int"]
	for _, m := range []struct{ method, meas string }{{"Int", "int"}, {"Uint", "uint"}, {"Float", "float"}, {"Len", ""}} {
		m := m
		orig := in.Models["(reflect.Value)."+m.method]
		_ = base
		in.Models["(reflect.Value)."+m.method] = func(in *Interp, site ssa.Instruction, cc *ssa.CallCommon, a []AVal) (AVal, bool) {
			r, ok := orig(in, site, cc, a) // precondition check
			if !ok || keyOf(a[0]) != "tv" {
				return r, ok
			}
			name := m.meas
			if m.method == "Len" {
				k := re.chooseKind(in, a[0])
				switch reflect.Kind(k) {
				case reflect.String:
					name = "bytes"
				case reflect.Slice:
					name = "len"
				default:
					name = "len-" + kindNames[k]
				}
			}
			return Tok{Dom: "meas", Name: name}, true
		}
	}
	in.BinHook = func(in *Interp, op token.Token, x, y AVal) (AVal, bool) {
		tx, okx := x.(Tok)
		ty, oky := y.(Tok)
		isCmp := op == token.EQL || op == token.NEQ || op == token.LSS || op == token.LEQ || op == token.GTR || op == token.GEQ
		if !isCmp {
			return nil, false
		}
		flip := map[token.Token]token.Token{token.LSS: token.GTR, token.GTR: token.LSS, token.LEQ: token.GEQ, token.GEQ: token.LEQ, token.EQL: token.EQL, token.NEQ: token.NEQ}
		switch {
		case okx && oky && tx.Dom == "meas" && ty.Dom == "bnd":
			return sizeCompare(in, op, tx, ty), true
		case okx && oky && tx.Dom == "bnd" && ty.Dom == "meas":
			return sizeCompare(in, flip[op], ty, tx), true
		case okx && tx.Dom == "bnd" && oky && ty.Dom == "bnd":
			return boundCompare(in, op, tx, ty), true
		case okx && tx.Dom == "bnd":
			if c, ok := y.(Cst); ok && c.V != nil && constant.Sign(c.V) == 0 {
				return boundSign(in, op, tx), true
			}
		case oky && ty.Dom == "bnd":
			if c, ok := x.(Cst); ok && c.V != nil && constant.Sign(c.V) == 0 {
				return boundSign(in, flip[op], ty), true
			}
		}
		return nil, false
	}
}

func lastConv(t Tok) string {
	if len(t.Args) == 0 {
		return ""
	}
	s, _ := isCstStr(t.Args[len(t.Args)-1])
	return s
}

// sizeCompare resolves `measure op bound` in the order-class domain.
func sizeCompare(in *Interp, op token.Token, m, b Tok) AVal {
	in.Emit("cmp", nil, m, b)
	sgn := in.Choose("sgn("+b.Name+")", 3) // 0 negative, 1 zero, 2 positive
	ord := in.Choose("ord("+b.Name+")", 3) // 0 m<b, 1 m=b, 2 m>b
	// conversions of the bound
	huge := false
	for _, a := range b.Args {
		cv, _ := isCstStr(a)
		switch cv {
		case "int", "int64", "float64":
		case "uint", "uint64", "uintptr":
			if sgn == 0 {
				huge = true
			}
		default: // narrowing or unknown conversion: not order preserving
			return Sym{K: "lossy(" + b.Key() + ")", T: types.Typ[types.Bool]}
		}
	}
	// conversions of the measure
	for _, a := range m.Args {
		cv, _ := isCstStr(a)
		switch {
		case cv == "float64":
		case (cv == "int" || cv == "int64") && m.Name != "uint" && m.Name != "float": // float -> int truncates, uint64 -> int64 wraps
		case (cv == "uint" || cv == "uint64") && nonNegMeasure[m.Name]:
		default:
			return Sym{K: "lossy(" + m.Key() + ")", T: types.Typ[types.Bool]}
		}
	}
	if huge {
		ord = 0 // every representable measure is below 2^64-|b|
		in.Emit("huge", nil, m, b)
	}
	var r bool
	switch op {
	case token.LSS:
		r = ord == 0
	case token.LEQ:
		r = ord <= 1
	case token.GTR:
		r = ord == 2
	case token.GEQ:
		r = ord >= 1
	case token.EQL:
		r = ord == 1
	case token.NEQ:
		r = ord != 1
	}
	return cstBool(r)
}

func boundSign(in *Interp, op token.Token, b Tok) AVal {
	sgn := in.Choose("sgn("+b.Name+")", 3) - 1 // -1,0,1
	var r bool
	switch op {
	case token.LSS:
		r = sgn < 0
	case token.LEQ:
		r = sgn <= 0
	case token.GTR:
		r = sgn > 0
	case token.GEQ:
		r = sgn >= 0
	case token.EQL:
		r = sgn == 0
	case token.NEQ:
		r = sgn != 0
	}
	return cstBool(r)
}

// boundCompare: lo vs hi, derived from their order classes against the measure when possible.
func boundCompare(in *Interp, op token.Token, a, b Tok) AVal {
	pa := 1 - in.Choose("ord("+a.Name+")", 3) // +1: bound above m, 0 equal, -1 below
	pb := 1 - in.Choose("ord("+b.Name+")", 3)
	var c int // sign(a-b)
	switch {
	case pa != pb:
		if pa > pb {
			c = 1
		} else {
			c = -1
		}
	case pa == 0:
		c = 0
	default:
		c = in.Choose("bcmp("+a.Name+","+b.Name+")", 3) - 1
	}
	var r bool
	switch op {
	case token.LSS:
		r = c < 0
	case token.LEQ:
		r = c <= 0
	case token.GTR:
		r = c > 0
	case token.GEQ:
		r = c >= 0
	case token.EQL:
		r = c == 0
	case token.NEQ:
		r = c != 0
	}
	return cstBool(r)
}

func runC01(c *Ctx) {
	p := c.P
	c.Rule("C01-ORD", "for every size rule x kind x order class x bound sign x custom-message presence: a verdict clause is written iff the specification table says the rule is violated; the measure compared is the documented one for the kind; bounds come from the value part split at '~' (lo first)", 8*13)
	reg, _, err := registryTable(p)
	if err != nil {
		c.Unk("C01-ORD", "-", "anchor", token.NoPos, "rule table unresolved: "+err.Error())
		return
	}
	total, cases := 0, 0
	samples := []string{}
	for _, e := range reg {
		spec, ok := sizeSpecs[e.Name]
		if !ok {
			continue
		}
		if e.Fn == nil {
			c.Bad("C01-ORD", e.Name, "anchor", e.Pos, "size rule has no function in the rule table")
			continue
		}
		c.Funcs[fnName(e.Fn)] = true
		re := &RuleEnv{In: NewInterp(p), Kinds: anyValidKind()}
		re.installCommonModels()
		sizeDomain(re)
		traces := re.In.Explore(e.Fn, ruleArgs(e.Fn), 20000)
		total += len(traces)
		// group problems per kind
		type agg struct {
			n   int
			bad []string
			unk []string
		}
		per := map[int]*agg{}
		for _, t := range traces {
			if t.Converged {
				continue
			}
			k, hasK := kindFromTrace(t, re.Kinds, "tv")
			if !hasK && t.Cut == "" && t.Panic == "" {
				onlyE := true
				for _, w := range writesOf(t, "errBuf") {
					if w.Class == "V" || w.Class == "M" {
						onlyE = false
					}
				}
				if onlyE && len(writesOf(t, "errBuf")) > 0 {
					continue // configuration error decided before looking at the value
				}
			}
			if !hasK {
				if t.Cut != "" {
					c.Unk("C01-ORD", e.Name, "explore", e.Fn.Pos(), t.Cut)
				} else {
					c.Bad("C01-ORD", e.Name, "no-kind-dispatch", e.Fn.Pos(), "a path decides the rule without consulting the kind of the value: "+t.Describe())
				}
				continue
			}
			want := expectedMeasure(reflect.Kind(k))
			if want == "" {
				continue // kind outside the property's quantifier
			}
			a := per[k]
			if a == nil {
				a = &agg{}
				per[k] = a
			}
			if t.Cut != "" {
				a.unk = append(a.unk, t.Cut)
				continue
			}
			if t.Panic != "" {
				a.bad = append(a.bad, "panic reachable: "+t.Panic+" at "+p.Pos(instrPos(t.PanicAt)))
				continue
			}
			ws := writesOf(t, "errBuf")
			nV, nE := 0, 0
			for _, w := range ws {
				switch w.Class {
				case "V", "M":
					nV++
				default:
					nE++
				}
			}
			if nE > 0 && nV == 0 {
				continue // configuration-error path (malformed bounds): C13's business
			}
			// bounds seen on this trace
			ordOf := map[string]int{"lo": -1, "hi": -1, "b": -1}
			sgnOf := map[string]int{"lo": -1, "hi": -1, "b": -1}
			unknownBound := ""
			for atom, v := range t.PC {
				var name string
				var isOrd bool
				switch {
				case strings.HasPrefix(atom, "ord("):
					name, isOrd = atom[4:len(atom)-1], true
				case strings.HasPrefix(atom, "sgn("):
					name = atom[4 : len(atom)-1]
				default:
					continue
				}
				role := ""
				if spec.two {
					if m := reBoundTwo.FindStringSubmatch(name); m != nil {
						role = map[string]string{"0": "lo", "1": "hi"}[m[1]]
					} else if reBoundLoIdx.MatchString(name) {
						role = "lo"
					} else if reBoundHiIdx.MatchString(name) {
						role = "hi"
					}
				} else if reBoundOne.MatchString(name) {
					role = "b"
				}
				if role == "" {
					unknownBound = name
					continue
				}
				if isOrd {
					ordOf[role] = v
				} else {
					sgnOf[role] = v
				}
			}
			if unknownBound != "" {
				a.bad = append(a.bad, "a bound compared with the measure does not come from the rule's value part ('lo~hi' split at '~', or the whole value for one-bound rules): "+unknownBound)
				continue
			}
			// measure check + infeasible combinations
			meas := ""
			wrong := ""
			for _, ev := range t.Events {
				if ev.Kind == "cmp" {
					m := ev.Args[0].(Tok)
					if meas == "" {
						meas = m.Name
					}
					if m.Name != want {
						wrong = m.Name
					}
				}
			}
			if wrong != "" {
				a.bad = append(a.bad, fmt.Sprintf("measure %q compared where the documented measure for kind %s is %q", wrong, kindNames[k], want))
				continue
			}
			infeasible := false
			for _, role := range []string{"lo", "hi", "b"} {
				// a non-negative measure is above every negative bound: the order class is
				// implied even when the code (rightly) never compares them
				if sgnOf[role] == 0 && nonNegMeasure[want] && ordOf[role] < 0 {
					ordOf[role] = 2
				}
			}
			for _, role := range []string{"lo", "hi", "b"} {
				if sgnOf[role] == 0 && nonNegMeasure[want] && ordOf[role] >= 0 && ordOf[role] != 2 {
					infeasible = true // negative bound, non-negative measure: only m>b exists
				}
			}
			if ordOf["lo"] >= 0 && ordOf["hi"] >= 0 {
				// lo/hi sign consistency with their order: nothing to exclude (min>max allowed)
			}
			if infeasible {
				continue
			}
			cases++
			a.n++
			var viol, known bool
			if spec.two {
				viol, known = spec.violIf(ordOf["lo"], ordOf["hi"])
			} else {
				viol, known = spec.violIf(ordOf["b"], -1)
			}
			desc := func() string {
				names := []string{"m<", "m=", "m>"}
				s := "kind " + kindNames[k]
				for _, role := range []string{"lo", "hi", "b"} {
					if ordOf[role] >= 0 {
						s += " " + names[ordOf[role]] + role
					}
					if sgnOf[role] == 0 {
						s += " (" + role + " negative)"
					}
				}
				return s
			}
			if len(samples) < 12 && a.n <= 1 {
				samples = append(samples, fmt.Sprintf("%s: %s -> expected violated=%v, clauses written=%d", e.Name, desc(), viol, nV))
			}
			switch {
			case !known && nV == 0:
				a.bad = append(a.bad, "verdict 'satisfied' reached without comparing the measure with every bound: "+desc())
			case !known:
				a.bad = append(a.bad, "clause written though no compared bound is violated: "+desc())
			case viol && nV == 0:
				a.bad = append(a.bad, "violated case produces no clause: "+desc())
			case !viol && nV > 0:
				a.bad = append(a.bad, "satisfied case produces a clause: "+desc())
			}
		}
		var ks []int
		for k := range per {
			ks = append(ks, k)
		}
		sort.Ints(ks)
		for _, k := range ks {
			a := per[k]
			disc := "kind:" + kindNames[k]
			switch {
			case len(a.unk) > 0:
				c.Unk("C01-ORD", e.Name, disc, e.Fn.Pos(), uniqJoin(a.unk, 3))
			case len(a.bad) > 0:
				c.Bad("C01-ORD", e.Name, disc, e.Fn.Pos(), uniqJoin(a.bad, 4))
			case a.n == 0:
				c.Bad("C01-ORD", e.Name, disc, e.Fn.Pos(), "no verdict path for this kind: the rule never compares a value of kind "+kindNames[k])
			default:
				c.OK("C01-ORD", e.Name, disc, e.Fn.Pos(), fmt.Sprintf("%d abstract cases agree with the specification table", a.n))
			}
		}
		for k := 1; k < len(kindNames); k++ {
			if expectedMeasure(reflect.Kind(k)) != "" && per[k] == nil {
				c.Bad("C01-ORD", e.Name, "kind:"+kindNames[k], e.Fn.Pos(), "kind not reached by any path of the rule function")
			}
		}
	}
	c.Sites += total
	c.Extra["abstract_cases"] = cases
	c.Extra["trace_partitions"] = total
	c.Extra["exhaustive"] = true
	c.Extra["case_samples"] = samples
}

func uniqJoin(xs []string, max int) string {
	seen := map[string]int{}
	var order []string
	for _, x := range xs {
		if seen[x] == 0 {
			order = append(order, x)
		}
		seen[x]++
	}
	var out []string
	for i, x := range order {
		if i >= max {
			out = append(out, fmt.Sprintf("… and %d more kinds of mismatch", len(order)-max))
			break
		}
		if seen[x] > 1 {
			out = append(out, fmt.Sprintf("%s (x%d)", x, seen[x]))
		} else {
			out = append(out, x)
		}
	}
	return strings.Join(out, " | ")
}
