package engine

import "testing"

func TestRx(t *testing.T) {
	cases := []struct {
		a, b string
		eq   bool
	}{
		{`^\d+$`, `^[0-9]+$`, true},
		{`^\d+$`, `^[0-9]*$`, false},
		{`^1[3,4,5,6,7,8,9]\d{9}$`, `^1[3-9][0-9]{9}$`, false},
		{`^1[3456789]\d{9}$`, `^1[3-9][0-9]{9}$`, true},
		{`(^\d{15}$)|(^\d{18}$)|(^\d{17}(\d|X|x)$)`, `^([0-9]{15}|[0-9]{17}[0-9Xx])$`, true},
		{`^\d+.\d+$`, `^[0-9]+\.[0-9]+$`, false},
		{`^\d+\.\d+$`, `^[0-9]+\.[0-9]+$`, true},
		{`abc`, `^.*abc.*$`, false}, // . excludes newline
		{`abc`, `(?s)^.*abc.*$`, true},
		{"`.+`$", "`[^\n]+`$", true},
		{"[一-龥]", `[\x{4e00}-\x{9fa5}]`, true},
		{`^(a|b)*$`, `^[ab]*$`, true},
		{`^a$`, `a$`, false},
	}
	for _, c := range cases {
		eq, w, _, err := RxEquivalent(c.a, c.b)
		if err != nil {
			t.Fatalf("%s vs %s: %v", c.a, c.b, err)
		}
		if eq != c.eq {
			t.Errorf("%s vs %s: got %v want %v (%s)", c.a, c.b, eq, c.eq, w)
		}
	}
}
