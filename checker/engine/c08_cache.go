package engine

import (
	"fmt"
	"go/token"
	"go/types"
	"regexp"
	"sort"
	"strings"

	"golang.org/x/tools/go/ssa"
)

func init() {
	register(&PropDef{
		ID: "C08",
		Explain: "Memoisation soundness as a dependency argument, for every history and every CacheEr: C08-KEY everything the stored per-type analysis depends on (besides effectively-constant globals) is part of the key it is stored and looked up under — today that is the struct type AND the requested tag name; " +
			"C08-MISS on a miss the freshly computed value is returned (one Load, no re-Load), so an always-forgetting or zero-capacity cache is equivalent, and the unchecked assertion on a hit is justified because every Store on that cache stores that type; " +
			"C08-COPY nothing is ever stored through memory reached from a cached value (per-call overrides go to a local copy); C08-ONCE the global cache is assigned only in package init and inside the once-guarded setter. " +
			"Not covered: purity of reflect.Type methods (trusted).",
		Assume:  []string{"reflect.Type methods are pure functions of the type"},
		Trusted: []string{"go/types", "go/ssa"},
		Run:     func(c *Ctx) { runC08(c); base(c, "STATE", "LRU", "FACADE") },
	})
}

var reRoot = regexp.MustCompile(`\b(v\.[A-Za-z_]\w*|ty\b|free:\w+)`)

func rootsOf(keys ...string) map[string]bool {
	out := map[string]bool{}
	for _, k := range keys {
		for _, m := range reRoot.FindAllString(k, -1) {
			out[m] = true
		}
	}
	return out
}

func runC08(c *Ctx) {
	p := c.P
	c.Rule("C08-KEY", "inputs of the value stored in the type cache ⊆ inputs of its key (same key for Load and Store)", 1)
	c.Rule("C08-MISS", "miss path returns the value just computed and stored; single Load; assertion on hit justified by who-stores", 2)
	c.Rule("C08-COPY", "no store through memory reachable from a value loaded out of the cache", 1)
	c.Rule("C08-ONCE", "the global cache variable is assigned only in package init and under sync.Once", 1)
	g := p.Global("valid", "cacheStructType")
	if g == nil {
		// role: the package-level variable of interface type CacheEr
		if sp := p.Pkg("valid"); sp != nil {
			for _, m := range sp.Members {
				if gv, ok := m.(*ssa.Global); ok && isNamed(gv.Type().(*types.Pointer).Elem(), ModPath+"/valid", "CacheEr") {
					g = gv
				}
			}
		}
	}
	if g == nil {
		c.Unk("C08-KEY", "-", "anchor", token.NoPos, "global type cache not found")
		return
	}
	gname := fnNameGlobal(g)
	// who loads/stores
	var users []*ssa.Function
	for _, fn := range p.Funcs {
		uses := false
		for _, b := range fn.Blocks {
			for _, ins := range b.Instrs {
				if u, ok := ins.(*ssa.UnOp); ok && u.X == g {
					for _, r := range refs(u) {
						if call, ok := r.(ssa.CallInstruction); ok && call.Common().IsInvoke() && (call.Common().Method.Name() == "Store" || call.Common().Method.Name() == "Load") {
							uses = true
						}
					}
				}
			}
		}
		if uses {
			users = append(users, fn)
		}
	}
	if len(users) == 0 {
		c.Unk("C08-KEY", "-", "anchor", token.NoPos, "no function loads from or stores to the type cache")
		return
	}
	for _, fn := range users {
		c.Funcs[fnName(fn)] = true
		w := NewWalkEnv(p)
		in := w.In
		in.TraceStores = true
		in.NoInline["valid.IsExported"] = true
		var asserted []string
		in.Models["invoke:Load@valid.CacheEr"] = func(in *Interp, site ssa.Instruction, cc *ssa.CallCommon, a []AVal) (AVal, bool) {
			in.Emit("cache-load", site, a[0], a[1])
			k := "cached(" + keyOf(a[1]) + ")"
			return Tup{E: []AVal{Sym{K: k, T: cc.Signature().Results().At(0).Type()}, Sym{K: "hit(" + keyOf(a[1]) + ")", T: types.Typ[types.Bool]}}}, true
		}
		in.Models["invoke:Store@valid.CacheEr"] = func(in *Interp, site ssa.Instruction, cc *ssa.CallCommon, a []AVal) (AVal, bool) {
			in.Emit("cache-store", site, a[0], a[1], a[2])
			return Tup{}, true
		}
		// any OTHER method invoked on the cache object (through an optional-interface assertion such as
		// interface{ LoadOrStore(k, v) }) that is handed a key and a value stores under that key as well
		prevUnmodelled := in.Unmodelled
		in.Unmodelled = func(in *Interp, site ssa.Instruction, name string, a []AVal) {
			if strings.HasPrefix(name, "invoke:") && len(a) >= 1 && strings.Contains(keyOf(a[0]), gname) {
				switch {
				case len(a) >= 3:
					in.Emit("cache-store", site, a[0], a[1], a[2])
					in.Emit("cache-other", site, a[0], a[1])
				case len(a) == 2:
					in.Emit("cache-other", site, a[0], a[1])
				}
			}
			if prevUnmodelled != nil {
				prevUnmodelled(in, site, name, a)
			}
		}
		trs := in.Explore(fn, symArgs(fn), 3000)
		var keyBad, missBad, unk []string
		var noLoadRets [][]string
		keyRootsAll := map[string]bool{}
		nStore, nHit, nMiss := 0, 0, 0
		for _, t := range trs {
			if t.Cut != "" {
				unk = append(unk, t.Cut)
				continue
			}
			if t.Panic != "" {
				continue
			}
			var loads, stores, others []Event
			cellWrites := map[string][]string{} // label prefix -> value keys
			for _, e := range t.Events {
				switch e.Kind {
				case "cache-load":
					if keyOf(e.Args[0]) == gname || strings.Contains(keyOf(e.Args[0]), gname) {
						loads = append(loads, e)
					}
				case "cache-store":
					stores = append(stores, e)
				case "cache-other":
					others = append(others, e)
				case "store-cell":
					lbl := keyOf(e.Args[0])
					cellWrites[lbl] = append(cellWrites[lbl], flattenKeys(e.Args[1])...)
				case "unchecked-assert":
					asserted = append(asserted, keyOf(e.Args[0]))
				}
			}
			for _, ld := range loads {
				for r := range rootsOf(keyOf(ld.Args[1])) {
					keyRootsAll[r] = true
				}
			}
			for _, o := range others {
				for _, ld := range loads {
					if keyOf(ld.Args[1]) != keyOf(o.Args[1]) {
						keyBad = append(keyBad, "the cache is also accessed through another method (an optional interface of the cache object) under a different key: "+keyOf(o.Args[1])+" vs "+keyOf(ld.Args[1])+" used by Load")
					}
				}
			}
			if t.Converged {
				continue
			}
			if len(loads) > 1 {
				missBad = append(missBad, fmt.Sprintf("%d Loads on one path: the result may come from a second lookup that an always-forgetting cache cannot answer", len(loads)))
			}
			hit := false
			for k, v := range t.PC {
				if strings.HasPrefix(k, "hit(") && v == 1 {
					hit = true
				}
			}
			if hit {
				nHit++
				continue
			}
			nMiss++
			if len(loads) == 0 && len(stores) == 0 && t.Ret != nil {
				// a path that answers without consulting the cache: what it returns must be a
				// function of the key's inputs only (a second memo keyed by less is not transparent)
				noLoadRets = append(noLoadRets, flattenKeys(t.Ret))
			}
			if len(stores) == 0 {
				// not storing at all is harmless for transparency
				continue
			}
			for _, st := range stores {
				nStore++
				c.Sites++
				keyK := keyOf(st.Args[1])
				valKeys := flattenKeys(st.Args[2])
				// contents written into slices owned by the stored value
				for _, vk := range append([]string{}, valKeys...) {
					for lbl, ws := range cellWrites {
						if strings.HasPrefix(vk, "makeslice#") && strings.HasPrefix(lbl, strings.SplitN(vk, "(", 2)[0]) {
							valKeys = append(valKeys, ws...)
						}
					}
				}
				kr := rootsOf(keyK)
				vr := rootsOf(valKeys...)
				var extra []string
				for r := range vr {
					if !kr[r] {
						extra = append(extra, r)
					}
				}
				sort.Strings(extra)
				if len(extra) > 0 {
					keyBad = append(keyBad, fmt.Sprintf("the cached value depends on %v but the key is only %s: a later call with a different %v is answered from the entry computed for this one", extra, keyK, extra))
				}
				// the key must hold what the value is computed from ITSELF, not a normalised, truncated or hashed
				// form of it: two different inputs that normalise alike share one entry although each is analysed
				// with its raw spelling
				for _, m := range regexp.MustCompile(`((?:strings|bytes|unicode|hash/\w+|crypto/\w+)\.[A-Za-z]+)\(`).FindAllStringSubmatch(keyK, -1) {
					keyBad = append(keyBad, fmt.Sprintf("the key holds %s(...) of an input instead of the input itself (%s): inputs that differ but normalise alike are answered from one entry, which was computed from the raw spelling of whichever came first", m[1], shorten(keyK, 120)))
				}
				for _, ld := range loads {
					if keyOf(ld.Args[1]) != keyK {
						keyBad = append(keyBad, "Load and Store use different keys: "+keyOf(ld.Args[1])+" vs "+keyK)
					}
				}
				// miss path returns the stored value
				if t.Ret == nil || !sameValue(t.Ret, st.Args[2]) {
					missBad = append(missBad, "on a miss the function does not return the value it just computed and stored")
				}
			}
		}
		for _, rk := range noLoadRets {
			var extra []string
			for r := range rootsOf(rk...) {
				if !keyRootsAll[r] {
					extra = append(extra, r)
				}
			}
			sort.Strings(extra)
			if len(extra) > 0 {
				keyBad = append(keyBad, fmt.Sprintf("a path answers without consulting the cache, from %v, which is not part of the cache key: the answer depends on what an earlier call left there", extra))
			}
		}
		name := fnName(fn)
		if len(unk) > 0 {
			c.Unk("C08-KEY", name, "key", fn.Pos(), uniqJoin(unk, 2))
			continue
		}
		c.Check(len(keyBad) == 0, "C08-KEY", name, "key", fn.Pos(), fmt.Sprintf("%d store paths: value inputs ⊆ key inputs", nStore), uniqJoin(keyBad, 2))
		c.Check(len(missBad) == 0 && nMiss > 0, "C08-MISS", name, "miss-path", fn.Pos(), fmt.Sprintf("%d hit paths, %d miss paths", nHit, nMiss), uniqJoin(append(missBad, fmt.Sprintf("%d miss paths", nMiss)), 2))
		// who-stores: every Store's value has the asserted type
		assertOK := true
		detail := "every Store on the cache stores the type asserted on a hit"
		for _, b := range fn.Blocks {
			for _, ins := range b.Instrs {
				ta, ok := ins.(*ssa.TypeAssert)
				if !ok || ta.CommaOk {
					continue
				}
				// value comes from Load?
				for _, u := range users {
					for _, b2 := range u.Blocks {
						for _, i2 := range b2.Instrs {
							call, ok := i2.(ssa.CallInstruction)
							if !ok || !call.Common().IsInvoke() || call.Common().Method.Name() != "Store" {
								continue
							}
							mi, ok := call.Common().Args[1].(*ssa.MakeInterface)
							if !ok || !types.Identical(mi.X.Type(), ta.AssertedType) {
								assertOK = false
								detail = "a Store on the cache stores a value whose type differs from the type asserted (unchecked) on a hit: " + p.Pos(call.Pos())
							}
						}
					}
				}
			}
		}
		c.Check(assertOK, "C08-MISS", name, "assert", fn.Pos(), detail, detail)
	}
	runC08Copy(c, gname)
	runC08Once(c, g)
	runC08Publish(c, g, users)
}

func flattenKeys(v AVal) []string {
	switch x := v.(type) {
	case StructVal:
		var out []string
		idx := make([]int, 0, len(x.F))
		for i := range x.F {
			idx = append(idx, i)
		}
		sort.Ints(idx)
		for _, i := range idx {
			out = append(out, flattenKeys(x.F[i])...)
		}
		if x.Base != nil {
			out = append(out, x.Base.K)
		}
		return out
	case Ifc:
		return flattenKeys(x.V)
	case nil:
		return nil
	}
	return []string{keyOf(v)}
}

func sameValue(a, b AVal) bool {
	ka, kb := flattenKeys(a), flattenKeys(b)
	if len(ka) != len(kb) {
		return false
	}
	for i := range ka {
		if ka[i] != kb[i] {
			return false
		}
	}
	return true
}

// runC08Copy: in every walker-mode run, no store into a cell reached from the cached value.
func runC08Copy(c *Ctx, gname string) {
	p := c.P
	sharedReturners = map[string]bool{}
	for _, fn := range p.Funcs {
		if fn.Pkg != nil && strings.HasPrefix(fn.Pkg.Pkg.Path(), ModPath) && returnsMemoised(fn) {
			sharedReturners[fnName(fn)] = true
		}
	}
	var bad []string
	n := 0
	for _, w := range findWalkers(p) {
		we := NewWalkEnv(p)
		we.In.TraceStores = true
		for _, nm := range []string{"valid.ParseValidNameKV", "valid.ValidNamesSplit", "(valid.RM).Get", "(*valid.VStruct).getCacheStructType"} {
			we.In.NoInline[nm] = true
		}
		we.In.Models["dyncall"] = func(in *Interp, site ssa.Instruction, cc *ssa.CallCommon, a []AVal) (AVal, bool) { return Tup{}, true }
		for name := range summarisedNames(p) {
			we.In.Models[name] = func(in *Interp, site ssa.Instruction, cc *ssa.CallCommon, a []AVal) (AVal, bool) {
				if cc.Signature().Results().Len() == 1 && len(a) > 0 {
					return a[0], true
				}
				return Tup{}, true
			}
		}
		trs := we.In.Explore(w.Fn, symArgs(w.Fn), 60000)
		for _, t := range trs {
			if t.Cut != "" {
				c.Unk("C08-COPY", fnName(w.Fn), "stores", w.Fn.Pos(), t.Cut)
				continue
			}
			for _, e := range t.Events {
				if e.Kind != "store-cell" && e.Kind != "store-sym" {
					continue
				}
				n++
				k0 := keyOf(e.Args[0])
				if strings.HasPrefix(k0, "append-into(") {
					// an append writes into the array of the slice it is given: that slice must not be ROOTED in the
					// cached value (a key that merely mentions cached data in an index expression is other memory)
					inner := strings.TrimPrefix(k0, "append-into(")
					if !strings.HasPrefix(inner, "(*valid.VStruct).getCacheStructType(") && !strings.HasPrefix(inner, "cached(") {
						continue
					}
					bad = append(bad, fmt.Sprintf("%s: append onto %s, a (re)slice of the cached per-type info: the appended elements are written into the array shared by all later calls", p.Pos(instrPos(e.Site)), shorten(inner, 100)))
					continue
				}
				if h := keyRootHead(k0); sharedReturners[h] {
					bad = append(bad, fmt.Sprintf("%s: store into the result of %s, which answers from a package-level memo: every caller is handed the same memory, so this write changes what all later and concurrent calls read", p.Pos(instrPos(e.Site)), h))
					continue
				}
				if cachedRooted(k0) {
					bad = append(bad, fmt.Sprintf("%s: store into %s, which is memory of the cached per-type info shared by all later calls", p.Pos(instrPos(e.Site)), shorten(keyOf(e.Args[0]), 100)))
				}
			}
		}
	}
	// anywhere in the package (callbacks, setters, clean-up code): a cached entry taken back out of an
	// interface value (the cache hands entries around as interface{}) is never written — its slices are the
	// ones a walk in progress is still reading, also after the entry has been evicted
	for _, fn := range p.Funcs {
		if fn.Pkg == nil || fn.Pkg != p.Pkg("valid") {
			continue
		}
		for _, b := range fn.Blocks {
			for _, ins := range b.Instrs {
				st, ok := ins.(*ssa.Store)
				if !ok {
					continue
				}
				ia, ok := st.Addr.(*ssa.IndexAddr)
				if !ok {
					continue
				}
				// the slice: a field of a value whose origin is a type assertion
				var base ssa.Value
				switch x := ia.X.(type) {
				case *ssa.Field:
					base = x.X
				case *ssa.UnOp:
					if fa, ok := x.X.(*ssa.FieldAddr); ok {
						base = fa.X
					}
				}
				if base == nil {
					continue
				}
				seen := map[ssa.Value]bool{}
				var fromAssert func(v ssa.Value, d int) bool
				fromAssert = func(v ssa.Value, d int) bool {
					if v == nil || seen[v] || d > 6 {
						return false
					}
					seen[v] = true
					switch y := v.(type) {
					case *ssa.TypeAssert:
						return true
					case *ssa.Extract:
						return fromAssert(y.Tuple, d+1)
					case *ssa.Phi:
						for _, e := range y.Edges {
							if fromAssert(e, d+1) {
								return true
							}
						}
					case *ssa.UnOp:
						if al, ok := y.X.(*ssa.Alloc); ok {
							for _, r := range refs(al) {
								if s2, ok := r.(*ssa.Store); ok && s2.Addr == ssa.Value(al) && fromAssert(s2.Val, d+1) {
									return true
								}
							}
						}
					case *ssa.Alloc:
						for _, r := range refs(y) {
							if s2, ok := r.(*ssa.Store); ok && s2.Addr == ssa.Value(y) && fromAssert(s2.Val, d+1) {
								return true
							}
						}
					}
					return false
				}
				if n0 := namedOf(base.Type()); n0 != nil && n0.Obj().Name() == "structType" && fromAssert(base, 0) {
					n++
					bad = append(bad, fmt.Sprintf("%s: %s stores into a slice of a cached entry it took out of an interface value: the array is shared with every call that loaded the entry, a walk in progress reads the overwritten elements", p.Pos(st.Pos()), fnName(fn)))
				}
			}
		}
	}
	c.Sites += n
	c.Check(len(bad) == 0, "C08-COPY", "walkers", "stores", token.NoPos, fmt.Sprintf("%d stores into symbolic memory inspected, none into cached info", n), uniqJoin(bad, 3))
}

func runC08Once(c *Ctx, g *ssa.Global) {
	p := c.P
	var bad []string
	n := 0
	for _, fn := range p.Funcs {
		for _, b := range fn.Blocks {
			for _, ins := range b.Instrs {
				st, ok := ins.(*ssa.Store)
				if !ok || st.Addr != g {
					continue
				}
				n++
				if fn.Name() == "init" && fn.Signature.Recv() == nil {
					continue
				}
				// must be a closure passed to (*sync.Once).Do
				okOnce := false
				if fn.Parent() != nil {
					for _, pb := range fn.Parent().Blocks {
						for _, pi := range pb.Instrs {
							call, ok := pi.(ssa.CallInstruction)
							if !ok || calleeName(call.Common()) != "(*sync.Once).Do" {
								continue
							}
							arg := call.Common().Args[1]
							if mc, ok := arg.(*ssa.MakeClosure); ok && mc.Fn == fn {
								okOnce = true
							}
							if f2, ok := arg.(*ssa.Function); ok && f2 == fn {
								okOnce = true
							}
						}
					}
				}
				if !okOnce {
					bad = append(bad, fmt.Sprintf("%s assigns the global cache outside package init and outside sync.Once (%s)", fnName(fn), p.Pos(st.Pos())))
				}
			}
		}
	}
	c.Check(len(bad) == 0 && n >= 1, "C08-ONCE", fnNameGlobal(g), "assignments", g.Pos(), fmt.Sprintf("%d assignments, all in init or under once.Do", n), uniqJoin(bad, 3))
}

// runC08Publish: a value handed to the cache must be complete when it is stored. In every
// function that calls Store on the type cache, no instruction reachable after the Store
// writes into memory that the stored value shares (the slices/maps/pointers held in the
// fields of the struct that was stored). A concurrent caller that hits the entry in between
// would be judged by half-filled information — a result that depends on the history.
func runC08Publish(c *Ctx, g *ssa.Global, users []*ssa.Function) {
	p := c.P
	c.Rule("C08-PUBLISH", "a value stored in the type cache is complete: nothing reachable after the Store writes into memory shared with the stored value", 1)
	n := 0
	for _, fn := range users {
		for _, b := range fn.Blocks {
			for idx, ins := range b.Instrs {
				call, ok := ins.(ssa.CallInstruction)
				if !ok || !call.Common().IsInvoke() || call.Common().Method.Name() != "Store" {
					continue
				}
				ld, ok := call.Common().Value.(*ssa.UnOp)
				if !ok || ld.X != g {
					continue
				}
				n++
				c.Sites++
				val := call.Common().Args[1]
				// memory owned by the stored value
				owned := map[ssa.Value]bool{}
				allocs := map[*ssa.Alloc]bool{}
				var addVal func(v ssa.Value)
				addVal = func(v ssa.Value) {
					if v == nil || owned[v] {
						return
					}
					switch x := v.(type) {
					case *ssa.MakeInterface:
						addVal(x.X)
						return
					case *ssa.ChangeType:
						addVal(x.X)
						return
					case *ssa.UnOp:
						if x.Op == token.MUL {
							if a, ok := x.X.(*ssa.Alloc); ok {
								allocs[a] = true
								return
							}
						}
					case *ssa.Alloc:
						allocs[x] = true
						owned[x] = true
						return
					}
					switch v.Type().Underlying().(type) {
					case *types.Slice, *types.Map, *types.Pointer:
						owned[v] = true
					}
				}
				addVal(val)
				for changed := true; changed; {
					changed = false
					before := len(owned) + len(allocs)
					for _, b2 := range fn.Blocks {
						for _, i2 := range b2.Instrs {
							switch x := i2.(type) {
							case *ssa.Store:
								if fa, ok := x.Addr.(*ssa.FieldAddr); ok {
									if a, ok := fa.X.(*ssa.Alloc); ok && allocs[a] {
										addVal(x.Val)
									}
								}
							case *ssa.UnOp:
								if x.Op == token.MUL {
									if fa, ok := x.X.(*ssa.FieldAddr); ok {
										if a, ok := fa.X.(*ssa.Alloc); ok && allocs[a] {
											addVal(x)
										}
									}
								}
							case *ssa.Slice:
								if owned[x.X] {
									addVal(x)
								}
							}
						}
					}
					if len(owned)+len(allocs) != before {
						changed = true
					}
				}
				rootOwned := func(addr ssa.Value) bool {
					for d := 0; d < 8; d++ {
						switch x := addr.(type) {
						case *ssa.IndexAddr:
							if owned[x.X] {
								return true
							}
							addr = x.X
						case *ssa.FieldAddr:
							if owned[x.X] {
								return true
							}
							addr = x.X
						default:
							return false
						}
					}
					return false
				}
				// instructions reachable after the call
				after := map[*ssa.BasicBlock]bool{}
				var stack []*ssa.BasicBlock
				for _, s := range b.Succs {
					if !after[s] {
						after[s] = true
						stack = append(stack, s)
					}
				}
				for len(stack) > 0 {
					x := stack[len(stack)-1]
					stack = stack[:len(stack)-1]
					for _, s := range x.Succs {
						if !after[s] {
							after[s] = true
							stack = append(stack, s)
						}
					}
				}
				var bad []string
				check := func(i2 ssa.Instruction) {
					switch x := i2.(type) {
					case *ssa.Store:
						if rootOwned(x.Addr) {
							bad = append(bad, "store at "+p.Pos(x.Pos())+" writes into the value after it was put into the cache")
						}
					case *ssa.MapUpdate:
						if owned[x.Map] {
							bad = append(bad, "map update at "+p.Pos(x.Pos())+" writes into the value after it was put into the cache")
						}
					}
				}
				for j := idx + 1; j < len(b.Instrs); j++ {
					check(b.Instrs[j])
				}
				for b2 := range after {
					for _, i2 := range b2.Instrs {
						if b2 == b {
							// whole block reachable again through a cycle
						}
						check(i2)
					}
				}
				c.Check(len(bad) == 0, "C08-PUBLISH", fnName(fn), "complete-at-store", call.Pos(), "nothing writes into the stored value after the Store", uniqJoin(bad, 3)+": a concurrent validation of the same type that hits the entry meanwhile is judged by incomplete field information")
			}
		}
	}
	if n == 0 {
		c.OK("C08-PUBLISH", "-", "no-store", token.NoPos, "the cache is never stored to (trivially complete)")
	}
}

// cachedRooted: does a memory key denote memory of the cached per-type value? The key is an access path;
// its root is what stands before the first selector/index at parenthesis depth 0. A key whose root is the
// RESULT of another call (ValidNamesSplit(… cached.validNames …)[i]) merely mentions cached data among that
// call's arguments: the memory is the call's own result.
func cachedRooted(k string) bool {
	k = strings.TrimLeft(k, "&*")
	if !strings.Contains(k, "getCacheStructType(") && !strings.Contains(k, "cached(") {
		return false
	}
	for _, root := range []string{"(*valid.VStruct).getCacheStructType(", "cached(", "φ:"} {
		if strings.HasPrefix(k, root) {
			return true
		}
	}
	// root = a call of something else: find its name
	if i := strings.Index(k, "("); i > 0 {
		head := k[:i]
		if strings.HasPrefix(k, "(") { // method expression "(T).m("
			if j := strings.Index(k, ")."); j > 0 {
				if l := strings.Index(k[j:], "("); l > 0 {
					head = k[:j+l]
				}
			}
		}
		switch {
		case strings.HasSuffix(head, "getCacheStructType"), head == "cached":
			return true
		case strings.HasPrefix(head, "valid.") || strings.HasPrefix(head, "strings.") || strings.HasPrefix(head, "(valid.") || strings.HasPrefix(head, "(*valid."):
			// result of a repository / library function applied to cached data: its own memory, unless the function
			// hands back (part of) its argument
			for _, alias := range []string{"valid.RemoveValuePtr", "valid.aliasOf"} {
				if head == alias {
					return true
				}
			}
			// a function that answers from a memo (a package-level map / sync.Map) hands the SAME memory to
			// every caller: a store into its result is a store into shared state
			if sharedReturners[head] {
				return true
			}
			return false
		}
	}
	return true
}

var sharedReturners = map[string]bool{}

// returnsMemoised: some return value of fn can be what was loaded from a package-level map or a
// package-level sync.Map (through type assertions, tuple extraction and phis).
func returnsMemoised(fn *ssa.Function) bool {
	if fn.Blocks == nil {
		return false
	}
	seen := map[ssa.Value]bool{}
	var from func(v ssa.Value, d int) bool
	from = func(v ssa.Value, d int) bool {
		if v == nil || seen[v] || d > 8 {
			return false
		}
		seen[v] = true
		switch x := v.(type) {
		case *ssa.Phi:
			for _, e := range x.Edges {
				if from(e, d+1) {
					return true
				}
			}
		case *ssa.TypeAssert:
			return from(x.X, d+1)
		case *ssa.Extract:
			return from(x.Tuple, d+1)
		case *ssa.ChangeType:
			return from(x.X, d+1)
		case *ssa.UnOp:
			if x.Op == token.MUL {
				if a, ok := x.X.(*ssa.Alloc); ok { // a spilled result cell: what was stored into it
					for _, r := range refs(a) {
						if st, ok := r.(*ssa.Store); ok && st.Addr == ssa.Value(a) && from(st.Val, d+1) {
							return true
						}
					}
				}
			}
		case *ssa.Lookup:
			if ld, ok := x.X.(*ssa.UnOp); ok && ld.Op == token.MUL {
				if _, isG := ld.X.(*ssa.Global); isG {
					return true
				}
			}
		case *ssa.Call:
			nm := calleeName(&x.Call)
			if nm == "(*sync.Map).Load" || nm == "(*sync.Map).LoadOrStore" {
				if len(x.Call.Args) > 0 {
					if _, isG := x.Call.Args[0].(*ssa.Global); isG {
						return true
					}
				}
			}
		}
		return false
	}
	for _, b := range fn.Blocks {
		if ret, ok := b.Instrs[len(b.Instrs)-1].(*ssa.Return); ok {
			for _, r := range ret.Results {
				if _, isSlice := r.Type().Underlying().(*types.Slice); !isSlice {
					if _, isMap := r.Type().Underlying().(*types.Map); !isMap {
						if _, isPtr := r.Type().Underlying().(*types.Pointer); !isPtr {
							continue
						}
					}
				}
				if from(r, 0) {
					return true
				}
			}
		}
	}
	return false
}

// keyRootHead: the function whose result is the root of a memory key ("valid.F(args)[i].x" -> "valid.F").
func keyRootHead(k string) string {
	k = strings.TrimLeft(k, "&*")
	i := strings.Index(k, "(")
	if i <= 0 {
		if strings.HasPrefix(k, "(") {
			if j := strings.Index(k, ")."); j > 0 {
				if l := strings.Index(k[j:], "("); l > 0 {
					return k[:j+l]
				}
			}
		}
		return ""
	}
	return k[:i]
}
