package engine

import (
	"fmt"
	"go/token"
	"reflect"
	"sort"
	"strings"
)

func init() {
	register(&PropDef{
		ID: "C05",
		Explain: "For each format/content rule function of the rule table, every path (per reflect kind, per outcome of each trusted library predicate) is enumerated by abstract interpretation and its verdict compared with a specification formula over those predicates: " +
			"which predicate is consulted (own pattern / ParseIP+To4 / time.Parse with the layout built from the mask and separators / HasPrefix / HasSuffix / json.Valid / os.Stat+IsDir / Contains / ==), on the whole input, with the right argument order and polarity, and the kind table of int/float/ints/unique. " +
			"The regular languages of the phone, email, idcard, int and float patterns are compared with reference languages by automata product (engine R); date layouts are compared symbolically for default and custom separators; ToStr's rendering table is checked per type. " +
			"Not covered (data-dependent loops over runtime strings): the escaped-quote scan in re, the quote handling of the option splitter used by in/include, beyond which splitter/separator/trim they delegate to.",
		Assume:  []string{"net.ParseIP, time.Parse, regexp, encoding/json.Valid, os.Stat are the independent recognisers the documentation refers to"},
		Trusted: []string{"go/types", "go/ssa", "regexp/syntax", "specification formulas in rulespecs.go"},
		Run: func(c *Ctx) {
			runC05(c)
			runC05Sticky(c)
			runC05Unique(c)
			runToStrCases(c, "C05-TOSTRCASES")
			runC05InList(c)
			base(c, "DECLARED", "STATE", "ALIAS", "LOOP", "TEXT", "RULESRC", "EXPORT", "ZEROSKIP", "FACADE")
		},
	})
}

func runC05(c *Ctx) {
	p := c.P
	c.Rule("C05-POLARITY", "per content rule x kind class: a verdict clause is written iff the specification formula over the library predicates decided on the path says 'violated'; predicate, argument order and whole-input use are part of the formula", 40)
	runs, err := exploreRegistry(p)
	if err != nil {
		c.Unk("C05-POLARITY", "-", "anchor", token.NoPos, "rule table unresolved: "+err.Error())
		return
	}
	globalsUsed := map[string]map[string]bool{} // rule -> globals consulted
	for _, r := range runs {
		if r.Entry.Fn == nil {
			continue
		}
		if _, isSize := sizeSpecs[r.Entry.Name]; isSize {
			continue
		}
		c.Funcs[fnName(r.Entry.Fn)] = true
		type agg struct {
			n        int
			bad, unk []string
		}
		per := map[string]*agg{}
		get := func(k string) *agg {
			if per[k] == nil {
				per[k] = &agg{}
			}
			return per[k]
		}
		layouts := expectedLayouts(r.Entry.Name)
		for _, t := range r.Traces {
			if t.Converged {
				continue
			}
			k, hasK := kindFromTrace(t, r.Kinds, "tv")
			kc := "any"
			if hasK {
				kc = kindClass(reflect.Kind(k))
			}
			a := get(kc)
			if t.Cut != "" {
				a.unk = append(a.unk, t.Cut)
				continue
			}
			if t.Panic != "" {
				a.bad = append(a.bad, "panic reachable: "+t.Panic+" at "+p.Pos(instrPos(t.PanicAt)))
				continue
			}
			c.Sites++
			ws := writesOf(t, "errBuf")
			nV, nE, nStat := 0, 0, 0
			for _, w := range ws {
				switch {
				case w.Class == "V" || w.Class == "M":
					nV++
				case w.Class == "E" && len(w.Others) == 1 && strings.HasSuffix(keyOf(w.Others[0]), ".Error()"):
					nStat++
				default:
					nE++
				}
			}
			if !hasK {
				if nE > 0 && nV == 0 {
					continue // configuration error decided before looking at the value
				}
				a.bad = append(a.bad, "verdict reached without consulting the kind of the value: "+t.Describe())
				continue
			}
			sr := expectVerdict(r.Entry.Name, reflect.Kind(k), t, nE)
			a.n++
			switch sr.Viol {
			case triSkip:
				if nV > 0 && (strings.Contains(sr.Why, "type-error") || strings.Contains(sr.Why, "configuration-error")) {
					a.bad = append(a.bad, "verdict clause written on a path where only a type/configuration error is expected ("+sr.Why+")")
				}
				if nV == 0 && nE == 0 && (strings.Contains(sr.Why, "type-error") || strings.Contains(sr.Why, "configuration-error")) {
					a.bad = append(a.bad, "unsupported input kind "+kindNames[k]+" is silently accepted (no error clause)")
				}
				continue
			case triUnknown:
				a.unk = append(a.unk, sr.Why+" [kind "+kindNames[k]+"]")
				continue
			}
			if sr.Global != "" && sr.Global != "IntRe?" {
				if globalsUsed[r.Entry.Name] == nil {
					globalsUsed[r.Entry.Name] = map[string]bool{}
				}
				globalsUsed[r.Entry.Name][sr.Global] = true
			}
			if sr.Layout != "" && !layouts[sr.Layout] {
				a.bad = append(a.bad, "time layout "+sr.Layout+" is not one of the documented layouts for "+r.Entry.Name)
			}
			if sr.Layout != "" && (r.Entry.Name == "year2month" || r.Entry.Name == "date") {
				// default separators iff the rule carries no value: `date=''` means "no separator", not "default"
				isDefault := !strings.Contains(sr.Layout, cusVal)
				v64, has := stringEmptiness(func(k string) (int, bool) { x, ok := t.PC[k]; return x, ok }, cusVal)
				v := int(v64)
				switch {
				case isDefault && (!has || v != 1):
					a.bad = append(a.bad, "the default separators are used on a path where the rule's value was not found empty (a rule written with the empty separator '' must not fall back to the default)")
				case !isDefault && (!has || v != 0):
					a.bad = append(a.bad, "custom separators are used on a path where the rule's value was not found non-empty")
				}
			}
			verdicts := nV
			if sr.StatErr {
				verdicts += nStat
			}
			switch {
			case sr.Viol == triYes && verdicts == 0:
				a.bad = append(a.bad, "violated case writes no clause: "+shorten(t.Describe(), 300))
			case sr.Viol == triNo && (nV+nStat+nE) > 0:
				a.bad = append(a.bad, "satisfied case writes a clause: "+shorten(t.Describe(), 300))
			}
		}
		var ks []string
		for k := range per {
			ks = append(ks, k)
		}
		sort.Strings(ks)
		for _, k := range ks {
			a := per[k]
			switch {
			case len(a.unk) > 0:
				c.Unk("C05-POLARITY", r.Entry.Name, "kind:"+k, r.Entry.Fn.Pos(), uniqJoin(a.unk, 3))
			case len(a.bad) > 0:
				c.Bad("C05-POLARITY", r.Entry.Name, "kind:"+k, r.Entry.Fn.Pos(), uniqJoin(a.bad, 3))
			default:
				c.OK("C05-POLARITY", r.Entry.Name, "kind:"+k, r.Entry.Fn.Pos(), fmt.Sprintf("%d paths agree with the specification formula", a.n))
			}
		}
	}
	c.Extra["pattern_globals_consulted"] = fmt.Sprint(globalsUsed)
	runC05Lang(c, globalsUsed)
	runC05ToStr(c)
}

func shorten(s string, n int) string {
	if len(s) <= n {
		return s
	}
	return s[:n] + "…"
}
