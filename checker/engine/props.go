package engine

import (
	"fmt"
	"runtime/debug"
	"sort"
	"time"
)

// PropDef describes one property's static check.
type PropDef struct {
	ID      string
	Explain string   // what is decided (goes to evidence.coverage.explanation)
	Assume  []string // assumptions
	Trusted []string
	Run     func(c *Ctx)
}

var registry = map[string]*PropDef{}

func register(p *PropDef) { registry[p.ID] = p }

func PropIDs() []string {
	var ids []string
	for id := range registry {
		ids = append(ids, id)
	}
	sort.Strings(ids)
	return ids
}

func Lookup(id string) *PropDef { return registry[id] }

// Configs returns the build configurations analysed at a tier.
func Configs(repo, tier string) []Config {
	if tier == "thorough" {
		return []Config{
			{Repo: repo},
			{Repo: repo, GOOS: "windows", GOARCH: "amd64"},
			{Repo: repo, GOOS: "linux", GOARCH: "386"},
			{Repo: repo, Tags: "verif"},
		}
	}
	return []Config{{Repo: repo}}
}

// RunOn runs a property's rules on one loaded program, converting analyser panics into
// an undecided obligation (fail closed).
func RunOn(pd *PropDef, p *Prog, tier string) (c *Ctx) {
	c = NewCtx(pd.ID, p, tier)
	defer func() {
		if r := recover(); r != nil {
			c.Obls = append(c.Obls, Obligation{Key: pd.ID + "/PANIC/-/-", Rule: "PANIC", Where: "-", Status: Undecided,
				Detail: fmt.Sprintf("analyser panic: %v\n%s", r, debug.Stack())})
		}
	}()
	pd.Run(c)
	c.Finalize()
	return c
}

// RunProperty loads every configuration of the tier and runs the property on each.
func RunProperty(pd *PropDef, repo, tier string, cache map[string]*Prog) *Outcome {
	o := &Outcome{Prop: pd.ID, Tier: tier, Level: "other", Rules: map[string]string{}, Mins: map[string]int{}, Extra: map[string]interface{}{},
		Funcs: map[string]bool{}, Explain: pd.Explain, Assume: pd.Assume, Trusted: pd.Trusted, Start: time.Now()}
	for _, cfg := range Configs(repo, tier) {
		o.Configs = append(o.Configs, cfg.String())
		p := cache[cfg.String()]
		if p == nil {
			var err error
			p, err = Load(cfg)
			if err != nil {
				o.LoadErrors = append(o.LoadErrors, cfg.String()+": "+err.Error())
				continue
			}
			if cache != nil {
				cache[cfg.String()] = p
			}
		}
		if len(p.Normalised) > 0 {
			o.Extra["renamings_undone_before_analysis"] = p.Normalised
		}
		o.Merge(RunOn(pd, p, tier))
	}
	return o
}
