package engine

import (
	"fmt"
	"go/token"
	"go/types"
	"sort"
	"strings"

	"golang.org/x/tools/go/ssa"
)

// C14-SPLIT: the quote-aware slow path of the rule-list splitter is a byte-at-a-time state
// machine. Its state is (inside-quotes flag P, quote stack, current piece tmp); its input per
// step is one byte, of which only the class matters: separator, quote, other. The rule extracts
// the machine's complete transition table from the code — every path through one iteration of
// the loop, for every (P, class), with the stack predicates decided by the invariant
// "stack non-empty ⇔ P" that the table itself re-establishes — and compares it with the
// specification:
//
//   P  class  | append byte  push  pop  emit piece & reset  P'
//   F  other  |     1         0     0          0            F
//   F  sep    |     0         0     0          1            F
//   F  quote  |     1         1     0          0            T
//   T  other  |     1         0     0          0            T
//   T  sep    |     1         0     0          0            T      (separator inside quotes is kept)
//   T  quote  |     1         0     1          0            F
//
// plus the epilogue (the last piece is emitted iff it is non-empty) and "what is emitted inside
// the loop is a copy of the piece" (the buffer is reused). Together with C14-STACK this is the
// no-loss law: every byte other than an unquoted separator is appended exactly once to exactly
// one piece, pieces are emitted exactly at unquoted separators, in order. Nothing is executed:
// the six cases are the whole input space of one step.

type splitCase struct {
	P     bool
	Class string // "other" | "sep" | "quote"
}

type splitEffect struct {
	appends, push, pop, emit, reset int
	nextP                           int // 0 false, 1 true, -1 unknown
	notes                           []string
}

func runC14Split(c *Ctx) {
	p := c.P
	c.Rule("C14-SPLIT", "splitter slow path: transition table of one loop iteration for every (inside-quotes, byte class) equals the specification; last piece emitted iff non-empty; emitted pieces are copies", 7)
	fn := p.Func("valid", "ValidNamesSplit")
	if fn == nil {
		c.Unk("C14-SPLIT", "valid.ValidNamesSplit", "anchor", token.NoPos, "splitter not found")
		return
	}
	c.Funcs[fnName(fn)] = true
	name := fnName(fn)
	// the loop: contains calls of the stack's methods
	isStackCall := func(ins ssa.Instruction) string {
		call, ok := ins.(*ssa.Call)
		if !ok {
			return ""
		}
		nm := calleeName(&call.Call)
		if i := strings.Index(nm, "stackByte)."); i >= 0 {
			return nm[i+len("stackByte)."):]
		}
		return ""
	}
	// the slow path's loop: reads the input byte by byte and carries (flag, piece, list) in its header;
	// the quote stack is an optional second record of the flag (hasStack)
	var loop *loopInfo
	hasStack := false
	for _, l := range naturalLoops(fn) {
		reads, stack := false, false
		for b := range l.Body {
			for _, ins := range b.Instrs {
				if isStackCall(ins) != "" {
					stack = true
				}
				switch x := ins.(type) {
				case *ssa.Lookup:
					reads = reads || x.X == fn.Params[0]
				case *ssa.Index:
					reads = reads || x.X == fn.Params[0]
				}
			}
		}
		nb, nby, nstr := 0, 0, 0
		for _, ins := range l.Header.Instrs {
			ph, ok := ins.(*ssa.Phi)
			if !ok {
				break
			}
			switch t := ph.Type().Underlying().(type) {
			case *types.Basic:
				if t.Kind() == types.Bool {
					nb++
				}
			case *types.Slice:
				if eb, ok := t.Elem().Underlying().(*types.Basic); ok {
					if eb.Kind() == types.Uint8 {
						nby++
					}
					if eb.Kind() == types.String {
						nstr++
					}
				}
			}
		}
		if stack || (reads && nb == 1 && nby == 1 && nstr == 1) {
			loop, hasStack = l, stack
		}
	}
	if loop == nil {
		c.Unk("C14-SPLIT", name, "loop", fn.Pos(), "no byte-by-byte loop carrying (inside-quotes flag, piece, list) found: slow path not recognised")
		return
	}
	// header phis: P (bool), tmp ([]byte), res ([]string), i (int)
	var phiP, phiTmp, phiRes *ssa.Phi
	for _, ins := range loop.Header.Instrs {
		ph, ok := ins.(*ssa.Phi)
		if !ok {
			break
		}
		switch t := ph.Type().Underlying().(type) {
		case *types.Basic:
			if t.Kind() == types.Bool {
				phiP = ph
			}
		case *types.Slice:
			if eb, ok := t.Elem().Underlying().(*types.Basic); ok {
				if eb.Kind() == types.Uint8 {
					phiTmp = ph
				}
				if eb.Kind() == types.String {
					phiRes = ph
				}
			}
		}
	}
	if phiP == nil || phiTmp == nil || phiRes == nil {
		c.Unk("C14-SPLIT", name, "state", fn.Pos(), "loop state (inside-quotes flag, current piece, result list) not recognised")
		return
	}
	// P starts false, tmp and res start empty
	for i, e := range phiP.Edges {
		if !loop.Body[phiP.Block().Preds[i]] {
			if cst, ok := e.(*ssa.Const); !ok || cst.Value == nil || cst.Value.String() != "false" {
				c.Bad("C14-SPLIT", name, "init", phiP.Pos(), "the splitter does not start outside quotes")
				return
			}
		}
	}
	// the current byte: a string index of the parameter inside the loop
	var cur ssa.Value
	for b := range loop.Body {
		for _, ins := range b.Instrs {
			switch x := ins.(type) {
			case *ssa.Lookup:
				if x.X == fn.Params[0] {
					cur = x
				}
			case *ssa.Index:
				if x.X == fn.Params[0] {
					cur = x
				}
			}
		}
	}
	if cur == nil {
		c.Unk("C14-SPLIT", name, "byte", fn.Pos(), "the byte read per iteration not recognised")
		return
	}
	inLoop := func(v ssa.Value) bool {
		ins, ok := v.(ssa.Instruction)
		return ok && ins.Block() != nil && loop.Body[ins.Block()]
	}
	isTmp := func(v ssa.Value) bool {
		// the current piece: header phi, or an in-iteration update of it
		seen := map[ssa.Value]bool{}
		var walk func(v ssa.Value) bool
		walk = func(v ssa.Value) bool {
			if v == phiTmp {
				return true
			}
			if seen[v] {
				return false
			}
			seen[v] = true
			switch x := v.(type) {
			case *ssa.Phi:
				if !loop.Body[x.Block()] || x.Block() == loop.Header {
					return false
				}
				for _, e := range x.Edges {
					if walk(e) {
						return true
					}
				}
			case *ssa.Call:
				if calleeName(&x.Call) == "builtin.append" {
					return walk(x.Call.Args[0])
				}
			}
			return false
		}
		return walk(v)
	}

	body := func() *ssa.BasicBlock {
		iff, ok := loop.Header.Instrs[len(loop.Header.Instrs)-1].(*ssa.If)
		if !ok {
			return nil
		}
		_ = iff
		for _, s := range loop.Header.Succs {
			if loop.Body[s] {
				return s
			}
		}
		return nil
	}()
	if body == nil {
		c.Unk("C14-SPLIT", name, "loop", fn.Pos(), "loop shape not recognised")
		return
	}

	type pathState struct {
		stackNonEmpty bool
		eff           splitEffect
		preds         map[*ssa.BasicBlock]*ssa.BasicBlock // block -> predecessor taken on this path
	}
	var undecided []string
	explore := func(cs splitCase) []splitEffect {
		var results []splitEffect
		var walk func(b, from *ssa.BasicBlock, st pathState, depth int)
		var evalCondRec func(v ssa.Value, st *pathState) (val, known bool)
		evalCond := func(v ssa.Value, st *pathState) (val, known bool) {
			neg := false
			for {
				if u, ok := v.(*ssa.UnOp); ok && u.Op == token.NOT {
					v, neg = u.X, !neg
					continue
				}
				break
			}
			res := func(b bool) (bool, bool) { return b != neg, true }
			switch x := v.(type) {
			case *ssa.Const:
				if x.Value != nil && (x.Value.String() == "true" || x.Value.String() == "false") {
					return res(x.Value.String() == "true")
				}
			case *ssa.Phi:
				if x == phiP {
					return res(cs.P)
				}
				// value of a short-circuit expression (a && b, a || b) materialised as a phi: take the
				// edge this path arrived through
				if prd, ok := st.preds[x.Block()]; ok {
					for i, pr := range x.Block().Preds {
						if pr == prd {
							if cst, isC := x.Edges[i].(*ssa.Const); isC && cst.Value != nil {
								return res(cst.Value.String() == "true")
							}
							v2, k2 := evalCondRec(x.Edges[i], st)
							if k2 {
								return res(v2)
							}
							return false, false
						}
					}
				}
			case *ssa.BinOp:
				if x.Op == token.EQL || x.Op == token.NEQ {
					var other ssa.Value
					switch {
					case x.X == cur:
						other = x.Y
					case x.Y == cur:
						other = x.X
					}
					if other != nil {
						eq := false
						if k, ok := constInt(other); ok {
							if k != '\'' {
								return false, false
							}
							eq = cs.Class == "quote"
						} else if !inLoop(other) {
							eq = cs.Class == "sep"
						} else {
							return false, false
						}
						if x.Op == token.NEQ {
							eq = !eq
						}
						return res(eq)
					}
				}
			case *ssa.Call:
				switch isStackCall(x) {
				case "IsEmpty":
					return res(!st.stackNonEmpty)
				case "IsEqualLastVal":
					if len(x.Call.Args) == 2 && x.Call.Args[1] == cur && st.stackNonEmpty {
						// by the invariant the only byte ever pushed is the quote
						return res(cs.Class == "quote")
					}
					return false, false
				}
			}
			return false, false
		}
		evalCondRec = evalCond
		walk = func(b, from *ssa.BasicBlock, st pathState, depth int) {
			if depth > 64 {
				undecided = append(undecided, "path too long")
				return
			}
			if b == loop.Header {
				// next P: value of phiP on the edge from `from`
				var nv ssa.Value
				for i, pr := range phiP.Block().Preds {
					if pr == from {
						nv = phiP.Edges[i]
					}
				}
				st.eff.nextP = -1
				if nv != nil {
					np := map[*ssa.BasicBlock]*ssa.BasicBlock{}
					for k, v := range st.preds {
						np[k] = v
					}
					np[b] = from
					st2 := st
					st2.preds = np
					if val, known := evalCond(nv, &st2); known {
						st.eff.nextP = 0
						if val {
							st.eff.nextP = 1
						}
						results = append(results, st.eff)
						return
					}
				}
				for d := 0; d < 8 && nv != nil; d++ {
					if nv == phiP {
						if cs.P {
							st.eff.nextP = 1
						} else {
							st.eff.nextP = 0
						}
						break
					}
					if cst, ok := nv.(*ssa.Const); ok && cst.Value != nil {
						if cst.Value.String() == "true" {
							st.eff.nextP = 1
						} else {
							st.eff.nextP = 0
						}
						break
					}
					ph, ok := nv.(*ssa.Phi)
					if !ok {
						break
					}
					prd := st.preds[ph.Block()]
					nv = nil
					for i, pr := range ph.Block().Preds {
						if pr == prd {
							nv = ph.Edges[i]
						}
					}
				}
				results = append(results, st.eff)
				return
			}
			if !loop.Body[b] {
				st.eff.notes = append(st.eff.notes, "the loop is left from inside an iteration")
				results = append(results, st.eff)
				return
			}
			np := map[*ssa.BasicBlock]*ssa.BasicBlock{}
			for k, v := range st.preds {
				np[k] = v
			}
			np[b] = from
			st.preds = np
			for _, ins := range b.Instrs {
				switch x := ins.(type) {
				case *ssa.Call:
					switch isStackCall(x) {
					case "Append":
						st.eff.push++
						st.stackNonEmpty = true
						if len(x.Call.Args) != 2 || x.Call.Args[1] != cur {
							st.eff.notes = append(st.eff.notes, "a byte other than the current one is pushed")
						}
						if cs.Class != "quote" {
							st.eff.notes = append(st.eff.notes, "a non-quote byte is pushed on the quote stack")
						}
					case "Pop":
						st.eff.pop++
						st.stackNonEmpty = false
					}
					if calleeName(&x.Call) == "builtin.append" {
						if isTmp(x.Call.Args[0]) {
							st.eff.appends++
							if el := elemOfVariadic(x.Call.Args[1]); el != cur {
								st.eff.notes = append(st.eff.notes, "something other than the current byte is appended to the piece")
							}
						} else if sl, ok := x.Type().Underlying().(*types.Slice); ok {
							if eb, ok := sl.Elem().Underlying().(*types.Basic); ok && eb.Kind() == types.String {
								st.eff.emit++
								el := elemOfVariadic(x.Call.Args[1])
								cv, isConv := el.(*ssa.Convert)
								if !isConv || !isTmp(cv.X) {
									st.eff.notes = append(st.eff.notes, "what is emitted inside the loop is not a copy (string conversion) of the current piece")
								}
							}
						}
					}
				case *ssa.Slice:
					if isTmp(x.X) && x.Low == nil {
						if k, ok := constInt(x.High); ok && k == 0 {
							st.eff.reset++
						}
					}
				}
			}
			switch t := b.Instrs[len(b.Instrs)-1].(type) {
			case *ssa.If:
				val, known := evalCond(t.Cond, &st)
				if !known {
					undecided = append(undecided, fmt.Sprintf("condition %T %s in block %d not decided by (inside-quotes, byte class, stack invariant)", t.Cond, t.Cond.String(), b.Index))
					return
				}
				if val {
					walk(b.Succs[0], b, st, depth+1)
				} else {
					walk(b.Succs[1], b, st, depth+1)
				}
			case *ssa.Jump:
				walk(b.Succs[0], b, st, depth+1)
			default:
				st.eff.notes = append(st.eff.notes, "the function returns or panics from inside an iteration")
				results = append(results, st.eff)
			}
		}
		walk(body, loop.Header, pathState{stackNonEmpty: cs.P, preds: map[*ssa.BasicBlock]*ssa.BasicBlock{}}, 0)
		return results
	}
	spec := map[splitCase]splitEffect{
		{false, "other"}: {appends: 1, nextP: 0},
		{false, "sep"}:   {emit: 1, reset: 1, nextP: 0},
		{false, "quote"}: {appends: 1, push: 1, nextP: 1},
		{true, "other"}:  {appends: 1, nextP: 1},
		{true, "sep"}:    {appends: 1, nextP: 1},
		{true, "quote"}:  {appends: 1, pop: 1, nextP: 0},
	}
	var cases []splitCase
	for cs := range spec {
		cases = append(cases, cs)
	}
	sort.Slice(cases, func(i, j int) bool {
		if cases[i].P != cases[j].P {
			return !cases[i].P
		}
		return cases[i].Class < cases[j].Class
	})
	for _, cs := range cases {
		c.Sites++
		undecided = nil
		effs := explore(cs)
		disc := fmt.Sprintf("step:%s,%s", map[bool]string{false: "outside", true: "inside-quotes"}[cs.P], cs.Class)
		if len(undecided) > 0 {
			c.Unk("C14-SPLIT", name, disc, fn.Pos(), uniqJoin(undecided, 2))
			continue
		}
		want := spec[cs]
		if !hasStack {
			want.push, want.pop = 0, 0
		}
		var bad []string
		if len(effs) != 1 {
			bad = append(bad, fmt.Sprintf("%d paths for one (state, byte class)", len(effs)))
		}
		for _, e := range effs {
			if e.appends != want.appends {
				bad = append(bad, fmt.Sprintf("the byte is appended to the piece %d time(s), want %d", e.appends, want.appends))
			}
			if e.push != want.push || e.pop != want.pop {
				bad = append(bad, fmt.Sprintf("quote stack: %d push / %d pop, want %d / %d", e.push, e.pop, want.push, want.pop))
			}
			if e.emit != want.emit {
				bad = append(bad, fmt.Sprintf("%d piece(s) emitted, want %d", e.emit, want.emit))
			}
			if e.reset != want.reset {
				bad = append(bad, fmt.Sprintf("piece buffer reset %d time(s), want %d", e.reset, want.reset))
			}
			if e.nextP != want.nextP {
				bad = append(bad, fmt.Sprintf("inside-quotes flag becomes %v, want %v", map[int]string{0: "false", 1: "true", -1: "unknown"}[e.nextP], map[int]string{0: "false", 1: "true"}[want.nextP]))
			}
			bad = append(bad, e.notes...)
		}
		c.Check(len(bad) == 0, "C14-SPLIT", name, disc, fn.Pos(), "matches the specification row", uniqJoin(bad, 4))
	}
	// ---- epilogue: after the loop the remaining piece is emitted iff it is non-empty, and the
	// result returned is the list built in the loop plus that piece
	{
		c.Sites++
		var bad []string
		var exit *ssa.BasicBlock
		for _, ee := range loop.exitEdges() {
			exit = ee[1]
		}
		okGuard, okAppend := false, false
		if exit != nil {
			if iff, ok := exit.Instrs[len(exit.Instrs)-1].(*ssa.If); ok {
				if bo, ok := iff.Cond.(*ssa.BinOp); ok {
					if ln, ok := bo.X.(*ssa.Call); ok && calleeName(&ln.Call) == "builtin.len" && ln.Call.Args[0] == phiTmp {
						k, isK := constInt(bo.Y)
						if isK && (k == 0 && (bo.Op == token.GTR || bo.Op == token.NEQ) || k == 1 && bo.Op == token.GEQ) {
							okGuard = true
							tb := exit.Succs[0]
							for _, ins := range tb.Instrs {
								if call, ok := ins.(*ssa.Call); ok && calleeName(&call.Call) == "builtin.append" && call.Call.Args[0] == phiRes {
									el := elemOfVariadic(call.Call.Args[1])
									switch x := el.(type) {
									case *ssa.Convert:
										okAppend = x.X == phiTmp
									case *ssa.Call:
										okAppend = len(x.Call.Args) == 1 && x.Call.Args[0] == phiTmp
									}
								}
							}
						}
					}
				}
			}
		}
		if !okGuard {
			bad = append(bad, "after the loop the last piece is not tested for being non-empty (a trailing piece is lost, or an empty one is invented)")
		} else if !okAppend {
			bad = append(bad, "after the loop the non-empty last piece is not appended to the result")
		}
		c.Check(len(bad) == 0, "C14-SPLIT", name, "epilogue", fn.Pos(), "last piece emitted iff non-empty", strings.Join(bad, "; "))
	}
}
