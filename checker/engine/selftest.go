package engine

import (
	"encoding/json"
	"fmt"
	"os"
	"os/exec"
	"path/filepath"
	"runtime"
	"sort"
	"strings"
)

// Kill-matrix: every catalogued single-instance break (M) is applied as an in-memory
// overlay of /repo's current file, must still type-check, and must make the named
// property checks fail; every catalogued behaviour-preserving rewrite (N) must keep them
// silent. This tests the CHECKER: a surviving mutant is never a VIOLATION of a property.

type Mutant struct {
	ID    string   `json:"id"`
	Kind  string   `json:"kind"` // "M" | "N"
	Props []string `json:"props"`
	File  string   `json:"file"`
	Old   string   `json:"old"`
	New   string   `json:"new"`
	Old2  string   `json:"old2"`
	New2  string   `json:"new2"`
	Note  string   `json:"note"`
}

type MutantResult struct {
	ID      string `json:"id"`
	Kind    string `json:"kind"`
	Prop    string `json:"property"`
	Outcome string `json:"outcome"` // killed | SURVIVED | silent | NOISY | stale | invalid
	Detail  string `json:"detail,omitempty"`
}

func loadCatalogue(verif string) ([]Mutant, error) {
	b, err := os.ReadFile(filepath.Join(verif, "selftest", "catalogue.json"))
	if err != nil {
		return nil, err
	}
	var ms []Mutant
	if err := json.Unmarshal(b, &ms); err != nil {
		return nil, err
	}
	return ms, nil
}

func dropCaches(p *Prog) {
	regCache.Delete(p)
	parseVerdictCache.Delete(p)
	constTabCache.Delete(p)
	walkCache.Delete(walkKey{p, nil})
}

func failingKeys(c *Ctx, ff *FindingsFile) map[string]string {
	known := map[string]bool{}
	if ff != nil {
		for _, f := range ff.Findings {
			if f.Status == "known" {
				known[f.Key] = true
			}
		}
	}
	out := map[string]string{}
	for _, o := range c.Obls {
		if o.Status != Discharged && !known[o.Key] {
			out[o.Key] = o.Detail
		}
	}
	return out
}

// RunKillMatrix applies the catalogue entries that name one of the given properties.
func RunKillMatrix(ids []string, repo, verif string, ff *FindingsFile) ([]MutantResult, error) {
	cat, err := loadCatalogue(verif)
	if err != nil {
		return nil, err
	}
	want := map[string]bool{}
	for _, id := range ids {
		want[id] = true
	}
	// baseline
	base, err := Load(Config{Repo: repo})
	if err != nil {
		return nil, fmt.Errorf("baseline load: %v", err)
	}
	baseline := map[string]map[string]string{}
	for id := range want {
		pd := Lookup(id)
		if pd == nil {
			continue
		}
		baseline[id] = failingKeys(RunOn(pd, base, "quick"), ff)
	}
	dropCaches(base)
	var results []MutantResult
	for _, m := range cat {
		var props []string
		for _, pr := range m.Props {
			if want[pr] {
				props = append(props, pr)
			}
		}
		if len(props) == 0 {
			continue
		}
		abs := filepath.Join(repo, m.File)
		src, err := os.ReadFile(abs)
		if err != nil {
			results = append(results, MutantResult{ID: m.ID, Kind: m.Kind, Outcome: "stale", Detail: err.Error()})
			continue
		}
		text := string(src)
		if strings.Count(text, m.Old) != 1 || (m.Old2 != "" && strings.Count(text, m.Old2) != 1) {
			for _, pr := range props {
				results = append(results, MutantResult{ID: m.ID, Kind: m.Kind, Prop: pr, Outcome: "stale", Detail: "the construct this entry rewrites is no longer present exactly once in " + m.File})
			}
			continue
		}
		text = strings.Replace(text, m.Old, m.New, 1)
		if m.Old2 != "" {
			text = strings.Replace(text, m.Old2, m.New2, 1)
		}
		p, err := Load(Config{Repo: repo, Overlay: map[string][]byte{abs: []byte(text)}})
		if err != nil {
			for _, pr := range props {
				results = append(results, MutantResult{ID: m.ID, Kind: m.Kind, Prop: pr, Outcome: "invalid", Detail: shorten(err.Error(), 200)})
			}
			continue
		}
		for _, pr := range props {
			pd := Lookup(pr)
			if pd == nil {
				continue
			}
			fails := failingKeys(RunOn(pd, p, "quick"), ff)
			var fresh []string
			for k, d := range fails {
				if _, was := baseline[pr][k]; !was {
					fresh = append(fresh, k+": "+shorten(d, 140))
				}
			}
			sort.Strings(fresh)
			r := MutantResult{ID: m.ID, Kind: m.Kind, Prop: pr}
			switch {
			case m.Kind == "M" && len(fresh) > 0:
				r.Outcome, r.Detail = "killed", fresh[0]
			case m.Kind == "M":
				r.Outcome = "SURVIVED"
			case len(fresh) > 0:
				r.Outcome, r.Detail = "NOISY", fresh[0]
			default:
				r.Outcome = "silent"
			}
			results = append(results, r)
		}
		dropCaches(p)
		runtime.GC()
	}
	// seeded changes kept under <verif>/seeded/<id>/ (patch.diff + meta.json): each must be
	// reported by the check of the property it was written against
	seeds, _ := filepath.Glob(filepath.Join(verif, "seeded", "*", "meta.json"))
	sort.Strings(seeds)
	for _, mf := range seeds {
		var meta struct {
			ID       string `json:"id"`
			Property string `json:"property"`
		}
		b, err := os.ReadFile(mf)
		if err != nil || json.Unmarshal(b, &meta) != nil || !want[meta.Property] {
			continue
		}
		id := "seed:" + meta.ID
		ov, err := patchOverlay(repo, filepath.Join(filepath.Dir(mf), "patch.diff"))
		if err != nil {
			results = append(results, MutantResult{ID: id, Kind: "S", Prop: meta.Property, Outcome: "stale", Detail: shorten(err.Error(), 200)})
			continue
		}
		p, err := Load(Config{Repo: repo, Overlay: ov})
		if err != nil {
			results = append(results, MutantResult{ID: id, Kind: "S", Prop: meta.Property, Outcome: "invalid", Detail: shorten(err.Error(), 200)})
			continue
		}
		pd := Lookup(meta.Property)
		fails := failingKeys(RunOn(pd, p, "quick"), ff)
		var fresh []string
		for k, d := range fails {
			if _, was := baseline[meta.Property][k]; !was {
				fresh = append(fresh, k+": "+shorten(d, 140))
			}
		}
		sort.Strings(fresh)
		r := MutantResult{ID: id, Kind: "S", Prop: meta.Property}
		if len(fresh) > 0 {
			r.Outcome, r.Detail = "killed", fresh[0]
		} else {
			r.Outcome = "SURVIVED"
		}
		results = append(results, r)
		dropCaches(p)
		runtime.GC()
	}
	// behaviour-preserving refactorings kept under <verif>/neutral/<id>/: the check of the
	// property they were written around must stay silent
	neutrals, _ := filepath.Glob(filepath.Join(verif, "neutral", "*", "meta.json"))
	sort.Strings(neutrals)
	for _, mf := range neutrals {
		var meta struct {
			ID         string   `json:"id"`
			Property   string   `json:"property"`
			Properties []string `json:"properties"`
		}
		b, err := os.ReadFile(mf)
		if err != nil || json.Unmarshal(b, &meta) != nil {
			continue
		}
		// a refactoring may be registered for several properties: take the first one asked for
		for _, pr := range meta.Properties {
			if want[pr] && !want[meta.Property] {
				meta.Property = pr
			}
		}
		if !want[meta.Property] {
			continue
		}
		id := "neutral:" + meta.ID
		ov, err := patchOverlay(repo, filepath.Join(filepath.Dir(mf), "patch.diff"))
		if err != nil {
			results = append(results, MutantResult{ID: id, Kind: "N", Prop: meta.Property, Outcome: "stale", Detail: shorten(err.Error(), 200)})
			continue
		}
		p, err := Load(Config{Repo: repo, Overlay: ov})
		if err != nil {
			results = append(results, MutantResult{ID: id, Kind: "N", Prop: meta.Property, Outcome: "invalid", Detail: shorten(err.Error(), 200)})
			continue
		}
		fails := failingKeys(RunOn(Lookup(meta.Property), p, "quick"), ff)
		var fresh []string
		for k, d := range fails {
			if _, was := baseline[meta.Property][k]; !was {
				fresh = append(fresh, k+": "+shorten(d, 140))
			}
		}
		sort.Strings(fresh)
		r := MutantResult{ID: id, Kind: "N", Prop: meta.Property, Outcome: "silent"}
		if len(fresh) > 0 {
			r.Outcome, r.Detail = "NOISY", fresh[0]
		}
		results = append(results, r)
		dropCaches(p)
		runtime.GC()
	}
	return results, nil
}

// patchOverlay applies a unified diff to copies of the files it touches (in a scratch
// directory) and returns the patched contents keyed by their path inside repo.
func patchOverlay(repo, patch string) (map[string][]byte, error) {
	raw, err := os.ReadFile(patch)
	if err != nil {
		return nil, err
	}
	var files []string
	for _, ln := range strings.Split(string(raw), "\n") {
		if strings.HasPrefix(ln, "+++ b/") {
			files = append(files, strings.TrimSpace(strings.TrimPrefix(ln, "+++ b/")))
		}
	}
	if len(files) == 0 {
		return nil, fmt.Errorf("no files in patch")
	}
	tmp, err := os.MkdirTemp("", "pgv-seed-")
	if err != nil {
		return nil, err
	}
	defer os.RemoveAll(tmp)
	for _, f := range files {
		src, err := os.ReadFile(filepath.Join(repo, f))
		if err != nil {
			continue // file created by the patch
		}
		if err := os.MkdirAll(filepath.Dir(filepath.Join(tmp, f)), 0o755); err != nil {
			return nil, err
		}
		if err := os.WriteFile(filepath.Join(tmp, f), src, 0o644); err != nil {
			return nil, err
		}
	}
	cmd := exec.Command("patch", "-p1", "-s", "-N", "--no-backup-if-mismatch", "-i", patch)
	cmd.Dir = tmp
	if out, err := cmd.CombinedOutput(); err != nil {
		return nil, fmt.Errorf("patch does not apply to the current tree: %s", strings.TrimSpace(string(out)))
	}
	ov := map[string][]byte{}
	for _, f := range files {
		b, err := os.ReadFile(filepath.Join(tmp, f))
		if err != nil {
			return nil, err
		}
		ov[filepath.Join(repo, f)] = b
	}
	return ov, nil
}

// Summarise condenses kill-matrix results for the evidence file.
func Summarise(rs []MutantResult) map[string]interface{} { return summarise(rs) }

func summarise(rs []MutantResult) map[string]interface{} {
	count := map[string]int{}
	var bad []interface{}
	for _, r := range rs {
		count[r.Outcome]++
		if r.Outcome == "SURVIVED" || r.Outcome == "NOISY" || r.Outcome == "stale" || r.Outcome == "invalid" {
			bad = append(bad, r)
		}
	}
	return map[string]interface{}{
		"applied": len(rs), "killed": count["killed"], "survived": count["SURVIVED"], "neutral_silent": count["silent"], "neutral_noisy": count["NOISY"],
		"stale": count["stale"], "invalid": count["invalid"], "attention": bad,
	}
}

// SelfTest runs the kill-matrix for the given properties and prints a report.
func SelfTest(ids []string, repo, verif string) int {
	ff, _ := LoadFindings(filepath.Join(verif, "known_findings.json"))
	rs, err := RunKillMatrix(ids, repo, verif, ff)
	if err != nil {
		fmt.Println("selftest:", err)
		return 2
	}
	code := 0
	for _, r := range rs {
		mark := "ok  "
		if r.Outcome == "SURVIVED" || r.Outcome == "NOISY" || r.Outcome == "invalid" || r.Outcome == "stale" {
			mark = "FAIL"
			code = 1
		}
		fmt.Printf("%s %-8s %s %-26s %s %s\n", mark, r.Outcome, r.Kind, r.ID, r.Prop, shorten(r.Detail, 150))
	}
	s := summarise(rs)
	fmt.Printf("selftest: applied=%v killed=%v survived=%v neutral_silent=%v neutral_noisy=%v stale=%v invalid=%v\n", s["applied"], s["killed"], s["survived"], s["neutral_silent"], s["neutral_noisy"], s["stale"], s["invalid"])
	return code
}
