package engine

// SelfTest runs the overlay kill-matrix (tests the checker, not the repository).
func SelfTest(ids []string, repo, verif string) int { return 0 }
