package engine

import (
	"fmt"
	"go/token"
	"go/types"
	"sort"
	"strings"

	"golang.org/x/tools/go/ssa"
)

// ---------------------------------------------------------------------------------------
// byte-predicate intervals: the set of first bytes for which a small boolean function of a
// string returns true, computed by enumerating the paths of its (loop-free) CFG over the
// interval domain. No value is computed; comparisons with constants split intervals.

type byteSet [256]bool

type bpState struct {
	lo, hi   int  // possible values of the first byte
	nonEmpty int8 // -1 unknown, 0 empty, 1 non-empty
}

// firstBytePredicate returns (set of first bytes accepted for a non-empty string, verdict on the
// empty string, ok). ok=false when the function's shape is not a loop-free predicate over s[0].
func firstBytePredicate(fn *ssa.Function) (acc byteSet, emptyAccepted bool, why string) {
	if fn == nil || len(fn.Params) != 1 || len(fn.Blocks) == 0 {
		return acc, false, "not a one-parameter function"
	}
	if len(naturalLoops(fn)) > 0 {
		return acc, false, "predicate contains a loop"
	}
	param := fn.Params[0]
	isFirst := func(v ssa.Value) bool {
		switch x := v.(type) {
		case *ssa.Index:
			k, ok := constInt(x.Index)
			return ok && k == 0 && x.X == param
		case *ssa.Lookup:
			k, ok := constInt(x.Index)
			return ok && k == 0 && x.X == param
		case *ssa.Convert:
			if idx, ok := x.X.(*ssa.Index); ok {
				k, isK := constInt(idx.Index)
				return isK && k == 0 && idx.X == param
			}
			if idx, ok := x.X.(*ssa.Lookup); ok {
				k, isK := constInt(idx.Index)
				return isK && k == 0 && idx.X == param
			}
		}
		return false
	}
	failed := ""
	// evaluate a boolean value under a state: returns the refined states for true / false
	var evalCond func(v ssa.Value, st bpState, from *ssa.BasicBlock, depth int) (t, f []bpState)
	evalCond = func(v ssa.Value, st bpState, from *ssa.BasicBlock, depth int) (t, f []bpState) {
		if depth > 6 {
			failed = "condition too deep"
			return
		}
		switch x := v.(type) {
		case *ssa.Const:
			if x.Value != nil && x.Value.String() == "true" {
				return []bpState{st}, nil
			}
			return nil, []bpState{st}
		case *ssa.UnOp:
			if x.Op == token.NOT {
				f2, t2 := evalCond(x.X, st, from, depth+1)
				return t2, f2
			}
		case *ssa.BinOp:
			// emptiness: s == "" / s != "" / len(s) == 0 ...
			if s, ok := constString(x.Y); ok && s == "" && x.X == param {
				e, ne := st, st
				e.nonEmpty, ne.nonEmpty = 0, 1
				var ts, fs []bpState
				if st.nonEmpty != 1 {
					ts = append(ts, e)
				}
				if st.nonEmpty != 0 {
					fs = append(fs, ne)
				}
				if x.Op == token.EQL {
					return ts, fs
				}
				if x.Op == token.NEQ {
					return fs, ts
				}
			}
			if call, ok := x.X.(*ssa.Call); ok && calleeName(&call.Call) == "builtin.len" && call.Call.Args[0] == param {
				if k, isK := constInt(x.Y); isK {
					e, ne := st, st
					e.nonEmpty, ne.nonEmpty = 0, 1
					var es, nes []bpState
					if st.nonEmpty != 1 {
						es = append(es, e)
					}
					if st.nonEmpty != 0 {
						nes = append(nes, ne)
					}
					switch {
					case x.Op == token.EQL && k == 0, x.Op == token.LEQ && k == 0, x.Op == token.LSS && k == 1:
						return es, nes
					case x.Op == token.NEQ && k == 0, x.Op == token.GTR && k == 0, x.Op == token.GEQ && k == 1:
						return nes, es
					}
				}
			}
			// arithmetic on the first byte (e.g. the wrap-around range test s[0]-'A' < 26): evaluated
			// concretely for every byte still possible
			if !isFirst(x.X) && !isFirst(x.Y) {
				if _, okx := byteExpr(x.X, isFirst, 0, 0); okx {
					if _, oky := byteExpr(x.Y, isFirst, 0, 0); oky {
						var tr, fr [][2]int
						add := func(rs [][2]int, b int) [][2]int {
							if n := len(rs); n > 0 && rs[n-1][1] == b-1 {
								rs[n-1][1] = b
								return rs
							}
							return append(rs, [2]int{b, b})
						}
						for b := st.lo; b <= st.hi; b++ {
							l, _ := byteExpr(x.X, isFirst, int64(b), 0)
							r, _ := byteExpr(x.Y, isFirst, int64(b), 0)
							var res, known bool
							switch x.Op {
							case token.LSS:
								res, known = l < r, true
							case token.LEQ:
								res, known = l <= r, true
							case token.GTR:
								res, known = l > r, true
							case token.GEQ:
								res, known = l >= r, true
							case token.EQL:
								res, known = l == r, true
							case token.NEQ:
								res, known = l != r, true
							}
							if !known {
								failed = "unsupported comparison"
								return
							}
							if res {
								tr = add(tr, b)
							} else {
								fr = add(fr, b)
							}
						}
						mk2 := func(rs [][2]int) []bpState {
							var out []bpState
							for _, r := range rs {
								s2 := st
								s2.lo, s2.hi = r[0], r[1]
								out = append(out, s2)
							}
							return out
						}
						return mk2(tr), mk2(fr)
					}
				}
			}
			var k int64
			var isK bool
			op := x.Op
			switch {
			case isFirst(x.X):
				k, isK = constInt(x.Y)
			case isFirst(x.Y):
				k, isK = constInt(x.X)
				op = map[token.Token]token.Token{token.LSS: token.GTR, token.LEQ: token.GEQ, token.GTR: token.LSS, token.GEQ: token.LEQ, token.EQL: token.EQL, token.NEQ: token.NEQ}[op]
			}
			if isK {
				// split [lo,hi] by "first op k"
				var tr, fr [][2]int
				lo, hi := st.lo, st.hi
				kk := int(k)
				switch op {
				case token.LSS:
					tr, fr = [][2]int{{lo, min(hi, kk-1)}}, [][2]int{{max(lo, kk), hi}}
				case token.LEQ:
					tr, fr = [][2]int{{lo, min(hi, kk)}}, [][2]int{{max(lo, kk+1), hi}}
				case token.GTR:
					tr, fr = [][2]int{{max(lo, kk+1), hi}}, [][2]int{{lo, min(hi, kk)}}
				case token.GEQ:
					tr, fr = [][2]int{{max(lo, kk), hi}}, [][2]int{{lo, min(hi, kk-1)}}
				case token.EQL:
					tr, fr = [][2]int{{max(lo, kk), min(hi, kk)}}, [][2]int{{lo, min(hi, kk-1)}, {max(lo, kk+1), hi}}
				case token.NEQ:
					fr, tr = [][2]int{{max(lo, kk), min(hi, kk)}}, [][2]int{{lo, min(hi, kk-1)}, {max(lo, kk+1), hi}}
				default:
					failed = "unsupported comparison"
					return
				}
				mk := func(rs [][2]int) []bpState {
					var out []bpState
					for _, r := range rs {
						if r[0] <= r[1] {
							s2 := st
							s2.lo, s2.hi = r[0], r[1]
							out = append(out, s2)
						}
					}
					return out
				}
				return mk(tr), mk(fr)
			}
		case *ssa.Phi:
			// value of a short-circuit expression: pick the edge we arrived through
			for i, e := range x.Edges {
				if x.Block().Preds[i] == from {
					return evalCond(e, st, from, depth+1)
				}
			}
		}
		failed = fmt.Sprintf("unrecognised condition %T", v)
		return
	}
	type item struct {
		b    *ssa.BasicBlock
		from *ssa.BasicBlock
		st   bpState
	}
	work := []item{{fn.Blocks[0], nil, bpState{0, 255, -1}}}
	steps := 0
	for len(work) > 0 && failed == "" {
		it := work[len(work)-1]
		work = work[:len(work)-1]
		steps++
		if steps > 4000 {
			failed = "too many paths"
			break
		}
		last := it.b.Instrs[len(it.b.Instrs)-1]
		switch x := last.(type) {
		case *ssa.If:
			// phis in conditions refer to the edge into THIS block
			t, f := evalCond(x.Cond, it.st, it.from, 0)
			for _, s := range t {
				work = append(work, item{it.b.Succs[0], it.b, s})
			}
			for _, s := range f {
				work = append(work, item{it.b.Succs[1], it.b, s})
			}
		case *ssa.Jump:
			work = append(work, item{it.b.Succs[0], it.b, it.st})
		case *ssa.Return:
			if len(x.Results) != 1 {
				failed = "not a single-result function"
				break
			}
			t, _ := evalCond(x.Results[0], it.st, it.from, 0)
			for _, s := range t {
				if s.nonEmpty == 0 {
					emptyAccepted = true
					continue
				}
				if s.nonEmpty == -1 {
					emptyAccepted = true // accepted without having tested emptiness
				}
				for b := s.lo; b <= s.hi; b++ {
					acc[b] = true
				}
			}
		default:
			failed = fmt.Sprintf("unrecognised terminator %T", last)
		}
	}
	return acc, emptyAccepted, failed
}

// byteExpr evaluates an integer expression over the first byte (constants, + - & | ^ with the Go
// wrap-around of the expression's own type, integer conversions) for first byte = b. ok=false when the
// expression contains anything else; an expression without the first byte at all is a constant.
func byteExpr(v ssa.Value, isFirst func(ssa.Value) bool, b int64, depth int) (int64, bool) {
	if depth > 6 {
		return 0, false
	}
	wrap := func(x int64, t types.Type) int64 {
		bt, ok := t.Underlying().(*types.Basic)
		if !ok {
			return x
		}
		switch bt.Kind() {
		case types.Uint8:
			return int64(uint8(x))
		case types.Int8:
			return int64(int8(x))
		case types.Uint16:
			return int64(uint16(x))
		case types.Int16:
			return int64(int16(x))
		case types.Uint32:
			return int64(uint32(x))
		case types.Int32:
			return int64(int32(x))
		}
		return x
	}
	if isFirst(v) {
		return wrap(b, v.Type()), true
	}
	switch x := v.(type) {
	case *ssa.Const:
		k, ok := constInt(x)
		return k, ok
	case *ssa.Convert:
		if bt, ok := x.Type().Underlying().(*types.Basic); ok && bt.Info()&types.IsInteger != 0 {
			in, ok := byteExpr(x.X, isFirst, b, depth+1)
			return wrap(in, x.Type()), ok
		}
	case *ssa.BinOp:
		l, ok1 := byteExpr(x.X, isFirst, b, depth+1)
		r, ok2 := byteExpr(x.Y, isFirst, b, depth+1)
		if !ok1 || !ok2 {
			return 0, false
		}
		switch x.Op {
		case token.ADD:
			return wrap(l+r, x.Type()), true
		case token.SUB:
			return wrap(l-r, x.Type()), true
		case token.AND:
			return wrap(l&r, x.Type()), true
		case token.OR:
			return wrap(l|r, x.Type()), true
		case token.XOR:
			return wrap(l^r, x.Type()), true
		}
	}
	return 0, false
}

func byteSetString(s byteSet) string {
	var parts []string
	for i := 0; i < 256; {
		if !s[i] {
			i++
			continue
		}
		j := i
		for j+1 < 256 && s[j+1] {
			j++
		}
		show := func(b int) string {
			if b >= 33 && b < 127 {
				return fmt.Sprintf("'%c'", b)
			}
			return fmt.Sprintf("0x%02x", b)
		}
		if i == j {
			parts = append(parts, show(i))
		} else {
			parts = append(parts, show(i)+".."+show(j))
		}
		i = j + 1
	}
	if len(parts) == 0 {
		return "nothing"
	}
	return strings.Join(parts, ",")
}

// runExportPred: IsExported(name) must hold exactly for non-empty names whose first byte is an
// ASCII upper-case letter (every exported Go identifier that generated code uses; the property
// statement: "only unexported fields are skipped").
func runExportPred(c *Ctx, rule string) {
	p := c.P
	c.Rule(rule, "IsExported(name) ⇔ name is non-empty and its first byte is in 'A'..'Z' (or it delegates to go/ast, go/token or unicode.IsUpper)", 1)
	fn := p.Func("valid", "IsExported")
	if fn == nil {
		c.Unk(rule, "valid.IsExported", "predicate", token.NoPos, "export predicate not found")
		return
	}
	c.Funcs[fnName(fn)] = true
	c.Sites++
	// delegation forms
	for _, b := range fn.Blocks {
		for _, ins := range b.Instrs {
			if call, ok := ins.(*ssa.Call); ok {
				switch calleeName(&call.Call) {
				case "go/ast.IsExported", "go/token.IsExported":
					if len(fn.Blocks) == 1 && call.Call.Args[0] == fn.Params[0] {
						c.OK(rule, fnName(fn), "predicate", fn.Pos(), "delegates to "+calleeName(&call.Call))
						return
					}
				}
			}
		}
	}
	acc, emptyOK, why := firstBytePredicate(fn)
	if why != "" {
		c.Unk(rule, fnName(fn), "predicate", fn.Pos(), "export predicate not decided: "+why)
		return
	}
	var want byteSet
	for b := 'A'; b <= 'Z'; b++ {
		want[b] = true
	}
	var bad []string
	if emptyOK {
		bad = append(bad, "the empty name is reported as exported")
	}
	if acc != want {
		var missing, extra byteSet
		for i := range acc {
			missing[i] = want[i] && !acc[i]
			extra[i] = acc[i] && !want[i]
		}
		if missing != (byteSet{}) {
			bad = append(bad, "exported fields whose name starts with "+byteSetString(missing)+" are treated as unexported (silently skipped)")
		}
		if extra != (byteSet{}) {
			bad = append(bad, "names starting with "+byteSetString(extra)+" are treated as exported (reflect panics on unexported fields)")
		}
	}
	c.Check(len(bad) == 0, rule, fnName(fn), "predicate", fn.Pos(), "accepts exactly first byte 'A'..'Z' of a non-empty name", strings.Join(bad, "; "))
}

// ---------------------------------------------------------------------------------------

// runC20Extra: C20-FIELDIDX, C20-SCALAR, C20-EXPORT.
func runC20Extra(c *Ctx) {
	p := c.P
	hd := p.Method("valid", "dumpStruct", "HandleDumpStruct")
	kv := p.Method("valid", "dumpStruct", "loopHandleKV")
	if hd == nil || kv == nil {
		return // reported by C20-EMIT
	}
	// ---- FIELDIDX
	c.Rule("C20-FIELDIDX", "every reflect Field(i) of the dumper has 0 <= i < NumField() of the same value/type (an empty struct has no field 0); every index/slice is in bounds", 2)
	for _, fn := range []*ssa.Function{hd, kv} {
		sites := checkBoundsOpt(p, fn, nil, true)
		sortSites(p, sites)
		per := map[string]int{}
		for _, s := range sites {
			c.Sites++
			what := s.What
			if call, ok := s.Ins.(*ssa.Call); ok {
				what = "Field:" + shortType(call.Call.Value.Type().String())
				if !call.Call.IsInvoke() {
					what = "Field:reflect.Value"
				}
				what += ":" + idxRole(call.Call.Args[len(call.Call.Args)-1])
			}
			per[what]++
			disc := fmt.Sprintf("%s#%d", what, per[what])
			if s.Proved {
				c.OK("C20-FIELDIDX", fnName(fn), disc, instrPos(s.Ins), "in bounds")
			} else {
				c.Bad("C20-FIELDIDX", fnName(fn), disc, instrPos(s.Ins), "the dumper can panic: "+s.Why+" (e.g. a struct with no fields)")
			}
		}
	}
	// ---- SCALAR: accessor/formatter pairing
	c.Rule("C20-SCALAR", "numbers are rendered from the accessor of their own kind class: AppendInt/FormatInt(tv.Int()), AppendUint/FormatUint(tv.Uint()), AppendFloat/FormatFloat(tv.Float()), base 10", 3)
	type pair struct{ acc, fmtName string }
	want := map[string]string{"Int": "(reflect.Value).Int", "Uint": "(reflect.Value).Uint", "Float": "(reflect.Value).Float"}
	n := map[string]int{}
	for _, fn := range []*ssa.Function{hd, kv} {
		for _, b := range fn.Blocks {
			for _, ins := range b.Instrs {
				call, ok := ins.(*ssa.Call)
				if !ok {
					continue
				}
				nm := calleeName(&call.Call)
				if !strings.HasPrefix(nm, "strconv.Append") && !strings.HasPrefix(nm, "strconv.Format") {
					continue
				}
				cls := strings.TrimPrefix(strings.TrimPrefix(nm, "strconv.Append"), "strconv.Format")
				acc, known := want[cls]
				if !known {
					continue
				}
				c.Sites++
				n[cls]++
				argi := 0
				if strings.HasPrefix(nm, "strconv.Append") {
					argi = 1
				}
				v := call.Call.Args[argi]
				var bad []string
				src, isCall := v.(*ssa.Call)
				if !isCall || calleeName(&src.Call) != acc {
					got := fmt.Sprintf("%T", v)
					if cv, ok := v.(*ssa.Convert); ok {
						if s2, ok := cv.X.(*ssa.Call); ok {
							got = "a conversion of " + calleeName(&s2.Call) + "()"
						}
					} else if isCall {
						got = calleeName(&src.Call) + "()"
					}
					bad = append(bad, fmt.Sprintf("%s is given %s instead of %s(): values outside the other class's range are printed wrongly (uint64 above 2^63-1 become negative)", nm, got, acc))
				}
				if cls != "Float" {
					if k, ok := constInt(call.Call.Args[argi+1]); !ok || k != 10 {
						bad = append(bad, nm+" does not use base 10")
					}
				}
				c.Check(len(bad) == 0, "C20-SCALAR", fnName(fn), fmt.Sprintf("%s#%d", cls, n[cls]), call.Pos(), nm+"("+acc+"())", strings.Join(bad, "; "))
			}
		}
	}
	// no narrowing of the accessor's result before it is rendered (strconv.Itoa(int(tv.Int())) prints the
	// low 32 bits of an int64 on 32-bit platforms)
	for _, fn := range []*ssa.Function{hd, kv} {
		for _, b := range fn.Blocks {
			for _, ins := range b.Instrs {
				cv, ok := ins.(*ssa.Convert)
				if !ok {
					continue
				}
				src, ok := cv.X.(*ssa.Call)
				if !ok {
					continue
				}
				if nm := calleeName(&src.Call); nm != "(reflect.Value).Int" && nm != "(reflect.Value).Uint" {
					continue
				}
				c.Sites++
				why := lossyIntConv(cv.X.Type(), cv.Type())
				c.Check(why == "", "C20-SCALAR", fnName(fn), "narrowing:"+cv.Type().String(), cv.Pos(), "value preserving conversion", "the number is converted before it is rendered: "+why)
			}
		}
	}
	// strings are written as they are: the text of tv.String() reaches the builder through concatenation only.
	// The property's strings need no escapes, so any rewriting of the text (an SQL-style escaper turns ' into \',
	// which no JSON parser accepts; a quoting helper quotes twice) makes valid input come out malformed.
	for _, fn := range []*ssa.Function{hd, kv} {
		nStr := 0
		for _, b := range fn.Blocks {
			for _, ins := range b.Instrs {
				call, ok := ins.(*ssa.Call)
				if !ok || calleeName(&call.Call) != "(reflect.Value).String" {
					continue
				}
				nStr++
				c.Sites++
				var bad []string
				seen := map[ssa.Value]bool{}
				var follow func(v ssa.Value)
				follow = func(v ssa.Value) {
					if seen[v] {
						return
					}
					seen[v] = true
					for _, r := range refs(v) {
						switch x := r.(type) {
						case *ssa.BinOp:
							if x.Op == token.ADD {
								follow(x)
							}
						case *ssa.Phi:
							follow(x)
						case *ssa.Call:
							nm := calleeName(&x.Call)
							switch {
							case strings.HasPrefix(nm, "(*strings.Builder).Write"), strings.HasPrefix(nm, "(*bytes.Buffer).Write"), nm == "builtin.len", nm == "builtin.append":
							default:
								bad = append(bad, "the string's text is passed through "+nm+" at "+p.Pos(x.Pos())+" before it is written")
							}
						case *ssa.Convert:
							follow(x)
						case *ssa.Slice:
							bad = append(bad, "the string's text is cut at "+p.Pos(r.Pos())+" before it is written")
						}
					}
				}
				follow(call)
				c.Check(len(bad) == 0, "C20-SCALAR", fnName(fn), fmt.Sprintf("String#%d", nStr), call.Pos(), "the string's own text is written between the quotes", strings.Join(uniqStrings(bad), "; "))
			}
		}
	}
	// ---- EXPORT
	runExportPred(c, "C20-EXPORT")
	// the dumper decides "emit this field" by that predicate on the field's Name
	{
		var bad []string
		nCalls := 0
		exp := p.Func("valid", "IsExported")
		for _, b := range hd.Blocks {
			for _, ins := range b.Instrs {
				call, ok := ins.(*ssa.Call)
				if !ok || exp == nil || staticCallee(&call.Call) != exp {
					continue
				}
				nCalls++
				okArg := false
				switch a := call.Call.Args[0].(type) {
				case *ssa.Field:
					okArg = fieldValName(a) == "Name"
				case *ssa.UnOp:
					if fa, ok := a.X.(*ssa.FieldAddr); ok {
						okArg = fieldAddrName(fa) == "Name"
					}
				}
				if !okArg {
					bad = append(bad, "the export test at "+p.Pos(call.Pos())+" is not applied to the field's Name")
				}
			}
		}
		if nCalls == 0 {
			bad = append(bad, "the struct emitter does not test fields with the export predicate")
		}
		c.Check(len(bad) == 0, "C20-EXPORT", fnName(hd), "uses-predicate", hd.Pos(), fmt.Sprintf("%d export tests on StructField.Name", nCalls), strings.Join(bad, "; "))
	}
	_ = types.Typ
	_ = sort.Strings
}

// idxRole: a stable description of an index operand (constant k, or "var").
func idxRole(v ssa.Value) string {
	if k, ok := constInt(v); ok {
		return fmt.Sprintf("const%d", k)
	}
	return "var"
}

// runC20Reentrant: the two emitters call each other recursively for nested values, so the state
// that decides separators (the "something was already emitted" flag, counters) has to live in
// locals of each activation. A field of the shared dumper object written by an emitter is
// overwritten by the nested call and read again by the outer one: a nested struct with no
// exported field then swallows the comma before the next member.
func runC20Reentrant(c *Ctx) {
	p := c.P
	c.Rule("C20-REENTRANT", "the recursive emitters keep their separator state in locals: no field of the dumper object is assigned by an emitter", 1)
	hd := p.Method("valid", "dumpStruct", "HandleDumpStruct")
	kv := p.Method("valid", "dumpStruct", "loopHandleKV")
	if hd == nil || kv == nil {
		return
	}
	var bad []string
	n := 0
	for _, fn := range []*ssa.Function{hd, kv} {
		recv := fn.Params[0]
		for _, b := range fn.Blocks {
			for _, ins := range b.Instrs {
				st, ok := ins.(*ssa.Store)
				if !ok {
					continue
				}
				n++
				fa, ok := st.Addr.(*ssa.FieldAddr)
				if ok && fa.X == recv {
					bad = append(bad, fmt.Sprintf("%s assigns the dumper's field %s at %s: the recursive call for a nested value overwrites it before the outer activation reads it again", fnName(fn), fieldAddrName(fa), p.Pos(st.Pos())))
				}
			}
		}
	}
	c.Sites += n
	c.Check(len(bad) == 0, "C20-REENTRANT", "valid.dumpStruct", "no-field-state", hd.Pos(), fmt.Sprintf("%d stores in the emitters, none to a field of the shared object", n), uniqJoin(bad, 3))
}

// runC20Facade: rules C20-GET and C20-FACADE. What the emitters wrote is what the caller gets: Get returns
// the builder's text itself, and the convenience wrapper returns Get's result of a dumper that was
// handed reflect.ValueOf of the caller's value — no post-processing, no shortcut results.
func runC20Facade(c *Ctx) {
	p := c.P
	c.Rule("C20-GET", "dumpStruct.Get returns the text of the dumper's own builder unchanged on every path", 1)
	c.Rule("C20-FACADE", "GetDumpStructStr returns, on every path, the Get() result of a dumper whose HandleDumpStruct received reflect.ValueOf of the caller's value", 1)
	get := p.Method("valid", "dumpStruct", "Get")
	hd := p.Method("valid", "dumpStruct", "HandleDumpStruct")
	if get == nil || hd == nil {
		c.Unk("C20-GET", "valid.dumpStruct", "anchor", token.NoPos, "Get / HandleDumpStruct not found")
		return
	}
	c.Funcs[fnName(get)] = true
	{
		var bad []string
		n := 0
		for _, b := range get.Blocks {
			ret, ok := b.Instrs[len(b.Instrs)-1].(*ssa.Return)
			if !ok || len(ret.Results) != 1 {
				continue
			}
			n++
			v := ret.Results[0]
			// deferred release: the result may be spilled into the named result slot
			if ld, ok := v.(*ssa.UnOp); ok && ld.Op == token.MUL {
				if al, ok := ld.X.(*ssa.Alloc); ok {
					var stored []ssa.Value
					for _, r := range refs(al) {
						if st, ok := r.(*ssa.Store); ok && st.Addr == ssa.Value(al) {
							stored = append(stored, st.Val)
						}
					}
					if len(stored) == 1 {
						v = stored[0]
					}
				}
			}
			call, ok := v.(*ssa.Call)
			if !ok || calleeName(&call.Call) != "(*strings.Builder).String" {
				bad = append(bad, p.Pos(ret.Pos())+": the value returned is not the builder's String() itself ("+describeVal(v)+"): the emitted document is altered after the fact, e.g. characters inside string values are rewritten")
				continue
			}
			ld, ok := call.Call.Args[0].(*ssa.UnOp)
			fa, ok2 := ssa.Value(nil), false
			if ok {
				if f, isFA := ld.X.(*ssa.FieldAddr); isFA && f.X == ssa.Value(get.Params[0]) {
					fa, ok2 = f, true
				}
			}
			_ = fa
			if !ok2 {
				bad = append(bad, p.Pos(ret.Pos())+": String() is not taken from the dumper's own builder")
			}
		}
		c.Sites++
		c.Check(len(bad) == 0 && n > 0, "C20-GET", fnName(get), "verbatim", get.Pos(), fmt.Sprintf("%d return(s) of the builder's text", n), uniqJoin(bad, 2))
	}
	w := p.Func("valid", "GetDumpStructStr")
	if w == nil || len(w.Params) != 1 {
		c.Unk("C20-FACADE", "valid.GetDumpStructStr", "anchor", token.NoPos, "wrapper not found")
		return
	}
	c.Funcs[fnName(w)] = true
	var bad []string
	n := 0
	src := derivedFrom(w.Params[0])
	for _, b := range w.Blocks {
		ret, ok := b.Instrs[len(b.Instrs)-1].(*ssa.Return)
		if !ok || len(ret.Results) != 1 {
			continue
		}
		n++
		call, ok := ret.Results[0].(*ssa.Call)
		if !ok || staticCallee(&call.Call) != get {
			bad = append(bad, p.Pos(ret.Pos())+": a path returns "+describeVal(ret.Results[0])+" instead of the dumper's output: e.g. a nil pointer is rendered as something other than null")
			continue
		}
		hc, ok := call.Call.Args[0].(*ssa.Call)
		if !ok || staticCallee(&hc.Call) != hd || len(hc.Call.Args) < 2 {
			// or: HandleDumpStruct (which returns its receiver) was called on the very same dumper before
			hc = nil
			for _, r := range refs(call.Call.Args[0]) {
				if c2, isCall := r.(*ssa.Call); isCall && staticCallee(&c2.Call) == hd && len(c2.Call.Args) >= 2 && c2.Call.Args[0] == call.Call.Args[0] {
					if c2.Block().Dominates(call.Block()) && (c2.Block() != call.Block() || indexIn(c2) < indexIn(call)) {
						hc = c2
					}
				}
			}
		}
		if hc == nil {
			bad = append(bad, p.Pos(ret.Pos())+": Get is not applied to a dumper that HandleDumpStruct has filled")
			continue
		}
		vo, ok := hc.Call.Args[1].(*ssa.Call)
		if !ok || calleeName(&vo.Call) != "reflect.ValueOf" || !src[vo.Call.Args[0]] {
			bad = append(bad, p.Pos(ret.Pos())+": HandleDumpStruct does not receive reflect.ValueOf of the caller's value")
		}
	}
	c.Sites++
	c.Check(len(bad) == 0 && n > 0, "C20-FACADE", fnName(w), "pass-through", w.Pos(), fmt.Sprintf("%d return(s), each the dumper's own output", n), uniqJoin(bad, 2))
}
