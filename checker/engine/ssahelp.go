package engine

import (
	"go/constant"
	"go/token"
	"go/types"
	"strconv"
	"strings"

	"golang.org/x/tools/go/ssa"
)

// calleeName returns a stable name of the statically resolved callee of a call:
// "(*sync.RWMutex).Lock", "strings.Index", "valid.ToStr" (repo functions are shortened),
// "builtin.len", "invoke:error.Error" for interface calls, "" for dynamic calls.
func calleeName(cc *ssa.CallCommon) string {
	if cc.IsInvoke() {
		recv := cc.Value.Type().String()
		return "invoke:" + shortType(recv) + "." + cc.Method.Name()
	}
	switch v := cc.Value.(type) {
	case *ssa.Function:
		return fnName(v)
	case *ssa.Builtin:
		return "builtin." + v.Name()
	case *ssa.MakeClosure:
		if f, ok := v.Fn.(*ssa.Function); ok {
			return fnName(f)
		}
	}
	return ""
}

func fnName(f *ssa.Function) string {
	s := f.String()
	s = strings.ReplaceAll(s, ModPath+"/", "")
	return strings.ReplaceAll(s, ModPath, "main")
}

func shortType(s string) string {
	s = strings.ReplaceAll(s, ModPath+"/", "")
	return strings.ReplaceAll(s, ModPath, "main")
}

// staticCallee resolves the callee function (through MakeClosure too).
func staticCallee(cc *ssa.CallCommon) *ssa.Function {
	if cc.IsInvoke() {
		return nil
	}
	switch v := cc.Value.(type) {
	case *ssa.Function:
		return v
	case *ssa.MakeClosure:
		if f, ok := v.Fn.(*ssa.Function); ok {
			return f
		}
	}
	return nil
}

// callArgs returns the arguments of a call with the receiver first for method calls.
func callArgs(cc *ssa.CallCommon) []ssa.Value {
	if cc.IsInvoke() {
		return append([]ssa.Value{cc.Value}, cc.Args...)
	}
	return cc.Args
}

// reachable blocks from entry (excludes the recover block unless reachable).
func reachableBlocks(fn *ssa.Function) map[*ssa.BasicBlock]bool {
	seen := map[*ssa.BasicBlock]bool{}
	if len(fn.Blocks) == 0 {
		return seen
	}
	var walk func(b *ssa.BasicBlock)
	walk = func(b *ssa.BasicBlock) {
		if seen[b] {
			return
		}
		seen[b] = true
		for _, s := range b.Succs {
			walk(s)
		}
	}
	walk(fn.Blocks[0])
	return seen
}

// constOf returns the constant value of v if it is a constant.
func constOf(v ssa.Value) (constant.Value, bool) {
	if c, ok := v.(*ssa.Const); ok && c.Value != nil {
		return c.Value, true
	}
	return nil, false
}

func constString(v ssa.Value) (string, bool) {
	if c, ok := constOf(v); ok && c.Kind() == constant.String {
		return constant.StringVal(c), true
	}
	return "", false
}

func constInt(v ssa.Value) (int64, bool) {
	if c, ok := constOf(v); ok && c.Kind() == constant.Int {
		i, exact := constant.Int64Val(c)
		return i, exact
	}
	return 0, false
}

func isNilConst(v ssa.Value) bool {
	c, ok := v.(*ssa.Const)
	return ok && c.Value == nil
}

// unwrap peels value-preserving wrappers (ChangeType, MakeInterface is NOT peeled).
func unwrapChange(v ssa.Value) ssa.Value {
	for {
		switch x := v.(type) {
		case *ssa.ChangeType:
			v = x.X
		default:
			return v
		}
	}
}

// namedOf returns the named type behind t (through pointers), nil if none.
func namedOf(t types.Type) *types.Named {
	for {
		switch x := t.(type) {
		case *types.Pointer:
			t = x.Elem()
		case *types.Named:
			return x
		case *types.Alias:
			t = types.Unalias(x)
		default:
			return nil
		}
	}
}

// isNamed reports whether t (through pointers) is pkgpath.name.
func isNamed(t types.Type, pkgpath, name string) bool {
	n := namedOf(t)
	if n == nil || n.Obj() == nil {
		return false
	}
	p := ""
	if n.Obj().Pkg() != nil {
		p = n.Obj().Pkg().Path()
	}
	return p == pkgpath && n.Obj().Name() == name
}

// instrPos returns the best position for an instruction.
func instrPos(in ssa.Instruction) token.Pos {
	if in.Pos().IsValid() {
		return in.Pos()
	}
	// fall back to operands
	for _, op := range in.Operands(nil) {
		if op != nil && *op != nil && (*op).Pos().IsValid() {
			return (*op).Pos()
		}
	}
	if in.Parent() != nil {
		return in.Parent().Pos()
	}
	return token.NoPos
}

// fieldName gives the name of the struct field selected by a FieldAddr / Field.
func fieldAddrName(fa *ssa.FieldAddr) string {
	st, ok := fa.X.Type().Underlying().(*types.Pointer).Elem().Underlying().(*types.Struct)
	if !ok {
		return "?"
	}
	return st.Field(fa.Field).Name()
}

func fieldValName(f *ssa.Field) string {
	st, ok := f.X.Type().Underlying().(*types.Struct)
	if !ok {
		return "?"
	}
	return st.Field(f.Field).Name()
}

// postDom computes post-dominator sets for the reachable blocks of fn with a virtual exit
// joined from every block without successors. pd[b] contains c iff c post-dominates b.
func postDom(fn *ssa.Function) map[*ssa.BasicBlock]map[*ssa.BasicBlock]bool {
	reach := reachableBlocks(fn)
	var blocks []*ssa.BasicBlock
	for _, b := range fn.Blocks {
		if reach[b] {
			blocks = append(blocks, b)
		}
	}
	pd := map[*ssa.BasicBlock]map[*ssa.BasicBlock]bool{}
	all := map[*ssa.BasicBlock]bool{}
	for _, b := range blocks {
		all[b] = true
	}
	for _, b := range blocks {
		if len(b.Succs) == 0 {
			pd[b] = map[*ssa.BasicBlock]bool{b: true}
		} else {
			m := map[*ssa.BasicBlock]bool{}
			for k := range all {
				m[k] = true
			}
			pd[b] = m
		}
	}
	for changed := true; changed; {
		changed = false
		for i := len(blocks) - 1; i >= 0; i-- {
			b := blocks[i]
			if len(b.Succs) == 0 {
				continue
			}
			var inter map[*ssa.BasicBlock]bool
			for _, s := range b.Succs {
				if inter == nil {
					inter = map[*ssa.BasicBlock]bool{}
					for k := range pd[s] {
						inter[k] = true
					}
				} else {
					for k := range inter {
						if !pd[s][k] {
							delete(inter, k)
						}
					}
				}
			}
			inter[b] = true
			if len(inter) != len(pd[b]) {
				pd[b] = inter
				changed = true
			}
		}
	}
	return pd
}

// loopInfo: natural loops of a function.
type loopInfo struct {
	Header *ssa.BasicBlock
	Body   map[*ssa.BasicBlock]bool // includes header
}

func naturalLoops(fn *ssa.Function) []*loopInfo {
	reach := reachableBlocks(fn)
	byHeader := map[*ssa.BasicBlock]*loopInfo{}
	var order []*ssa.BasicBlock
	for _, b := range fn.Blocks {
		if !reach[b] {
			continue
		}
		for _, s := range b.Succs {
			if s.Dominates(b) { // back edge b -> s
				li := byHeader[s]
				if li == nil {
					li = &loopInfo{Header: s, Body: map[*ssa.BasicBlock]bool{s: true}}
					byHeader[s] = li
					order = append(order, s)
				}
				// collect body: all nodes that reach b without passing s
				var stack []*ssa.BasicBlock
				if !li.Body[b] {
					li.Body[b] = true
					stack = append(stack, b)
				}
				for len(stack) > 0 {
					x := stack[len(stack)-1]
					stack = stack[:len(stack)-1]
					for _, p := range x.Preds {
						if reach[p] && !li.Body[p] {
							li.Body[p] = true
							stack = append(stack, p)
						}
					}
				}
			}
		}
	}
	var out []*loopInfo
	for _, h := range order {
		out = append(out, byHeader[h])
	}
	return out
}

// exitEdges of a loop: (from,to) with from in body and to outside.
func (l *loopInfo) exitEdges() [][2]*ssa.BasicBlock {
	var out [][2]*ssa.BasicBlock
	for b := range l.Body {
		for _, s := range b.Succs {
			if !l.Body[s] {
				out = append(out, [2]*ssa.BasicBlock{b, s})
			}
		}
	}
	return out
}

// referrers of a value (nil-safe).
func refs(v ssa.Value) []ssa.Instruction {
	r := v.Referrers()
	if r == nil {
		return nil
	}
	return *r
}

// recvNamed returns the named receiver type of a method, nil for plain functions.
func recvNamed(fn *ssa.Function) *types.Named {
	if fn.Signature.Recv() == nil {
		return nil
	}
	return namedOf(fn.Signature.Recv().Type())
}

// constBool: the value of a boolean constant.
func constBool(v ssa.Value) (val, ok bool) {
	c, isC := v.(*ssa.Const)
	if !isC || c.Value == nil || c.Value.Kind() != constant.Bool {
		return false, false
	}
	return constant.BoolVal(c.Value), true
}

// lenTest recognises an If on the emptiness of v (len(v) compared with 0/1, or v compared with nil)
// and returns the successor index (0 = true edge, 1 = false edge) on which v is EMPTY.
func lenTest(iff *ssa.If, isV func(ssa.Value) bool) (emptySucc int, ok bool) {
	cond := iff.Cond
	neg := false
	for {
		u, isU := cond.(*ssa.UnOp)
		if !isU || u.Op != token.NOT {
			break
		}
		cond = u.X
		neg = !neg
	}
	bo, isB := cond.(*ssa.BinOp)
	if !isB {
		return 0, false
	}
	isLen := func(x ssa.Value) bool {
		call, ok := x.(*ssa.Call)
		if !ok {
			return false
		}
		b, ok := call.Call.Value.(*ssa.Builtin)
		return ok && b.Name() == "len" && len(call.Call.Args) == 1 && isV(call.Call.Args[0])
	}
	x, y, op := bo.X, bo.Y, bo.Op
	if isLen(y) || (isV(y) && isNilConst(x)) { // normalise: subject on the left
		x, y = y, x
		switch op {
		case token.LSS:
			op = token.GTR
		case token.GTR:
			op = token.LSS
		case token.LEQ:
			op = token.GEQ
		case token.GEQ:
			op = token.LEQ
		}
	}
	res := -1
	switch {
	case isLen(x):
		k, isK := constInt(y)
		if !isK {
			return 0, false
		}
		switch {
		case op == token.GTR && k == 0, op == token.GEQ && k == 1, op == token.NEQ && k == 0:
			res = 1 // true edge = non-empty, so empty on the false edge
		case op == token.EQL && k == 0, op == token.LSS && k == 1, op == token.LEQ && k == 0:
			res = 0
		}
	case isV(x) && isNilConst(y):
		switch op {
		case token.EQL:
			res = 0
		case token.NEQ:
			res = 1
		}
	}
	if res < 0 {
		return 0, false
	}
	if neg {
		res = 1 - res
	}
	return res, true
}

// possibleInts: which of the candidate values the term may take, given the decided atoms of a trace
// (atoms eq(a,b) and lt(a,b) where one side is the term and the other an integer literal).
func possibleInts(pc map[string]int, term string, cands []int64) map[int64]bool {
	out := map[int64]bool{}
	for _, n := range cands {
		ok := true
		for atom, v := range pc {
			var op string
			switch {
			case strings.HasPrefix(atom, "eq("):
				op = "eq"
			case strings.HasPrefix(atom, "lt("):
				op = "lt"
			default:
				continue
			}
			body := atom[3 : len(atom)-1]
			var l, r int64
			switch {
			case strings.HasSuffix(body, ","+term):
				k, err := strconv.ParseInt(body[:len(body)-len(term)-1], 10, 64)
				if err != nil {
					continue
				}
				l, r = k, n
			case strings.HasPrefix(body, term+","):
				k, err := strconv.ParseInt(body[len(term)+1:], 10, 64)
				if err != nil {
					continue
				}
				l, r = n, k
			default:
				continue
			}
			holds := l == r
			if op == "lt" {
				holds = l < r
			}
			if holds != (v == 1) {
				ok = false
				break
			}
		}
		if ok {
			out[n] = true
		}
	}
	return out
}
