package engine

import (
	"encoding/json"
	"fmt"
	"go/token"
	"os"
	"path/filepath"
	"sort"
	"strings"
	"time"
)

// Status of an obligation.
type Status string

const (
	Discharged Status = "discharged"
	Violated   Status = "violated"
	Undecided  Status = "undecided" // fail closed: counts as a failure of the check
)

// Obligation is one rule instantiated at one construct. Key never contains a line number.
type Obligation struct {
	Key    string `json:"key"`    // <prop>/<rule>/<function>/<discriminator>
	Rule   string `json:"rule"`   // e.g. C10-LOCK
	Where  string `json:"where"`  // file:line (report text only)
	Status Status `json:"status"` //
	Detail string `json:"detail,omitempty"`
	Config string `json:"config,omitempty"`
}

// Ctx collects what one property check does on one program.
type Ctx struct {
	Prop  string
	P     *Prog
	Tier  string
	Obls  []Obligation
	Rules map[string]string // rule id -> text of the rule applied
	Mins  map[string]int    // rule id -> frozen minimum instance count (vacuity guard)
	Extra map[string]interface{}
	Funcs map[string]bool // functions analysed
	Sites int             // call sites / instructions inspected
}

func NewCtx(prop string, p *Prog, tier string) *Ctx {
	return &Ctx{Prop: prop, P: p, Tier: tier, Rules: map[string]string{}, Mins: map[string]int{}, Extra: map[string]interface{}{}, Funcs: map[string]bool{}}
}

// Rule registers the text of a rule and its minimum instance count.
func (c *Ctx) Rule(id, text string, min int) {
	c.Rules[id] = text
	c.Mins[id] = min
}

func (c *Ctx) add(rule, fn, disc string, pos token.Pos, st Status, detail string) {
	where := "-"
	if c.P != nil {
		where = c.P.Pos(pos)
	}
	key := c.Prop + "/" + rule + "/" + fn + "/" + disc
	c.Obls = append(c.Obls, Obligation{Key: key, Rule: rule, Where: where, Status: st, Detail: detail})
}

func (c *Ctx) OK(rule, fn, disc string, pos token.Pos, detail string) {
	c.add(rule, fn, disc, pos, Discharged, detail)
}
func (c *Ctx) Bad(rule, fn, disc string, pos token.Pos, detail string) {
	c.add(rule, fn, disc, pos, Violated, detail)
}
func (c *Ctx) Unk(rule, fn, disc string, pos token.Pos, detail string) {
	c.add(rule, fn, disc, pos, Undecided, detail)
}

// Check records discharged when ok, violated otherwise.
func (c *Ctx) Check(ok bool, rule, fn, disc string, pos token.Pos, good, bad string) {
	if ok {
		c.OK(rule, fn, disc, pos, good)
	} else {
		c.Bad(rule, fn, disc, pos, bad)
	}
}

// Finalize applies the vacuity guard.
func (c *Ctx) Finalize() {
	counts := map[string]int{}
	for _, o := range c.Obls {
		counts[o.Rule]++
	}
	ids := make([]string, 0, len(c.Mins))
	for id := range c.Mins {
		ids = append(ids, id)
	}
	sort.Strings(ids)
	for _, id := range ids {
		if counts[id] < c.Mins[id] {
			c.Obls = append(c.Obls, Obligation{Key: c.Prop + "/" + id + "/-/vacuity", Rule: id, Where: "-", Status: Undecided,
				Detail: fmt.Sprintf("rule matched %d instances, fewer than the %d confirmed by hand: the mechanism the rule looks for was not found", counts[id], c.Mins[id])})
		}
	}
}

// Known findings ------------------------------------------------------------------------

type Finding struct {
	Property string `json:"property"`
	Key      string `json:"key"`
	Status   string `json:"status"` // "known" | "fixed"
	What     string `json:"what"`
	Commit   string `json:"commit,omitempty"`
}

type FindingsFile struct {
	Comment  string    `json:"comment"`
	Findings []Finding `json:"findings"`
}

func LoadFindings(path string) (*FindingsFile, error) {
	b, err := os.ReadFile(path)
	if err != nil {
		return nil, err
	}
	var f FindingsFile
	if err := json.Unmarshal(b, &f); err != nil {
		return nil, err
	}
	return &f, nil
}

// Outcome of one run of one property (possibly over several build configurations).
type Outcome struct {
	Prop       string
	Tier       string
	Level      string
	Configs    []string
	Obls       []Obligation
	Rules      map[string]string
	Mins       map[string]int
	Extra      map[string]interface{}
	Funcs      map[string]bool
	Pkgs       int
	Sites      int
	Explain    string
	Assume     []string
	Trusted    []string
	LoadErrors []string
	Start      time.Time
}

func (o *Outcome) Merge(c *Ctx) {
	for _, ob := range c.Obls {
		ob.Config = c.P.Cfg.String()
		o.Obls = append(o.Obls, ob)
	}
	for k, v := range c.Rules {
		o.Rules[k] = v
	}
	for k, v := range c.Mins {
		o.Mins[k] = v
	}
	for k, v := range c.Extra {
		o.Extra[k] = v
	}
	for k := range c.Funcs {
		o.Funcs[k] = true
	}
	o.Sites += c.Sites
	if len(c.P.Pkgs) > o.Pkgs {
		o.Pkgs = len(c.P.Pkgs)
	}
}

// Emit writes evidence + report, prints KNOWN-FINDING / VIOLATION lines, returns exit code.
func (o *Outcome) Emit(verifDir string, ff *FindingsFile) int {
	known := map[string]Finding{}
	if ff != nil {
		for _, f := range ff.Findings {
			if f.Status == "known" && f.Property == o.Prop {
				known[f.Key] = f
			}
		}
	}
	// dedupe across configs for counting, keep all for the report
	type agg struct {
		ob      Obligation
		configs []string
	}
	byKey := map[string]*agg{}
	var order []string
	rank := map[Status]int{Discharged: 0, Undecided: 1, Violated: 2}
	for _, ob := range o.Obls {
		a, ok := byKey[ob.Key]
		if !ok {
			a = &agg{ob: ob}
			byKey[ob.Key] = a
			order = append(order, ob.Key)
		} else if rank[ob.Status] > rank[a.ob.Status] {
			cfgs := a.configs
			a.ob = ob
			a.configs = cfgs
		}
		a.configs = append(a.configs, ob.Config)
	}
	sort.Strings(order)
	var viol, undec, knownHit []Obligation
	discharged := 0
	perRule := map[string]int{}
	for _, k := range order {
		a := byKey[k]
		perRule[a.ob.Rule]++
		switch a.ob.Status {
		case Discharged:
			discharged++
		case Violated:
			if _, ok := known[k]; ok {
				knownHit = append(knownHit, a.ob)
			} else {
				viol = append(viol, a.ob)
			}
		case Undecided:
			undec = append(undec, a.ob)
		}
	}
	for _, e := range o.LoadErrors {
		undec = append(undec, Obligation{Key: o.Prop + "/LOAD/-/-", Rule: "LOAD", Where: "-", Status: Undecided, Detail: e})
	}
	fail := len(viol) + len(undec)

	// report
	repDir := filepath.Join(verifDir, "reports")
	_ = os.MkdirAll(repDir, 0o755)
	repPath := filepath.Join(repDir, o.Prop+".txt")
	var sb strings.Builder
	fmt.Fprintf(&sb, "property %s tier %s configs %v\n", o.Prop, o.Tier, o.Configs)
	fmt.Fprintf(&sb, "obligations %d discharged %d violated %d undecided %d known %d\n", len(order)+len(o.LoadErrors), discharged, len(viol), len(undec), len(knownHit))
	for _, ob := range viol {
		fmt.Fprintf(&sb, "VIOLATED  %s  at %s  [%s]\n    %s\n", ob.Key, ob.Where, ob.Rule, ob.Detail)
	}
	for _, ob := range undec {
		fmt.Fprintf(&sb, "UNDECIDED %s  at %s  [%s]\n    %s\n", ob.Key, ob.Where, ob.Rule, ob.Detail)
	}
	for _, ob := range knownHit {
		fmt.Fprintf(&sb, "KNOWN     %s  at %s  [%s]\n    %s\n", ob.Key, ob.Where, ob.Rule, ob.Detail)
	}
	ruleIDs := make([]string, 0, len(o.Rules))
	for id := range o.Rules {
		ruleIDs = append(ruleIDs, id)
	}
	sort.Strings(ruleIDs)
	fmt.Fprintf(&sb, "\nrules applied:\n")
	for _, id := range ruleIDs {
		fmt.Fprintf(&sb, "  %s (instances %d, min %d): %s\n", id, perRule[id], o.Mins[id], o.Rules[id])
	}
	fmt.Fprintf(&sb, "\nall obligations:\n")
	for _, k := range order {
		a := byKey[k]
		fmt.Fprintf(&sb, "  %-10s %s  at %s  %s\n", a.ob.Status, k, a.ob.Where, a.ob.Detail)
	}
	_ = os.WriteFile(repPath, []byte(sb.String()), 0o644)

	// evidence
	samples := []interface{}{}
	seenRule := map[string]int{}
	for _, k := range order {
		a := byKey[k]
		if seenRule[a.ob.Rule] >= 3 && a.ob.Status == Discharged {
			continue
		}
		seenRule[a.ob.Rule]++
		samples = append(samples, map[string]interface{}{"key": a.ob.Key, "where": a.ob.Where, "status": a.ob.Status, "detail": a.ob.Detail})
		if len(samples) >= 60 {
			break
		}
	}
	rules := []interface{}{}
	for _, id := range ruleIDs {
		rules = append(rules, map[string]interface{}{"id": id, "text": o.Rules[id], "instances": perRule[id], "frozen_min": o.Mins[id]})
	}
	fnames := make([]string, 0, len(o.Funcs))
	for f := range o.Funcs {
		fnames = append(fnames, f)
	}
	sort.Strings(fnames)
	kf := []interface{}{}
	for _, ob := range knownHit {
		kf = append(kf, map[string]interface{}{"key": ob.Key, "what": known[ob.Key].What})
	}
	cov := map[string]interface{}{
		"explanation":            o.Explain,
		"obligations":            len(order) + len(o.LoadErrors),
		"discharged":             discharged,
		"violated":               len(viol),
		"undecided":              len(undec),
		"known_findings_matched": kf,
		"packages":               o.Pkgs,
		"functions_analysed":     len(fnames),
		"functions":              fnames,
		"sites_inspected":        o.Sites,
		"rules":                  rules,
		"samples":                samples,
		"build_configs":          o.Configs,
		"checker_cmd":            "checker/bin/pgv -prop " + o.Prop + " -tier " + o.Tier,
		"trusted_base":           o.Trusted,
		"report":                 repPath,
	}
	for k, v := range o.Extra {
		cov[k] = v
	}
	ev := map[string]interface{}{
		"property_id": o.Prop,
		"tier":        o.Tier,
		"seed":        0,
		"level":       o.Level,
		"coverage":    cov,
		"assumptions": o.Assume,
		"wall_s":      time.Since(o.Start).Seconds(),
		"violations":  len(viol) + len(undec),
	}
	evDir := filepath.Join(verifDir, "evidence")
	_ = os.MkdirAll(evDir, 0o755)
	b, _ := json.MarshalIndent(ev, "", " ")
	_ = os.WriteFile(filepath.Join(evDir, o.Prop+".json"), append(b, '\n'), 0o644)

	// stdout
	fmt.Printf("property=%s tier=%s configs=%d packages=%d functions=%d obligations=%d discharged=%d violated=%d undecided=%d known=%d\n",
		o.Prop, o.Tier, len(o.Configs), o.Pkgs, len(fnames), len(order)+len(o.LoadErrors), discharged, len(viol), len(undec), len(knownHit))
	for _, id := range ruleIDs {
		fmt.Printf("  rule %-14s instances=%-4d min=%d\n", id, perRule[id], o.Mins[id])
	}
	for _, ob := range knownHit {
		fmt.Printf("KNOWN-FINDING: property=%s %s (%s at %s)\n", o.Prop, known[ob.Key].What, ob.Key, ob.Where)
	}
	for _, ob := range viol {
		fmt.Printf("  violated: %s at %s: %s\n", ob.Key, ob.Where, ob.Detail)
	}
	for _, ob := range undec {
		fmt.Printf("  undecided: %s at %s: %s\n", ob.Key, ob.Where, ob.Detail)
	}
	if fail > 0 {
		fmt.Printf("VIOLATION property=%s replay=%s\n", o.Prop, repPath)
		return 1
	}
	return 0
}
