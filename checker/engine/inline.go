package engine

import (
	"fmt"
	"go/ast"
	"go/types"
	"sort"
	"strings"

	"golang.org/x/tools/go/ssa"
)

// Helper inlining. The rules are written against the functions of the baseline tree. An "extract
// helper" refactoring moves part of such a function into a new unexported function; a rule that
// follows values or orders events inside the original function would lose them at the call. So,
// after SSA construction, every static call to a repository function that the baseline table does
// not know (by package, receiver and name, after rename normalisation) is replaced by a copy of the
// callee's body (vendor/golang.org/x/tools/go/ssa/pgv_inline.go), innermost helpers first. Helpers
// with defer/recover, closures, recursion and generic functions are left as calls. A helper all of
// whose uses were inlined is dropped from the list of analysed functions (it is dead code then);
// one that is still referenced (go/defer statement, method value) stays.

func baselineFuncSet() map[string]bool {
	out := map[string]bool{}
	for _, bf := range loadBaseline().Funcs {
		out[bf.Pkg+"/"+bf.Recv+"."+bf.Name] = true
	}
	return out
}

func inlineNewHelpers(p *Prog) ([]string, error) {
	known := baselineFuncSet()
	if len(known) == 0 {
		return nil, nil
	}
	isNew := func(fn *ssa.Function) bool {
		if fn == nil || fn.Pkg == nil || fn.Parent() != nil || fn.Synthetic != "" || fn.Blocks == nil {
			return false
		}
		if _, ok := p.SPkgs[fn.Pkg.Pkg.Path()]; !ok {
			return false
		}
		obj, ok := fn.Object().(*types.Func)
		if ok && obj.Name() == "init" && strings.HasPrefix(fn.Name(), "init#") {
			// a declared init function runs exactly once, from the package initialiser: its body is part of
			// package initialisation wherever the statements are written (var initialiser or func init)
			return true
		}
		if !ok || ast.IsExported(obj.Name()) || obj.Name() == "init" || obj.Name() == "main" {
			return false
		}
		sig := obj.Type().(*types.Signature)
		return !known[Rel(fn.Pkg.Pkg.Path())+"/"+recvName(sig)+"."+obj.Name()]
	}
	// a new helper that can reach itself through static calls to new helpers (directly or mutually) cannot
	// be inlined away: every copy of its body brings a new call of it. It stays a function and is analysed
	// on its own.
	recursive := map[*ssa.Function]bool{}
	{
		callees := func(f *ssa.Function) []*ssa.Function {
			var out []*ssa.Function
			for _, b := range f.Blocks {
				for _, in := range b.Instrs {
					if ci, ok := in.(ssa.CallInstruction); ok {
						// only calls that inlining would expand: a cycle that passes through a function of the
						// baseline (validate -> validField -> exist -> validate) ends there
						if g := ci.Common().StaticCallee(); g != nil && g.Blocks != nil && isNew(g) {
							out = append(out, g)
						}
					}
				}
			}
			return out
		}
		for _, f := range p.Funcs {
			if !isNew(f) {
				continue
			}
			seen := map[*ssa.Function]bool{}
			var walk func(g *ssa.Function, d int) bool
			walk = func(g *ssa.Function, d int) bool {
				if d > 12 {
					return false
				}
				for _, h := range callees(g) {
					if h == f {
						return true
					}
					if !seen[h] {
						seen[h] = true
						if walk(h, d+1) {
							return true
						}
					}
				}
				return false
			}
			if walk(f, 0) {
				recursive[f] = true
			}
		}
	}
	// the group registrar (the function that files an either/botheq member under its group) is an anchor of
	// the group rules under whatever name and signature it has: it is modelled, not inlined
	registrar, regFields := groupRegistrar(p)
	if regFields == nil {
		registrar = nil
	}
	var notes []string
	// direct clause writers: a new helper W(buf, a...) that writes into a *strings.Builder exactly the
	// text a known string constructor K(a...) returns — K's own body having become
	// {b := newStrBuf(); W(b, K's parameters...); return b.String()} — is rewritten at every other call
	// site into buf.WriteString(K(a...)), the form the rules know (W is then inlined into K only)
	if wn, err := rewriteDirectWriters(p, isNew); err != nil {
		return nil, err
	} else {
		notes = append(notes, wn...)
	}
	done := map[*ssa.Function]bool{}
	visiting := map[*ssa.Function]bool{}
	var process func(f *ssa.Function) error
	process = func(f *ssa.Function) error {
		if done[f] || visiting[f] {
			return nil
		}
		visiting[f] = true
		defer func() { visiting[f] = false; done[f] = true }()
		for round := 0; round < 400; round++ {
			var target *ssa.Call
		scan:
			for _, b := range f.Blocks {
				for _, in := range b.Instrs {
					call, ok := in.(*ssa.Call)
					if !ok {
						continue
					}
					g := call.Call.StaticCallee()
					if !isNew(g) || visiting[g] || recursive[g] || g == registrar {
						continue
					}
					if ok, _ := ssa.PGVCanInline(call); !ok {
						continue
					}
					target = call
					break scan
				}
			}
			if target == nil {
				return nil
			}
			g := target.Call.StaticCallee()
			if err := process(g); err != nil {
				return err
			}
			if ok, _ := ssa.PGVCanInline(target); !ok {
				return nil
			}
			if err := ssa.PGVInlineCall(target); err != nil {
				return err
			}
			notes = append(notes, fmt.Sprintf("%s inlined into %s", p.FuncName(g), p.FuncName(f)))
		}
		return fmt.Errorf("helper inlining did not terminate in %s", p.FuncName(f))
	}
	for _, f := range p.Funcs {
		if err := process(f); err != nil {
			return notes, err
		}
	}
	for _, sp := range p.SPkgs {
		if ini := sp.Func("init"); ini != nil {
			if err := process(ini); err != nil {
				return notes, err
			}
		}
	}
	if len(notes) == 0 {
		return nil, nil
	}
	// drop helpers that are no longer referenced
	used := map[*ssa.Function]bool{}
	var rands []*ssa.Value
	for _, f := range p.Funcs {
		for _, b := range f.Blocks {
			for _, in := range b.Instrs {
				rands = in.Operands(rands[:0])
				for _, r := range rands {
					if g, ok := (*r).(*ssa.Function); ok && g != f {
						used[g] = true
					}
				}
			}
		}
	}
	var kept []*ssa.Function
	for _, f := range p.Funcs {
		if isNew(f) && !used[f] {
			notes = append(notes, fmt.Sprintf("%s: every use inlined, not analysed on its own", p.FuncName(f)))
			continue
		}
		kept = append(kept, f)
	}
	p.Funcs = kept
	sort.Strings(notes)
	return notes, nil
}

func rewriteDirectWriters(p *Prog, isNew func(*ssa.Function) bool) ([]string, error) {
	var ws *ssa.Function
	for _, f := range p.Funcs {
		for _, b := range f.Blocks {
			for _, in := range b.Instrs {
				if c, ok := in.(*ssa.Call); ok && calleeName(&c.Call) == "(*strings.Builder).WriteString" {
					ws = c.Call.StaticCallee()
				}
			}
		}
	}
	if ws == nil {
		return nil, nil
	}
	pairs := map[*ssa.Function]*ssa.Function{} // writer -> constructor
	for _, k := range p.Funcs {
		if k.Blocks == nil || isNew(k) || k.Signature.Results().Len() != 1 || k.Signature.Recv() != nil {
			continue
		}
		if bt, ok := k.Signature.Results().At(0).Type().Underlying().(*types.Basic); !ok || bt.Kind() != types.String {
			continue
		}
		var w *ssa.Function
		nW, okShape := 0, true
		var builder ssa.Value
		for _, b := range k.Blocks {
			for _, in := range b.Instrs {
				c, ok := in.(*ssa.Call)
				if !ok {
					continue
				}
				g := c.Call.StaticCallee()
				if g == nil || !isNew(g) {
					continue
				}
				nW++
				w = g
				if len(c.Call.Args) != len(k.Params)+1 {
					okShape = false
					continue
				}
				builder = c.Call.Args[0]
				for i, prm := range k.Params {
					if c.Call.Args[i+1] != ssa.Value(prm) {
						okShape = false
					}
				}
			}
		}
		if nW != 1 || !okShape || w == nil || builder == nil {
			continue
		}
		if bc, ok := builder.(*ssa.Call); !ok || !strings.HasSuffix(calleeName(&bc.Call), "newStrBuf") {
			continue
		}
		// every return hands back builder.String()
		retOK := true
		for _, b := range k.Blocks {
			if ret, ok := b.Instrs[len(b.Instrs)-1].(*ssa.Return); ok {
				v := ret.Results[0]
				if ld, ok := v.(*ssa.UnOp); ok { // spilled result cell (the function defers)
					if cell, ok := ld.X.(*ssa.Alloc); ok {
						for _, r := range *cell.Referrers() {
							if st, ok := r.(*ssa.Store); ok && st.Addr == ssa.Value(cell) {
								v = st.Val
							}
						}
					}
				}
				sc, ok := v.(*ssa.Call)
				if !ok || calleeName(&sc.Call) != "(*strings.Builder).String" || sc.Call.Args[0] != builder {
					retOK = false
				}
			}
		}
		if retOK && w.Signature.Results().Len() == 0 && onlyAppends(w, 0, 0) {
			pairs[w] = k
		}
	}
	if len(pairs) == 0 {
		return nil, nil
	}
	var notes []string
	for _, f := range p.Funcs {
		for round := 0; round < 200; round++ {
			var target *ssa.Call
			for _, b := range f.Blocks {
				for _, in := range b.Instrs {
					if c, ok := in.(*ssa.Call); ok {
						if g := c.Call.StaticCallee(); g != nil && pairs[g] != nil && pairs[g] != f && !(isNew(f) && pairs[f] != nil) {
							target = c
						}
					}
				}
			}
			if target == nil {
				break
			}
			w := target.Call.StaticCallee()
			if err := ssa.PGVWriterToConstructor(target, pairs[w], ws); err != nil {
				return notes, err
			}
			notes = append(notes, fmt.Sprintf("%s(buf, …) in %s read as buf.WriteString(%s(…))", p.FuncName(w), p.FuncName(f), p.FuncName(pairs[w])))
		}
	}
	return notes, nil
}

// onlyAppends: the function uses its builder parameter (index pi) only to append to it (directly or
// through repository helpers that do the same): then writing into a non-empty builder appends exactly
// the text it would have written into an empty one.
func onlyAppends(f *ssa.Function, pi, depth int) bool {
	if f == nil || f.Blocks == nil || pi >= len(f.Params) || depth > 4 {
		return false
	}
	prm := ssa.Value(f.Params[pi])
	appendOnly := map[string]bool{"WriteString": true, "WriteByte": true, "WriteRune": true, "Write": true, "Grow": true}
	for _, r := range *f.Params[pi].Referrers() {
		ci, ok := r.(ssa.CallInstruction)
		if !ok {
			return false
		}
		cc := ci.Common()
		g := cc.StaticCallee()
		if g == nil {
			return false
		}
		nm := calleeName(cc)
		if strings.HasPrefix(nm, "(*strings.Builder).") {
			if !appendOnly[strings.TrimPrefix(nm, "(*strings.Builder).")] || len(cc.Args) == 0 || cc.Args[0] != prm {
				return false
			}
			continue
		}
		idx := -1
		for i, a := range cc.Args {
			if a == prm {
				if idx >= 0 {
					return false
				}
				idx = i
			}
		}
		if idx < 0 || g.Blocks == nil || !onlyAppends(g, idx, depth+1) {
			return false
		}
	}
	return true
}
