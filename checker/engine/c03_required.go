package engine

import (
	"fmt"
	"go/token"
	"reflect"
	"sort"
	"strings"
)

func init() {
	register(&PropDef{
		ID: "C03",
		Explain: "Decided by interpreting each of the four walkers abstractly (kind-set typestate, all paths of one pass of their loops): C03-SKIP every indirect rule-function call happens only after the very value passed to it was found non-empty; " +
			"C03-REQ for the built-in 'required' of each walker, for every kind and every combination of zero / empty-collection, a verdict clause is written iff the value is zero or an empty slice/array/map, and no clause of any kind is written otherwise (including through the nested descent, for pointers to scalars); " +
			"C03-MISSING the map and URL walkers enumerate the keys of the rule map (necessary to see an absent entry); C03-IFACE values read out of a map are unwrapped from their interface before they are judged. " +
			"Not covered: nothing further of the statement; correctness of individual non-required rules is C01/C05.",
		Assume:  []string{"reflect.Value.IsZero / Len semantics"},
		Trusted: []string{"go/types", "go/ssa"},
		Run: func(c *Ctx) {
			runC03(c)
			base(c, "DECLARED", "STATE", "ALIAS", "TEXT", "RULESRC", "EXPORT", "FACADE")
			runFieldIdentity(c, "C03-FIELDID")
			runExemptType(c, "C03-EXEMPT")
			runMissingReach(c, "C03-MISSING-ALL")
			runAllElems(c, "C03-ALLELEMS")
			importRules(c, "C18", runC18, "C03-URLENTRY", "a URL parameter without a value is judged as empty: key and value are cut from the parameter's own text (rule C18-URL)", 3, ruleIn("C18-URL"))
			importRules(c, "C02", runC02Loop, "C03-LOOP", "skipping a rule on an empty value continues with the next rule: every walker's rule loop leaves only through its header (rule C02-LOOP), so a required placed after another rule is still evaluated", 4, nil)
			importRules(c, "C04", runC04, "C03-DESCENT", "an empty (zero) sub-object is never descended into, so its inner rules cannot produce an error for an optional field left empty (rule C04-GUARD)", 2, ruleIn("C04-GUARD"))
		},
	})
}

// factsOf collects the events of all walker-mode runs, by kind.
type walkEvent struct {
	Run *WalkRun
	T   *Trace
	E   Event
}

func walkEvents(wl *walkLayers, kind string) []walkEvent {
	var out []walkEvent
	for _, r := range wl.Runs {
		for i := range r.Traces {
			t := &r.Traces[i]
			if t.Cut != "" {
				continue
			}
			for _, e := range t.Events {
				if e.Kind == kind {
					out = append(out, walkEvent{r, t, e})
				}
			}
		}
	}
	return out
}

func runC03(c *Ctx) {
	p := c.P
	wl := runWalkLayers(p)
	for _, r := range wl.Runs {
		c.Funcs[fnName(r.Fn)] = true
	}
	for _, cut := range uniqStrings(wl.Cuts) {
		c.Unk("C03-SKIP", "-", "explore:"+shorten(cut, 60), token.NoPos, cut)
	}
	walkers := findWalkers(p)
	// --- C03-SKIP
	c.Rule("C03-SKIP", "every indirect call of a rule function is reached only with the value passed as its last argument known to be non-empty (IsZero false on that very value; for URL parameters the string compared with \"\")", 4)
	type agg struct {
		n   int
		bad []string
		pos token.Pos
	}
	per := map[string]*agg{}
	for _, w := range walkers {
		per[fnName(w.Fn)] = &agg{pos: w.Fn.Pos()}
	}
	for _, we := range walkEvents(wl, "rulecall") {
		fn := fnName(we.E.Site.Parent())
		a := per[fn]
		if a == nil {
			a = &agg{pos: we.E.Site.Pos()}
			per[fn] = a
		}
		a.n++
		c.Sites++
		n := len(we.E.Args)
		zero, _ := isCstInt(we.E.Args[n-2])
		if zero != 0 {
			state := "never tested for emptiness"
			if zero == 1 {
				state = "known to be EMPTY"
			}
			a.bad = append(a.bad, fmt.Sprintf("rule function called at %s with a value %s (%s)", p.Pos(instrPos(we.E.Site)), state, shorten(keyOf(we.E.Args[5]), 80)))
		}
	}
	var names []string
	for n := range per {
		names = append(names, n)
	}
	sort.Strings(names)
	for _, n := range names {
		a := per[n]
		switch {
		case a.n == 0:
			c.Unk("C03-SKIP", n, "zero-skip", a.pos, "walker's rule-function call was not reached by the interpretation")
		case len(a.bad) > 0:
			c.Bad("C03-SKIP", n, "zero-skip", a.pos, uniqJoin(a.bad, 3))
		default:
			c.OK("C03-SKIP", n, "zero-skip", a.pos, fmt.Sprintf("%d call paths, value known non-empty on each", a.n))
		}
	}
	runC03Req(c, wl)
	runC03Missing(c)
	runC03Seen(c)
	runC03Iface(c, wl)
}

// Pass: what one trace partition of a walker-mode run observed (one pass of the loops).
type Pass struct {
	Run    *WalkRun
	T      *Trace
	PC     map[string]int
	Events []Event
}

func passesOf(r *WalkRun) []Pass {
	var out []Pass
	for i := range r.Traces {
		t := &r.Traces[i]
		if t.Cut != "" || t.Panic != "" {
			continue
		}
		out = append(out, Pass{Run: r, T: t, PC: lastPC(t), Events: t.Events})
	}
	return out
}

// runC03Req: the built-in `required` of each walker.
func runC03Req(c *Ctx, wl *walkLayers) {
	p := c.P
	c.Rule("C03-REQ", "required: per walker, on every path through its built-in required branch, exactly one verdict clause unless the value was proved non-empty (IsZero false, and Len != 0 for slice/array/map kinds where collections are supported); a proved non-empty value yields no clause at all, also not through the nested descent (pointers to scalars)", 4)
	coll := kmask(reflect.Slice, reflect.Array, reflect.Map)
	type caseAgg struct {
		n                 int
		bad               []string
		pos               token.Pos
		sawViol, sawClean bool
	}
	per := map[string]*caseAgg{}
	for _, w := range findWalkers(p) {
		per[fnName(w.Fn)] = &caseAgg{pos: w.Fn.Pos()}
	}
	for _, r := range wl.Runs {
		a := per[fnName(r.Fn)]
		if a == nil {
			continue
		}
		collectionsSupported := strings.Contains(fnName(r.Fn), "VStruct") || strings.Contains(fnName(r.Fn), "VVar")
		// string values judged by this walker (URL parameters): inner keys of reflect.ValueOf(K)
		strVals := map[string]bool{}
		for _, ps := range passesOf(r) {
			for _, e := range ps.Events {
				if e.Kind == "rulecall" && len(e.Args) >= 6 {
					if vk := keyOf(e.Args[5]); strings.HasPrefix(vk, "reflect.ValueOf(") {
						strVals[strings.TrimSuffix(strings.TrimPrefix(vk, "reflect.ValueOf("), ")")] = true
					}
				}
			}
		}
		for _, ps := range passesOf(r) {
			var reqAtom string
			for k, v := range ps.PC {
				if strings.HasPrefix(k, `eq("required",`) && v == 1 {
					reqAtom = k
				}
			}
			if reqAtom == "" {
				continue
			}
			// emptiness facts decided on this pass
			provedNonEmpty, provedEmpty := false, false
			var valKey string
			for k, v := range ps.PC {
				switch {
				case strings.HasPrefix(k, "zero("):
					valKey = k[5 : len(k)-1]
					if v == 0 {
						provedNonEmpty = true
					} else {
						provedEmpty = true
					}
				}
			}
			for sv := range strVals { // URL parameter value compared with "" / by length
				if z, ok := stringEmptiness(func(a string) (int, bool) { v, ok := ps.PC[a]; return v, ok }, sv); ok {
					if z == 0 {
						provedNonEmpty = true
					} else {
						provedEmpty = true
					}
				}
			}
			lenTested := false
			for k, v := range ps.PC {
				if strings.HasPrefix(k, "len0(") && (valKey == "" || k[5:len(k)-1] == valKey) {
					lenTested = true
					if v == 1 {
						provedEmpty, provedNonEmpty = true, false
					}
				}
			}
			var nV, nOther int
			var descendBad []string
			var mask uint32
			for _, e := range ps.Events {
				switch e.Kind {
				case "write":
					if v, ok := e.PC[reqAtom]; !ok || v != 1 {
						continue
					}
					ci := classifyWrite(e)
					if ci.Class == "V" || ci.Class == "M" {
						nV++
					} else {
						nOther++
					}
				case "call":
					name, _ := isCstStr(e.Args[0])
					if !strings.HasSuffix(name, ".validate") || len(e.Args) < 5 {
						continue
					}
					if v, ok := e.PC[reqAtom]; !ok || v != 1 {
						continue
					}
					if v, ok := e.PC[`eq("exist",`+reqAtom[len(`eq("required",`):]]; ok && v == 1 {
						continue
					}
					for _, x := range e.Args {
						if k, ok := x.(Tok); ok && k.Dom == "kset" {
							m, _ := isCstInt(k.Args[0])
							mask = uint32(m)
						}
					}
					strict := false // "must be a struct" mode: no flag or flag false
					switch f := e.Args[4].(type) {
					case Slc:
						strict = f.Hi-f.Lo == 0
						if f.Hi-f.Lo > 0 {
							b, known := isCstBool(f.Arr.Elems[f.Lo].V)
							strict = known && !b
						}
					default:
						// a plain bool parameter instead of the optional variadic one
						if b, known := isCstBool(f); known {
							strict = !b
						} else if callee := p.funcByName(name); callee != nil && len(callee.Params) >= 4 {
							// any other representation of the mode (an enum, ...): ask the walker itself what
							// it does with a non-struct value under this argument
							if st, known := walkerStrictFor(p, callee, 3, f); known {
								strict = st
							} else {
								strict = true
							}
						} else {
							strict = true
						}
					}
					if mask&kmask(reflect.Ptr) != 0 && strict {
						descendBad = append(descendBad, "a non-empty pointer under required is handed to the struct walker in its 'must be a struct' mode: a pointer to a scalar yields an 'is not struct' clause")
					}
				}
			}
			a.n++
			c.Sites++
			// the value whose emptiness decides `required` is the declared field / element itself: a non-nil
			// pointer is a supplied value whatever it points at (pointers to scalars are in the property's
			// quantifier), so the test must not be made on something reached through Elem() from the value
			// that was read out of the object
			if valKey != "" {
				tail := valKey
				for _, cut := range []string{".Field(", ".Index(", ".MapIndex(", ".Value()"} {
					if i := strings.LastIndex(tail, cut); i >= 0 {
						tail = tail[i:]
					}
				}
				if tail != valKey && strings.Contains(tail, ".Elem()") {
					a.bad = append(a.bad, "required is decided by the emptiness of what the field's value POINTS at ("+shorten(valKey, 90)+"): a non-nil pointer to a zero scalar (a proto3 optional field set to \"\"/0/false) is reported as missing although a value was supplied")
				}
			}
			satisfied := provedNonEmpty && !provedEmpty
			if satisfied {
				a.sawClean = true
			} else {
				a.sawViol = true
			}
			switch {
			case !satisfied && nV != 1:
				a.bad = append(a.bad, fmt.Sprintf("value not proved non-empty, yet required writes %d verdict clauses (want exactly 1)", nV))
			case satisfied && nV+nOther > 0:
				a.bad = append(a.bad, fmt.Sprintf("value proved non-empty, yet %d clause(s) are written under required", nV+nOther))
			case !satisfied && !provedEmpty && collectionsSupported:
				// (walkers whose required always has a value in hand; the map/URL walkers also report absent keys)
				// the clause is written on a path that never found the value zero or an empty collection
				var why []string
				for k, v := range ps.PC {
					if strings.Contains(k, "strings.") || strings.Contains(k, "unicode") {
						why = append(why, fmt.Sprintf("%s=%d", shorten(k, 70), v))
					}
				}
				sort.Strings(why)
				a.bad = append(a.bad, "required writes its clause on a path where the value was never found zero (IsZero) or an empty collection (Len): a non-empty value is reported as missing, decided instead on "+strings.Join(why, " ∧ "))
			}
			if satisfied {
				a.bad = append(a.bad, descendBad...)
				if collectionsSupported && valKey != "" && !lenTested && r.Env.Init != nil {
					// was a collection kind still possible for the value when it was accepted?
					if m := finalMask(ps, valKey); m&coll != 0 {
						a.bad = append(a.bad, "a slice/array/map value is accepted by required without its length having been tested: an empty non-nil collection passes")
					}
				}
			}
		}
	}
	var names []string
	for n := range per {
		names = append(names, n)
	}
	sort.Strings(names)
	for _, n := range names {
		a := per[n]
		switch {
		case a.n == 0 || !a.sawViol || !a.sawClean:
			c.Unk("C03-REQ", n, "required", a.pos, fmt.Sprintf("the walker's built-in required branch was not recognised (cases=%d, violated seen=%v, satisfied seen=%v)", a.n, a.sawViol, a.sawClean))
		case len(a.bad) > 0:
			c.Bad("C03-REQ", n, "required", a.pos, uniqJoin(a.bad, 3))
		default:
			c.OK("C03-REQ", n, "required", a.pos, fmt.Sprintf("%d kind/emptiness cases agree", a.n))
		}
	}
}

// finalMask reconstructs the kind set of a value on a pass from its kind-partition atoms.
func finalMask(ps Pass, key string) uint32 {
	m := validKinds
	if im, ok := ps.Run.Env.Init[kindKey(key)]; ok {
		m = im
	}
	pre := "kind(" + kindKey(key) + ")∈{"
	for k, v := range ps.PC {
		if !strings.HasPrefix(k, pre) {
			continue
		}
		label := k[len(pre):strings.LastIndex(k, "}")]
		var set uint32
		switch {
		case strings.HasPrefix(label, "pre:"):
			set = reflectNeedMask[strings.TrimPrefix(label, "pre:")]
		case label == "valid":
			set = validKinds
		case label == "ptr":
			set = kmask(reflect.Ptr)
		case strings.HasPrefix(label, "table:0x"):
			var mm uint32
			fmt.Sscanf(strings.TrimPrefix(label, "table:"), "0x%x", &mm)
			set = mm
		default:
			if i := kindOfName(label); i >= 0 {
				set = 1 << uint(i)
			}
		}
		if set == 0 {
			continue
		}
		if v == 1 {
			m &= set
		} else {
			m &^= set
		}
	}
	return m
}

// lastPC: decided atoms at the end of the trace merged with the snapshots of its events
// (atoms decided inside a loop are forgotten when the loop repeats; the loop-back event of
// the pass still sees them).
func lastPC(t *Trace) map[string]int {
	out := map[string]int{}
	for _, e := range t.Events {
		for k, v := range e.PC {
			out[k] = v
		}
	}
	for k, v := range t.PC {
		out[k] = v
	}
	return out
}
