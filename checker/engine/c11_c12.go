package engine

import (
	"fmt"
	"go/token"
	"go/types"
	"sort"
	"strings"

	"golang.org/x/tools/go/ssa"
)

func init() {
	register(&PropDef{
		ID: "C11",
		Explain: "Absence of shared mutable state between concurrent validation calls, as an effects inventory over ALL functions reachable from the entry points (static call graph + every rule function + closures): C11-GLOBAL no package-level variable is written, and no global map is updated, on a validation path — every global is never written after init, or is a concurrency-safe object (sync.Pool, sync.Once, *regexp.Regexp, the mutex-guarded cache proved by the C10 rule), or is written only by the registration functions, which are unreachable from validation; " +
			"C11-POOL for every pooled type each field is assigned after Get on all constructor paths or reset before Put on all releaser paths, Put happens only in the releaser, the releaser runs deferred (nothing touches the object afterwards), and pooled builders are Reset before Put; C11-LRU the cache's lock discipline (rule C10-LOCK); C11-CACHE an entry of the shared type cache is complete when it is published and is never written afterwards (rules C08-PUBLISH, C08-COPY). " +
			"This is a lockset/effects argument over all schedules. Not covered: races inside user callbacks; registration concurrent with validation (property's assumption).",
		Assume:  []string{"global function registration happens before concurrent validation starts (stated in the property)"},
		Trusted: []string{"go/types", "go/ssa", "sync.Pool / strings.Builder semantics"},
		Run: func(c *Ctx) {
			runC11Global(c, "C11")
			runC11Pool(c, "C11")
			runPoolReleaseLast(c, "C11-POOL")
			runPoolReleaseOnce(c, "C11-POOL")
			runLock(c, "C11-LRU")
			runGlobalMapAlias(c, "C11-GLOBAL")
			base(c, "ALIAS", "LRU")
			importRules(c, "C12", runC12Input, "C11-INPUT", "a rule set or function table handed in by a caller is shared by every call that uses it (package-level tables are the common case): the library never writes into it (rule C12-INPUT) — a merge into the caller's map is an unsynchronised map write under concurrent validations and changes what the other calls validate with", 2, nil)
			importRules(c, "C08", runC08, "C11-CACHE", "entries of the shared type cache are complete when published, never written afterwards, and stored under everything they were computed from (rules C08-PUBLISH, C08-COPY, C08-KEY): concurrent validations of one type read the same immutable entry, and two concurrent callers that asked for different tag names never share one — otherwise whoever fills the cold entry first decides the rules of the other", 3, ruleIn("C08-PUBLISH", "C08-COPY", "C08-KEY"))
		},
	})
	register(&PropDef{
		ID: "C12",
		Explain: "Non-interference by effects: there is no channel through which an earlier call can influence a later one or a later call can alter an earlier result. C12-POOL nothing leaks through recycled validators or buffers (same rule as C11-POOL); C12-GLOBAL no state survives in globals (same inventory as C11-GLOBAL); C12-CACHE the only cross-call memory is the type cache, whose key is complete and whose entries are never mutated (rules C08-KEY, C08-COPY); " +
			"C12-UNSAFE after each zero-copy bytes->string conversion no instruction reachable afterwards (loop back edges included) writes to, appends to or leaks a slice sharing that backing array, the zero-copy string->bytes result only reaches read-only consumers, and package unsafe is used nowhere else; " +
			"C12-INPUT no reflect.Value setter is called anywhere and no rule map is updated on a validation path; C12-ERR error text is materialised from a strings.Builder whose Reset abandons the buffer. Not covered: user-supplied functions.",
		Assume:  []string{"strings.Builder.Reset does not reuse its buffer (documented)"},
		Trusted: []string{"go/types", "go/ssa"},
		Run: func(c *Ctx) {
			runC11Pool(c, "C12")
			runPoolReleaseLast(c, "C12-POOL")
			runPoolReleaseOnce(c, "C12-POOL")
			runC11Global(c, "C12")
			runC12Cache(c)
			runC12Unsafe(c)
			runC12Input(c)
			runC12InterfaceAlias(c, "C12-INPUT")
			runGlobalMapAlias(c, "C12-GLOBAL")
			runC12Memo(c)
			runC12ParamWrite(c)
			base(c, "FACADE")
		},
	})
}

// validationReach: functions reachable from the validation entry points.
func validationReach(p *Prog) (map[*ssa.Function]bool, []*ssa.Function) {
	var entries []*ssa.Function
	sp := p.Pkg("valid")
	if sp == nil {
		return nil, nil
	}
	entries = append(entries, validEntries(p)...)
	// exported package-level functions that reach a Valid method
	validSet := map[*ssa.Function]bool{}
	for _, e := range entries {
		validSet[e] = true
	}
	for _, fn := range p.Funcs {
		if fn.Pkg != sp || fn.Signature.Recv() != nil || fn.Parent() != nil || fn.Object() == nil || !fn.Object().Exported() {
			continue
		}
		for f := range reachableFrom(fn) {
			if validSet[f] {
				entries = append(entries, fn)
				break
			}
		}
	}
	reach := map[*ssa.Function]bool{}
	add := func(f *ssa.Function) {
		for g := range reachableFrom(f) {
			reach[g] = true
		}
	}
	for _, e := range entries {
		add(e)
	}
	if reg, _, err := registryTable(p); err == nil {
		for _, e := range reg {
			if e.Fn != nil {
				add(e.Fn)
			}
		}
	}
	// methods reached through deferred calls are covered by reachableFrom (Defer is a CallInstruction)
	return reach, entries
}

// globalBase: the global a value is loaded from / derived from, if any.
func globalBase(v ssa.Value, depth int) *ssa.Global {
	if depth > 6 {
		return nil
	}
	switch x := v.(type) {
	case *ssa.Global:
		return x
	case *ssa.UnOp:
		return globalBase(x.X, depth+1)
	case *ssa.FieldAddr:
		return globalBase(x.X, depth+1)
	case *ssa.IndexAddr:
		return globalBase(x.X, depth+1)
	case *ssa.ChangeType:
		return globalBase(x.X, depth+1)
	case *ssa.Field:
		return globalBase(x.X, depth+1)
	}
	return nil
}

func concurrencySafeType(t types.Type) bool {
	return isNamed(t, "sync", "Pool") || isNamed(t, "sync", "Once") || isNamed(t, "sync", "Mutex") || isNamed(t, "sync", "RWMutex") || isNamed(t, "regexp", "Regexp") || isNamed(t, "sync", "Map")
}

func runC11Global(c *Ctx, prop string) {
	p := c.P
	rule := prop + "-GLOBAL"
	c.Rule(rule, "no store to a package-level variable and no update/delete on a global map in any function reachable from a validation entry point; every global of package valid is classified (never written after init / concurrency-safe type / written only by registration functions)", 10)
	reach, entries := validationReach(p)
	if len(entries) < 8 {
		c.Unk(rule, "-", "anchor", token.NoPos, fmt.Sprintf("expected the 4 Valid methods and the exported wrappers as entry points, found %d", len(entries)))
	}
	type gw struct {
		fn  *ssa.Function
		pos token.Pos
		how string
	}
	writes := map[*ssa.Global][]gw{}
	for _, fn := range p.Funcs {
		if reach[fn] {
			c.Funcs[fnName(fn)] = true
		}
		for _, b := range fn.Blocks {
			for _, ins := range b.Instrs {
				switch x := ins.(type) {
				case *ssa.Store:
					if g := globalBase(x.Addr, 0); g != nil {
						how := "assigns"
						if _, direct := x.Addr.(*ssa.Global); !direct {
							how = "writes into memory of"
						}
						writes[g] = append(writes[g], gw{fn, x.Pos(), how})
					}
				case *ssa.MapUpdate:
					if g := globalBase(x.Map, 0); g != nil {
						writes[g] = append(writes[g], gw{fn, x.Pos(), "updates the map"})
					}
				case *ssa.Call:
					if calleeName(&x.Call) == "builtin.delete" && len(x.Call.Args) > 0 {
						if g := globalBase(x.Call.Args[0], 0); g != nil {
							writes[g] = append(writes[g], gw{fn, x.Pos(), "deletes from the map"})
						}
					}
				}
			}
		}
	}
	// objects reached from a global and mutated through their methods (var shared = NewX();
	// shared.Push(..)): the variable is never reassigned, yet its referent is shared mutable state
	{
		memo := map[*ssa.Function]int{} // 0 unknown, 1 computing, 2 no, 3 yes
		var mutates func(fn *ssa.Function) bool
		mutates = func(fn *ssa.Function) bool {
			if fn == nil || len(fn.Params) == 0 || fn.Blocks == nil {
				return false
			}
			switch memo[fn] {
			case 1, 2:
				return false
			case 3:
				return true
			}
			memo[fn] = 1
			recv := fn.Params[0]
			rooted := func(a ssa.Value) bool {
				for d := 0; d < 8; d++ {
					switch x := a.(type) {
					case *ssa.FieldAddr:
						a = x.X
					case *ssa.IndexAddr:
						a = x.X
					case *ssa.UnOp:
						a = x.X
					default:
						return a == recv
					}
				}
				return false
			}
			res := false
			for _, b := range fn.Blocks {
				for _, ins := range b.Instrs {
					switch x := ins.(type) {
					case *ssa.Store:
						if x.Addr != recv && rooted(x.Addr) {
							res = true
						}
					case *ssa.MapUpdate:
						if rooted(x.Map) {
							res = true
						}
					case ssa.CallInstruction:
						cc := x.Common()
						if cal := staticCallee(cc); cal != nil && len(cc.Args) > 0 && cc.Args[0] == recv && cal != fn {
							if cal.Pkg != nil && strings.HasPrefix(cal.Pkg.Pkg.Path(), ModPath) && mutates(cal) {
								res = true
							}
						}
					}
				}
			}
			if res {
				memo[fn] = 3
			} else {
				memo[fn] = 2
			}
			return res
		}
		for _, fn := range p.Funcs {
			for _, b := range fn.Blocks {
				for _, ins := range b.Instrs {
					call, ok := ins.(ssa.CallInstruction)
					if !ok {
						continue
					}
					cc := call.Common()
					cal := staticCallee(cc)
					if cal == nil || len(cc.Args) == 0 || cal.Pkg == nil || !strings.HasPrefix(cal.Pkg.Pkg.Path(), ModPath) {
						continue
					}
					ld, ok := cc.Args[0].(*ssa.UnOp)
					if !ok || ld.Op != token.MUL {
						// value may have been copied into a local first: x := global; x.M()
						continue
					}
					g, ok := ld.X.(*ssa.Global)
					if !ok || concurrencySafeType(g.Type().(*types.Pointer).Elem()) {
						continue
					}
					if named, _ := cacheType(p); named != nil && namedOf(g.Type().(*types.Pointer).Elem()) == named {
						continue
					}
					if mutates(cal) {
						writes[g] = append(writes[g], gw{fn, call.Pos(), "mutates the object held in (" + fnName(cal) + ")"})
					}
				}
			}
		}
		// the same through a local alias of the loaded global: x := *g ... x.M()
		for _, fn := range p.Funcs {
			for _, b := range fn.Blocks {
				for _, ins := range b.Instrs {
					ld, ok := ins.(*ssa.UnOp)
					if !ok || ld.Op != token.MUL {
						continue
					}
					g, ok := ld.X.(*ssa.Global)
					if !ok || concurrencySafeType(g.Type().(*types.Pointer).Elem()) {
						continue
					}
					for _, r := range refs(ld) {
						call, ok := r.(ssa.CallInstruction)
						if !ok {
							continue
						}
						cc := call.Common()
						cal := staticCallee(cc)
						if cal == nil || len(cc.Args) == 0 || cc.Args[0] != ld || cal.Pkg == nil || !strings.HasPrefix(cal.Pkg.Pkg.Path(), ModPath) {
							continue
						}
						if mutates(cal) {
							writes[g] = append(writes[g], gw{fn, call.Pos(), "mutates the object held in (" + fnName(cal) + ")"})
						}
					}
				}
			}
		}
	}
	for _, rel := range []string{"valid", "valid/internal"} {
		sp := p.Pkg(rel)
		if sp == nil {
			continue
		}
		var names []string
		for n, m := range sp.Members {
			if _, ok := m.(*ssa.Global); ok && !strings.HasPrefix(n, "init$") {
				names = append(names, n)
			}
		}
		sort.Strings(names)
		for _, n := range names {
			g := sp.Members[n].(*ssa.Global)
			c.Sites++
			var onPath, elsewhere []string
			for _, w := range writes[g] {
				if w.fn.Name() == "init" && w.fn.Signature.Recv() == nil {
					continue
				}
				desc := fmt.Sprintf("%s %s it at %s", fnName(w.fn), w.how, p.Pos(w.pos))
				if reach[w.fn] {
					onPath = append(onPath, desc)
				} else {
					elsewhere = append(elsewhere, fnName(w.fn))
				}
			}
			elemT := g.Type().(*types.Pointer).Elem()
			switch {
			case len(onPath) > 0:
				c.Bad(rule, rel+"."+n, "writes", g.Pos(), "package-level state written on a validation path: "+uniqJoin(onPath, 3))
			case len(elsewhere) > 0:
				c.OK(rule, rel+"."+n, "writes", g.Pos(), "written only by registration function(s) "+strings.Join(uniqStrings(elsewhere), ", ")+", unreachable from validation")
			case concurrencySafeType(elemT):
				c.OK(rule, rel+"."+n, "writes", g.Pos(), "concurrency-safe type, variable never reassigned after init")
			default:
				c.OK(rule, rel+"."+n, "writes", g.Pos(), "never written after package init")
			}
		}
	}
}

// ---------------------------------------------------------------------------------------

type poolInfo struct {
	G      *ssa.Global
	Gets   []*ssa.Call // Get calls
	Puts   []*ssa.Call
	Pooled types.Type // asserted type
}

func findPools(p *Prog) []*poolInfo {
	byG := map[*ssa.Global]*poolInfo{}
	for _, fn := range p.Funcs {
		for _, b := range fn.Blocks {
			for _, ins := range b.Instrs {
				call, ok := ins.(*ssa.Call)
				if !ok {
					continue
				}
				n := calleeName(&call.Call)
				if n != "(*sync.Pool).Get" && n != "(*sync.Pool).Put" {
					continue
				}
				g, _ := call.Call.Args[0].(*ssa.Global)
				if g == nil {
					continue
				}
				pi := byG[g]
				if pi == nil {
					pi = &poolInfo{G: g}
					byG[g] = pi
				}
				if n == "(*sync.Pool).Get" {
					pi.Gets = append(pi.Gets, call)
					for _, r := range refs(call) {
						if ta, ok := r.(*ssa.TypeAssert); ok {
							pi.Pooled = ta.AssertedType
						}
					}
				} else {
					pi.Puts = append(pi.Puts, call)
				}
			}
		}
	}
	var out []*poolInfo
	for _, pi := range byG {
		out = append(out, pi)
	}
	sort.Slice(out, func(i, j int) bool { return out[i].G.Name() < out[j].G.Name() })
	return out
}

func runC11Pool(c *Ctx, prop string) {
	p := c.P
	rule := prop + "-POOL"
	c.Rule(rule, "per pooled type: every field assigned after Get on all constructor paths or reset before Put on all releaser paths; all Puts in one releaser; the releaser is deferred or last; builders are Reset before Put", 6)
	pools := findPools(p)
	if len(pools) < 3 {
		c.Unk(rule, "-", "anchor", token.NoPos, fmt.Sprintf("expected 3 object pools, found %d", len(pools)))
	}
	for _, pi := range pools {
		gname := fnNameGlobal(pi.G)
		if pi.Pooled == nil || len(pi.Gets) == 0 {
			c.Unk(rule, gname, "anchor", pi.G.Pos(), "pool without a typed Get")
			continue
		}
		// one releaser
		rel := map[*ssa.Function]bool{}
		for _, put := range pi.Puts {
			rel[put.Parent()] = true
		}
		isBuilder := isNamed(pi.Pooled, "strings", "Builder")
		if len(rel) != 1 && !isBuilder {
			var ns []string
			for f := range rel {
				ns = append(ns, fnName(f))
			}
			sort.Strings(ns)
			c.Bad(rule, gname, "releaser", pi.G.Pos(), fmt.Sprintf("objects are returned to the pool from %d functions %v; expected exactly one releaser", len(rel), ns))
			continue
		}
		var releaser *ssa.Function
		var releasers []*ssa.Function
		for f := range rel {
			releasers = append(releasers, f)
		}
		sort.Slice(releasers, func(i, j int) bool { return fnName(releasers[i]) < fnName(releasers[j]) })
		if len(releasers) == 0 {
			c.Bad(rule, gname, "releaser", pi.G.Pos(), "objects are never returned to the pool")
			continue
		}
		releaser = releasers[0]
		c.Funcs[fnName(releaser)] = true
		st, isStruct := pi.Pooled.(*types.Pointer).Elem().Underlying().(*types.Struct)
		switch {
		case isBuilder:
			// Reset before Put when non-empty
			w := NewWalkEnv(p)
			in := w.In
			var bad []string
			for _, m := range []string{"Reset", "Len"} {
				m := m
				in.Models["(*strings.Builder)."+m] = func(in *Interp, site ssa.Instruction, cc *ssa.CallCommon, a []AVal) (AVal, bool) {
					in.Emit("builder", site, cstStr(m), a[0])
					if m == "Len" {
						return Tok{Dom: "len", Name: keyOf(a[0])}, true
					}
					return Tup{}, true
				}
			}
			in.Models["(*sync.Pool).Put"] = func(in *Interp, site ssa.Instruction, cc *ssa.CallCommon, a []AVal) (AVal, bool) {
				if keyOf(a[0]) == "&"+gname {
					in.Emit("put", site, a...)
				}
				return Tup{}, true
			}
			// one dedicated releaser, or (when it was inlined) every function that puts a builder back:
			// on each path a Put is preceded by Reset of that very builder unless it was found empty
			n := 0
			for _, rl := range releasers {
				c.Funcs[fnName(rl)] = true
				for _, t := range in.Explore(rl, symArgs(rl), 400) {
					if t.Cut != "" || t.Panic != "" || t.Converged {
						continue
					}
					n++
					resetOf := map[string]bool{}
					emptyOf := map[string]bool{}
					for k, v := range t.PC {
						if strings.HasPrefix(k, "len0(") && v == 1 {
							emptyOf[k[5:len(k)-1]] = true
						}
					}
					puts := 0
					for _, e := range t.Events {
						if e.Kind == "builder" {
							if m, _ := isCstStr(e.Args[0]); m == "Reset" {
								resetOf[keyOf(e.Args[1])] = true
							}
						}
						if e.Kind == "put" && len(e.Args) >= 2 {
							puts++
							obj := keyOf(e.Args[1])
							if !resetOf[obj] && !emptyOf[obj] {
								bad = append(bad, "a builder that may hold text is returned to the pool without Reset in "+fnName(rl)+": the next user appends to a previous call's text")
							}
						}
					}
					if puts == 0 && len(releasers) == 1 {
						// a nil builder has nothing to give back: the path on which the parameter was found nil
						// may return without Put (putStrBuf(nil) as a no-op instead of a nil dereference)
						nilPath := false
						for k, v := range t.PC {
							if strings.HasPrefix(k, "eq(") && strings.Contains(k, "nil") && v == 1 {
								nilPath = true
							}
						}
						if !nilPath {
							bad = append(bad, "a path of the releaser does not return the builder ("+shorten(t.Describe(), 100)+")")
						}
					}
				}
			}
			c.Check(len(bad) == 0 && n > 0, rule, gname, "reset-before-put", releaser.Pos(), fmt.Sprintf("%d paths of %d function(s) that put a builder back", n, len(releasers)), uniqJoin(bad, 2))
		case isStruct:
			// constructors: functions containing the Get
			assignedAll := map[int]bool{}
			first := true
			for _, get := range pi.Gets {
				ctor := get.Parent()
				c.Funcs[fnName(ctor)] = true
				w := NewWalkEnv(p)
				in := w.In
				in.TraceStores = true
				in.NoInline["valid.newStrBuf"] = true
				in.NoInline["valid.NewRule"] = true
				obj := &Cell{Label: "pooled", T: pi.Pooled.(*types.Pointer).Elem()}
				in.Pinned = append(in.Pinned, obj)
				in.Models["(*sync.Pool).Get"] = func(in *Interp, site ssa.Instruction, cc *ssa.CallCommon, a []AVal) (AVal, bool) {
					return Ifc{V: Ptr{C: obj}, Dyn: pi.Pooled}, true
				}
				for _, t := range in.Explore(ctor, symArgs(ctor), 200) {
					if t.Cut != "" || t.Panic != "" || t.Converged {
						continue
					}
					got := map[int]bool{}
					for _, e := range t.Events {
						if e.Kind == "store-cell" {
							lbl := keyOf(e.Args[0])
							for i := 0; i < st.NumFields(); i++ {
								if lbl == "pooled."+st.Field(i).Name() {
									got[i] = true
								}
							}
						}
					}
					if first {
						assignedAll = got
						first = false
					} else {
						for i := range assignedAll {
							if !got[i] {
								delete(assignedAll, i)
							}
						}
					}
				}
			}
			// releaser: fields reset (stored with a zero value) before Put on all paths
			resetAll := map[int]bool{}
			{
				w := NewWalkEnv(p)
				in := w.In
				in.TraceStores = true
				in.NoInline["valid.putStrBuf"] = true
				in.Models["(*sync.Pool).Put"] = func(in *Interp, site ssa.Instruction, cc *ssa.CallCommon, a []AVal) (AVal, bool) {
					if keyOf(a[0]) == "&"+gname {
						in.Emit("put", site, a...)
					}
					return Tup{}, true
				}
				args := symArgs(releaser)
				if len(args) > 0 {
					args[0] = Ptr{C: &Cell{Label: "pooled", T: pi.Pooled.(*types.Pointer).Elem()}}
				}
				firstR := true
				for _, t := range in.Explore(releaser, args, 200) {
					if t.Cut != "" || t.Panic != "" || t.Converged {
						continue
					}
					got := map[int]bool{}
					put := false
					for _, e := range t.Events {
						if e.Kind == "put" {
							put = true
						}
						if e.Kind == "store-cell" && !put {
							lbl := keyOf(e.Args[0])
							zero := false
							if cv, ok := e.Args[1].(Cst); ok {
								zero = cv.V == nil || cv.Key() == `""` || cv.Key() == "0" || cv.Key() == "false"
							}
							for i := 0; i < st.NumFields(); i++ {
								if lbl == "pooled."+st.Field(i).Name() && zero {
									got[i] = true
								}
							}
						}
					}
					if firstR {
						resetAll, firstR = got, false
					} else {
						for i := range resetAll {
							if !got[i] {
								delete(resetAll, i)
							}
						}
					}
				}
			}
			for i := 0; i < st.NumFields(); i++ {
				c.Sites++
				fname := st.Field(i).Name()
				switch {
				case assignedAll[i] && resetAll[i]:
					c.OK(rule, gname, "field:"+fname, releaser.Pos(), "assigned after Get and reset before Put")
				case assignedAll[i]:
					c.OK(rule, gname, "field:"+fname, releaser.Pos(), "assigned on every constructor path after Get")
				case resetAll[i]:
					c.OK(rule, gname, "field:"+fname, releaser.Pos(), "reset on every releaser path before Put")
				default:
					c.Bad(rule, gname, "field:"+fname, releaser.Pos(), "field "+fname+" of the pooled "+shortType(pi.Pooled.String())+" is neither assigned after Get on all constructor paths nor reset before Put on all releaser paths: a recycled object carries the previous call's "+fname+" into the next call")
				}
			}
			// releaser is only called deferred, or is the last use
			for _, fn := range p.Funcs {
				for _, b := range fn.Blocks {
					for idx, ins := range b.Instrs {
						call, ok := ins.(*ssa.Call)
						if !ok || staticCallee(&call.Call) != releaser {
							continue
						}
						// non-deferred call: nothing after it in this block may touch the object; block must end in return
						touched := false
						for _, later := range b.Instrs[idx+1:] {
							if fa, ok := later.(*ssa.FieldAddr); ok && fa.X == call.Call.Args[0] {
								touched = true
							}
						}
						_, endsRet := b.Instrs[len(b.Instrs)-1].(*ssa.Return)
						c.Check(!touched && endsRet, rule, fnName(fn), "release-last", call.Pos(), "explicit release is the last use", "the object is used after being returned to the pool")
					}
				}
			}
		}
	}
}

// runPoolReleaseLast: for every pool, an object handed to the pool's releaser by an ordinary
// (non-deferred) call must not be used by anything reachable afterwards: from that moment another
// goroutine — or the next call on this one — may own it. (A deferred release runs after the last
// use by construction.) This covers the pooled builders as well as the pooled validators.
func runPoolReleaseLast(c *Ctx, rule string) {
	p := c.P
	// inside a releaser: Put is the last thing done with the object
	for _, pi := range findPools(p) {
		for _, put := range pi.Puts {
			args := put.Common().Args
			if len(args) == 0 {
				continue
			}
			obj := args[len(args)-1]
			if mi, ok := obj.(*ssa.MakeInterface); ok {
				obj = mi.X
			}
			pb := put.Block()
			idx := -1
			for i, ins := range pb.Instrs {
				if ins == ssa.Instruction(put) {
					idx = i
				}
			}
			if idx < 0 {
				continue
			}
			c.Sites++
			var used []string
			for _, later := range instrsReachableAfter(pb, idx) {
				if later == ssa.Instruction(put) {
					continue
				}
				for _, op := range later.Operands(nil) {
					if op != nil && *op == obj {
						used = append(used, p.Pos(instrPos(later)))
					}
				}
			}
			c.Check(len(used) == 0, rule, fnName(put.Parent()), "put-last", put.Pos(), "the object is not touched after Put",
				"the object is still read or written at "+uniqJoin(used, 3)+" after it was put back into the pool: the next Get (possibly in another goroutine) owns it by then, and these writes wipe what that call has just set up")
		}
	}
	for _, pi := range findPools(p) {
		rel := map[*ssa.Function]bool{}
		for _, put := range pi.Puts {
			rel[put.Parent()] = true
		}
		if len(rel) != 1 {
			continue // reported by the one-releaser rule
		}
		var releaser *ssa.Function
		for f := range rel {
			releaser = f
		}
		if len(releaser.Params) == 0 {
			continue
		}
		for _, fn := range p.Funcs {
			if fn == releaser {
				continue
			}
			for _, b := range fn.Blocks {
				for idx, ins := range b.Instrs {
					call, ok := ins.(*ssa.Call) // *ssa.Defer is a different instruction
					if !ok || staticCallee(&call.Call) != releaser || len(call.Call.Args) == 0 {
						continue
					}
					c.Sites++
					obj := call.Call.Args[0]
					var used []string
					// a path that runs through the instruction DEFINING the object again (the next round of a loop
					// that takes a fresh object from the pool each time) uses that new object, not the released one
					var def ssa.Instruction
					if di, ok := obj.(ssa.Instruction); ok {
						if _, isPhi := obj.(*ssa.Phi); !isPhi {
							def = di
						}
					}
					for _, later := range instrsReachableAfterAvoiding(b, idx, def) {
						if later == ins {
							continue
						}
						for _, op := range later.Operands(nil) {
							if op != nil && *op == obj {
								used = append(used, p.Pos(instrPos(later)))
							}
						}
					}
					c.Check(len(used) == 0, rule, fnName(fn), "release-last:"+releaser.Name(), call.Pos(), "nothing uses the object after it was released",
						"the object is still used at "+uniqJoin(used, 3)+" after it was returned to the pool by "+releaser.Name()+" (not deferred): the next Get — here or in another goroutine — shares it while this call keeps writing to it")
				}
			}
		}
	}
}

func runC12Cache(c *Ctx) {
	sub := NewCtx("C08", c.P, c.Tier)
	runC08(sub)
	c.Rule("C12-CACHE", "the cross-call type cache is transparent: rules C08-KEY, C08-MISS, C08-COPY, C08-ONCE", 4)
	for _, o := range sub.Obls {
		parts := strings.SplitN(o.Key, "/", 3)
		rest := o.Key
		if len(parts) == 3 {
			rest = parts[1] + "/" + parts[2]
		}
		c.Obls = append(c.Obls, Obligation{Key: "C12/C12-CACHE/" + rest, Rule: "C12-CACHE", Where: o.Where, Status: o.Status, Detail: o.Detail})
	}
	for f := range sub.Funcs {
		c.Funcs[f] = true
	}
}

// ---------------------------------------------------------------------------------------
// Engine U

func runC12Unsafe(c *Ctx) {
	p := c.P
	c.Rule("C12-UNSAFE", "after a zero-copy bytes->string conversion nothing reachable writes/appends to or leaks the backing array; zero-copy string->bytes only reaches read-only consumers; unsafe used only in the two conversion helpers", 1)
	b2s := p.Func("valid/internal", "UnsafeBytes2Str")
	s2b := p.Func("valid/internal", "UnsafeStr2Bytes")
	if b2s == nil || s2b == nil {
		c.Unk("C12-UNSAFE", "valid/internal", "anchor", token.NoPos, "zero-copy conversion helpers not found")
		return
	}
	// unsafe.Pointer conversions anywhere else
	var other []string
	nConv := 0
	for _, fn := range p.Funcs {
		for _, b := range fn.Blocks {
			for _, ins := range b.Instrs {
				cv, ok := ins.(*ssa.Convert)
				if !ok {
					continue
				}
				isUP := func(t types.Type) bool {
					bt, ok := t.Underlying().(*types.Basic)
					return ok && bt.Kind() == types.UnsafePointer
				}
				if isUP(cv.Type()) || isUP(cv.X.Type()) {
					nConv++
					if fn != b2s && fn != s2b {
						other = append(other, fnName(fn)+" at "+p.Pos(cv.Pos()))
					}
				}
			}
		}
	}
	c.Check(len(other) == 0 && nConv >= 2, "C12-UNSAFE", "valid/internal", "unsafe-sites", b2s.Pos(), fmt.Sprintf("%d unsafe.Pointer conversions, all inside the two helpers", nConv), "unsafe.Pointer used outside the conversion helpers: "+strings.Join(other, ", "))
	readOnly := map[string]bool{"encoding/json.Valid": true, "builtin.len": true, "bytes.Equal": true, "bytes.Contains": true, "unicode/utf8.Valid": true}
	nSites := 0
	for _, fn := range p.Funcs {
		for _, b := range fn.Blocks {
			for idx, ins := range b.Instrs {
				call, ok := ins.(*ssa.Call)
				if !ok {
					continue
				}
				callee := staticCallee(&call.Call)
				switch callee {
				case s2b:
					nSites++
					c.Sites++
					var bad []string
					for _, r := range refs(call) {
						rc, ok := r.(ssa.CallInstruction)
						if ok && readOnly[calleeName(rc.Common())] {
							continue
						}
						bad = append(bad, fmt.Sprintf("%T at %s", r, p.Pos(instrPos(r))))
					}
					c.Check(len(bad) == 0, "C12-UNSAFE", fnName(fn), "str2bytes", call.Pos(), "result only reaches read-only consumers", "bytes aliasing an immutable string flow to "+strings.Join(bad, ", "))
				case b2s:
					nSites++
					c.Sites++
					fam := sliceFamily(call.Call.Args[0])
					after := instrsReachableAfter(b, idx)
					var bad []string
					for _, later := range after {
						if w := writesFamily(later, fam); w != "" {
							bad = append(bad, fmt.Sprintf("%s at %s", w, p.Pos(instrPos(later))))
						}
					}
					// escape of the family (stored to memory other than locals, passed to calls)
					for v := range fam {
						for _, r := range refs(v) {
							switch x := r.(type) {
							case *ssa.Store:
								if x.Val == v {
									bad = append(bad, "backing array stored to memory at "+p.Pos(x.Pos()))
								}
							case *ssa.Return:
								bad = append(bad, "backing array returned at "+p.Pos(x.Pos()))
							case *ssa.MakeInterface:
								bad = append(bad, "backing array boxed at "+p.Pos(x.Pos()))
							}
						}
					}
					// the bytes must belong to this call alone: every root of the converted slice is a
					// fresh allocation of this function (make / array literal / nil), never a pooled,
					// global, field or parameter buffer that some later call will write again
					for _, rt := range sliceRoots(call.Call.Args[0]) {
						if rt != "fresh" {
							bad = append(bad, "the converted bytes come from "+rt+", a buffer that outlives this call (recycled or shared): the string handed out changes when the buffer is reused")
						}
					}
					c.Check(len(bad) == 0, "C12-UNSAFE", fnName(fn), "bytes2str", call.Pos(),
						fmt.Sprintf("backing array (%d aliasing values) is dead for writing after the conversion on every path", len(fam)),
						"the string shares memory that is modified or leaked afterwards: "+uniqJoin(bad, 3))
				}
			}
		}
	}
	// fewer conversion sites is harmless (a splitter that returns substrings of its input, an escaper built
	// on strings.Replacer need none): no vacuity guard on the count — the who-may-call rule on package unsafe
	// and the positive control keep the rule honest
	_ = nSites
}

// sliceFamily: all values that may share the backing array of v within its function.
func sliceFamily(v ssa.Value) map[ssa.Value]bool {
	fam := map[ssa.Value]bool{}
	var add func(x ssa.Value)
	add = func(x ssa.Value) {
		if x == nil || fam[x] {
			return
		}
		switch x.(type) {
		case *ssa.Const, *ssa.Global, *ssa.Function, *ssa.Parameter:
			if _, isP := x.(*ssa.Parameter); !isP {
				return
			}
		}
		if _, ok := x.Type().Underlying().(*types.Slice); !ok {
			if _, isPtr := x.Type().Underlying().(*types.Pointer); !isPtr {
				return
			}
		}
		fam[x] = true
		// backward
		switch y := x.(type) {
		case *ssa.Slice:
			add(y.X)
		case *ssa.Phi:
			for _, e := range y.Edges {
				add(e)
			}
		case *ssa.Call:
			if calleeName(&y.Call) == "builtin.append" {
				add(y.Call.Args[0])
			}
		}
		// forward
		for _, r := range refs(x) {
			switch y := r.(type) {
			case *ssa.Slice:
				if y.X == x {
					add(y)
				}
			case *ssa.Phi:
				add(y)
			case *ssa.Call:
				if calleeName(&y.Call) == "builtin.append" && y.Call.Args[0] == x {
					add(y)
				}
			}
		}
	}
	add(v)
	return fam
}

// instrsReachableAfterAvoiding: like instrsReachableAfter, but a path ends where it reaches `stop`.
func instrsReachableAfterAvoiding(b *ssa.BasicBlock, idx int, stop ssa.Instruction) []ssa.Instruction {
	if stop == nil {
		return instrsReachableAfter(b, idx)
	}
	var out []ssa.Instruction
	for _, x := range b.Instrs[idx+1:] {
		if x == stop {
			return out
		}
		out = append(out, x)
	}
	seen := map[*ssa.BasicBlock]bool{}
	var walk func(x *ssa.BasicBlock)
	walk = func(x *ssa.BasicBlock) {
		if seen[x] {
			return
		}
		seen[x] = true
		for _, i := range x.Instrs {
			if i == stop {
				return
			}
			out = append(out, i)
		}
		for _, s := range x.Succs {
			walk(s)
		}
	}
	for _, s := range b.Succs {
		walk(s)
	}
	return out
}

func instrsReachableAfter(b *ssa.BasicBlock, idx int) []ssa.Instruction {
	var out []ssa.Instruction
	out = append(out, b.Instrs[idx+1:]...)
	seen := map[*ssa.BasicBlock]bool{}
	var walk func(x *ssa.BasicBlock)
	walk = func(x *ssa.BasicBlock) {
		if seen[x] {
			return
		}
		seen[x] = true
		out = append(out, x.Instrs...)
		for _, s := range x.Succs {
			walk(s)
		}
	}
	for _, s := range b.Succs {
		walk(s)
	}
	return out
}

func writesFamily(ins ssa.Instruction, fam map[ssa.Value]bool) string {
	switch x := ins.(type) {
	case *ssa.Store:
		if ia, ok := x.Addr.(*ssa.IndexAddr); ok && fam[ia.X] {
			return "element store"
		}
	case *ssa.Call:
		n := calleeName(&x.Call)
		switch n {
		case "builtin.append":
			if fam[x.Call.Args[0]] {
				return "append into the shared array"
			}
		case "builtin.copy":
			if fam[x.Call.Args[0]] {
				return "copy into the shared array"
			}
		default:
			for _, a := range x.Call.Args {
				if fam[a] && n != "valid/internal.UnsafeBytes2Str" && n != "builtin.len" && n != "builtin.cap" {
					return "passed to " + n
				}
			}
		}
	}
	return ""
}

func runC12Input(c *Ctx) {
	p := c.P
	c.Rule("C12-INPUT", "no reflect setter anywhere in non-test code; no update/delete of a rule map (RM) on a validation path", 2)
	var setters []string
	n := 0
	for _, fn := range p.Funcs {
		for _, b := range fn.Blocks {
			for _, ins := range b.Instrs {
				call, ok := ins.(ssa.CallInstruction)
				if !ok {
					continue
				}
				n++
				name := calleeName(call.Common())
				if strings.HasPrefix(name, "(reflect.Value).Set") || name == "reflect.Append" || name == "reflect.AppendSlice" || name == "reflect.Copy" || strings.HasPrefix(name, "(reflect.Value).Grow") || name == "(reflect.Value).Clear" {
					setters = append(setters, fnName(fn)+" calls "+name+" at "+p.Pos(instrPos(ins)))
				}
			}
		}
	}
	c.Sites += n
	c.Check(len(setters) == 0, "C12-INPUT", "repo", "reflect-setters", token.NoPos, fmt.Sprintf("%d call sites, no reflect setter", n), strings.Join(setters, "; "))
	reach, _ := validationReach(p)
	// functions reachable from the Valid methods only (SetRules etc. run before Valid)
	fromValid := map[*ssa.Function]bool{}
	for _, e := range validEntries(p) {
		for f := range reachableFrom(e) {
			fromValid[f] = true
		}
	}
	if reg, _, err := registryTable(p); err == nil {
		for _, e := range reg {
			if e.Fn != nil {
				for f := range reachableFrom(e.Fn) {
					fromValid[f] = true
				}
			}
		}
	}
	_ = reach
	var rm []string
	for fn := range fromValid {
		for _, b := range fn.Blocks {
			for _, ins := range b.Instrs {
				switch x := ins.(type) {
				case *ssa.MapUpdate:
					if isNamed(x.Map.Type(), ModPath+"/valid", "RM") {
						rm = append(rm, fnName(fn)+" updates a rule map at "+p.Pos(x.Pos()))
					}
				case *ssa.Call:
					if calleeName(&x.Call) == "builtin.delete" && isNamed(x.Call.Args[0].Type(), ModPath+"/valid", "RM") {
						rm = append(rm, fnName(fn)+" deletes from a rule map at "+p.Pos(x.Pos()))
					}
				}
			}
		}
	}
	// the library never writes a rule map itself: RM.Set / map updates on RM values are for the
	// caller; inside package valid (setup paths such as SetRule included) a caller's RM is only
	// stored and read — merging into it changes what the caller's next call validates with
	if sp := p.Pkg("valid"); sp != nil {
		for _, fn := range p.Funcs {
			if fn.Pkg != sp || fromValid[fn] {
				continue
			}
			if rn := recvNamed(fn); rn != nil && rn.Obj().Name() == "RM" {
				continue // RM's own methods are the caller's API
			}
			if fn.Name() == "NewRule" {
				continue
			}
			for _, b := range fn.Blocks {
				for _, ins := range b.Instrs {
					switch x := ins.(type) {
					case *ssa.MapUpdate:
						if isNamed(x.Map.Type(), ModPath+"/valid", "RM") {
							if rmFromCaller(p, x.Map, 0) {
								rm = append(rm, fnName(fn)+" updates a caller's rule map at "+p.Pos(x.Pos()))
							}
						}
					case ssa.CallInstruction:
						cc := x.Common()
						if cal := staticCallee(cc); cal != nil && recvNamed(cal) != nil && recvNamed(cal).Obj().Name() == "RM" && cal.Name() == "Set" {
							if rmFromCaller(p, cc.Args[0], 0) {
								rm = append(rm, fnName(fn)+" calls RM.Set on a rule map it was given at "+p.Pos(x.Pos())+": the caller's map is modified")
							}
						}
					}
				}
			}
		}
	}
	// a map handed in by the caller (rule set, function table) and kept BY REFERENCE in a validator field
	// must never be written through that field: `v.validFn = fnMap` next to `v.validFn[name] = fn`
	// makes every later registration (also the library's own) land in the caller's map
	if sp := p.Pkg("valid"); sp != nil {
		type fkey struct {
			owner *types.Named
			idx   int
		}
		adopted := map[fkey]string{}
		written := map[fkey]string{}
		adoptedAPI := map[fkey]bool{} // adoption reachable from an exported method of a validator (fluent API)
		writtenAPI := map[fkey]string{}
		writtenValid := map[fkey]string{}
		viaAPI := map[*ssa.Function]bool{}
		for _, fn := range p.Funcs {
			if fn.Pkg == sp && fn.Signature.Recv() != nil && fn.Object() != nil && fn.Object().Exported() && fn.Name() != "Valid" {
				for f := range reachableFrom(fn) {
					viaAPI[f] = true
				}
			}
		}
		fieldOf := func(v ssa.Value) (fkey, bool) {
			fa, ok := v.(*ssa.FieldAddr)
			if !ok {
				return fkey{}, false
			}
			n := namedOf(fa.X.Type())
			if n == nil || n.Obj().Pkg() == nil || n.Obj().Pkg().Path() != sp.Pkg.Path() {
				return fkey{}, false
			}
			return fkey{n, fa.Field}, true
		}
		var fromParam func(v ssa.Value, d int) bool
		fromParam = func(v ssa.Value, d int) bool {
			if d > 5 {
				return false
			}
			switch x := v.(type) {
			case *ssa.Parameter:
				_, isMap := x.Type().Underlying().(*types.Map)
				return isMap
			case *ssa.Phi:
				for _, e := range x.Edges {
					if fromParam(e, d+1) {
						return true
					}
				}
			case *ssa.ChangeType:
				return fromParam(x.X, d+1)
			}
			return false
		}
		for _, fn := range p.Funcs {
			if fn.Pkg != sp {
				continue
			}
			for _, b := range fn.Blocks {
				for _, ins := range b.Instrs {
					switch x := ins.(type) {
					case *ssa.Store:
						if k, ok := fieldOf(x.Addr); ok && fromParam(x.Val, 0) {
							if _, had := adopted[k]; !had {
								adopted[k] = fnName(fn) + " at " + p.Pos(x.Pos())
							}
							if viaAPI[fn] {
								adoptedAPI[k] = true
							}
						}
					case *ssa.MapUpdate:
						if ld, ok := x.Map.(*ssa.UnOp); ok && ld.Op == token.MUL {
							if k, ok := fieldOf(ld.X); ok {
								if _, had := written[k]; !had {
									written[k] = fnName(fn) + " at " + p.Pos(x.Pos())
								}
								if fromValid[fn] {
									writtenValid[k] = fnName(fn) + " at " + p.Pos(x.Pos()) + ", on a validation path"
								}
								if viaAPI[fn] {
									writtenAPI[k] = fnName(fn) + " at " + p.Pos(x.Pos()) + ", reachable through the validator's exported methods"
								}
							}
						}
					case ssa.CallInstruction:
						cc := x.Common()
						if calleeName(cc) == "builtin.delete" && len(cc.Args) > 0 {
							if ld, ok := cc.Args[0].(*ssa.UnOp); ok && ld.Op == token.MUL {
								if k, ok := fieldOf(ld.X); ok {
									if _, had := written[k]; !had {
										written[k] = fnName(fn) + " at " + p.Pos(instrPos(ins))
									}
									if fromValid[fn] {
										writtenValid[k] = fnName(fn) + " at " + p.Pos(instrPos(ins)) + ", on a validation path"
									}
									if viaAPI[fn] {
										writtenAPI[k] = fnName(fn) + " at " + p.Pos(instrPos(ins)) + ", reachable through the validator's exported methods"
									}
								}
							}
						}
					}
				}
			}
		}
		var al []string
		for k, where := range adopted {
			w, ok := writtenValid[k]
			if !ok && adoptedAPI[k] {
				w, ok = writtenAPI[k]
			}
			if ok {
				st := k.owner.Underlying().(*types.Struct)
				al = append(al, "field "+k.owner.Obj().Name()+"."+st.Field(k.idx).Name()+" keeps a map parameter by reference ("+where+") and the library writes entries through that field ("+w+"): the caller's own map is modified, so a later call that reuses it validates with different rules/functions")
			}
		}
		sort.Strings(al)
		c.Sites += len(adopted)
		c.Check(len(al) == 0, "C12-INPUT", "valid", "caller-map-by-reference", token.NoPos, fmt.Sprintf("%d fields keep a caller's map by reference, none of them is written through afterwards — on a validation path, or through the exported methods when the adoption is reachable from them (map fields written anywhere: %d)", len(adopted), len(written)), strings.Join(al, "; "))
	}
	sort.Strings(rm)
	c.Check(len(rm) == 0, "C12-INPUT", "valid", "rule-map-readonly", token.NoPos, fmt.Sprintf("%d functions reachable from Valid, none writes a rule map", len(fromValid)), strings.Join(rm, "; "))
}

// sliceRoots: where the backing array of a slice value can come from, looking back through
// reslicing, appends, phis and loads of local variable cells (closure-captured locals).
func sliceRoots(v ssa.Value) []string {
	out := map[string]bool{}
	seen := map[ssa.Value]bool{}
	var walk func(x ssa.Value, d int)
	walk = func(x ssa.Value, d int) {
		if x == nil || seen[x] {
			return
		}
		seen[x] = true
		if d > 12 {
			out["an untraceable value"] = true
			return
		}
		switch y := x.(type) {
		case *ssa.Slice:
			if al, ok := y.X.(*ssa.Alloc); ok {
				if _, isArr := al.Type().(*types.Pointer).Elem().Underlying().(*types.Array); isArr {
					out["fresh"] = true
					return
				}
			}
			walk(y.X, d+1)
		case *ssa.MakeSlice:
			out["fresh"] = true
		case *ssa.Const:
			out["fresh"] = true
		case *ssa.Phi:
			for _, e := range y.Edges {
				walk(e, d+1)
			}
		case *ssa.ChangeType:
			walk(y.X, d+1)
		case *ssa.Call:
			if calleeName(&y.Call) == "builtin.append" {
				walk(y.Call.Args[0], d+1)
				return
			}
			out["the result of "+calleeName(&y.Call)] = true
		case *ssa.UnOp:
			if y.Op != token.MUL {
				out["an untraceable value"] = true
				return
			}
			switch a := y.X.(type) {
			case *ssa.Alloc:
				// a local variable cell: everything stored into it
				n := 0
				for _, r := range refs(a) {
					if st, ok := r.(*ssa.Store); ok && st.Addr == a {
						n++
						walk(st.Val, d+1)
					}
				}
				// closures writing the captured cell
				for _, r := range refs(a) {
					if mc, ok := r.(*ssa.MakeClosure); ok {
						_ = mc
					}
				}
				if n == 0 {
					out["an uninitialised local"] = true
				}
			case *ssa.FreeVar:
				out["a variable captured from the enclosing function"] = true
			case *ssa.Global:
				out["the package-level variable "+a.Name()] = true
			case *ssa.FieldAddr:
				out["the field "+fieldAddrName(a)] = true
			default:
				// *ptr where ptr is e.g. the result of a pool Get
				out["memory reached through a pointer ("+describePtr(y.X)+")"] = true
			}
		case *ssa.Parameter:
			out["the parameter "+y.Name()] = true
		default:
			out[fmt.Sprintf("a %T", x)] = true
		}
	}
	walk(v, 0)
	var res []string
	for k := range out {
		res = append(res, k)
	}
	sort.Strings(res)
	return res
}

func describePtr(v ssa.Value) string {
	switch x := v.(type) {
	case *ssa.TypeAssert:
		if call, ok := x.X.(*ssa.Call); ok {
			return "asserted out of " + calleeName(&call.Call)
		}
		return "type assertion"
	case *ssa.Call:
		return calleeName(&x.Call)
	case *ssa.UnOp:
		return "load of " + describePtr(x.X)
	case *ssa.Alloc:
		return "local " + x.Comment
	}
	return fmt.Sprintf("%T", v)
}

// rmFromCaller: can this rule-map value be one that a caller handed to the library (as opposed
// to a map the library created itself with make / NewRule)? Fields are resolved through every
// store to the same field anywhere in the program, map elements through every update of a map
// of the same type.
func rmFromCaller(p *Prog, v ssa.Value, depth int) bool {
	if depth > 6 {
		return true
	}
	switch x := v.(type) {
	case *ssa.Parameter:
		return true
	case *ssa.MakeMap:
		return false
	case *ssa.Const:
		return false
	case *ssa.ChangeType:
		return rmFromCaller(p, x.X, depth+1)
	case *ssa.Call:
		if cal := staticCallee(&x.Call); cal != nil && cal.Name() == "NewRule" {
			return false
		}
		return true
	case *ssa.Phi:
		for _, e := range x.Edges {
			if rmFromCaller(p, e, depth+1) {
				return true
			}
		}
		return false
	case *ssa.Extract:
		return rmFromCaller(p, x.Tuple, depth+1)
	case *ssa.Lookup:
		// element of a map: any update of a map of that type with a caller's value
		for _, fn := range p.Funcs {
			for _, b := range fn.Blocks {
				for _, ins := range b.Instrs {
					if mu, ok := ins.(*ssa.MapUpdate); ok && types.Identical(mu.Map.Type(), x.X.Type()) {
						if rmFromCaller(p, mu.Value, depth+1) {
							return true
						}
					}
				}
			}
		}
		return false
	case *ssa.UnOp:
		fa, ok := x.X.(*ssa.FieldAddr)
		if !ok {
			return true
		}
		for _, fn := range p.Funcs {
			for _, b := range fn.Blocks {
				for _, ins := range b.Instrs {
					st, ok := ins.(*ssa.Store)
					if !ok {
						continue
					}
					fa2, ok := st.Addr.(*ssa.FieldAddr)
					if !ok || fa2.Field != fa.Field || !types.Identical(fa2.X.Type(), fa.X.Type()) {
						continue
					}
					if rmFromCaller(p, st.Val, depth+1) {
						return true
					}
				}
			}
		}
		return false
	}
	return true
}

// runC12Memo: a concurrency-safe container kept in a package-level variable (sync.Map) and
// written on a validation path is memory that outlives the call. That is compatible with "the
// result depends only on this call's arguments" only if it is a sound memo: the value stored
// under a key is computed from that key alone. Rule: at every Store/LoadOrStore/Swap on such a
// global, the stored value is the result of one call all of whose arguments are the key value
// itself or constants (regexp.Compile(pattern) stored under pattern is fine; stored under a
// shorter text, every rule that shares that text is answered by the first pattern seen).
func runC12Memo(c *Ctx) {
	p := c.P
	c.Rule("C12-MEMO", "every write into a package-level concurrent map on a validation path stores f(key) under key (a sound memo)", 0)
	reach, _ := validationReach(p)
	n := 0
	for _, fn := range p.Funcs {
		if !reach[fn] {
			continue
		}
		for _, b := range fn.Blocks {
			for _, ins := range b.Instrs {
				call, ok := ins.(ssa.CallInstruction)
				if !ok {
					continue
				}
				cc := call.Common()
				nm := calleeName(cc)
				if nm != "(*sync.Map).Store" && nm != "(*sync.Map).LoadOrStore" && nm != "(*sync.Map).Swap" {
					continue
				}
				g, ok := cc.Args[0].(*ssa.Global)
				if !ok {
					continue
				}
				n++
				c.Sites++
				key, val := stripIface(cc.Args[1]), stripIface(cc.Args[2])
				var bad []string
				src, isCall := val.(*ssa.Call)
				if !isCall {
					if ex, isEx := val.(*ssa.Extract); isEx {
						src, isCall = ex.Tuple.(*ssa.Call)
					}
				}
				if !isCall {
					bad = append(bad, fmt.Sprintf("the value stored is a %T, not the result of a computation on the key", val))
				} else {
					for _, a := range src.Call.Args {
						a = stripIface(a)
						if _, isC := a.(*ssa.Const); isC || a == key {
							continue
						}
						bad = append(bad, "the value stored under the key is computed by "+calleeName(&src.Call)+" from something other than the key: calls whose keys coincide but whose inputs differ are answered from the first one's entry")
					}
				}
				c.Check(len(bad) == 0, "C12-MEMO", fnName(fn), "store:"+g.Name(), call.Pos(), "stores f(key) under key", uniqJoin(bad, 2))
			}
		}
	}
	if n == 0 {
		c.OK("C12-MEMO", "valid", "none", token.NoPos, "no package-level concurrent map is written on a validation path")
	}
}

// runC12ParamWrite: the library does not write into slices it is handed. A slice parameter of a
// function of package valid (a spread variadic `rules...` included) shares its backing array
// with the caller's slice: an element store, or an append onto a reslice of it, changes what
// the caller passes to its next call.
func runC12ParamWrite(c *Ctx) {
	p := c.P
	c.Rule("C12-PARAMWRITE", "no function of package valid stores into the backing array of a slice parameter", 1)
	sp := p.Pkg("valid")
	var bad []string
	n := 0
	for _, fn := range p.Funcs {
		if fn.Pkg != sp {
			continue
		}
		for _, prm := range fn.Params {
			if _, ok := prm.Type().Underlying().(*types.Slice); !ok {
				continue
			}
			n++
			fam := map[ssa.Value]bool{prm: true}
			for changed := true; changed; {
				changed = false
				for _, b := range fn.Blocks {
					for _, ins := range b.Instrs {
						switch x := ins.(type) {
						case *ssa.Slice:
							if fam[x.X] && !fam[x] {
								fam[x], changed = true, true
							}
						case *ssa.Phi:
							for _, e := range x.Edges {
								if fam[e] && !fam[x] {
									fam[x], changed = true, true
								}
							}
						case *ssa.ChangeType:
							if fam[x.X] && !fam[x] {
								fam[x], changed = true, true
							}
						}
					}
				}
			}
			for _, b := range fn.Blocks {
				for _, ins := range b.Instrs {
					switch x := ins.(type) {
					case *ssa.Store:
						if ia, ok := x.Addr.(*ssa.IndexAddr); ok && fam[ia.X] {
							bad = append(bad, fmt.Sprintf("%s stores into its slice parameter %s at %s: the caller's slice is modified", fnName(fn), prm.Name(), p.Pos(x.Pos())))
						}
					case *ssa.Call:
						if calleeName(&x.Call) == "builtin.append" && fam[x.Call.Args[0]] {
							if sl, ok := x.Call.Args[0].(*ssa.Slice); ok && sl.High != nil {
								bad = append(bad, fmt.Sprintf("%s appends onto a reslice of its slice parameter %s at %s: the caller's elements are overwritten", fnName(fn), prm.Name(), p.Pos(x.Pos())))
							}
						}
						if calleeName(&x.Call) == "builtin.copy" && fam[x.Call.Args[0]] {
							bad = append(bad, fmt.Sprintf("%s copies into its slice parameter %s at %s", fnName(fn), prm.Name(), p.Pos(x.Pos())))
						}
					}
				}
			}
		}
	}
	c.Sites += n
	c.Check(len(bad) == 0, "C12-PARAMWRITE", "valid", "slice-params", token.NoPos, fmt.Sprintf("%d slice parameters, none written through", n), uniqJoin(bad, 3))
}

// runPoolReleaseOnce: a pooled object is handed back at most once per acquisition. Two releases of one
// object (an explicit one followed by the deferred one, or two on one path) put the same object into
// the pool twice: two later Gets — possibly in different goroutines — then share one builder.
func runPoolReleaseOnce(c *Ctx, rule string) {
	p := c.P
	for _, pi := range findPools(p) {
		// releasers: functions that Put their own parameter into this pool
		releasers := map[*ssa.Function]bool{}
		for _, put := range pi.Puts {
			f := put.Parent()
			args := put.Call.Args
			if len(f.Params) == 0 || len(args) < 2 {
				continue
			}
			obj := args[len(args)-1]
			if mi, ok := obj.(*ssa.MakeInterface); ok {
				obj = mi.X
			}
			if obj == ssa.Value(f.Params[0]) {
				releasers[f] = true
			}
		}
		keyOfObj := func(v ssa.Value) string {
			if mi, ok := v.(*ssa.MakeInterface); ok {
				v = mi.X
			}
			if ld, ok := v.(*ssa.UnOp); ok && ld.Op == token.MUL {
				if fa, ok := ld.X.(*ssa.FieldAddr); ok {
					owner := "a local object"
					if prm, ok := fa.X.(*ssa.Parameter); ok {
						owner = prm.Name()
					}
					return "field " + fieldAddrName(fa) + " of " + owner
				}
			}
			return v.Name()
		}
		type rel struct {
			ins      ssa.Instruction
			deferred bool
		}
		for _, fn := range p.Funcs {
			if releasers[fn] {
				continue
			}
			by := map[string][]rel{}
			ord := map[string]string{}
			for _, b := range fn.Blocks {
				for _, ins := range b.Instrs {
					ci, ok := ins.(ssa.CallInstruction)
					if !ok {
						continue
					}
					cc := ci.Common()
					var obj ssa.Value
					if sc := staticCallee(cc); sc != nil && releasers[sc] && len(cc.Args) > 0 {
						obj = cc.Args[0]
					} else if calleeName(cc) == "(*sync.Pool).Put" && len(cc.Args) == 2 && cc.Args[0] == ssa.Value(pi.G) {
						obj = cc.Args[1]
					}
					if obj == nil {
						continue
					}
					_, isDefer := ins.(*ssa.Defer)
					k := keyOfObj(obj)
					if !strings.HasPrefix(k, "field ") {
						if ord[k] == "" {
							ord[k] = fmt.Sprintf("builder #%d", len(ord)+1)
						}
						k = ord[k]
					}
					by[k] = append(by[k], rel{ins, isDefer})
				}
			}
			for k, rs := range by {
				c.Sites++
				var bad []string
				for i, a := range rs {
					for j, b := range rs {
						if i >= j {
							continue
						}
						switch {
						case a.deferred != b.deferred:
							bad = append(bad, fmt.Sprintf("%s is released explicitly at %s and again by the deferred release at %s", k, p.Pos(instrPos(map[bool]ssa.Instruction{true: b.ins, false: a.ins}[a.deferred])), p.Pos(instrPos(map[bool]ssa.Instruction{true: a.ins, false: b.ins}[a.deferred]))))
						case a.ins.Block() == b.ins.Block() || blockReaches(a.ins.Block(), b.ins.Block(), nil) || blockReaches(b.ins.Block(), a.ins.Block(), nil):
							bad = append(bad, fmt.Sprintf("%s is released at %s and again at %s on one path", k, p.Pos(instrPos(a.ins)), p.Pos(instrPos(b.ins))))
						}
					}
				}
				c.Check(len(bad) == 0, rule, fnName(fn), "release-once:"+pi.G.Name()+":"+k, instrPos(rs[0].ins), "released once",
					strings.Join(uniqStrings(bad), "; ")+": the same object sits in the pool twice, so two later users (possibly concurrent calls) write into one buffer")
			}
		}
	}
}
