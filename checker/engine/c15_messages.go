package engine

import (
	"fmt"
	"go/token"
	"sort"
	"strings"
)

func init() {
	register(&PropDef{
		ID: "C15",
		Explain: "C15-DIAMOND: on every path of every rule function (abstract interpretation, all kinds, all predicate outcomes) a default verdict clause is written only after the custom message of the rule's own text was found empty, and when it is non-empty the clause written carries exactly that message with the same object, field and echoed input. " +
			"C15-LABEL: both branches of the rule-text parser choose the Chinese label iff the CJK pattern matches the message, else the English one, joined by one space, and the CJK pattern's language equals [\\x{4e00}-\\x{9fa5}]; the clause constructor adds the English label only when the first extra argument carries no label. " +
			"C15-EXTRACT: the explanation extractor's slice expressions are proved in bounds and no label width is carried from one clause to the next. " +
			"Not covered: exact extractor output on arbitrary text that merely resembles clauses.",
		Assume:  []string{"the walkers hand a rule function the rule text it was selected by (checked by C18)"},
		Trusted: []string{"go/types", "go/ssa", "regexp/syntax"},
		Run: func(c *Ctx) {
			runC15(c)
			runMsgArg(c, "C15-MSGARG")
			runLiveSettings(c, "C15-LIVE")
			importRules(c, "C05", runC05InList, "C15-INLIST", "the custom message of an in/include rule is what the parser cut off behind the first '|': the rule function takes its option list from the parsed VALUE, first '(' to last ')' (rule C05-INLIST) — a rule function that cuts the raw rule text again (at the last ')' of the whole item) swallows a message containing ')' into the option list and the clause falls back to the default wording", 3, nil)
			base(c, "DECLARED", "STATE", "ALIAS", "TEXT", "MAT")
		},
	})
}

func runC15(c *Ctx) {
	runC15Diamond(c)
	runC15Label(c)
	runC15Extract(c)
	runC15Quoted(c)
	runC15Join(c)
}

func runC15Diamond(c *Ctx) {
	p := c.P
	c.Rule("C15-DIAMOND", "every default verdict write is reached only with the rule's custom message found empty; with a non-empty message the clause carries that message and the same object, field and input", 30)
	runs, err := exploreRegistry(p)
	if err != nil {
		c.Unk("C15-DIAMOND", "-", "anchor", token.NoPos, "rule table unresolved: "+err.Error())
		return
	}
	for _, r := range runs {
		if r.Entry.Fn == nil {
			continue
		}
		c.Funcs[fnName(r.Entry.Fn)] = true
		var bad, unk []string
		nV, nM := 0, 0
		type pair struct{ obj, field, input string }
		vIn, mIn := map[pair]bool{}, map[pair]bool{}
		for _, t := range r.Traces {
			if t.Converged {
				continue
			}
			if t.Cut != "" {
				unk = append(unk, t.Cut)
				continue
			}
			if t.Panic != "" {
				continue // reported by C13/C05
			}
			c.Sites++
			// the custom-message emptiness atom decided on this trace
			cusEmpty := -1
			cusKey := ""
			for k, v := range t.PC {
				if strings.HasPrefix(k, `eq("",`+cusMsgMarker) && strings.HasSuffix(k, "#2)") && strings.Contains(k, "validName") {
					cusEmpty, cusKey = v, k[len(`eq("",`):len(k)-1]
				}
			}
			for _, w := range writesOf(t, "errBuf") {
				pr := pair{keyOf(w.Obj), keyOf(w.Field), keyOf(w.Input)}
				switch w.Class {
				case "V":
					nV++
					vIn[pr] = true
					if cusEmpty != 1 {
						bad = append(bad, fmt.Sprintf("default text written at %s without the rule's custom message having been found empty", p.Pos(instrPos(w.Site))))
					}
				case "M":
					nM++
					mIn[pr] = true
					if cusEmpty != 0 || keyOf(w.Others[0]) != cusKey {
						bad = append(bad, fmt.Sprintf("custom-message clause at %s is not guarded by that message being non-empty", p.Pos(instrPos(w.Site))))
					}
				case "?":
					bad = append(bad, fmt.Sprintf("clause at %s is not built by the clause constructors: %s", p.Pos(instrPos(w.Site)), shorten(keyOf(w.Raw), 120)))
				}
			}
		}
		if nV > 0 && nM == 0 {
			bad = append(bad, "the rule never substitutes a custom message for its default text")
		}
		for pr := range vIn {
			if !mIn[pr] {
				bad = append(bad, fmt.Sprintf("default clause for (%s,%s,input %s) has no custom-message counterpart with the same object, field and input", pr.obj, pr.field, shorten(pr.input, 60)))
			}
		}
		sort.Strings(bad)
		switch {
		case len(unk) > 0:
			c.Unk("C15-DIAMOND", r.Entry.Name, "diamond", r.Entry.Fn.Pos(), uniqJoin(unk, 3))
		case len(bad) > 0:
			c.Bad("C15-DIAMOND", r.Entry.Name, "diamond", r.Entry.Fn.Pos(), uniqJoin(bad, 4))
		default:
			c.OK("C15-DIAMOND", r.Entry.Name, "diamond", r.Entry.Fn.Pos(), fmt.Sprintf("%d default and %d custom-message writes, all inside the diamond", nV, nM))
		}
	}
}
