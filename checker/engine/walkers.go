package engine

import (
	"fmt"
	"go/types"
	"reflect"
	"sort"
	"strings"
	"sync"

	"golang.org/x/tools/go/ssa"
)

// Engine W — the four walkers (functions of package valid that contain an indirect call
// of a CommonValidFn) and what the abstract interpreter observes in one pass of their
// loops.

type Walker struct {
	Fn    *ssa.Function
	Calls []*ssa.Call // the indirect rule-function calls
}

func isCommonValidFn(t types.Type) bool { return isNamed(t, ModPath+"/valid", "CommonValidFn") }

func findWalkers(p *Prog) []*Walker {
	var out []*Walker
	for _, fn := range p.Funcs {
		if fn.Pkg == nil || Rel(fn.Pkg.Pkg.Path()) != "valid" {
			continue
		}
		var calls []*ssa.Call
		for _, b := range fn.Blocks {
			for _, ins := range b.Instrs {
				call, ok := ins.(*ssa.Call)
				if !ok || call.Call.IsInvoke() {
					continue
				}
				switch call.Call.Value.(type) {
				case *ssa.Function, *ssa.Builtin, *ssa.MakeClosure:
					continue
				}
				if isCommonValidFn(call.Call.Value.Type()) {
					calls = append(calls, call)
				}
			}
		}
		if len(calls) > 0 {
			out = append(out, &Walker{Fn: fn, Calls: calls})
		}
	}
	sort.Slice(out, func(i, j int) bool { return fnName(out[i].Fn) < fnName(out[j].Fn) })
	return out
}

// stringEmptiness: what the decided atoms say about a string being empty
// (val == "", len(val) == 0, len(val) > 0 forms). Returns 1 empty, 0 non-empty.
func stringEmptiness(decided func(string) (int, bool), key string) (int64, bool) {
	if v, ok := decided(`eq("",` + key + `)`); ok {
		return int64(v), true
	}
	if v, ok := decided("eq(0,len(" + key + "))"); ok {
		return int64(v), true
	}
	if v, ok := decided("lt(0,len(" + key + "))"); ok {
		return int64(1 - v), true
	}
	return 0, false
}

// parentKey strips the last method call of a value key: "x.Index(i)" -> "x"; "" if none.
func parentKey(key string) string {
	if strings.HasSuffix(key, ".MapRange().Value()") {
		return strings.TrimSuffix(key, ".MapRange().Value()")
	}
	if !strings.HasSuffix(key, ")") {
		return ""
	}
	depth := 0
	for i := len(key) - 1; i >= 0; i-- {
		switch key[i] {
		case ')':
			depth++
		case '(':
			depth--
		}
		if depth == 0 {
			j := strings.LastIndex(key[:i], ".")
			if j <= 0 {
				return ""
			}
			return key[:j]
		}
	}
	return ""
}

// WalkRun is the result of interpreting one function in walker mode.
type WalkRun struct {
	Fn     *ssa.Function
	Env    *WalkEnv
	Traces []Trace
}

func symArgs(fn *ssa.Function) []AVal {
	var out []AVal
	for _, p := range fn.Params {
		out = append(out, Sym{K: p.Name(), T: p.Type()})
	}
	return out
}

// exploreWalk interprets fn with symbolic arguments. `init` gives entry kind sets for
// reflect.Value parameters (default: any kind, Invalid included). Nested calls of the
// functions in `summarise` are not entered: they are recorded as events.
func exploreWalk(p *Prog, fn *ssa.Function, init map[string]uint32, summarise map[string]bool, maxTraces int) *WalkRun {
	return exploreWalkOpts(p, fn, init, summarise, nil, maxTraces)
}

func exploreWalkOpts(p *Prog, fn *ssa.Function, init map[string]uint32, summarise map[string]bool, suffix map[string]uint32, maxTraces int) *WalkRun {
	return exploreWalkArgs(p, fn, init, summarise, suffix, maxTraces, nil)
}

// exploreWalkArgs: like exploreWalkOpts with some parameters bound to given abstract values.
func exploreWalkArgs(p *Prog, fn *ssa.Function, init map[string]uint32, summarise map[string]bool, suffix map[string]uint32, maxTraces int, bound map[int]AVal) *WalkRun {
	w := NewWalkEnv(p)
	for k, v := range init {
		w.Init[k] = v
	}
	for k, v := range suffix {
		w.Suffix[k] = v
	}
	in := w.In
	for _, n := range []string{"valid.ParseValidNameKV", "valid.ValidNamesSplit", "(valid.RM).Get", "(*valid.VStruct).getCacheStructType", "valid.NewRule", "(valid.RM).Set"} {
		in.NoInline[n] = true
	}
	for name := range summarise {
		name := name
		in.Models[name] = func(in *Interp, site ssa.Instruction, cc *ssa.CallCommon, a []AVal) (AVal, bool) {
			ev := append([]AVal{cstStr(name)}, a...)
			for _, x := range a {
				if s, ok := x.(Sym); ok && isReflectValue(s.T) {
					ev = append(ev, Tok{Dom: "kset", Name: s.K, Args: []AVal{cstInt(int64(w.get(s.K)))}})
					if pk := parentKey(s.K); pk != "" {
						ev = append(ev, Tok{Dom: "pkset", Name: pk, Args: []AVal{cstInt(int64(w.get(pk)))}})
					}
				}
			}
			in.Emit("call", site, ev...)
			res := cc.Signature().Results()
			switch res.Len() {
			case 0:
				return Tup{}, true
			case 1:
				if len(a) > 0 && cc.Signature().Recv() != nil && types.Identical(res.At(0).Type(), cc.Signature().Recv().Type()) {
					return a[0], true // fluent style: returns the receiver
				}
				return Sym{K: name + "()", T: res.At(0).Type()}, true
			}
			return nil, false
		}
	}
	in.Models["(*valid.validCommon).initValid2FieldsMap"] = func(in *Interp, site ssa.Instruction, cc *ssa.CallCommon, a []AVal) (AVal, bool) {
		ev := []AVal{}
		if pt, ok := a[1].(Ptr); ok {
			st, _ := pt.C.T.Underlying().(*types.Struct)
			idx := make([]int, 0, len(pt.C.Fields))
			for i := range pt.C.Fields {
				idx = append(idx, i)
			}
			sort.Ints(idx)
			for _, i := range idx {
				name := fmt.Sprint(i)
				if st != nil && i < st.NumFields() {
					name = st.Field(i).Name()
				}
				ev = append(ev, Tok{Dom: "field", Name: name, Args: []AVal{in.load(Ptr{C: pt.C.Fields[i]}, nil, site)}})
			}
		}
		in.Emit("group", site, ev...)
		return Tup{}, true
	}
	if reg, fm := groupRegistrar(w.In.P); reg != nil && fm != nil {
		// a registrar that takes the member's parts as parameters: the same event, fields by parameter
		var names []string
		for n := range fm {
			names = append(names, n)
		}
		sort.Strings(names)
		in.Models[fnName(reg)] = func(in *Interp, site ssa.Instruction, cc *ssa.CallCommon, a []AVal) (AVal, bool) {
			ev := []AVal{}
			for _, n := range names {
				if fm[n] < len(a) {
					ev = append(ev, Tok{Dom: "field", Name: n, Args: []AVal{a[fm[n]]}})
				}
			}
			in.Emit("group", site, ev...)
			return Tup{}, true
		}
	}
	in.Models["dyncall"] = func(in *Interp, site ssa.Instruction, cc *ssa.CallCommon, a []AVal) (AVal, bool) {
		if !isCommonValidFn(cc.Value.Type()) {
			return nil, false
		}
		// snapshot of what is known about the value argument at the call
		zero := int64(-1)
		var mask uint32 = allKinds
		if len(a) >= 6 {
			vk := keyOf(a[5])
			mask = w.get(vk)
			if v, ok := in.Decided("zero(" + vk + ")"); ok {
				zero = int64(v)
			}
			if strings.HasPrefix(vk, "reflect.ValueOf(") {
				inner := strings.TrimSuffix(strings.TrimPrefix(vk, "reflect.ValueOf("), ")")
				if z, ok := stringEmptiness(in.Decided, inner); ok {
					zero = z
				}
			}
			if v, ok := in.Decided("eq(nil," + keyOf(a[0]) + ")"); ok && v == 1 {
				in.Panics(site, "call of a nil rule function")
			}
			if _, ok := in.Decided("eq(nil," + keyOf(a[0]) + ")"); !ok {
				in.Emit("fn-not-nil-checked", site, a[0])
			}
		}
		in.Emit("rulecall", site, append(append([]AVal{}, a...), cstInt(zero), cstInt(int64(mask)))...)
		return Tup{}, true
	}
	prevHook := in.AtomHook
	in.AtomHook = func(in *Interp, atom string) (int, bool) {
		if prevHook != nil {
			if v, ok := prevHook(in, atom); ok {
				return v, ok
			}
		}
		coll := kmask(24, 23, 21, 18) // String, Slice, Map, Chan
		if strings.HasPrefix(atom, "len0(") {
			k := atom[5 : len(atom)-1]
			if v, ok := in.Decided("zero(" + k + ")"); ok && v == 1 && w.get(k)&^coll == 0 {
				return 1, true
			}
		}
		if strings.HasPrefix(atom, "zero(") {
			k := atom[5 : len(atom)-1]
			if v, ok := in.Decided("len0(" + k + ")"); ok && v == 0 && w.get(k)&^coll == 0 {
				return 0, true
			}
		}
		return 0, false
	}
	args := symArgs(fn)
	for i, v := range bound {
		if i < len(args) {
			args[i] = v
		}
	}
	trs := in.Explore(fn, args, maxTraces)
	return &WalkRun{Fn: fn, Env: w, Traces: trs}
}

var walkCache sync.Map

type walkKey struct {
	p  *Prog
	fn *ssa.Function
}

// DebugWalk prints a compact view of the traces of one function in walker mode.
func DebugWalk(repo, name string) {
	p, err := Load(Config{Repo: repo})
	if err != nil {
		fmt.Println(err)
		return
	}
	for _, fn := range p.Funcs {
		if fnName(fn) != name {
			continue
		}
		sum := map[string]bool{"(*valid.VStruct).validate": true, "(*valid.VMap).validate": true, "(*valid.VVar).validate": true, "(*valid.VUrl).validate": true,
			"(*valid.VStruct).getError": true, "(*valid.VMap).getError": true, "(*valid.VVar).getError": true, "(*valid.VUrl).getError": true}
		r := exploreWalk(p, fn, nil, sum, 20000)
		fmt.Printf("%s: %d traces\n", name, len(r.Traces))
		nconv, ncut, npanic := 0, 0, 0
		panics := map[string]int{}
		cuts := map[string]int{}
		for _, t := range r.Traces {
			switch {
			case t.Converged:
				nconv++
			case t.Cut != "":
				ncut++
				cuts[t.Cut]++
			case t.Panic != "":
				npanic++
				panics[t.Panic+" @ "+p.Pos(instrPos(t.PanicAt))]++
			}
		}
		fmt.Printf("converged=%d cut=%d panic=%d\n", nconv, ncut, npanic)
		for k, v := range cuts {
			fmt.Printf("  CUT %dx %s\n", v, k)
		}
		for k, v := range panics {
			fmt.Printf("  PANIC %dx %s\n", v, k)
		}
		evs := map[string]int{}
		for _, t := range r.Traces {
			if t.Cut != "" {
				continue
			}
			for _, e := range t.Events {
				s := e.Kind
				for _, a := range e.Args {
					s += " | " + shorten(keyOf(a), 70)
				}
				evs[s]++
			}
		}
		var ks []string
		for k := range evs {
			ks = append(ks, k)
		}
		sort.Strings(ks)
		for _, k := range ks {
			fmt.Printf("  EV %dx %s\n", evs[k], k)
		}
	}
}

// walkerStrictFor: does the struct walker, handed a value that is not a struct (and not a pointer),
// write a clause ("is not struct") when its mode parameter has the given value? Decided by
// interpreting the walker itself with that argument bound — whatever the representation of the mode
// (optional variadic bool, plain bool, enum).
var strictCache sync.Map

func walkerStrictFor(p *Prog, fn *ssa.Function, paramIdx int, flag AVal) (strict, known bool) {
	type key struct {
		p  *Prog
		fn *ssa.Function
		i  int
		k  string
	}
	ck := key{p, fn, paramIdx, keyOf(flag)}
	if v, ok := strictCache.Load(ck); ok {
		r := v.([2]bool)
		return r[0], r[1]
	}
	init := map[string]uint32{}
	for _, prm := range fn.Params {
		if isReflectValue(prm.Type()) {
			init[prm.Name()] = kmask(reflect.String)
		}
	}
	sum := summarisedNames(p)
	r := exploreWalkArgs(p, fn, init, sum, nil, 4000, map[int]AVal{paramIdx: flag})
	known = true
	for _, t := range r.Traces {
		if t.Converged {
			continue
		}
		if t.Cut != "" {
			known = false
		}
		for _, e := range t.Events {
			if e.Kind == "write" {
				strict = true
			}
		}
	}
	strictCache.Store(ck, [2]bool{strict, known})
	return strict, known
}

var outermostCache sync.Map

// outermostAtom: the path condition that says "this is the outermost object" in the struct walker.
// On the baseline tree it is `structName == ""`. When the walker has a bool parameter that is true at
// exactly those call sites that pass the empty path and false at all others, that parameter says the
// same thing explicitly and the walker may test it instead.
func outermostAtom(p *Prog) string {
	const def = `eq("",structName)`
	if v, ok := outermostCache.Load(p); ok {
		return v.(string)
	}
	res := def
	defer func() { outermostCache.Store(p, res) }()
	w := p.Method("valid", "VStruct", "validate")
	if w == nil || len(w.Params) < 3 {
		return res
	}
	nameIdx := -1
	for i, prm := range w.Params {
		if bt, ok := prm.Type().Underlying().(*types.Basic); ok && bt.Kind() == types.String && nameIdx < 0 {
			nameIdx = i
		}
	}
	if nameIdx < 0 {
		return res
	}
	for i, prm := range w.Params {
		bt, ok := prm.Type().Underlying().(*types.Basic)
		if !ok || bt.Kind() != types.Bool {
			continue
		}
		consistent, sawOuter, sawInner := true, false, false
		for _, fn := range p.Funcs {
			for _, b := range fn.Blocks {
				for _, ins := range b.Instrs {
					ci, ok := ins.(ssa.CallInstruction)
					if !ok || staticCallee(ci.Common()) != w {
						continue
					}
					args := ci.Common().Args
					if len(args) <= i || len(args) <= nameIdx {
						consistent = false
						continue
					}
					s, isConst := constString(args[nameIdx])
					outer := isConst && s == ""
					bv, known := constBool(args[i])
					if !known || bv != outer {
						consistent = false
					}
					if outer {
						sawOuter = true
					} else {
						sawInner = true
					}
				}
			}
		}
		if consistent && sawOuter && sawInner {
			res = prm.Name()
			return res
		}
	}
	return res
}

// groupRegistrar: the function that files a group member (either/botheq) under its group — found by what
// it does (an update of the validator's valid2FieldsMap), not by its name. For a registrar other than the
// baseline's initValid2FieldsMap(data *name2Value), fields maps each field of the member record to the
// parameter it is filled from (record built inside the registrar from scalar parameters).
func groupRegistrar(p *Prog) (reg *ssa.Function, fields map[string]int) {
	if fn := p.Method("valid", "validCommon", "initValid2FieldsMap"); fn != nil {
		return fn, nil
	}
	for _, fn := range p.Funcs {
		if fn.Pkg == nil || fn.Pkg != p.Pkg("valid") || fn.Blocks == nil {
			continue
		}
		has := false
		fm := map[string]int{}
		for _, b := range fn.Blocks {
			for _, ins := range b.Instrs {
				switch x := ins.(type) {
				case *ssa.MapUpdate:
					if ld, ok := x.Map.(*ssa.UnOp); ok {
						if fa, ok := ld.X.(*ssa.FieldAddr); ok && fieldAddrName(fa) == "valid2FieldsMap" {
							has = true
						}
					}
				case *ssa.Store:
					if fa, ok := x.Addr.(*ssa.FieldAddr); ok {
						if n := namedOf(fa.X.Type()); n != nil && n.Obj().Name() == "name2Value" {
							for i, prm := range fn.Params {
								if x.Val == ssa.Value(prm) {
									fm[fieldAddrName(fa)] = i
								}
							}
						}
					}
				}
			}
		}
		if has && len(fm) >= 3 {
			return fn, fm
		}
	}
	return nil, nil
}
