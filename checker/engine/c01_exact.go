package engine

import (
	"fmt"
	"go/token"
	"go/types"
	"strings"

	"golang.org/x/tools/go/ssa"
)

// C01-EXACT: the measure is compared in its own domain. The value obtained from the reflect
// accessor (Int: int64, Uint: uint64, Float: float64, Len / rune count: int) must reach the
// comparison with the bound without a conversion that can change it: integer -> float loses
// precision above 2^53 (so value and value+1 get the same verdict), float -> integer truncates,
// int64/uint64 -> a narrower or differently signed integer wraps. Conversions of the *bound* to the
// measure's type are the repository's idiom and are judged by C01-ORD's order classes.
func runC01Exact(c *Ctx) {
	p := c.P
	c.Rule("C01-EXACT", "a measure obtained from reflect.Value.Int/Uint/Float/Len (or a rune count) is never converted to a type that cannot hold every value of its own type before it is compared (no int64/uint64 -> float, no float -> int, no narrowing or sign change)", 1)
	sp := p.Pkg("valid")
	if sp == nil {
		c.Unk("C01-EXACT", "valid", "anchor", token.NoPos, "package valid not loaded")
		return
	}
	isMeasure := func(v ssa.Value) string {
		for d := 0; d < 4; d++ {
			switch x := v.(type) {
			case *ssa.ChangeType:
				v = x.X
				continue
			case *ssa.Call:
				switch nm := calleeName(&x.Call); nm {
				case "(reflect.Value).Int", "(reflect.Value).Uint", "(reflect.Value).Float", "(reflect.Value).Len", "unicode/utf8.RuneCountInString", "unicode/utf8.RuneCount":
					return nm
				case "builtin.len":
					return nm
				}
			}
			break
		}
		return ""
	}
	bits := func(b *types.Basic) (n int, signed, float bool) {
		switch b.Kind() {
		case types.Int8:
			return 8, true, false
		case types.Int16:
			return 16, true, false
		case types.Int32:
			return 32, true, false
		case types.Int, types.Int64:
			return 64, true, false // int judged as 64 bit here; the 32-bit configuration is analysed in the thorough tier
		case types.Uint8:
			return 8, false, false
		case types.Uint16:
			return 16, false, false
		case types.Uint32:
			return 32, false, false
		case types.Uint, types.Uint64, types.Uintptr:
			return 64, false, false
		case types.Float32:
			return 24, true, true
		case types.Float64:
			return 53, true, true
		}
		return 0, false, false
	}
	// only conversions whose result is compared (directly or through arithmetic-free copies)
	feedsComparison := func(v ssa.Value) bool {
		seen := map[ssa.Value]bool{}
		var walk func(v ssa.Value, d int) bool
		walk = func(v ssa.Value, d int) bool {
			if seen[v] || d > 4 {
				return false
			}
			seen[v] = true
			for _, r := range refs(v) {
				switch x := r.(type) {
				case *ssa.BinOp:
					switch x.Op {
					case token.EQL, token.NEQ, token.LSS, token.LEQ, token.GTR, token.GEQ:
						return true
					}
				case *ssa.Phi:
					if walk(x, d+1) {
						return true
					}
				case *ssa.ChangeType:
					if walk(x, d+1) {
						return true
					}
				}
			}
			return false
		}
		return walk(v, 0)
	}
	n := 0
	var bad []string
	for _, fn := range p.Funcs {
		if fn.Pkg != sp || strings.HasSuffix(p.Pos(fn.Pos()), "_test.go") {
			continue
		}
		if strings.Contains(p.Pos(fn.Pos()), "valid/dump.go") {
			continue // the dumper renders, it does not compare (C20-SCALAR)
		}
		for _, b := range fn.Blocks {
			for _, ins := range b.Instrs {
				cv, ok := ins.(*ssa.Convert)
				if !ok {
					continue
				}
				src := isMeasure(cv.X)
				if src == "" {
					continue
				}
				fb, ok1 := cv.X.Type().Underlying().(*types.Basic)
				tb, ok2 := cv.Type().Underlying().(*types.Basic)
				if !ok1 || !ok2 {
					continue
				}
				if !feedsComparison(cv) {
					continue
				}
				n++
				c.Sites++
				fn_, fs, ff := bits(fb)
				tn, ts, tf := bits(tb)
				switch {
				case fn_ == 0 || tn == 0:
				case !ff && tf && fn_ > tn && tn == 53 && src != "(reflect.Value).Int" && src != "(reflect.Value).Uint":
					// a length or rune count is far below 2^53: exact in float64
				case !ff && tf && fn_ > tn:
					bad = append(bad, fmt.Sprintf("%s: the %s measure (%s) is converted to %s before it is compared: integers above 2^%d lose precision, so a value and its neighbour get the same verdict at a bound", p.Pos(cv.Pos()), fb.Name(), src, tb.Name(), tn))
				case ff && !tf:
					bad = append(bad, fmt.Sprintf("%s: the float measure (%s) is truncated to %s before it is compared", p.Pos(cv.Pos()), src, tb.Name()))
				case !ff && !tf && (tn < fn_ || (fs != ts && !(ts && tn > fn_))):
					bad = append(bad, fmt.Sprintf("%s: the %s measure (%s) is converted to %s before it is compared: values outside %s wrap", p.Pos(cv.Pos()), fb.Name(), src, tb.Name(), tb.Name()))
				case !ff && !tf && lossyIntConv(fb, tb) != "":
					bad = append(bad, fmt.Sprintf("%s: the %s measure (%s) is converted to %s before it is compared: %s — on a 32-bit platform an int64 value and the same value plus 2^32 get the same verdict", p.Pos(cv.Pos()), fb.Name(), src, tb.Name(), lossyIntConv(fb, tb)))
				}
			}
		}
	}
	c.Check(len(bad) == 0, "C01-EXACT", "valid", "measure-conversions", token.NoPos, fmt.Sprintf("%d compared conversion(s) of a measure, all value preserving", n), uniqJoin(bad, 3))
}
