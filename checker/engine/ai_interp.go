package engine

import (
	"fmt"
	"go/constant"
	"go/token"
	"go/types"
	"sort"
	"strings"

	"golang.org/x/tools/go/ssa"
)

// Event is something observable recorded along a trace (a clause write, a descent, …).
type Event struct {
	Kind string
	Site ssa.Instruction
	Args []AVal
	PC   map[string]int // decided atoms at the time of the event (when Interp.SnapshotPC)
	Fn   *ssa.Function  // innermost interpreted function at the time of the event
}

// Trace is the result of one partition of the trace set.
type Trace struct {
	Ret       AVal
	Events    []Event
	PC        map[string]int // decided atoms
	Order     []string       // atoms in decision order
	Converged bool           // partition pruned at a loop header whose abstract state repeated (covered by sibling partitions)
	Cut       string         // non-empty: exploration of this partition was abandoned (undecided)
	Panic     string         // non-empty: a panic is reachable on this partition
	PanicAt   ssa.Instruction
}

// Model gives the abstract semantics of a callee. ok=false: fall through to the default.
type Model func(in *Interp, site ssa.Instruction, cc *ssa.CallCommon, args []AVal) (AVal, bool)

// Interp is the abstract interpreter.
type Interp struct {
	P        *Prog
	Models   map[string]Model
	NoInline map[string]bool                                          // repo functions kept uninterpreted
	BinHook  func(in *Interp, op token.Token, x, y AVal) (AVal, bool) // client domain
	// TableHook: a constant table (package-level map or array literal) is indexed with a value of a
	// client domain (a kind token): the client partitions the trace on the table's distinct values.
	// valueOf(k) is the table's entry for the integer k (ok=false: no such index/key).
	TableHook func(in *Interp, idx AVal, valueOf func(k int64) (AVal, bool), zero AVal) (AVal, bool)
	ConvHook  func(in *Interp, x AVal, to types.Type) (AVal, bool)
	LenHook   func(in *Interp, x AVal) (AVal, bool)
	// Unmodelled is told about every call to a function outside the repository (or an interface
	// method) for which no model exists, before the result becomes an opaque symbol.
	Unmodelled func(in *Interp, site ssa.Instruction, name string, args []AVal)
	AtomHook   func(in *Interp, atom string) (int, bool) // pre-decided atoms
	NonNil     func(in *Interp, v AVal) bool             // values a client knows to be non-nil: v == nil is decided false
	MaxSteps   int
	MaxDepth   int
	Monitored  map[string]bool // event kinds that are part of the abstract state (default: "write")
	WidenAfter int             // arrivals at a loop header that keep concrete loop-carried values (unrolling) before widening starts
	MaxLoop    int             // visits of one loop header per trace before the partition is cut

	TraceStores bool // emit a "store-cell" event for stores into labelled (symbolic) cells
	SnapshotPC  bool // events carry a copy of the decided atoms
	stack       []*ssa.Function
	EagerWiden  bool                  // loop-carried values are abstracted to a loop-variant symbol from the first arrival on
	MaybeNil    func(key string) bool // symbolic pointers that may be nil (dereference partitions on nil-ness)
	ForgetAll   bool                  // at a repeated loop-header arrival forget every atom decided inside the loop (walker mode)
	ResetHook   func()                // called at the start of every trace
	Pinned      []*Cell               // client cells returned by models: restored to their initial content before every trace
	journal     []journalEntry
	Variant     func(key string) bool // keys that denote a different value in every loop iteration
	invCount    map[*ssa.Function]int

	decisions []int
	maxes     []int
	pos       int
	pc        map[string]int
	order     []string
	events    []Event
	steps     int
	allocN    int
	depth     int
	globals   map[*ssa.Global]*Cell
	symCells  map[string]*Cell
	constGlob map[*ssa.Global]AVal
	constTab  map[*ssa.Global]*constTable
	// LocalBuilders: a strings.Builder that lives in a local of an interpreted function is modelled as
	// a string accumulator (content kept per cell); loops widen a content that keeps changing
	LocalBuilders bool
	bld           map[*Cell]AVal
	hdrCache      map[*ssa.Function]map[*ssa.BasicBlock]bool
}

type journalEntry struct {
	key  string
	undo func()
}

type aiAbort struct {
	cut   string
	panic string
	at    ssa.Instruction
}

func NewInterp(p *Prog) *Interp {
	in := &Interp{P: p, Models: map[string]Model{}, NoInline: map[string]bool{}, MaxSteps: 40000, MaxDepth: 8, MaxLoop: 10, WidenAfter: 1}
	in.constGlob = constGlobals(p)
	in.constTab = constTablesOf(p)
	return in
}

// constGlobals: package-level variables initialised with a constant in the package
// initialiser and never stored to anywhere else ("effectively constant").
func constGlobals(p *Prog) map[*ssa.Global]AVal {
	init := map[*ssa.Global]AVal{}
	stores := map[*ssa.Global]int{}
	for _, fn := range p.Funcs {
		for _, b := range fn.Blocks {
			for _, ins := range b.Instrs {
				st, ok := ins.(*ssa.Store)
				if !ok {
					continue
				}
				g, ok := st.Addr.(*ssa.Global)
				if !ok {
					continue
				}
				stores[g]++
				if fn.Name() == "init" && fn.Signature.Recv() == nil {
					if c, ok := st.Val.(*ssa.Const); ok {
						init[g] = Cst{V: c.Value, T: c.Type()}
					}
					// results of constructors that never return nil: known non-nil tokens
					if call, ok := st.Val.(*ssa.Call); ok {
						switch calleeName(&call.Call) {
						case "errors.New", "fmt.Errorf", "regexp.MustCompile", "reflect.TypeOf":
							init[g] = Tok{Dom: "g", Name: fnNameGlobal(g)}
						}
					}
				}
			}
		}
	}
	for g := range init {
		if stores[g] != 1 {
			delete(init, g)
		}
	}
	return init
}

// Explore enumerates the trace partitions of fn applied to args.
func (in *Interp) Explore(fn *ssa.Function, args []AVal, maxTraces int) []Trace {
	var out []Trace
	in.decisions, in.maxes = nil, nil
	// every trace starts from the same memory: cells handed in by the client (through the arguments or
	// pinned because a model returns them) are put back to their initial content before each run
	snaps := snapshotCells(args, in.Pinned)
	for {
		restoreCells(snaps)
		tr := in.runOnce(fn, args)
		out = append(out, tr)
		if len(out) >= maxTraces {
			out = append(out, Trace{Cut: fmt.Sprintf("more than %d trace partitions", maxTraces)})
			return out
		}
		// backtrack
		i := len(in.decisions) - 1
		for i >= 0 && in.decisions[i]+1 >= in.maxes[i] {
			i--
		}
		if i < 0 {
			return out
		}
		in.decisions[i]++
		in.decisions = in.decisions[:i+1]
		in.maxes = in.maxes[:i+1]
	}
}

func (in *Interp) runOnce(fn *ssa.Function, args []AVal) (tr Trace) {
	in.pos = 0
	in.pc = map[string]int{}
	in.order = nil
	in.events = nil
	in.steps = 0
	in.allocN = 0
	in.depth = 0
	in.globals = map[*ssa.Global]*Cell{}
	in.symCells = map[string]*Cell{}
	in.journal = nil
	in.stack = nil
	in.invCount = map[*ssa.Function]int{}
	in.bld = map[*Cell]AVal{}
	if in.ResetHook != nil {
		in.ResetHook()
	}
	defer func() {
		if r := recover(); r != nil {
			if _, conv := r.(aiConverged); conv {
				tr = Trace{Converged: true, Events: in.events, PC: in.pc, Order: in.order}
				return
			}
			ab, ok := r.(aiAbort)
			if !ok {
				panic(r)
			}
			tr = Trace{Events: in.events, PC: in.pc, Order: in.order, Cut: ab.cut, Panic: ab.panic, PanicAt: ab.at}
		}
	}()
	ret := in.callFn(fn, args, nil)
	return Trace{Ret: ret, Events: in.events, PC: in.pc, Order: in.order}
}

func (in *Interp) loopHeaders(fn *ssa.Function) map[*ssa.BasicBlock]bool {
	if in.hdrCache == nil {
		in.hdrCache = map[*ssa.Function]map[*ssa.BasicBlock]bool{}
	}
	if h, ok := in.hdrCache[fn]; ok {
		return h
	}
	h := map[*ssa.BasicBlock]bool{}
	for _, l := range naturalLoops(fn) {
		h[l.Header] = true
	}
	in.hdrCache[fn] = h
	return h
}

// monitoredEvents counts the events that are part of the observable state.
func (in *Interp) monitoredEvents() int {
	n := 0
	for _, e := range in.events {
		if in.Monitored == nil && e.Kind == "write" || in.Monitored[e.Kind] {
			n++
		}
	}
	return n
}

func (in *Interp) cut(format string, a ...interface{}) {
	panic(aiAbort{cut: fmt.Sprintf(format, a...)})
}

// Panics records that a panic is reachable here and ends the partition.
func (in *Interp) Panics(at ssa.Instruction, format string, a ...interface{}) {
	panic(aiAbort{panic: fmt.Sprintf(format, a...), at: at})
}

// Emit records an event.
func (in *Interp) Emit(kind string, site ssa.Instruction, args ...AVal) {
	e := Event{Kind: kind, Site: site, Args: args}
	if in.SnapshotPC {
		e.PC = make(map[string]int, len(in.pc))
		for k, v := range in.pc {
			e.PC[k] = v
		}
	}
	if len(in.stack) > 0 {
		e.Fn = in.stack[len(in.stack)-1]
	}
	in.events = append(in.events, e)
}

type cellSnap struct {
	c      *Cell
	v      AVal
	elems  []*Cell
	fields map[int]*Cell
}

// snapshotCells records the content of every cell reachable from the given values and cells.
func snapshotCells(args []AVal, pinned []*Cell) []cellSnap {
	var out []cellSnap
	seen := map[*Cell]bool{}
	var visitV func(v AVal)
	var visitC func(c *Cell)
	visitC = func(c *Cell) {
		if c == nil || seen[c] || c.ID < 0 {
			return
		}
		seen[c] = true
		sn := cellSnap{c: c, v: c.V, elems: append([]*Cell(nil), c.Elems...)}
		if c.Fields != nil {
			sn.fields = map[int]*Cell{}
			for k, f := range c.Fields {
				sn.fields[k] = f
			}
		}
		out = append(out, sn)
		visitV(c.V)
		for _, e := range c.Elems {
			visitC(e)
		}
		for _, f := range c.Fields {
			visitC(f)
		}
	}
	visitV = func(v AVal) {
		switch x := v.(type) {
		case Ptr:
			visitC(x.C)
		case Slc:
			visitC(x.Arr)
		case Ifc:
			visitV(x.V)
		case Tup:
			for _, e := range x.E {
				visitV(e)
			}
		}
	}
	for _, a := range args {
		visitV(a)
	}
	for _, c := range pinned {
		visitC(c)
	}
	return out
}

func restoreCells(snaps []cellSnap) {
	for _, sn := range snaps {
		sn.c.V = sn.v
		sn.c.Elems = append(sn.c.Elems[:0:0], sn.elems...)
		if sn.fields == nil {
			sn.c.Fields = nil
		} else {
			sn.c.Fields = map[int]*Cell{}
			for k, f := range sn.fields {
				sn.c.Fields[k] = f
			}
		}
	}
}

// Choose decides an n-ary atom (once per trace).
func (in *Interp) Choose(atom string, n int) int {
	if v, ok := in.pc[atom]; ok {
		return v
	}
	if in.AtomHook != nil {
		if v, ok := in.AtomHook(in, atom); ok {
			in.pc[atom] = v
			in.order = append(in.order, atom)
			return v
		}
	}
	var v int
	if in.pos < len(in.decisions) {
		v = in.decisions[in.pos]
	} else {
		in.decisions = append(in.decisions, 0)
		in.maxes = append(in.maxes, n)
	}
	in.pos++
	in.pc[atom] = v
	in.order = append(in.order, atom)
	in.Journal(atom, func() { delete(in.pc, atom) })
	return v
}

// Journal registers an undo action for a fact about `key`; it runs when a loop repeats
// and the key denotes a loop-variant value.
func (in *Interp) Journal(key string, undo func()) {
	in.journal = append(in.journal, journalEntry{key, undo})
}

// Decided returns the decision for an atom if already taken on this trace.
func (in *Interp) Decided(atom string) (int, bool) { v, ok := in.pc[atom]; return v, ok }

// truth decides a boolean abstract value.
func (in *Interp) truth(v AVal) bool {
	if b, ok := isCstBool(v); ok {
		return b
	}
	k := keyOf(v)
	neg := false
	for strings.HasPrefix(k, "!") {
		k = k[1:]
		neg = !neg
	}
	r := in.Choose(k, 2) == 1
	return r != neg
}

type frame struct {
	inv     int // which invocation of fn on this trace (loop-variant symbols are per invocation)
	fn      *ssa.Function
	env     map[ssa.Value]AVal
	defers  []*ssa.Defer
	dargs   [][]AVal
	visits  map[*ssa.BasicBlock]int
	headers map[*ssa.BasicBlock]bool
	snap    map[*ssa.BasicBlock]*loopSnap // state at the previous arrival at a loop header
	stored  map[*Cell]bool                // cells stored to in this frame
}

// loopSnap is the abstract state observed on arrival at a loop header.
type loopSnap struct {
	jmark   int
	phis    []string
	nEvents int
	mem     string
	allocN  int
	bld     map[*Cell]string
}

type aiConverged struct{}

func (in *Interp) newCell(t types.Type, label string) *Cell {
	in.allocN++
	return &Cell{ID: in.allocN, T: t, Label: label}
}

func (in *Interp) val(fr *frame, v ssa.Value) AVal {
	switch x := v.(type) {
	case *ssa.Const:
		return Cst{V: x.Value, T: x.Type()}
	case *ssa.Function:
		return Clo{Fn: x}
	case *ssa.Global:
		c := in.globals[x]
		if c == nil {
			name := fnNameGlobal(x)
			c = &Cell{Label: name, T: x.Type().(*types.Pointer).Elem()}
			if cv, ok := in.constGlob[x]; ok {
				c.V = cv
			} else if tab := in.constTab[x]; tab != nil && tab.m != nil {
				c.V = *tab.m
			} else if tab != nil && tab.arr != nil {
				c.V = Sym{K: name, T: c.T}
				for i, e := range tab.arr {
					c.Elems = append(c.Elems, &Cell{ID: -1, Label: fmt.Sprintf("%s[%d]", name, i), V: e, T: tab.elem})
				}
			} else {
				c.V = Sym{K: name, T: c.T}
			}
			in.globals[x] = c
		}
		return Ptr{C: c}
	case *ssa.Builtin:
		return Sym{K: "builtin." + x.Name()}
	}
	if r, ok := fr.env[v]; ok {
		return r
	}
	in.cut("use of undefined value %s in %s", v.Name(), fnName(fr.fn))
	return nil
}

func fnNameGlobal(g *ssa.Global) string {
	return Rel(g.Pkg.Pkg.Path()) + "." + g.Name()
}

func (in *Interp) load(p AVal, t types.Type, at ssa.Instruction) AVal {
	switch x := p.(type) {
	case Ptr:
		c := x.C
		if len(c.Fields) > 0 {
			sv := StructVal{F: map[int]AVal{}, T: c.T}
			if bs, ok := c.V.(Sym); ok {
				sv.Base = &bs
			}
			for i, fc := range c.Fields {
				sv.F[i] = in.load(Ptr{C: fc}, fc.T, at)
			}
			return sv
		}
		if len(c.Elems) > 0 && c.T != nil {
			if _, isArr := c.T.Underlying().(*types.Array); isArr {
				av := ArrVal{T: c.T}
				for _, ec := range c.Elems {
					av.E = append(av.E, in.load(Ptr{C: ec}, ec.T, at))
				}
				return av
			}
		}
		if c.V == nil {
			if c.T != nil {
				c.V = zeroOf(c.T)
			} else {
				c.V = zeroOf(t)
			}
		}
		return c.V
	case Sym:
		if in.MaybeNil != nil && in.MaybeNil(x.K) {
			if in.Choose("eq(nil,"+x.K+")", 2) == 1 {
				in.Panics(at, "nil pointer dereference of %s", x.K)
			}
		}
		return Sym{K: "*" + x.K, T: t}
	case Cst:
		if x.V == nil {
			in.Panics(at, "nil pointer dereference")
		}
	}
	return Sym{K: "*" + keyOf(p), T: t}
}

func (in *Interp) store(p AVal, v AVal, at ssa.Instruction) {
	switch x := p.(type) {
	case Ptr:
		if sv, ok := v.(StructVal); ok {
			x.C.Fields = map[int]*Cell{}
			if sv.Base != nil {
				x.C.V = *sv.Base
			} else {
				x.C.V = nil
			}
			st, _ := sv.T.Underlying().(*types.Struct)
			for i, fv := range sv.F {
				var ft types.Type
				if st != nil && i < st.NumFields() {
					ft = st.Field(i).Type()
				}
				fc := in.newCell(ft, "")
				fc.V = fv
				x.C.Fields[i] = fc
			}
			return
		}
		if av, ok := v.(ArrVal); ok {
			// array assignment copies element by element
			var et types.Type
			if at, ok := av.T.Underlying().(*types.Array); ok {
				et = at.Elem()
			}
			x.C.Elems = nil
			for _, ev := range av.E {
				ec := in.newCell(et, "")
				ec.V = ev
				x.C.Elems = append(x.C.Elems, ec)
			}
			x.C.V = nil
			return
		}
		x.C.V = v
		x.C.Fields = nil
	case Cst:
		if x.V == nil {
			in.Panics(at, "store through nil pointer")
		}
	default:
		in.Emit("store-sym", at, p, v)
	}
}

// callFn interprets a repository function.
func (in *Interp) callFn(fn *ssa.Function, args []AVal, bind []AVal) AVal {
	if fn.Blocks == nil {
		in.cut("no body for %s", fnName(fn))
	}
	in.depth++
	in.stack = append(in.stack, fn)
	defer func() { in.depth--; in.stack = in.stack[:len(in.stack)-1] }()
	if in.depth > in.MaxDepth {
		in.cut("call depth exceeds %d at %s", in.MaxDepth, fnName(fn))
	}
	fr := &frame{fn: fn, env: map[ssa.Value]AVal{}, visits: map[*ssa.BasicBlock]int{}, headers: in.loopHeaders(fn),
		snap: map[*ssa.BasicBlock]*loopSnap{}, stored: map[*Cell]bool{}}
	if in.invCount == nil {
		in.invCount = map[*ssa.Function]int{}
	}
	in.invCount[fn]++
	fr.inv = in.invCount[fn]
	for i, p := range fn.Params {
		if i < len(args) {
			fr.env[p] = args[i]
		} else {
			fr.env[p] = Sym{K: p.Name(), T: p.Type()}
		}
	}
	for i, fv := range fn.FreeVars {
		if i < len(bind) {
			fr.env[fv] = bind[i]
		} else {
			fr.env[fv] = Sym{K: "free:" + fv.Name(), T: fv.Type()}
		}
	}
	b := fn.Blocks[0]
	var prev *ssa.BasicBlock
	for {
		fr.visits[b]++
		if fr.visits[b] > in.MaxLoop {
			in.cut("loop at block %d of %s not converged after %d visits", b.Index, fnName(fn), in.MaxLoop)
		}
		// phis first (parallel assignment)
		var phiVals []AVal
		var phis []*ssa.Phi
		for _, ins := range b.Instrs {
			ph, ok := ins.(*ssa.Phi)
			if !ok {
				break
			}
			idx := -1
			for i, p := range b.Preds {
				if p == prev {
					idx = i
				}
			}
			if idx < 0 {
				in.cut("phi without predecessor")
			}
			phis = append(phis, ph)
			phiVals = append(phiVals, in.val(fr, ph.Edges[idx]))
		}
		if fr.headers[b] {
			// Loop header: widen loop-carried values that changed since the previous
			// arrival, forget atoms about loop-variant symbols, and stop the partition when
			// the abstract state equals the one of the previous arrival (its futures are
			// explored from there).
			loopID := fmt.Sprintf("φ:%s:%d", fnName(fn), b.Index)
			if fr.inv > 1 {
				loopID = fmt.Sprintf("φ:%s/%d:%d", fnName(fn), fr.inv, b.Index)
			}
			if fr.snap[b] != nil && in.SnapshotPC {
				in.Emit("loop-back", b.Instrs[0])
			}
			orig := append([]AVal{}, phiVals...)
			old := fr.snap[b]
			if old == nil && in.EagerWiden {
				for i, ph := range phis {
					variant := false
					if _, basic := ph.Type().Underlying().(*types.Basic); !basic {
						continue // only counters / scalars are abstracted eagerly
					}
					for _, e := range ph.Edges {
						if e != ph.Edges[0] {
							variant = true
						}
					}
					if variant {
						phiVals[i] = Sym{K: loopID + ":" + ph.Name() + ":" + ph.Comment, T: ph.Type()}
					}
				}
			}
			if old != nil && fr.visits[b] <= in.WidenAfter {
				old = nil // still unrolling concretely
			}
			if old != nil {
				for i, ph := range phis {
					if keyOf(phiVals[i]) != old.phis[i] {
						phiVals[i] = Sym{K: loopID + ":" + ph.Name() + ":" + ph.Comment, T: ph.Type()}
					}
				}
				for k := range in.pc {
					if strings.Contains(k, loopID) {
						delete(in.pc, k)
					}
				}
			}
			// relational repair after widening: a loop-carried variable that held "the kind of X"
			// (k := x.Kind()) where X is another loop-carried value keeps that relation to the
			// widened X (for k == Slice || k == Array { x = x.Elem(); k = x.Kind() })
			for i := range phis {
				t, isTok := orig[i].(Tok)
				if !isTok || t.Dom != "kindof" || keyOf(phiVals[i]) == keyOf(orig[i]) {
					continue
				}
				for j := range phis {
					if j != i && stripTypeSuffix(keyOf(orig[j])) == t.Name {
						phiVals[i] = Tok{Dom: "kindof", Name: stripTypeSuffix(keyOf(phiVals[j])), Args: t.Args}
					}
				}
			}
			if prevSnap := fr.snap[b]; prevSnap != nil && in.ForgetAll {
				// forget what was learnt inside the loop about loop-variant values
				if prevSnap.jmark > len(in.journal) {
					// an inner loop's forgetting pass compacted the journal below this loop's mark
					prevSnap.jmark = len(in.journal)
				}
				kept := in.journal[:prevSnap.jmark:prevSnap.jmark]
				for i := len(in.journal) - 1; i >= prevSnap.jmark; i-- {
					je := in.journal[i]
					if strings.Contains(je.key, loopID) || (in.Variant != nil && in.Variant(je.key)) {
						je.undo()
					}
				}
				for _, je := range in.journal[prevSnap.jmark:] {
					if !(strings.Contains(je.key, loopID) || (in.Variant != nil && in.Variant(je.key))) {
						kept = append(kept, je)
					}
				}
				in.journal = kept
			}
			if prevSnap := fr.snap[b]; prevSnap != nil && old != nil && len(in.bld) > 0 {
				for cell, cur := range in.bld {
					if pk, had := prevSnap.bld[cell]; had && pk != keyOf(cur) {
						in.bld[cell] = Sym{K: fmt.Sprintf("%s:builder%d", loopID, cell.ID), T: types.Typ[types.String]}
					}
				}
			}
			sn := &loopSnap{nEvents: in.monitoredEvents(), bld: map[*Cell]string{}}
			for cell, cur := range in.bld {
				sn.bld[cell] = keyOf(cur)
			}
			if prevSnap := fr.snap[b]; prevSnap != nil {
				sn.allocN = prevSnap.allocN
				sn.jmark = prevSnap.jmark
			} else {
				sn.allocN = in.allocN
				sn.jmark = len(in.journal)
			}
			for _, v := range phiVals {
				sn.phis = append(sn.phis, keyOf(v))
			}
			var ms []string
			for c := range fr.stored {
				if c.ID <= sn.allocN {
					ms = append(ms, fmt.Sprintf("%d=%s", c.ID, keyOf(c.V)))
				}
			}
			for cell, k := range sn.bld {
				ms = append(ms, fmt.Sprintf("b%d=%s", cell.ID, k))
			}
			sort.Strings(ms)
			sn.mem = strings.Join(ms, ";")
			if old != nil && old.nEvents == sn.nEvents && old.mem == sn.mem && strings.Join(old.phis, "\x00") == strings.Join(sn.phis, "\x00") {
				panic(aiConverged{})
			}
			fr.snap[b] = sn
		}
		for i, ph := range phis {
			fr.env[ph] = phiVals[i]
		}
		var next *ssa.BasicBlock
		for _, ins := range b.Instrs[len(phis):] {
			in.steps++
			if in.steps > in.MaxSteps {
				in.cut("step budget exhausted in %s", fnName(fn))
			}
			switch x := ins.(type) {
			case *ssa.If:
				if in.truth(in.val(fr, x.Cond)) {
					next = b.Succs[0]
				} else {
					next = b.Succs[1]
				}
			case *ssa.Jump:
				next = b.Succs[0]
			case *ssa.Return:
				var ret AVal
				switch len(x.Results) {
				case 0:
					ret = Tup{}
				case 1:
					ret = in.val(fr, x.Results[0])
				default:
					t := Tup{}
					for _, r := range x.Results {
						t.E = append(t.E, in.val(fr, r))
					}
					ret = t
				}
				return ret
			case *ssa.Panic:
				in.Panics(ins, "explicit panic(%s)", keyOf(in.val(fr, x.X)))
			case *ssa.RunDefers:
				for i := len(fr.defers) - 1; i >= 0; i-- {
					d := fr.defers[i]
					in.doCall(fr, d, &d.Call, fr.dargs[i])
				}
				fr.defers, fr.dargs = nil, nil
			case *ssa.Defer:
				var as []AVal
				for _, a := range callArgs(&x.Call) {
					as = append(as, in.val(fr, a))
				}
				if !x.Call.IsInvoke() {
					if _, isFn := x.Call.Value.(*ssa.Function); !isFn {
						as = append([]AVal{in.val(fr, x.Call.Value)}, as...)
						fr.dargs = append(fr.dargs, as)
						fr.defers = append(fr.defers, x)
						continue
					}
				}
				fr.dargs = append(fr.dargs, as)
				fr.defers = append(fr.defers, x)
			case *ssa.Go, *ssa.Send, *ssa.Select:
				in.cut("concurrency instruction %T not modelled", ins)
			case *ssa.Store:
				a := in.val(fr, x.Addr)
				if pp, ok := a.(Ptr); ok {
					fr.stored[pp.C] = true
					if in.TraceStores && pp.C.Label != "" {
						in.Emit("store-cell", ins, Sym{K: pp.C.Label}, in.val(fr, x.Val))
					}
				}
				in.store(a, in.val(fr, x.Val), ins)
			case *ssa.MapUpdate:
				in.Emit("mapupdate", ins, in.val(fr, x.Map), in.val(fr, x.Key), in.val(fr, x.Value))
			case *ssa.DebugRef:
			case ssa.Value:
				fr.env[x] = in.evalValue(fr, x)
			default:
				in.cut("instruction %T not modelled", ins)
			}
			if next != nil {
				break
			}
		}
		if next == nil {
			in.cut("block %d of %s has no terminator", b.Index, fnName(fn))
		}
		prev, b = b, next
	}
}

func (in *Interp) evalValue(fr *frame, v ssa.Value) AVal {
	ins := v.(ssa.Instruction)
	switch x := v.(type) {
	case *ssa.Alloc:
		t := x.Type().(*types.Pointer).Elem()
		c := in.newCell(t, "")
		if arr, ok := t.Underlying().(*types.Array); ok && arr.Len() <= 64 {
			for i := int64(0); i < arr.Len(); i++ {
				c.Elems = append(c.Elems, in.newCell(arr.Elem(), ""))
			}
		}
		return Ptr{C: c}
	case *ssa.BinOp:
		return in.binop(x.Op, in.val(fr, x.X), in.val(fr, x.Y), x.Type(), ins)
	case *ssa.UnOp:
		a := in.val(fr, x.X)
		switch x.Op {
		case token.MUL:
			return in.load(a, x.Type(), ins)
		case token.NOT:
			if b, ok := isCstBool(a); ok {
				return cstBool(!b)
			}
			k := keyOf(a)
			if strings.HasPrefix(k, "!") {
				return Sym{K: k[1:], T: x.Type()}
			}
			return Sym{K: "!" + k, T: x.Type()}
		case token.SUB:
			if c, ok := a.(Cst); ok && c.V != nil {
				return Cst{V: constant.UnaryOp(token.SUB, c.V, 0), T: x.Type()}
			}
			return Sym{K: "-(" + keyOf(a) + ")", T: x.Type()}
		}
		return Sym{K: x.Op.String() + "(" + keyOf(a) + ")", T: x.Type()}
	case *ssa.Call:
		var as []AVal
		for _, a := range callArgs(&x.Call) {
			as = append(as, in.val(fr, a))
		}
		if !x.Call.IsInvoke() {
			switch x.Call.Value.(type) {
			case *ssa.Function, *ssa.Builtin:
			default:
				as = append([]AVal{in.val(fr, x.Call.Value)}, as...)
			}
		}
		return in.doCall(fr, x, &x.Call, as)
	case *ssa.ChangeType:
		return in.val(fr, x.X)
	case *ssa.ChangeInterface:
		return in.val(fr, x.X)
	case *ssa.MakeInterface:
		return Ifc{V: in.val(fr, x.X), Dyn: x.X.Type()}
	case *ssa.Convert:
		return in.convert(in.val(fr, x.X), x.Type())
	case *ssa.Extract:
		t := in.val(fr, x.Tuple)
		if tp, ok := t.(Tup); ok && x.Index < len(tp.E) {
			return tp.E[x.Index]
		}
		return Sym{K: fmt.Sprintf("%s#%d", keyOf(t), x.Index), T: x.Type()}
	case *ssa.FieldAddr:
		base := in.val(fr, x.X)
		name := fieldAddrName(x)
		switch b := base.(type) {
		case Ptr:
			if b.C.Fields == nil {
				b.C.Fields = map[int]*Cell{}
			}
			fc := b.C.Fields[x.Field]
			if fc == nil {
				fc = in.newCell(x.Type().(*types.Pointer).Elem(), "")
				if b.C.Label != "" { // symbolic object: its fields are symbolic too
					fc.Label = b.C.Label + "." + name
					fc.V = Sym{K: fc.Label, T: fc.T}
				} else if sv, ok := b.C.V.(Sym); ok { // a struct copied from a symbolic value
					fc.V = Sym{K: sv.K + "." + name, T: fc.T}
				}
				b.C.Fields[x.Field] = fc
			}
			return Ptr{C: fc}
		case Cst:
			if b.V == nil {
				in.Panics(ins, "nil pointer dereference (field %s)", name)
			}
		}
		k := keyOf(base) + "." + name
		c := in.symCells[k]
		if c == nil {
			c = &Cell{Label: k, T: x.Type().(*types.Pointer).Elem()}
			c.V = Sym{K: k, T: c.T}
			in.symCells[k] = c
		}
		return Ptr{C: c}
	case *ssa.Field:
		base := in.val(fr, x.X)
		if sv, ok := base.(StructVal); ok {
			if fv, ok := sv.F[x.Field]; ok {
				return fv
			}
			if sv.Base != nil {
				return Sym{K: sv.Base.K + "." + fieldValName(x), T: x.Type()}
			}
			return zeroOf(x.Type())
		}
		return Sym{K: keyOf(base) + "." + fieldValName(x), T: x.Type()}
	case *ssa.IndexAddr:
		base := in.val(fr, x.X)
		idx := in.val(fr, x.Index)
		if i, ok := isCstInt(idx); ok {
			switch b := base.(type) {
			case Ptr:
				if len(b.C.Elems) > 0 {
					if i < 0 || int(i) >= len(b.C.Elems) {
						in.Panics(ins, "index %d out of range [0,%d)", i, len(b.C.Elems))
					}
					return Ptr{C: b.C.Elems[i]}
				}
			case Slc:
				if i < 0 || int(i) >= b.Hi-b.Lo {
					in.Panics(ins, "index %d out of range with length %d", i, b.Hi-b.Lo)
				}
				return Ptr{C: b.Arr.Elems[b.Lo+int(i)]}
			case Cst:
				if b.V == nil {
					in.Panics(ins, "index %d of nil slice", i)
				}
			}
		}
		if bp, ok := base.(Ptr); ok && len(bp.C.Elems) > 0 && in.TableHook != nil {
			if g, isG := x.X.(*ssa.Global); isG && in.constTab[g] != nil {
				if v, ok := in.TableHook(in, idx, func(i int64) (AVal, bool) {
					if i < 0 || int(i) >= len(bp.C.Elems) {
						return nil, false
					}
					return bp.C.Elems[i].V, true
				}, nil); ok {
					return Ptr{C: &Cell{ID: -1, Label: "", V: v, T: bp.C.Elems[0].T}}
				}
			}
		}
		havoc := func(arr *Cell) {
			for _, e := range arr.Elems {
				e.V = Sym{K: fmt.Sprintf("havoc(cell%d)", arr.ID), T: e.T}
			}
		}
		switch bb := base.(type) {
		case Slc:
			in.Emit("index-unknown", ins, base, idx)
			havoc(bb.Arr)
		case Ptr:
			if len(bb.C.Elems) > 0 {
				in.Emit("index-unknown", ins, base, idx)
				havoc(bb.C)
			}
		}
		k := keyOf(base) + "[" + keyOf(idx) + "]"
		c := in.symCells[k]
		if c == nil {
			c = &Cell{Label: k, T: x.Type().(*types.Pointer).Elem()}
			c.V = Sym{K: k, T: c.T}
			in.symCells[k] = c
		}
		return Ptr{C: c}
	case *ssa.Index:
		base := in.val(fr, x.X)
		idx := in.val(fr, x.Index)
		if s, ok := isCstStr(base); ok {
			if i, ok := isCstInt(idx); ok {
				if i < 0 || int(i) >= len(s) {
					in.Panics(ins, "index %d out of range of constant string", i)
				}
				return Cst{V: constant.MakeInt64(int64(s[i])), T: x.Type()}
			}
		}
		return Sym{K: keyOf(base) + "[" + keyOf(idx) + "]", T: x.Type()}
	case *ssa.Slice:
		base := in.val(fr, x.X)
		lo, hi := 0, -1
		known := true
		if x.Low != nil {
			if i, ok := isCstInt(in.val(fr, x.Low)); ok {
				lo = int(i)
			} else {
				known = false
			}
		}
		if x.High != nil {
			if i, ok := isCstInt(in.val(fr, x.High)); ok {
				hi = int(i)
			} else {
				known = false
			}
		}
		if known {
			switch b := base.(type) {
			case Ptr:
				if len(b.C.Elems) > 0 || isArrayCell(b.C) {
					if hi < 0 {
						hi = len(b.C.Elems)
					}
					if lo < 0 || hi > len(b.C.Elems) || lo > hi {
						in.Panics(ins, "slice bounds [%d:%d] out of range", lo, hi)
					}
					return Slc{Arr: b.C, Lo: lo, Hi: hi}
				}
			case Slc:
				if hi < 0 {
					hi = b.Hi - b.Lo
				}
				if lo < 0 || b.Lo+hi > len(b.Arr.Elems) || lo > hi {
					in.Panics(ins, "slice bounds [%d:%d] out of range", lo, hi)
				}
				return Slc{Arr: b.Arr, Lo: b.Lo + lo, Hi: b.Lo + hi}
			case Cst:
				if s, ok := isCstStr(b); ok {
					if hi < 0 {
						hi = len(s)
					}
					if lo < 0 || hi > len(s) || lo > hi {
						in.Panics(ins, "slice bounds [%d:%d] out of range of constant string", lo, hi)
					}
					return cstStr(s[lo:hi])
				}
			}
		}
		ls, hs := "", ""
		if x.Low != nil {
			ls = keyOf(in.val(fr, x.Low))
		}
		if x.High != nil {
			hs = keyOf(in.val(fr, x.High))
		}
		return Sym{K: keyOf(base) + "[" + ls + ":" + hs + "]", T: x.Type()}
	case *ssa.Lookup:
		m := in.val(fr, x.X)
		k := in.val(fr, x.Index)
		if cm, ok := m.(CstMap); ok {
			if kc, isC := k.(Cst); isC && kc.V != nil {
				v, found := cm.Entries[keyOf(kc)]
				if !found {
					et := x.Type()
					if x.CommaOk {
						et = x.Type().(*types.Tuple).At(0).Type()
					}
					v = zeroOf(et)
				}
				if x.CommaOk {
					return Tup{E: []AVal{v, cstBool(found)}}
				}
				return v
			}
			if in.TableHook != nil && !x.CommaOk {
				if v, ok := in.TableHook(in, k, func(i int64) (AVal, bool) {
					e, found := cm.Entries[keyOf(Cst{V: constant.MakeInt64(i)})]
					return e, found
				}, zeroOf(x.Type())); ok {
					return v
				}
			}
		}
		key := keyOf(m) + "[" + keyOf(k) + "]"
		if x.CommaOk {
			return Tup{E: []AVal{Sym{K: key, T: x.Type().(*types.Tuple).At(0).Type()}, Sym{K: "has(" + key + ")", T: types.Typ[types.Bool]}}}
		}
		return Sym{K: key, T: x.Type()}
	case *ssa.MakeClosure:
		c := Clo{Fn: x.Fn.(*ssa.Function)}
		for _, b := range x.Bindings {
			c.Bind = append(c.Bind, in.val(fr, b))
		}
		return c
	case *ssa.MakeMap:
		in.allocN++
		return Sym{K: fmt.Sprintf("makemap#%d", in.allocN), T: x.Type()}
	case *ssa.MakeSlice:
		in.allocN++
		// an empty slice of strings that is then filled by appends: its elements stay known
		if n, ok := isCstInt(in.val(fr, x.Len)); ok && n == 0 {
			if st, ok := x.Type().Underlying().(*types.Slice); ok {
				if bt, ok := st.Elem().Underlying().(*types.Basic); ok && bt.Info()&types.IsString != 0 {
					return ListVal{T: x.Type()}
				}
			}
		}
		return Sym{K: fmt.Sprintf("makeslice#%d(len=%s)", in.allocN, keyOf(in.val(fr, x.Len))), T: x.Type()}
	case *ssa.MakeChan:
		in.allocN++
		return Sym{K: fmt.Sprintf("makechan#%d", in.allocN), T: x.Type()}
	case *ssa.Range:
		return Tok{Dom: "range", Name: keyOf(in.val(fr, x.X))}
	case *ssa.Next:
		it := in.val(fr, x.Iter)
		n := fr.visits[ins.Block()]
		k := fmt.Sprintf("next(%s)@1", keyOf(it))
		if n > 1 {
			k = fmt.Sprintf("next(%s)@φ:%s:%d", keyOf(it), fnName(fr.fn), ins.Block().Index)
			if fr.inv > 1 {
				k = fmt.Sprintf("next(%s)@φ:%s/%d:%d", keyOf(it), fnName(fr.fn), fr.inv, ins.Block().Index)
			}
		}
		tt := x.Type().(*types.Tuple)
		return Tup{E: []AVal{Sym{K: "ok:" + k, T: types.Typ[types.Bool]}, Sym{K: "key:" + k, T: tt.At(1).Type()}, Sym{K: "val:" + k, T: tt.At(2).Type()}}}
	case *ssa.TypeAssert:
		a := in.val(fr, x.X)
		if ifc, ok := a.(Ifc); ok {
			match := false
			if it, isIface := x.AssertedType.Underlying().(*types.Interface); isIface {
				match = types.Implements(ifc.Dyn, it)
			} else {
				match = types.Identical(ifc.Dyn, x.AssertedType)
			}
			if x.CommaOk {
				if match {
					return Tup{E: []AVal{ifc.V, cstBool(true)}}
				}
				return Tup{E: []AVal{zeroOf(x.AssertedType), cstBool(false)}}
			}
			if !match {
				in.Panics(ins, "type assertion to %s fails for dynamic type %s", x.AssertedType, ifc.Dyn)
			}
			return ifc.V
		}
		if c, ok := a.(Cst); ok && c.V == nil {
			if x.CommaOk {
				return Tup{E: []AVal{zeroOf(x.AssertedType), cstBool(false)}}
			}
			in.Panics(ins, "type assertion on nil interface")
		}
		atom := "typeis(" + keyOf(a) + "," + shortType(x.AssertedType.String()) + ")"
		if x.CommaOk {
			if in.Choose(atom, 2) == 1 {
				return Tup{E: []AVal{Sym{K: keyOf(a) + ".(" + shortType(x.AssertedType.String()) + ")", T: x.AssertedType}, cstBool(true)}}
			}
			return Tup{E: []AVal{zeroOf(x.AssertedType), cstBool(false)}}
		}
		in.Emit("unchecked-assert", ins, a)
		return Sym{K: keyOf(a) + ".(" + shortType(x.AssertedType.String()) + ")", T: x.AssertedType}
	case *ssa.SliceToArrayPointer:
		return Sym{K: "arrptr(" + keyOf(in.val(fr, x.X)) + ")", T: x.Type()}
	}
	in.cut("value instruction %T not modelled", v)
	return nil
}

func isArrayCell(c *Cell) bool {
	if c.T == nil {
		return false
	}
	_, ok := c.T.Underlying().(*types.Array)
	return ok
}

func (in *Interp) convert(a AVal, to types.Type) AVal {
	if in.ConvHook != nil {
		if r, ok := in.ConvHook(in, a, to); ok {
			return r
		}
	}
	if c, ok := a.(Cst); ok && c.V != nil {
		if b, ok := to.Underlying().(*types.Basic); ok {
			switch {
			case b.Info()&types.IsInteger != 0 && (c.V.Kind() == constant.Int || c.V.Kind() == constant.Float):
				if v := constant.ToInt(c.V); v.Kind() == constant.Int {
					if b.Info()&types.IsUnsigned != 0 && constant.Sign(v) < 0 {
						return Sym{K: shortType(to.String()) + "(" + c.Key() + ")", T: to}
					}
					return Cst{V: v, T: to}
				}
			case b.Info()&types.IsFloat != 0 && (c.V.Kind() == constant.Int || c.V.Kind() == constant.Float):
				return Cst{V: constant.ToFloat(c.V), T: to}
			case b.Info()&types.IsString != 0 && c.V.Kind() == constant.String:
				return Cst{V: c.V, T: to}
			case b.Info()&types.IsString != 0 && c.V.Kind() == constant.Int:
				if i, ok := constant.Int64Val(c.V); ok {
					return cstStr(string(rune(i)))
				}
			}
		}
	}
	if c, ok := a.(Cst); ok && c.V == nil {
		return Cst{T: to}
	}
	if t, ok := a.(Tok); ok && t.Dom == "kindof" {
		if b, ok := to.Underlying().(*types.Basic); ok && b.Info()&types.IsInteger != 0 {
			return t // a reflect.Kind (0..26) converted to an integer type keeps its value
		}
	}
	return Sym{K: shortType(to.String()) + "(" + keyOf(a) + ")", T: to}
}

// cmpAtom builds the canonical atom for a comparison and decides it.
func (in *Interp) cmp(op token.Token, x, y AVal) AVal {
	// the length of a text known to be non-empty, against a constant below 1
	if t, ok := x.(Tok); ok && t.Dom == "poslen" {
		if k, ok := isCstInt(y); ok {
			switch {
			case k <= 0 && (op == token.GTR || op == token.NEQ || op == token.GEQ):
				return cstBool(true)
			case k <= 0 && (op == token.EQL || op == token.LSS || op == token.LEQ):
				return cstBool(false)
			case k == 1 && op == token.GEQ:
				return cstBool(true)
			case k == 1 && op == token.LSS:
				return cstBool(false)
			}
		}
	}
	if t, ok := y.(Tok); ok && t.Dom == "poslen" {
		if k, ok := isCstInt(x); ok {
			switch {
			case k <= 0 && (op == token.LSS || op == token.NEQ || op == token.LEQ):
				return cstBool(true)
			case k <= 0 && (op == token.EQL || op == token.GTR || op == token.GEQ):
				return cstBool(false)
			}
		}
	}
	// a length is never negative: len(x)/cap(x) (and the list-length token) against a constant <= 0
	{
		isLen := func(v AVal) bool {
			switch t := v.(type) {
			case Sym:
				return strings.HasPrefix(t.K, "len(") || strings.HasPrefix(t.K, "cap(")
			case Tok:
				return t.Dom == "llen"
			}
			return false
		}
		if k, ok := isCstInt(y); ok && isLen(x) {
			switch {
			case k <= 0 && op == token.LSS, k < 0 && (op == token.LEQ || op == token.EQL):
				return cstBool(false)
			case k <= 0 && op == token.GEQ, k < 0 && (op == token.GTR || op == token.NEQ):
				return cstBool(true)
			}
		}
		if k, ok := isCstInt(x); ok && isLen(y) {
			switch {
			case k <= 0 && op == token.GTR, k < 0 && (op == token.GEQ || op == token.EQL):
				return cstBool(false)
			case k <= 0 && op == token.LEQ, k < 0 && (op == token.LSS || op == token.NEQ):
				return cstBool(true)
			}
		}
	}
	if in.NonNil != nil && (op == token.EQL || op == token.NEQ) {
		isNil := func(v AVal) bool { c, ok := v.(Cst); return ok && c.V == nil }
		if (isNil(y) && !isNil(x) && in.NonNil(in, x)) || (isNil(x) && !isNil(y) && in.NonNil(in, y)) {
			return cstBool(op == token.NEQ)
		}
	}
	kx, ky := keyOf(x), keyOf(y)
	switch op {
	case token.EQL, token.NEQ:
		if kx == ky {
			return cstBool(op == token.EQL)
		}
		if kx > ky {
			kx, ky = ky, kx
		}
		atom := "eq(" + kx + "," + ky + ")"
		r := in.Choose(atom, 2) == 1
		return cstBool(r == (op == token.EQL))
	}
	// order comparisons normalised to lt(a,b)
	var a, b string
	neg := false
	switch op {
	case token.LSS:
		a, b = kx, ky
	case token.GTR:
		a, b = ky, kx
	case token.LEQ: // x <= y  ==  !(y < x)
		a, b, neg = ky, kx, true
	case token.GEQ: // x >= y  ==  !(x < y)
		a, b, neg = kx, ky, true
	}
	if a == b {
		return cstBool(neg)
	}
	// consistency with an earlier equality / reverse order decision
	e1, e2 := a, b
	if e1 > e2 {
		e1, e2 = e2, e1
	}
	if v, ok := in.pc["eq("+e1+","+e2+")"]; ok && v == 1 {
		return cstBool(neg)
	}
	if v, ok := in.pc["lt("+b+","+a+")"]; ok && v == 1 {
		return cstBool(neg)
	}
	r := in.Choose("lt("+a+","+b+")", 2) == 1
	return cstBool(r != neg)
}

func (in *Interp) binop(op token.Token, x, y AVal, t types.Type, at ssa.Instruction) AVal {
	if in.BinHook != nil {
		if r, ok := in.BinHook(in, op, x, y); ok {
			return r
		}
	}
	cx, okx := x.(Cst)
	cy, oky := y.(Cst)
	isCmp := op == token.EQL || op == token.NEQ || op == token.LSS || op == token.LEQ || op == token.GTR || op == token.GEQ
	if okx && oky {
		if cx.V == nil || cy.V == nil {
			if isCmp && (op == token.EQL || op == token.NEQ) && cx.V == nil && cy.V == nil {
				return cstBool(op == token.EQL)
			}
		} else if isCmp {
			if cx.V.Kind() == cy.V.Kind() || (cx.V.Kind() != constant.String && cy.V.Kind() != constant.String && cx.V.Kind() != constant.Bool && cy.V.Kind() != constant.Bool) {
				return cstBool(constant.Compare(cx.V, op, cy.V))
			}
		} else {
			switch op {
			case token.SHL, token.SHR:
				if s, ok := constant.Uint64Val(cy.V); ok {
					return Cst{V: constant.Shift(cx.V, op, uint(s)), T: t}
				}
			case token.QUO:
				if constant.Sign(cy.V) == 0 {
					in.Panics(at, "division by zero")
				}
				if cx.V.Kind() == constant.Int && cy.V.Kind() == constant.Int {
					return Cst{V: constant.BinaryOp(cx.V, token.QUO_ASSIGN, cy.V), T: t}
				}
				return Cst{V: constant.BinaryOp(cx.V, op, cy.V), T: t}
			default:
				return Cst{V: constant.BinaryOp(cx.V, op, cy.V), T: t}
			}
		}
	}
	// nil comparisons with known non-nil things
	if op == token.EQL || op == token.NEQ {
		nonNil := func(v AVal) bool {
			switch t := v.(type) {
			case Ptr, Clo, Slc, Ifc:
				return true
			case Tok:
				return t.Dom == "g" || t.Dom == "err"
			}
			return false
		}
		if (oky && cy.V == nil && nonNil(x)) || (okx && cx.V == nil && nonNil(y)) {
			return cstBool(op == token.NEQ)
		}
		if ix, ok := x.(Ifc); ok && oky && cy.V == nil {
			_ = ix
			return cstBool(op == token.NEQ)
		}
	}
	if op == token.EQL || op == token.NEQ {
		// a concatenation with a non-empty constant part is never the empty string
		nonEmpty := func(v AVal) bool {
			sc, ok := v.(StrCat)
			if !ok {
				return false
			}
			for _, p := range sc.Parts {
				if s, ok := isCstStr(p); ok && s != "" {
					return true
				}
			}
			return false
		}
		isEmpty := func(v AVal) bool { s, ok := isCstStr(v); return ok && s == "" }
		if (nonEmpty(x) && isEmpty(y)) || (nonEmpty(y) && isEmpty(x)) {
			return cstBool(op == token.NEQ)
		}
	}
	if isCmp {
		return in.cmp(op, x, y)
	}
	if op == token.ADD {
		if b, ok := t.Underlying().(*types.Basic); ok && b.Info()&types.IsString != 0 {
			return strCat(x, y)
		}
	}
	return Sym{K: "(" + keyOf(x) + " " + op.String() + " " + keyOf(y) + ")", T: t}
}

func strCat(x, y AVal) AVal {
	var parts []AVal
	add := func(v AVal) {
		if sc, ok := v.(StrCat); ok {
			for _, p := range sc.Parts {
				parts = appendPart(parts, p)
			}
			return
		}
		parts = appendPart(parts, v)
	}
	add(x)
	add(y)
	if len(parts) == 0 {
		return cstStr("")
	}
	if len(parts) == 1 {
		return parts[0]
	}
	return StrCat{Parts: parts}
}

func appendPart(parts []AVal, v AVal) []AVal {
	if s, ok := isCstStr(v); ok {
		if s == "" {
			return parts
		}
		if len(parts) > 0 {
			if ps, ok := isCstStr(parts[len(parts)-1]); ok {
				parts[len(parts)-1] = cstStr(ps + s)
				return parts
			}
		}
	}
	return append(parts, v)
}

// doCall dispatches a call.
func (in *Interp) doCall(fr *frame, site ssa.Instruction, cc *ssa.CallCommon, args []AVal) AVal {
	name := calleeName(cc)
	resT := cc.Signature().Results()
	mk := func(key string) AVal {
		switch resT.Len() {
		case 0:
			return Tup{}
		case 1:
			return Sym{K: key, T: resT.At(0).Type()}
		}
		t := Tup{}
		for i := 0; i < resT.Len(); i++ {
			t.E = append(t.E, Sym{K: fmt.Sprintf("%s#%d", key, i), T: resT.At(i).Type()})
		}
		return t
	}
	argKeys := func(as []AVal) string {
		ks := make([]string, len(as))
		for i, a := range as {
			ks[i] = keyOf(a)
		}
		return strings.Join(ks, ", ")
	}
	if b, ok := cc.Value.(*ssa.Builtin); ok && !cc.IsInvoke() {
		return in.builtin(site, b.Name(), args, resT)
	}
	if in.LocalBuilders && strings.HasPrefix(name, "(*strings.Builder).") && len(args) >= 1 {
		if r, ok := in.localBuilder(strings.TrimPrefix(name, "(*strings.Builder)."), args); ok {
			return r
		}
	}
	if name != "" {
		if m, ok := in.Models[name]; ok {
			if r, ok := m(in, site, cc, args); ok {
				return r
			}
		}
	}
	if name == "strings.Join" && len(args) == 2 {
		if l, ok := args[0].(ListVal); ok {
			var out AVal = cstStr("")
			for i, e := range l.E {
				if i > 0 {
					out = strCat(out, args[1])
				}
				out = strCat(out, e)
			}
			return out
		}
	}
	if name == "builtin.len" || name == "len" {
	}
	if cc.IsInvoke() {
		if m, ok := in.Models["invoke:"+cc.Method.Name()+"@"+shortType(cc.Value.Type().String())]; ok {
			if r, ok := m(in, site, cc, args); ok {
				return r
			}
		}
		if m, ok := in.Models["invoke:*."+cc.Method.Name()]; ok {
			if r, ok := m(in, site, cc, args); ok {
				return r
			}
		}
		if in.Unmodelled != nil {
			in.Unmodelled(in, site, "invoke:"+cc.Method.Name()+"@"+shortType(cc.Value.Type().String()), args)
		}
		return mk(name + "(" + argKeys(args) + ")")
	}
	if callee := staticCallee(cc); callee != nil {
		var bind []AVal
		if mc, ok := cc.Value.(*ssa.MakeClosure); ok {
			for _, b := range mc.Bindings {
				bind = append(bind, in.val(fr, b))
			}
		}
		if callee.Blocks != nil && callee.Pkg != nil && strings.HasPrefix(callee.Pkg.Pkg.Path(), ModPath) && !in.NoInline[fnName(callee)] {
			// a call through a closure value: the evaluated function value was put in front of the arguments
			if _, viaClosure := cc.Value.(*ssa.MakeClosure); viaClosure && len(args) == len(callee.Params)+1 {
				args = args[1:]
			}
			return in.callFn(callee, args, bind)
		}
		if in.Unmodelled != nil {
			in.Unmodelled(in, site, name, args)
		}
		return mk(name + "(" + argKeys(args) + ")")
	}
	// dynamic call: args[0] is the function value
	if len(args) > 0 {
		if clo, ok := args[0].(Clo); ok {
			n := fnName(clo.Fn)
			if m, ok := in.Models[n]; ok {
				if r, ok := m(in, site, cc, args[1:]); ok {
					return r
				}
			}
			if clo.Fn.Blocks != nil && clo.Fn.Pkg != nil && strings.HasPrefix(clo.Fn.Pkg.Pkg.Path(), ModPath) && !in.NoInline[n] {
				return in.callFn(clo.Fn, args[1:], clo.Bind)
			}
			return mk(n + "(" + argKeys(args[1:]) + ")")
		}
		if m, ok := in.Models["dyncall"]; ok {
			if r, ok := m(in, site, cc, args); ok {
				return r
			}
		}
		in.Emit("dyncall", site, args...)
		return mk("dyncall:" + keyOf(args[0]) + "(" + argKeys(args[1:]) + ")")
	}
	in.cut("unresolvable call")
	return nil
}

func (in *Interp) builtin(site ssa.Instruction, name string, args []AVal, resT *types.Tuple) AVal {
	switch name {
	case "len", "cap":
		if len(args) == 1 {
			switch a := args[0].(type) {
			case Slc:
				return cstInt(int64(a.Hi - a.Lo))
			case Cst:
				if s, ok := isCstStr(a); ok {
					return cstInt(int64(len(s)))
				}
				if a.V == nil {
					return cstInt(0)
				}
			}
			if in.LenHook != nil && name == "len" {
				if r, ok := in.LenHook(in, args[0]); ok {
					return r
				}
			}
			return Sym{K: name + "(" + keyOf(args[0]) + ")", T: types.Typ[types.Int]}
		}
	case "append":
		in.allocN++
		// appending to a slice of symbolic (foreign) memory may write into its backing array: a reslice
		// `shared[:0]`, `shared[:n]` keeps the capacity, so the appended elements land in the shared array
		if in.TraceStores && len(args) == 2 {
			if b, ok := args[0].(Sym); ok && b.K != "" {
				in.Emit("store-sym", site, Sym{K: "append-into(" + b.K + ")", T: b.T}, args[1])
			}
		}
		// list of known strings: append keeps the elements
		if len(args) == 2 {
			var base *ListVal
			switch b := args[0].(type) {
			case ListVal:
				base = &b
			case Slc:
				if b.Hi-b.Lo == 0 && resT.Len() == 1 {
					if st, ok := resT.At(0).Type().Underlying().(*types.Slice); ok {
						if bt, ok := st.Elem().Underlying().(*types.Basic); ok && bt.Info()&types.IsString != 0 {
							base = &ListVal{T: resT.At(0).Type()}
						}
					}
				}
			case Cst:
				if b.V == nil && resT.Len() == 1 {
					if st, ok := resT.At(0).Type().Underlying().(*types.Slice); ok {
						if bt, ok := st.Elem().Underlying().(*types.Basic); ok && bt.Info()&types.IsString != 0 {
							base = &ListVal{T: resT.At(0).Type()}
						}
					}
				}
			}
			if base != nil {
				if more, ok := args[1].(Slc); ok {
					out := ListVal{E: append([]AVal{}, base.E...), T: base.T}
					for i := more.Lo; i < more.Hi && i < len(more.Arr.Elems); i++ {
						out.E = append(out.E, more.Arr.Elems[i].V)
					}
					if len(out.E) <= 64 {
						return out
					}
				}
				if more, ok := args[1].(ListVal); ok {
					return ListVal{E: append(append([]AVal{}, base.E...), more.E...), T: base.T}
				}
			}
		}
		ks := []string{}
		for _, a := range args {
			ks = append(ks, keyOf(a))
		}
		var t types.Type
		if resT.Len() == 1 {
			t = resT.At(0).Type()
		}
		return Sym{K: "append(" + strings.Join(ks, ", ") + ")", T: t}
	case "copy":
		// element-wise when both slices have statically known bounds; otherwise the destination's
		// known elements become unknown
		if len(args) == 2 {
			if dst, ok := args[0].(Slc); ok {
				if src, ok := args[1].(Slc); ok {
					n := dst.Hi - dst.Lo
					if m := src.Hi - src.Lo; m < n {
						n = m
					}
					for i := 0; i < n && dst.Lo+i < len(dst.Arr.Elems) && src.Lo+i < len(src.Arr.Elems); i++ {
						dst.Arr.Elems[dst.Lo+i].V = src.Arr.Elems[src.Lo+i].V
					}
					return cstInt(int64(n))
				}
				if c, ok := args[1].(Cst); ok && c.V == nil {
					return cstInt(0) // copy from a nil slice copies nothing
				}
				for i := dst.Lo; i < dst.Hi && i < len(dst.Arr.Elems); i++ {
					dst.Arr.Elems[i].V = Sym{K: fmt.Sprintf("copied(%s)[%d]", keyOf(args[1]), i-dst.Lo), T: dst.Arr.Elems[i].T}
				}
			}
		}
		return Sym{K: "copy()", T: types.Typ[types.Int]}
	case "delete":
		in.Emit("mapdelete", site, args...)
		return Tup{}
	case "print", "println":
		return Tup{}
	case "recover":
		return Cst{}
	case "ssa:wrapnilchk":
		if len(args) > 0 {
			return args[0]
		}
	}
	in.cut("builtin %s not modelled", name)
	return nil
}

// helper for clients: sorted atoms of a trace, for reports.
func (t Trace) Describe() string {
	ks := append([]string{}, t.Order...)
	sort.Strings(ks)
	var sb strings.Builder
	for i, k := range ks {
		if i > 0 {
			sb.WriteString(" ∧ ")
		}
		fmt.Fprintf(&sb, "%s=%d", k, t.PC[k])
	}
	return sb.String()
}

// stripTypeSuffix: "X.Type()" denotes the same kind as X (kind-alias classes).
func stripTypeSuffix(k string) string {
	for strings.HasSuffix(k, ".Type()") {
		k = strings.TrimSuffix(k, ".Type()")
	}
	return k
}

// localBuilder: methods of a strings.Builder held in a local cell of an interpreted function.
func (in *Interp) localBuilder(method string, args []AVal) (AVal, bool) {
	pt, ok := args[0].(Ptr)
	if !ok || pt.C.Label != "" || pt.C.T == nil || !isNamed(pt.C.T, "strings", "Builder") {
		return nil, false
	}
	cur, has := in.bld[pt.C]
	if !has {
		cur = cstStr("")
	}
	switch method {
	case "WriteString":
		in.bld[pt.C] = strCat(cur, args[1])
		return Tup{E: []AVal{Sym{K: "n", T: types.Typ[types.Int]}, Cst{}}}, true
	case "WriteByte", "WriteRune":
		if i, ok := isCstInt(args[1]); ok {
			in.bld[pt.C] = strCat(cur, cstStr(string(rune(i))))
		} else {
			in.bld[pt.C] = strCat(cur, Sym{K: "char(" + keyOf(args[1]) + ")", T: types.Typ[types.String]})
		}
		if method == "WriteRune" {
			return Tup{E: []AVal{Sym{K: "n", T: types.Typ[types.Int]}, Cst{}}}, true
		}
		return Cst{}, true
	case "String":
		return cur, true
	case "Len":
		if s, ok := isCstStr(cur); ok {
			return cstInt(int64(len(s))), true
		}
		// a content with at least one non-empty constant part is not empty
		if sc, ok := cur.(StrCat); ok {
			for _, p := range sc.Parts {
				if s, ok := isCstStr(p); ok && s != "" {
					return Tok{Dom: "poslen", Name: keyOf(cur)}, true
				}
			}
		}
		return Sym{K: "len(" + keyOf(cur) + ")", T: types.Typ[types.Int]}, true
	case "Reset":
		in.bld[pt.C] = cstStr("")
		return Tup{}, true
	case "Grow":
		return Tup{}, true
	}
	return nil, false
}
