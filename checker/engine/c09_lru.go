package engine

import (
	"fmt"
	"go/token"
	"go/types"
	"strings"

	"golang.org/x/tools/go/ssa"
)

func init() {
	register(&PropDef{
		ID: "C09",
		Explain: "Structural necessary conditions of 'bounded least-recently-used map', decided on every path of every method of the cache type (abstract interpretation with container/list operations and the abstract list length n±k as the observed domain): " +
			"C09-PAIR every list insertion is paired with the map insert of the returned element under the same key, every list removal with the map delete, removals only in the private helper; C09-ENDS insertion end, touch end and eviction end are consistent ({Front,Front,Back} or mirrored), the hit paths of both Load and Store touch the entry, and a Store hit assigns the new value; " +
			"C09-CAP on insertion exactly one eviction iff the count after insertion exceeds the capacity, the capacity is never reassigned; C09-CB the removal callback runs exactly once, with the removed key and value, on every removing path when set; C09-LEN Len returns the list length and the sentinel only on a mismatch. " +
			"Each failing condition breaks the stated behaviour (FIFO instead of LRU, off-by-one capacity, stale value, lost callback). NOT covered: trace equivalence with a reference LRU over all operation sequences (a history property).",
		Assume:  []string{"container/list semantics"},
		Trusted: []string{"go/types", "go/ssa"},
		Run:     runC09,
	})
}

// lruRep: how a list element carries its payload. bare: Element.Value is the stored value and the
// key is found by scanning the map for the element; entry: Element.Value is a *T{key, value}
// built at insertion (discovered from the insertion site of Store), the value is read from / assigned
// to its value field and the key of a removed element is read from its key field.
type lruRep struct {
	entry            *types.Named
	valIdx, keyIdx   int
	valName, keyName string
}

func (r lruRep) valSuffix() string {
	if r.entry == nil {
		return ".Value"
	}
	return ".Value.(*" + shortType(r.entry.String()) + ")." + r.valName
}

func (r lruRep) keySuffix() string {
	if r.entry == nil {
		return ""
	}
	return ".Value.(*" + shortType(r.entry.String()) + ")." + r.keyName
}

func lruRepOf(p *Prog, tn string) lruRep {
	rep := lruRep{valIdx: -1, keyIdx: -1}
	fn := p.Method("valid", tn, "Store")
	if fn == nil || len(fn.Params) < 3 {
		return rep
	}
	for _, b := range fn.Blocks {
		for _, ins := range b.Instrs {
			call, ok := ins.(*ssa.Call)
			if !ok {
				continue
			}
			if nm := calleeName(&call.Call); nm != "(*container/list.List).PushFront" && nm != "(*container/list.List).PushBack" {
				continue
			}
			mi, ok := call.Call.Args[1].(*ssa.MakeInterface)
			if !ok {
				continue
			}
			al, ok := mi.X.(*ssa.Alloc)
			if !ok {
				continue
			}
			named := namedOf(al.Type())
			if named == nil {
				continue
			}
			stt, ok := named.Underlying().(*types.Struct)
			if !ok {
				continue
			}
			for _, r := range refs(al) {
				fa, ok := r.(*ssa.FieldAddr)
				if !ok {
					continue
				}
				for _, rr := range refs(fa) {
					st, ok := rr.(*ssa.Store)
					if !ok || st.Addr != ssa.Value(fa) {
						continue
					}
					switch st.Val {
					case ssa.Value(fn.Params[2]):
						rep.valIdx, rep.valName = fa.Field, stt.Field(fa.Field).Name()
					case ssa.Value(fn.Params[1]):
						rep.keyIdx, rep.keyName = fa.Field, stt.Field(fa.Field).Name()
					}
				}
			}
			if rep.valIdx >= 0 && rep.keyIdx >= 0 {
				rep.entry = named
			}
		}
	}
	return rep
}

// entryFields: av is (an interface holding) a pointer to a freshly built entry: its value and key
// fields as keys.
func (r lruRep) entryFields(av AVal) (val, key string, ok bool) {
	if r.entry == nil {
		return "", "", false
	}
	if ifc, isI := av.(Ifc); isI {
		av = ifc.V
	}
	pt, isP := av.(Ptr)
	if !isP || pt.C.Fields == nil {
		return "", "", false
	}
	vc, kc := pt.C.Fields[r.valIdx], pt.C.Fields[r.keyIdx]
	if vc == nil || kc == nil {
		return "", "", false
	}
	return keyOf(vc.V), keyOf(kc.V), true
}

type lruEnv struct {
	w            *WalkEnv
	delta        int
	elemN        int
	nonNilParams map[string]bool
}

// foundAlreadyAtEnd: on this path the element found under the key was compared with the list's Front()
// (Back()) element and found to be it: "Front"/"Back", else "".
func foundAlreadyAtEnd(t Trace) string {
	for _, end := range []string{"front", "back"} {
		ek := keyOf(Tok{Dom: "elem", Name: end})
		for k, v := range t.PC {
			if v == 1 && strings.HasPrefix(k, "eq(") && strings.Contains(k, ek) && strings.Contains(k, "]") {
				return strings.ToUpper(end[:1]) + end[1:]
			}
		}
	}
	return ""
}

// elemParamsNeverNil: names of *list.Element parameters of unexported methods of the cache type that
// receive, at every static call site in the repository, an element that cannot be nil there: the value of a
// comma-ok map lookup on the side where it was found present, the result of PushFront/PushBack, or
// Back()/Front() of the list behind an insertion in the same function. (A name that fails at one site,
// or is used for two helpers of which one fails, is left out.)
func elemParamsNeverNil(p *Prog) map[string]bool {
	named, _ := cacheType(p)
	out := map[string]bool{}
	if named == nil {
		return out
	}
	bad := map[string]bool{}
	nonNilArg := func(v ssa.Value, at *ssa.BasicBlock) bool {
		switch x := v.(type) {
		case *ssa.Extract:
			lk, ok := x.Tuple.(*ssa.Lookup)
			if !ok || !lk.CommaOk || x.Index != 0 {
				return false
			}
			// `at` is dominated by the true edge of the lookup's ok flag
			for _, r := range refs(lk) {
				okx, isEx := r.(*ssa.Extract)
				if !isEx || okx.Index != 1 {
					continue
				}
				for _, r2 := range refs(okx) {
					iff, isIf := r2.(*ssa.If)
					if !isIf {
						continue
					}
					t := iff.Block().Succs[0]
					if len(t.Preds) == 1 && t.Dominates(at) {
						return true
					}
					// `if !ok { return }` form: everything dominated by the false... the ok-true side is Succs[0] of
					// If(ok); for If(!ok) the condition is a UnOp handled below
				}
				for _, r2 := range refs(okx) {
					if u, isU := r2.(*ssa.UnOp); isU && u.Op == token.NOT {
						for _, r3 := range refs(u) {
							if iff, isIf := r3.(*ssa.If); isIf {
								f := iff.Block().Succs[1]
								if len(f.Preds) == 1 && f.Dominates(at) {
									return true
								}
							}
						}
					}
				}
			}
			return false
		case *ssa.Call:
			switch calleeName(&x.Call) {
			case "(*container/list.List).PushFront", "(*container/list.List).PushBack":
				return true
			case "(*container/list.List).Back", "(*container/list.List).Front":
				// behind an insertion in the same function
				for _, b := range x.Parent().Blocks {
					for _, ins := range b.Instrs {
						if c2, ok := ins.(*ssa.Call); ok {
							if nm := calleeName(&c2.Call); nm == "(*container/list.List).PushFront" || nm == "(*container/list.List).PushBack" {
								if b.Dominates(x.Block()) {
									return true
								}
							}
						}
					}
				}
			}
		}
		return false
	}
	for _, fn := range p.Funcs {
		for _, b := range fn.Blocks {
			for _, ins := range b.Instrs {
				call, ok := ins.(ssa.CallInstruction)
				if !ok {
					continue
				}
				callee := staticCallee(call.Common())
				if callee == nil || recvNamed(callee) != named || callee.Object() == nil || callee.Object().Exported() {
					continue
				}
				for i, prm := range callee.Params {
					if !isNamed(derefType(prm.Type()), "container/list", "Element") || i >= len(call.Common().Args) {
						continue
					}
					if nonNilArg(call.Common().Args[i], b) {
						out[prm.Name()] = true
					} else {
						bad[prm.Name()] = true
					}
				}
			}
		}
	}
	for k := range bad {
		delete(out, k)
	}
	return out
}

func newLRUEnv(p *Prog) *lruEnv {
	le := &lruEnv{w: NewWalkEnv(p)}
	in := le.w.In
	in.TraceStores = true
	in.EagerWiden = false
	prev := in.ResetHook
	in.ResetHook = func() {
		prev()
		le.delta, le.elemN = 0, 0
	}
	// list elements that cannot be nil: what PushFront/PushBack returned; Back()/Front() once this path has
	// inserted (the list is not empty); the value of a comma-ok lookup in a map of elements that was found
	// present (C09-PAIR: the map only ever receives elements the list handed out)
	in.NonNil = func(in *Interp, v AVal) bool {
		switch x := v.(type) {
		case Tok:
			if x.Dom != "elem" {
				return false
			}
			if strings.HasPrefix(x.Name, "new") {
				return true
			}
			return le.delta > 0
		case Sym:
			if x.T == nil || !isNamed(derefType(x.T), "container/list", "Element") {
				return false
			}
			if le.nonNilParams == nil {
				le.nonNilParams = elemParamsNeverNil(p)
			}
			if le.nonNilParams[x.K] {
				return true // an element parameter of a private helper: every call site hands over a non-nil element
			}
			if !strings.HasSuffix(x.K, "]") {
				return false
			}
			return in.pc["has("+x.K+")"] == 1
		}
		return false
	}
	lm := func(name string, f func(in *Interp, site ssa.Instruction, a []AVal) AVal) {
		in.Models["(*container/list.List)."+name] = func(in *Interp, site ssa.Instruction, cc *ssa.CallCommon, a []AVal) (AVal, bool) {
			return f(in, site, a), true
		}
	}
	for _, n := range []string{"PushFront", "PushBack"} {
		n := n
		lm(n, func(in *Interp, site ssa.Instruction, a []AVal) AVal {
			le.elemN++
			le.delta++
			e := Tok{Dom: "elem", Name: fmt.Sprintf("new%d", le.elemN)}
			in.Emit("list", site, cstStr(n), e, a[1])
			return e
		})
	}
	for _, n := range []string{"MoveToFront", "MoveToBack"} {
		n := n
		lm(n, func(in *Interp, site ssa.Instruction, a []AVal) AVal {
			in.Emit("list", site, cstStr(n), a[1])
			return Tup{}
		})
	}
	lm("Remove", func(in *Interp, site ssa.Instruction, a []AVal) AVal {
		le.delta--
		in.Emit("list", site, cstStr("Remove"), a[1])
		return Sym{K: keyOf(a[1]) + ".Value"}
	})
	lm("Back", func(in *Interp, site ssa.Instruction, a []AVal) AVal { return Tok{Dom: "elem", Name: "back"} })
	lm("Front", func(in *Interp, site ssa.Instruction, a []AVal) AVal { return Tok{Dom: "elem", Name: "front"} })
	lm("Len", func(in *Interp, site ssa.Instruction, a []AVal) AVal {
		return Tok{Dom: "llen", Name: fmt.Sprintf("n%+d", le.delta)}
	})
	in.Models["dyncall"] = func(in *Interp, site ssa.Instruction, cc *ssa.CallCommon, a []AVal) (AVal, bool) {
		in.Emit("callback", site, a...)
		return Tup{}, true
	}
	for _, m := range []string{"Lock", "Unlock", "RLock", "RUnlock"} {
		in.Models["(*sync.RWMutex)."+m] = func(in *Interp, site ssa.Instruction, cc *ssa.CallCommon, a []AVal) (AVal, bool) { return Tup{}, true }
		in.Models["(*sync.Mutex)."+m] = in.Models["(*sync.RWMutex)."+m]
	}
	return le
}

func runC09(c *Ctx) {
	p := c.P
	c.Rule("C09-PAIR", "list insert <-> map insert of the returned element under the operation's key; list remove <-> map delete; removals only in the private helper", 2)
	c.Rule("C09-ENDS", "insertion, touch and eviction ends consistent; Load and Store hit paths touch; Store hit assigns the new value", 3)
	c.Rule("C09-CAP", "exactly one eviction iff count after insertion > capacity; capacity immutable", 2)
	c.Rule("C09-CB", "removal callback exactly once with removed key and value on every removing path when set", 1)
	c.Rule("C09-LEN", "Len returns the list length, sentinel only on mismatch", 1)
	named, _ := cacheType(p)
	if named == nil {
		c.Unk("C09-PAIR", "-", "anchor", token.NoPos, "cache type not found")
		return
	}
	tn := named.Obj().Name()
	rep := lruRepOf(p, tn)
	if rep.entry != nil {
		c.Extra["lru_element_payload"] = "entry struct " + shortType(rep.entry.String()) + "{" + rep.keyName + ", " + rep.valName + "}"
	} else {
		c.Extra["lru_element_payload"] = "the stored value itself"
	}
	method := func(n string) *ssa.Function { return p.Method("valid", tn, n) }
	explore := func(fn *ssa.Function) []Trace {
		le := newLRUEnv(p)
		c.Funcs[fnName(fn)] = true
		return le.w.In.Explore(fn, symArgs(fn), 4000)
	}
	ends := map[string]map[string]bool{"insert": {}, "touch": {}, "evict": {}}
	// ---- Store
	if fn := method("Store"); fn != nil {
		var pair, endsBad, capBad []string
		hitPaths, missPaths := 0, 0
		for _, t := range explore(fn) {
			if t.Cut != "" || t.Panic != "" {
				c.Unk("C09-PAIR", fnName(fn), "paths", fn.Pos(), t.Cut+t.Panic)
				continue
			}
			if t.Converged {
				continue
			}
			c.Sites++
			var pushes, removes, touches []Event
			var mapIns []Event
			valueAssigned := false
			for _, e := range t.Events {
				switch e.Kind {
				case "list":
					op, _ := isCstStr(e.Args[0])
					switch {
					case strings.HasPrefix(op, "Push"):
						pushes = append(pushes, e)
						ends["insert"][strings.TrimPrefix(op, "Push")] = true
					case strings.HasPrefix(op, "MoveTo"):
						touches = append(touches, e)
						ends["touch"][strings.TrimPrefix(op, "MoveTo")] = true
					case op == "Remove":
						removes = append(removes, e)
						if tk, ok := e.Args[1].(Tok); ok && tk.Dom == "elem" {
							ends["evict"][strings.Title(tk.Name)] = true
						}
					}
				case "mapupdate":
					if strings.Contains(keyOf(e.Args[0]), "nodeMap") || strings.HasPrefix(keyOf(e.Args[0]), "l.") {
						mapIns = append(mapIns, e)
					}
				case "store-cell":
					if strings.HasSuffix(keyOf(e.Args[0]), rep.valSuffix()) && keyOf(e.Args[1]) == "value" {
						valueAssigned = true
					}
					// entry payload replaced as a whole by a fresh entry for the same key with the new value
					if rep.entry != nil && strings.HasSuffix(keyOf(e.Args[0]), ".Value") {
						if vk, kk, ok := rep.entryFields(e.Args[1]); ok && vk == "value" && kk == "key" {
							valueAssigned = true
						}
					}
				}
			}
			hit := false
			for k, v := range t.PC {
				if strings.HasPrefix(k, "has(") && v == 1 {
					hit = true
				}
			}
			nTouch := len(touches)
			if hit && nTouch == 0 {
				if end := foundAlreadyAtEnd(t); end != "" {
					nTouch = 1
					ends["touch"][end] = true
				}
			}
			if hit {
				hitPaths++
				if nTouch != 1 {
					endsBad = append(endsBad, "Store on an existing key does not move the entry to the recent end")
				}
				if !valueAssigned {
					endsBad = append(endsBad, "Store on an existing key keeps the old value (the element's Value is not assigned): a later Load returns a stale value")
				}
				if len(pushes) != 0 {
					pair = append(pair, "Store on an existing key inserts a second list element")
				}
				continue
			}
			missPaths++
			if len(pushes) != 1 {
				pair = append(pair, fmt.Sprintf("miss path performs %d list insertions", len(pushes)))
				continue
			}
			okIns := false
			for _, m := range mapIns {
				if keyOf(m.Args[1]) == "key" && keyOf(m.Args[2]) == keyOf(pushes[0].Args[1]) {
					okIns = true
				}
			}
			if !okIns {
				pair = append(pair, "the list element returned by the insertion is not stored in the map under the operation's key")
			}
			if rep.entry == nil {
				if keyOf(pushes[0].Args[2]) != "value" {
					pair = append(pair, "the inserted list element does not carry the stored value")
				}
			} else if vk, kk, ok := rep.entryFields(pushes[0].Args[2]); !ok || vk != "value" || kk != "key" {
				pair = append(pair, "the inserted list element does not carry an entry holding the operation's key and the stored value")
			}
			// capacity test
			if len(removes) > 1 {
				capBad = append(capBad, fmt.Sprintf("%d evictions for one insertion", len(removes)))
			}
			evicted := len(removes) == 1
			decided := false
			for k, v := range t.PC {
				if !strings.HasPrefix(k, "lt(") || !strings.Contains(k, "llen:n") || !strings.Contains(k, "maxSize") {
					continue
				}
				decided = true
				inner := k[3 : len(k)-1]
				parts := strings.SplitN(inner, ",", 2)
				var overflow bool
				switch {
				case strings.HasPrefix(parts[1], "llen:n+1") && v == 1: // max < n+1
					overflow = true
				case strings.HasPrefix(parts[1], "llen:n+1"):
					overflow = false
				case strings.HasPrefix(parts[0], "llen:n+0") && v == 0: // !(n < max)  ==  n >= max
					overflow = true
				case strings.HasPrefix(parts[0], "llen:n+0"):
					overflow = false
				default:
					capBad = append(capBad, "capacity test is not equivalent to 'count after insertion > capacity': "+k)
					continue
				}
				if overflow != evicted {
					capBad = append(capBad, fmt.Sprintf("overflow=%v but evicted=%v (%s)", overflow, evicted, k))
				}
			}
			if !decided {
				capBad = append(capBad, "insertion path does not compare the list length with the capacity")
			}
		}
		c.Check(len(pair) == 0 && missPaths > 0, "C09-PAIR", fnName(fn), "insert", fn.Pos(), fmt.Sprintf("%d miss paths pair list and map insertion", missPaths), uniqJoin(pair, 3))
		c.Check(len(endsBad) == 0 && hitPaths > 0, "C09-ENDS", fnName(fn), "hit", fn.Pos(), fmt.Sprintf("%d hit paths touch and assign", hitPaths), uniqJoin(endsBad, 3))
		c.Check(len(capBad) == 0, "C09-CAP", fnName(fn), "overflow", fn.Pos(), "evict exactly once iff count after insertion > capacity", uniqJoin(capBad, 3))
	} else {
		c.Unk("C09-PAIR", tn+".Store", "anchor", token.NoPos, "Store not found")
	}
	// ---- Load
	if fn := method("Load"); fn != nil {
		var bad []string
		hits := 0
		for _, t := range explore(fn) {
			if t.Cut != "" || t.Panic != "" || t.Converged {
				continue
			}
			hit := false
			for k, v := range t.PC {
				if strings.HasPrefix(k, "has(") && v == 1 {
					hit = true
				}
			}
			touches := 0
			for _, e := range t.Events {
				if e.Kind == "list" {
					op, _ := isCstStr(e.Args[0])
					if strings.HasPrefix(op, "MoveTo") {
						touches++
						ends["touch"][strings.TrimPrefix(op, "MoveTo")] = true
					}
				}
			}
			rt, _ := t.Ret.(Tup)
			if hit && touches == 0 {
				if end := foundAlreadyAtEnd(t); end != "" {
					touches = 1 // `if l.list.Front() != node { MoveToFront(node) }`: the element found IS the recent end
					ends["touch"][end] = true
				}
			}
			if hit {
				hits++
				if touches != 1 {
					bad = append(bad, "a Load hit does not move the entry to the recent end: eviction order becomes insertion order (FIFO)")
				}
				if len(rt.E) == 2 {
					if b, ok := traceBool(t, rt.E[1]); ok && !b {
						bad = append(bad, "a hit reports ok=false")
					}
					if !strings.HasSuffix(keyOf(rt.E[0]), rep.valSuffix()) {
						bad = append(bad, "a hit does not return the element's value: "+keyOf(rt.E[0]))
					}
				}
			} else if len(rt.E) == 2 {
				if b, ok := traceBool(t, rt.E[1]); !ok || b {
					bad = append(bad, "a miss reports ok=true")
				}
			}
		}
		c.Check(len(bad) == 0 && hits > 0, "C09-ENDS", fnName(fn), "hit", fn.Pos(), "hit returns the element's value and touches it; miss reports false", uniqJoin(bad, 3))
	} else {
		c.Unk("C09-ENDS", tn+".Load", "anchor", token.NoPos, "Load not found")
	}
	// ---- consistency of ends
	{
		ins, tch, ev := keysOf(ends["insert"]), keysOf(ends["touch"]), keysOf(ends["evict"])
		ok := len(ins) == 1 && len(tch) == 1 && len(ev) == 1 && ins[0] == tch[0] && ins[0] != ev[0]
		c.Check(ok, "C09-ENDS", tn, "ends", token.NoPos, fmt.Sprintf("insert at %v, touch to %v, evict from %v", ins, tch, ev), fmt.Sprintf("inconsistent ends: insert at %v, touch to %v, evict from %v (the evicted entry is not the least recently used one)", ins, tch, ev))
	}
	// ---- private removal helper + Delete
	runC09Remove(c, tn)
	runC09Len(c, tn)
	runC09Rebuild(c, named)
	runC09Config(c, named)
	runC09Live(c, named)
	runC09Init(c, named)
}

// traceBool: the value of a boolean abstract value on a finished trace.
func traceBool(t Trace, v AVal) (bool, bool) {
	if b, ok := isCstBool(v); ok {
		return b, true
	}
	k := keyOf(v)
	neg := false
	for strings.HasPrefix(k, "!") {
		k, neg = k[1:], !neg
	}
	if d, ok := t.PC[k]; ok {
		return (d == 1) != neg, true
	}
	return false, false
}

func runC09Remove(c *Ctx, tn string) {
	p := c.P
	rep := lruRepOf(p, tn)
	// removals (list.Remove / builtin delete on the node map) may only occur in one private helper
	var helpers []*ssa.Function
	for _, fn := range p.Funcs {
		if rn := recvNamed(fn); rn == nil || rn.Obj().Name() != tn {
			continue
		}
		has := false
		for _, b := range fn.Blocks {
			for _, ins := range b.Instrs {
				if call, ok := ins.(*ssa.Call); ok {
					n := calleeName(&call.Call)
					if n == "(*container/list.List).Remove" || n == "builtin.delete" {
						has = true
					}
				}
			}
		}
		if has {
			helpers = append(helpers, fn)
		}
	}
	if len(helpers) == 0 {
		c.Bad("C09-PAIR", tn, "remove-sites", token.NoPos, "no method removes from the list and the map")
		return
	}
	// usually one private helper; when it has been inlined into its callers every function that
	// removes is held to the same contract on each of its removing paths
	var pairBad, cbBad []string
	n := 0
	var firstPos token.Pos
	names := []string{}
	for _, h := range helpers {
		names = append(names, fnName(h))
		if firstPos == token.NoPos {
			firstPos = h.Pos()
		}
		le := newLRUEnv(p)
		c.Funcs[fnName(h)] = true
		for _, t := range le.w.In.Explore(h, symArgs(h), 6000) {
			if t.Cut != "" || t.Panic != "" {
				c.Unk("C09-PAIR", fnName(h), "paths", h.Pos(), t.Cut+t.Panic)
				continue
			}
			if t.Converged {
				continue
			}
			removes, deletes, cbs := 0, 0, 0
			var delKey, cbKey, cbVal, rmElem string
			for _, e := range t.Events {
				switch e.Kind {
				case "list":
					if op, _ := isCstStr(e.Args[0]); op == "Remove" {
						removes++
						rmElem = keyOf(e.Args[1])
					}
				case "mapdelete":
					deletes++
					delKey = keyOf(e.Args[1])
				case "callback":
					cbs++
					if len(e.Args) >= 3 {
						cbKey, cbVal = keyOf(e.Args[1]), keyOf(e.Args[2])
					}
				}
			}
			if removes == 0 && deletes == 0 && cbs == 0 && len(helpers) > 1 {
				continue // a path of an operation that removes nothing (inlined form only)
			}
			n++
			c.Sites++
			if removes != 1 || deletes != 1 {
				pairBad = append(pairBad, fmt.Sprintf("a path removes %d list elements and %d map entries (want 1 and 1)", removes, deletes))
			}
			// entry payload: the map key deleted is the key kept in the removed element's own entry
			if rep.entry != nil && removes == 1 && deletes == 1 && delKey != rmElem+rep.keySuffix() {
				pairBad = append(pairBad, "the key deleted from the map ("+delKey+") is not the key kept in the removed element's entry ("+rmElem+rep.keySuffix()+")")
			}
			if len(helpers) == 1 && rmElem != "node" && removes == 1 && len(h.Params) > 1 && rmElem != h.Params[1].Name() {
				pairBad = append(pairBad, "the element removed from the list is not the helper's argument: "+rmElem)
			}
			cbSet := -1
			for k, v := range t.PC {
				if strings.HasPrefix(k, "eq(") && strings.Contains(k, "deleteCallBackFn") && strings.Contains(k, "nil") {
					cbSet = 1 - v
				}
			}
			switch {
			case cbSet == 1 && cbs != 1:
				cbBad = append(cbBad, fmt.Sprintf("callback set but invoked %d times on a removing path", cbs))
			case cbSet == 0 && cbs != 0:
				cbBad = append(cbBad, "callback invoked although nil")
			case cbSet == -1:
				cbBad = append(cbBad, "a removing path never tests the callback: evictions/deletes are not reported")
			}
			if cbs == 1 {
				if cbKey != delKey {
					cbBad = append(cbBad, "callback key "+cbKey+" differs from the key deleted from the map "+delKey)
				}
				if !strings.HasSuffix(cbVal, rep.valSuffix()) || !strings.HasPrefix(cbVal, strings.TrimPrefix(rmElem, "")) && !strings.Contains(cbVal, rmElem) {
					cbBad = append(cbBad, "callback value is not the removed element's value: "+cbVal)
				}
			}
		}
	}
	where := names[0]
	if len(names) > 1 {
		where = tn + ".removal-sites"
	}
	c.Check(len(pairBad) == 0 && n > 0, "C09-PAIR", where, "remove", firstPos, fmt.Sprintf("%d removing paths in %v: one list removal, one map delete each", n, names), uniqJoin(pairBad, 3))
	c.Check(len(cbBad) == 0 && n > 0, "C09-CB", where, "callback", firstPos, "exactly once with the removed key and value when set", uniqJoin(cbBad, 3))
	// who may invoke: the removal callback fires for evicted or deleted entries ONLY — a function that
	// removes nothing (an overwrite in Store, a lookup, Len) must not call it
	{
		isHelper := map[*ssa.Function]bool{}
		for _, h := range helpers {
			isHelper[h] = true
		}
		cbField := func(v ssa.Value) (int, bool) { // v is the function value of a dynamic call: a load of a func-typed field of the cache
			seen := map[ssa.Value]bool{}
			var walk func(v ssa.Value) (int, bool)
			walk = func(v ssa.Value) (int, bool) {
				if v == nil || seen[v] {
					return 0, false
				}
				seen[v] = true
				switch x := v.(type) {
				case *ssa.UnOp:
					if fa, ok := x.X.(*ssa.FieldAddr); ok && x.Op == token.MUL {
						if n := namedOf(fa.X.Type()); n != nil && n.Obj().Name() == tn {
							return fa.Field, true
						}
					}
				case *ssa.Phi:
					for _, e := range x.Edges {
						if i, ok := walk(e); ok {
							return i, true
						}
					}
				case *ssa.ChangeType:
					return walk(x.X)
				}
				return 0, false
			}
			return walk(v)
		}
		inRemovers := map[int]bool{}
		type site struct {
			fn    *ssa.Function
			pos   token.Pos
			field int
		}
		var sites []site
		for _, fn := range p.Funcs {
			if fn.Pkg == nil || !strings.HasPrefix(fn.Pkg.Pkg.Path(), ModPath) {
				continue
			}
			for _, b := range fn.Blocks {
				for _, ins := range b.Instrs {
					ci, ok := ins.(ssa.CallInstruction)
					if !ok || ci.Common().IsInvoke() || staticCallee(ci.Common()) != nil {
						continue
					}
					if _, isB := ci.Common().Value.(*ssa.Builtin); isB {
						continue
					}
					if f, ok := cbField(ci.Common().Value); ok {
						host := fn
						for host.Parent() != nil {
							host = host.Parent()
						}
						if isHelper[host] {
							inRemovers[f] = true
						}
						sites = append(sites, site{host, ins.Pos(), f})
					}
				}
			}
		}
		var bad []string
		for _, s := range sites {
			if inRemovers[s.field] && !isHelper[s.fn] {
				bad = append(bad, fmt.Sprintf("%s: %s invokes the removal callback although it removes no entry: the callback fires for an entry that was neither evicted nor deleted", p.Pos(s.pos), fnName(s.fn)))
			}
		}
		c.Sites += len(sites)
		c.Check(len(bad) == 0 && len(inRemovers) > 0, "C09-CB", tn, "only-on-removal", firstPos, fmt.Sprintf("%d invocation sites of the removal callback, all inside the removing function(s)", len(sites)), uniqJoin(append(bad, map[bool]string{true: "", false: "no invocation of a callback field found in a removing function"}[len(inRemovers) > 0]), 3))
	}
	// the public Delete reaches the helper only on a hit; capacity field immutable
	named, mu := cacheType(p)
	_ = mu
	st := named.Underlying().(*types.Struct)
	var capField = -1
	for i := 0; i < st.NumFields(); i++ {
		if b, ok := st.Field(i).Type().Underlying().(*types.Basic); ok && b.Info()&types.IsInteger != 0 && strings.Contains(strings.ToLower(st.Field(i).Name()), "max") {
			capField = i
		}
	}
	var capBad []string
	for _, fn := range p.Funcs {
		if rn := recvNamed(fn); rn == nil || rn != named {
			continue
		}
		for _, b := range fn.Blocks {
			for _, ins := range b.Instrs {
				if stt, ok := ins.(*ssa.Store); ok {
					if fa, ok := stt.Addr.(*ssa.FieldAddr); ok && namedOf(fa.X.Type()) == named && fa.Field == capField {
						capBad = append(capBad, fnName(fn)+" reassigns the capacity at "+p.Pos(stt.Pos()))
					}
				}
			}
		}
	}
	c.Check(len(capBad) == 0 && capField >= 0, "C09-CAP", tn, "capacity-immutable", token.NoPos, "capacity field is never assigned by a method", uniqJoin(append(capBad, "capacity field not identified"), 2))
}

func runC09Len(c *Ctx, tn string) {
	p := c.P
	fn := p.Method("valid", tn, "Len")
	if fn == nil {
		c.Unk("C09-LEN", tn+".Len", "anchor", token.NoPos, "Len not found")
		return
	}
	le := newLRUEnv(p)
	c.Funcs[fnName(fn)] = true
	var bad []string
	n := 0
	for _, t := range le.w.In.Explore(fn, symArgs(fn), 200) {
		if t.Cut != "" || t.Panic != "" || t.Converged {
			continue
		}
		n++
		mismatch := -1
		for k, v := range t.PC {
			if strings.HasPrefix(k, "eq(") && strings.Contains(k, "llen:") && strings.Contains(k, "len(") {
				mismatch = 1 - v
			}
		}
		ret := keyOf(t.Ret)
		// a cache whose list has not been installed yet (lazy initialisation) holds nothing: on the path
		// where the list was found nil the length is 0 — consistent iff the map is empty too
		nilList := false
		for k, v := range t.PC {
			if strings.HasPrefix(k, "eq(") && strings.Contains(k, "nil") && strings.Contains(k, ".list") && v == 1 {
				nilList = true
			}
		}
		if nilList {
			want := "0"
			for k, v := range t.PC {
				if (strings.HasPrefix(k, "eq(0,len(") || strings.HasPrefix(k, "eq(len(")) && strings.Contains(k, "nodeMap") && v == 0 {
					want = "-1"
				}
			}
			if ret != want {
				bad = append(bad, "the list is not installed yet but Len returns "+ret+" (want "+want+")")
			}
			continue
		}
		switch {
		case mismatch == 0 && !strings.HasPrefix(ret, "llen:"):
			bad = append(bad, "consistent state but Len returns "+ret+" instead of the list length")
		case mismatch == 1 && ret != "-1":
			bad = append(bad, "inconsistent state but Len returns "+ret)
		case mismatch == -1 && !strings.HasPrefix(ret, "llen:"):
			bad = append(bad, "Len returns "+ret+" without consulting the list length")
		}
	}
	c.Check(len(bad) == 0 && n > 0, "C09-LEN", fnName(fn), "result", fn.Pos(), fmt.Sprintf("%d paths", n), uniqJoin(bad, 3))
}

// runC09Rebuild: who-may-update the key->element map. Every MapUpdate on the cache's element
// map inside a loop must be the wholesale rebuild: a range over a map in which every iteration
// copies the iterated key and element unconditionally. A rebuild that filters entries leaves
// list elements without a map entry (Len mismatch, a live key that misses, a callback with a
// nil key on eviction).
func runC09Rebuild(c *Ctx, named *types.Named) {
	p := c.P
	c.Rule("C09-REBUILD", "a loop that refills the key->element map copies every iterated entry unconditionally (key and element of the same iteration)", 0)
	for _, fn := range p.Funcs {
		if rn := recvNamed(fn); rn == nil || rn != named {
			continue
		}
		loops := naturalLoops(fn)
		for _, b := range fn.Blocks {
			for _, ins := range b.Instrs {
				mu, ok := ins.(*ssa.MapUpdate)
				if !ok {
					continue
				}
				// element map: map[...]*list.Element
				mt, ok := mu.Map.Type().Underlying().(*types.Map)
				if !ok || !isNamed(mt.Elem(), "container/list", "Element") && !strings.Contains(mt.Elem().String(), "container/list.Element") {
					continue
				}
				var in *loopInfo
				for _, l := range loops {
					if l.Body[b] && (in == nil || len(l.Body) < len(in.Body)) {
						in = l
					}
				}
				if in == nil {
					continue
				}
				c.Sites++
				var bad []string
				// the loop is a range over a map: header holds Next on a Range iterator
				var next *ssa.Next
				for _, hi := range in.Header.Instrs {
					if nx, ok := hi.(*ssa.Next); ok && !nx.IsString {
						next = nx
					}
				}
				if next == nil {
					bad = append(bad, "the map is refilled in a loop that is not a range over the old map")
				} else {
					kx, okK := mu.Key.(*ssa.Extract)
					vx, okV := mu.Value.(*ssa.Extract)
					if !okK || !okV || kx.Tuple != next || vx.Tuple != next || kx.Index != 1 || vx.Index != 2 {
						bad = append(bad, "the entry written is not the key and element of the current iteration")
					}
				}
				// unconditional: no branch inside the body besides the header's
				for bb := range in.Body {
					if bb == in.Header {
						continue
					}
					if _, isIf := bb.Instrs[len(bb.Instrs)-1].(*ssa.If); isIf {
						bad = append(bad, "entries are filtered while the map is rebuilt ("+p.Pos(bb.Instrs[len(bb.Instrs)-1].Pos())+"): an element that stays in the list can lose its map entry")
					}
				}
				if !b.Dominates(latchOf(in)) {
					bad = append(bad, "the copy does not happen on every iteration")
				}
				c.Check(len(bad) == 0, "C09-REBUILD", fnName(fn), "copy-all", mu.Pos(), "every entry copied", uniqJoin(bad, 3))
			}
		}
	}
}

// latchOf: the (single) block with the back edge to the header; the header itself if none found.
func latchOf(l *loopInfo) *ssa.BasicBlock {
	for b := range l.Body {
		for _, s := range b.Succs {
			if s == l.Header && b != l.Header {
				return b
			}
		}
	}
	return l.Header
}

// runC09Config: configuration and identity rules of the LRU.
//
//	capacity   the constructor stores the requested capacity unchanged (the first optional
//	           argument when given, the documented default otherwise): no clamping, no rounding
//	callback   the setter stores exactly the function it is given (a wrapper can drop or alter
//	           notifications)
//	identity   the private removal helper finds the key of the element being removed by element
//	           IDENTITY (pointer equality with the element), never by comparing stored values
//	           (two keys may hold equal values)
func runC09Config(c *Ctx, named *types.Named) {
	p := c.P
	c.Rule("C09-CONFIG", "constructor stores the requested capacity unchanged; the callback setter stores its argument; the removed element's key is found by element identity", 3)
	tn := named.Obj().Name()
	st := named.Underlying().(*types.Struct)
	fieldIdx := func(pred func(v *types.Var) bool) int {
		for i := 0; i < st.NumFields(); i++ {
			if pred(st.Field(i)) {
				return i
			}
		}
		return -1
	}
	capField := fieldIdx(func(v *types.Var) bool {
		b, ok := v.Type().Underlying().(*types.Basic)
		return ok && b.Info()&types.IsInteger != 0 && strings.Contains(strings.ToLower(v.Name()), "max")
	})
	cbField := fieldIdx(func(v *types.Var) bool {
		_, ok := v.Type().Underlying().(*types.Signature)
		return ok
	})
	// ---- constructor: a package-level function returning *T that allocates T
	var ctor *ssa.Function
	for _, fn := range p.Funcs {
		if fn.Pkg != p.Pkg("valid") || fn.Signature.Recv() != nil || fn.Parent() != nil || fn.Signature.Results().Len() != 1 {
			continue
		}
		if pt, ok := fn.Signature.Results().At(0).Type().(*types.Pointer); ok && namedOf(pt.Elem()) == named {
			ctor = fn
		}
	}
	if ctor == nil || capField < 0 {
		c.Unk("C09-CONFIG", tn, "capacity", token.NoPos, "constructor or capacity field not found")
	} else {
		c.Funcs[fnName(ctor)] = true
		c.Sites++
		var bad []string
		n := 0
		for _, b := range ctor.Blocks {
			for _, ins := range b.Instrs {
				stt, ok := ins.(*ssa.Store)
				if !ok {
					continue
				}
				fa, ok := stt.Addr.(*ssa.FieldAddr)
				if !ok || namedOf(fa.X.Type()) != named || fa.Field != capField {
					continue
				}
				n++
				// value: phi{ constant default, first element of the variadic parameter }
				var check func(v ssa.Value, d int)
				check = func(v ssa.Value, d int) {
					if d > 4 {
						bad = append(bad, "capacity value not recognised")
						return
					}
					switch x := v.(type) {
					case *ssa.Const:
					case *ssa.Phi:
						for _, e := range x.Edges {
							check(e, d+1)
						}
					case *ssa.UnOp:
						ia, ok := x.X.(*ssa.IndexAddr)
						if !ok || len(ctor.Params) == 0 || ia.X != ctor.Params[len(ctor.Params)-1] {
							bad = append(bad, "the capacity stored is not the caller's argument")
							return
						}
						if k, isK := constInt(ia.Index); !isK || k != 0 {
							bad = append(bad, "the capacity stored is not the first optional argument")
						}
					case *ssa.Parameter:
					default:
						bad = append(bad, fmt.Sprintf("the requested capacity is transformed before it is stored (%T): clamped, rounded or otherwise changed", v))
					}
				}
				check(stt.Val, 0)
				// a phi edge carrying a constant must be the default edge only: a constant on a path where
				// the caller gave a capacity means clamping
				consts := 0
				seenPhi := map[ssa.Value]bool{}
				var count func(v ssa.Value)
				count = func(v ssa.Value) {
					if seenPhi[v] {
						return
					}
					seenPhi[v] = true
					switch x := v.(type) {
					case *ssa.Const:
						consts++
					case *ssa.Phi:
						for _, e := range x.Edges {
							count(e)
						}
					}
				}
				count(stt.Val)
				if consts > 1 {
					bad = append(bad, "more than one constant can become the capacity: the requested capacity is clamped or replaced")
				}
				// the default may only arrive on paths where the caller gave no capacity: a phi edge that carries
				// a constant must not leave a block reached through the 'argument present' edge
				if len(ctor.Params) > 0 {
					maxP := ssa.Value(ctor.Params[len(ctor.Params)-1])
					var given []*ssa.BasicBlock
					for _, bb := range ctor.Blocks {
						if iff, ok := bb.Instrs[len(bb.Instrs)-1].(*ssa.If); ok {
							if es, ok := lenTest(iff, func(v ssa.Value) bool { return v == maxP }); ok {
								if ne := bb.Succs[1-es]; len(ne.Preds) == 1 {
									given = append(given, ne)
								}
							}
						}
					}
					var edges func(v ssa.Value, seen map[ssa.Value]bool)
					edges = func(v ssa.Value, seen map[ssa.Value]bool) {
						phi, ok := v.(*ssa.Phi)
						if !ok || seen[v] {
							return
						}
						seen[v] = true
						for i, e := range phi.Edges {
							if _, isC := e.(*ssa.Const); isC {
								pred := phi.Block().Preds[i]
								for _, g := range given {
									if g.Dominates(pred) {
										bad = append(bad, "the default capacity replaces a capacity the caller gave (the constant arrives from "+p.Pos(instrPos(pred.Instrs[len(pred.Instrs)-1]))+", where the argument is present): e.g. NewLRU(0) is not an always-empty cache")
									}
								}
							}
							edges(e, seen)
						}
					}
					edges(stt.Val, map[ssa.Value]bool{})
					// one initialisation per branch (an internal constructor called on both sides): a constant
					// stored directly must sit on the side where no capacity was given
					if _, isC := stt.Val.(*ssa.Const); isC {
						for _, g := range given {
							if g.Dominates(b) {
								bad = append(bad, "the default capacity is stored on the path where the caller gave a capacity")
							}
						}
					}
				}
			}
		}
		if n < 1 || n > 2 {
			bad = append(bad, fmt.Sprintf("expected one initialisation of the capacity (or one per branch of the optional argument), found %d", n))
		}
		c.Check(len(bad) == 0, "C09-CONFIG", fnName(ctor), "capacity", ctor.Pos(), "capacity = requested (or the default)", uniqJoin(bad, 2))
	}
	// ---- callback setter: every method other than the constructor storing to the callback field stores a parameter
	if cbField >= 0 {
		n := 0
		var bad []string
		for _, fn := range p.Funcs {
			if recvNamed(fn) != named {
				continue
			}
			for _, b := range fn.Blocks {
				for _, ins := range b.Instrs {
					stt, ok := ins.(*ssa.Store)
					if !ok {
						continue
					}
					fa, ok := stt.Addr.(*ssa.FieldAddr)
					if !ok || namedOf(fa.X.Type()) != named || fa.Field != cbField {
						continue
					}
					n++
					c.Sites++
					c.Funcs[fnName(fn)] = true
					if _, isParam := stt.Val.(*ssa.Parameter); !isParam {
						if cst, isC := stt.Val.(*ssa.Const); isC && cst.IsNil() {
							continue
						}
						bad = append(bad, fmt.Sprintf("%s stores something other than the function it was given (%T) as the removal callback: notifications can be dropped or altered", fnName(fn), stt.Val))
					}
				}
			}
		}
		c.Check(len(bad) == 0 && n > 0, "C09-CONFIG", tn, "callback-setter", token.NoPos, fmt.Sprintf("%d store(s) of the caller's function", n), uniqJoin(append(bad, "no setter found"), 2))
	}
	// ---- identity lookup in the removal helper (or, when it was inlined, in each method that deletes from the map)
	var dels []*ssa.Function
	if del := p.Method("valid", tn, "delete"); del != nil {
		dels = append(dels, del)
	} else {
		for _, fn := range p.Funcs {
			if recvNamed(fn) != named {
				continue
			}
			for _, b := range fn.Blocks {
				for _, ins := range b.Instrs {
					if call, ok := ins.(*ssa.Call); ok && calleeName(&call.Call) == "builtin.delete" {
						dup := false
						for _, d := range dels {
							dup = dup || d == fn
						}
						if !dup {
							dels = append(dels, fn)
						}
					}
				}
			}
		}
	}
	for _, del := range dels {
		c.Sites++
		var bad []string
		nCmp := 0
		var node ssa.Value
		if len(del.Params) >= 2 && del.Name() == "delete" {
			node = del.Params[1]
		}
		removedElems := map[ssa.Value]bool{}
		for _, b := range del.Blocks {
			for _, ins := range b.Instrs {
				if call, ok := ins.(*ssa.Call); ok && calleeName(&call.Call) == "(*container/list.List).Remove" && len(call.Call.Args) == 2 {
					removedElems[call.Call.Args[1]] = true
				}
			}
		}
		// the search may have been extracted into an unexported helper that receives the element
		searchFn := del
		for _, b := range del.Blocks {
			for _, ins := range b.Instrs {
				call, ok := ins.(*ssa.Call)
				if !ok {
					continue
				}
				h := staticCallee(&call.Call)
				if h == nil || recvNamed(h) != named || h.Object() == nil || h.Object().Exported() || len(naturalLoops(h)) == 0 {
					continue
				}
				for ai, a := range call.Call.Args {
					if a == node && ai < len(h.Params) {
						searchFn, node = h, h.Params[ai]
						c.Funcs[fnName(h)] = true
					}
				}
			}
		}
		for _, b := range searchFn.Blocks {
			for _, ins := range b.Instrs {
				bo, ok := ins.(*ssa.BinOp)
				if !ok || (bo.Op != token.EQL && bo.Op != token.NEQ) {
					continue
				}
				// comparisons inside loops over the map
				inLoop := false
				for _, l := range naturalLoops(searchFn) {
					if l.Body[b] {
						inLoop = true
					}
				}
				if !inLoop {
					continue
				}
				nCmp++
				isElem := func(v ssa.Value) bool {
					pt, ok := v.Type().(*types.Pointer)
					return ok && isNamed(pt.Elem(), "container/list", "Element")
				}
				sameNode := bo.X == node || bo.Y == node
				if node == nil {
					sameNode = removedElems[bo.X] || removedElems[bo.Y]
				}
				if !(isElem(bo.X) && isElem(bo.Y) && sameNode) {
					bad = append(bad, "the key of the element being removed is searched by comparing "+shortType(bo.X.Type().String())+" values, not by element identity: with two keys holding equal values the wrong key is dropped from the map")
				}
			}
		}
		rep := lruRepOf(p, tn)
		viaCallers := 0
		if nCmp == 0 && rep.entry == nil {
			// the removing function may RECEIVE the key: then each of its callers inside the type must have
			// found it by element identity for the very element it hands over
			keyParam, nodeParam := -1, -1
			for _, b := range del.Blocks {
				for _, ins := range b.Instrs {
					call, ok := ins.(*ssa.Call)
					if !ok {
						continue
					}
					switch calleeName(&call.Call) {
					case "builtin.delete":
						if len(call.Call.Args) == 2 {
							kv := call.Call.Args[1]
							if mi, ok := kv.(*ssa.MakeInterface); ok {
								kv = mi.X
							}
							for i, prm := range del.Params {
								if kv == ssa.Value(prm) {
									keyParam = i
								}
							}
						}
					case "(*container/list.List).Remove":
						if len(call.Call.Args) == 2 {
							for i, prm := range del.Params {
								if call.Call.Args[1] == ssa.Value(prm) {
									nodeParam = i
								}
							}
						}
					}
				}
			}
			if keyParam >= 0 && nodeParam >= 0 {
				for _, fn := range p.Funcs {
					if recvNamed(fn) != named || fn == del {
						continue
					}
					for _, b := range fn.Blocks {
						for _, ins := range b.Instrs {
							call, ok := ins.(*ssa.Call)
							if !ok || staticCallee(&call.Call) != del || len(call.Call.Args) <= keyParam || len(call.Call.Args) <= nodeParam {
								continue
							}
							viaCallers++
							nodeArg := call.Call.Args[nodeParam]
							found := 0
							for _, lb := range fn.Blocks {
								for _, li := range lb.Instrs {
									bo, ok := li.(*ssa.BinOp)
									if !ok || (bo.Op != token.EQL && bo.Op != token.NEQ) {
										continue
									}
									inLoop := false
									for _, l := range naturalLoops(fn) {
										if l.Body[lb] {
											inLoop = true
										}
									}
									isElem := func(v ssa.Value) bool {
										pt, ok := v.Type().(*types.Pointer)
										return ok && isNamed(pt.Elem(), "container/list", "Element")
									}
									if !inLoop || !(isElem(bo.X) || isElem(bo.Y)) {
										continue
									}
									if isElem(bo.X) && isElem(bo.Y) && (bo.X == nodeArg || bo.Y == nodeArg) {
										found++
									}
								}
							}
							if found == 0 {
								bad = append(bad, fnName(fn)+" hands "+del.Name()+" a key that was not found by element identity for the element it removes (no `element == node` search for that element in the caller)")
							}
							c.Funcs[fnName(fn)] = true
						}
					}
				}
			}
			if viaCallers == 0 {
				bad = append(bad, "no search for the removed element's key found")
			}
		}
		good := "key found by element identity"
		if viaCallers > 0 {
			good = fmt.Sprintf("key handed in by %d caller(s), each found it by element identity for the element removed", viaCallers)
		}
		if nCmp == 0 && rep.entry != nil {
			good = "key read from the removed element's own entry (checked by C09-PAIR remove)"
		}
		c.Check(len(bad) == 0, "C09-CONFIG", fnName(del), "identity", del.Pos(), good, uniqJoin(bad, 2))
	}
}

// runC09Live: the map and the list are always updated on the state that stays live.
//
//	live-map   every mutation of the key->element map (insert, delete) is applied to the map
//	           that is the field's content at that moment: the operand is a load of the field
//	           with no assignment of the field between that load and the mutation (an alias taken
//	           before the periodic rebuild points at the abandoned map)
//	own-value  Load returns the Value of the very element it found under the key
func runC09Live(c *Ctx, named *types.Named) {
	p := c.P
	c.Rule("C09-LIVE", "map mutations act on the live map (no field assignment between loading the map and mutating it); Load returns the value of the element it looked up", 2)
	st := named.Underlying().(*types.Struct)
	mapField := -1
	for i := 0; i < st.NumFields(); i++ {
		if mt, ok := st.Field(i).Type().Underlying().(*types.Map); ok && strings.Contains(mt.Elem().String(), "container/list.Element") {
			mapField = i
		}
	}
	if mapField < 0 {
		c.Unk("C09-LIVE", named.Obj().Name(), "live-map", token.NoPos, "element map field not found")
		return
	}
	isMapFieldAddr := func(v ssa.Value) bool {
		fa, ok := v.(*ssa.FieldAddr)
		return ok && namedOf(fa.X.Type()) == named && fa.Field == mapField
	}
	var bad []string
	n := 0
	for _, fn := range p.Funcs {
		if recvNamed(fn) != named {
			continue
		}
		var stores []*ssa.Store
		for _, b := range fn.Blocks {
			for _, ins := range b.Instrs {
				if stt, ok := ins.(*ssa.Store); ok && isMapFieldAddr(stt.Addr) {
					stores = append(stores, stt)
				}
			}
		}
		for _, b := range fn.Blocks {
			for idx, ins := range b.Instrs {
				var m ssa.Value
				switch x := ins.(type) {
				case *ssa.MapUpdate:
					m = x.Map
				case *ssa.Call:
					if calleeName(&x.Call) == "builtin.delete" && len(x.Call.Args) > 0 {
						m = x.Call.Args[0]
					}
				}
				if m == nil {
					continue
				}
				mt, ok := m.Type().Underlying().(*types.Map)
				if !ok || !strings.Contains(mt.Elem().String(), "container/list.Element") {
					continue
				}
				n++
				c.Sites++
				if mk, isMake := m.(*ssa.MakeMap); isMake {
					// filling a fresh map is fine when that very map is (or will be) stored into the field
					okFresh := false
					for _, stt := range stores {
						if stt.Val == mk {
							okFresh = true
						}
					}
					if !okFresh {
						bad = append(bad, fnName(fn)+" mutates a map that is never installed as the cache's map at "+p.Pos(instrPos(ins)))
					}
					continue
				}
				ld, isLoad := m.(*ssa.UnOp)
				if !isLoad || ld.Op != token.MUL || !isMapFieldAddr(ld.X) {
					bad = append(bad, fnName(fn)+" mutates a map that is not read from the cache's field at "+p.Pos(instrPos(ins)))
					continue
				}
				// a store to the field reachable after the load and before this mutation?
				for _, stt := range stores {
					afterLoad := false
					for _, later := range instrsReachableAfter(ld.Block(), indexIn(ld)) {
						if later == ssa.Instruction(stt) {
							afterLoad = true
						}
					}
					if !afterLoad {
						continue
					}
					for _, later := range instrsReachableAfter(stt.Block(), indexIn(stt)) {
						if later == ins {
							// the mutation can run after the field was reassigned, on a map loaded before
							if !(stt.Block() == b && indexIn(stt) > idx) || len(naturalLoops(fn)) > 0 {
								if !ld.Block().Dominates(stt.Block()) && ld.Block() != stt.Block() {
									continue
								}
								// loaded before the store, used after it
								if ld.Block() == b && indexIn(ld) > indexIn(stt) && stt.Block() == b {
									continue
								}
								if loadFollowsStore(ld, stt) {
									continue
								}
								bad = append(bad, fmt.Sprintf("%s mutates, at %s, a map loaded from the field before the field was reassigned (%s): the change is applied to the abandoned map, the live one keeps the stale entry", fnName(fn), p.Pos(instrPos(ins)), p.Pos(stt.Pos())))
							}
						}
					}
				}
			}
		}
	}
	c.Check(len(bad) == 0 && n > 0, "C09-LIVE", named.Obj().Name(), "live-map", token.NoPos, fmt.Sprintf("%d map mutations, each on the live map", n), uniqJoin(bad, 2))
	// ---- Load returns the looked-up element's value
	rep := lruRepOf(p, named.Obj().Name())
	if ld := p.Method("valid", named.Obj().Name(), "Load"); ld != nil {
		c.Sites++
		var bad2 []string
		nv := 0
		seen := map[ssa.Value]bool{}
		var trace func(v ssa.Value, pos token.Pos, d int)
		trace = func(v ssa.Value, pos token.Pos, d int) {
			if v == nil || seen[v] || d > 8 {
				return
			}
			seen[v] = true
			if isNilConst(v) {
				return
			}
			if cst, ok := v.(*ssa.Const); ok && cst.Value == nil {
				return
			}
			switch x := v.(type) {
			case *ssa.Phi:
				for _, e := range x.Edges {
					trace(e, pos, d+1)
				}
				return
			case *ssa.UnOp:
				if al, ok := x.X.(*ssa.Alloc); ok {
					// a (named result / local) cell: everything stored into it
					for _, r := range refs(al) {
						if st, ok := r.(*ssa.Store); ok && st.Addr == al {
							trace(st.Val, st.Pos(), d+1)
						}
						// the cell is captured by a function literal (the body runs inside a lock wrapper's
						// closure): what the literal stores into it
						if mc, ok := r.(*ssa.MakeClosure); ok {
							if cf, ok := mc.Fn.(*ssa.Function); ok {
								for i, bnd := range mc.Bindings {
									if bnd == ssa.Value(al) && i < len(cf.FreeVars) {
										for _, r2 := range refs(cf.FreeVars[i]) {
											if st, ok := r2.(*ssa.Store); ok && st.Addr == ssa.Value(cf.FreeVars[i]) {
												trace(st.Val, st.Pos(), d+1)
											}
										}
									}
								}
							}
						}
					}
					return
				}
				// isKeyParam: Load's key parameter, directly or read back from the cell a function literal captured it in
				isKeyParam := func(v ssa.Value) bool {
					if len(ld.Params) < 2 {
						return false
					}
					if v == ssa.Value(ld.Params[1]) {
						return true
					}
					u, ok := v.(*ssa.UnOp)
					if !ok || u.Op != token.MUL {
						return false
					}
					fv, ok := u.X.(*ssa.FreeVar)
					if !ok {
						return false
					}
					cf := fv.Parent()
					idx := -1
					for i, f := range cf.FreeVars {
						if f == fv {
							idx = i
						}
					}
					if idx < 0 || cf.Parent() != ld {
						return false
					}
					for _, b := range ld.Blocks {
						for _, ins := range b.Instrs {
							mc, ok := ins.(*ssa.MakeClosure)
							if !ok || mc.Fn != ssa.Value(cf) || idx >= len(mc.Bindings) {
								continue
							}
							cell, ok := mc.Bindings[idx].(*ssa.Alloc)
							if !ok {
								return false
							}
							n := 0
							for _, r := range refs(cell) {
								if st, ok := r.(*ssa.Store); ok && st.Addr == ssa.Value(cell) {
									n++
									if st.Val != ssa.Value(ld.Params[1]) {
										return false
									}
								}
							}
							return n == 1
						}
					}
					return false
				}
				isFoundValue := func(fa *ssa.FieldAddr) bool {
					if fieldAddrName(fa) != "Value" {
						return false
					}
					if ex, ok := fa.X.(*ssa.Extract); ok {
						if lk, ok := ex.Tuple.(*ssa.Lookup); ok && isKeyParam(lk.Index) {
							return true
						}
					}
					return false
				}
				if fa, ok := x.X.(*ssa.FieldAddr); ok && rep.entry == nil && isFoundValue(fa) {
					nv++
					return
				}
				// entry payload: (found.Value).(*entry).value
				if fa, ok := x.X.(*ssa.FieldAddr); ok && rep.entry != nil && fa.Field == rep.valIdx && namedOf(fa.X.Type()) == rep.entry {
					if ta, ok := fa.X.(*ssa.TypeAssert); ok {
						if l2, ok := ta.X.(*ssa.UnOp); ok && l2.Op == token.MUL {
							if fa2, ok := l2.X.(*ssa.FieldAddr); ok && isFoundValue(fa2) {
								nv++
								return
							}
						}
					}
				}
			}
			nv++
			bad2 = append(bad2, "Load returns something other than the Value of the element found under the key at "+p.Pos(pos))
		}
		for _, b := range ld.Blocks {
			if ret, ok := b.Instrs[len(b.Instrs)-1].(*ssa.Return); ok && b != ld.Recover && len(ret.Results) >= 1 {
				trace(ret.Results[0], ret.Pos(), 0)
			}
		}
		c.Check(len(bad2) == 0 && nv > 0, "C09-LIVE", fnName(ld), "own-value", ld.Pos(), fmt.Sprintf("%d returned value(s), each the found element's Value", nv), uniqJoin(append(bad2, fmt.Sprintf("%d values", nv)), 2))
	}
}

// loadFollowsStore: the load executes after the store on every path (same block later, or the
// store's block strictly dominates the load's).
func loadFollowsStore(ld *ssa.UnOp, st *ssa.Store) bool {
	if ld.Block() == st.Block() {
		return indexIn(ld) > indexIn(st)
	}
	return st.Block().Dominates(ld.Block())
}
