package engine

import (
	"fmt"
	"regexp/syntax"
	"sort"
	"strings"
)

// Engine R — regular-language comparison of Go regular expressions, decided by product
// construction over the joint rune partition of both programs (regexp/syntax compiles the
// patterns; nothing is matched against sample strings).
//
// Semantics compared: the SEARCH language of (*Regexp).MatchString — w is accepted iff
// some substring matches with ^/$ evaluated in the context of w. Full-match languages are
// obtained by wrapping the pattern in ^(?:…)$. Supported zero-width assertions: \A/^ and
// \z/$ without (?m); anything else (word boundaries, multi-line anchors, case folding)
// makes the comparison undecided.

type rxNFA struct {
	src  string
	prog *syntax.Prog
}

func rxCompile(pat string) (*rxNFA, error) {
	re, err := syntax.Parse(pat, syntax.Perl)
	if err != nil {
		return nil, err
	}
	prog, err := syntax.Compile(re.Simplify())
	if err != nil {
		return nil, err
	}
	for _, in := range prog.Inst {
		switch in.Op {
		case syntax.InstRune, syntax.InstRune1:
			if syntax.Flags(in.Arg)&syntax.FoldCase != 0 {
				return nil, fmt.Errorf("case folding is not supported by the language comparison")
			}
		case syntax.InstEmptyWidth:
			if syntax.EmptyOp(in.Arg)&^(syntax.EmptyBeginText|syntax.EmptyEndText) != 0 {
				return nil, fmt.Errorf("zero-width assertion other than ^ and $ (text) is not supported")
			}
		}
	}
	return &rxNFA{src: pat, prog: prog}, nil
}

func rxParseOnly(pat string) (*syntax.Regexp, error) { return syntax.Parse(pat, syntax.Perl) }

type rxState struct {
	pcs     string // sorted thread entry points, encoded
	begin   bool
	matched bool
}

func encodePCs(m map[uint32]bool) string {
	xs := make([]int, 0, len(m))
	for k := range m {
		xs = append(xs, int(k))
	}
	sort.Ints(xs)
	var sb strings.Builder
	for _, x := range xs {
		fmt.Fprintf(&sb, "%d,", x)
	}
	return sb.String()
}

func decodePCs(s string) []uint32 {
	var out []uint32
	for _, f := range strings.Split(s, ",") {
		if f == "" {
			continue
		}
		var x int
		fmt.Sscanf(f, "%d", &x)
		out = append(out, uint32(x))
	}
	return out
}

// closure follows epsilon edges; returns the rune-consuming instructions reached and
// whether Match is reached.
func (n *rxNFA) closure(pcs []uint32, begin, end bool) ([]uint32, bool) {
	seen := map[uint32]bool{}
	var cons []uint32
	match := false
	stack := append([]uint32{}, pcs...)
	for len(stack) > 0 {
		pc := stack[len(stack)-1]
		stack = stack[:len(stack)-1]
		if seen[pc] {
			continue
		}
		seen[pc] = true
		in := &n.prog.Inst[pc]
		switch in.Op {
		case syntax.InstAlt, syntax.InstAltMatch:
			stack = append(stack, in.Out, in.Arg)
		case syntax.InstCapture, syntax.InstNop:
			stack = append(stack, in.Out)
		case syntax.InstEmptyWidth:
			need := syntax.EmptyOp(in.Arg)
			ok := true
			if need&syntax.EmptyBeginText != 0 && !begin {
				ok = false
			}
			if need&syntax.EmptyEndText != 0 && !end {
				ok = false
			}
			if ok {
				stack = append(stack, in.Out)
			}
		case syntax.InstMatch:
			match = true
		case syntax.InstFail:
		default:
			cons = append(cons, pc)
		}
	}
	return cons, match
}

func (n *rxNFA) initial() rxState {
	return rxState{pcs: encodePCs(map[uint32]bool{uint32(n.prog.Start): true}), begin: true}
}

func (n *rxNFA) accepts(s rxState) bool {
	if s.matched {
		return true
	}
	_, m := n.closure(decodePCs(s.pcs), s.begin, true)
	return m
}

func (n *rxNFA) step(s rxState, r rune) rxState {
	if s.matched {
		return rxState{matched: true}
	}
	cons, m := n.closure(decodePCs(s.pcs), s.begin, false)
	if m {
		return rxState{matched: true}
	}
	next := map[uint32]bool{uint32(n.prog.Start): true} // unanchored search: a new attempt may start here
	for _, pc := range cons {
		in := &n.prog.Inst[pc]
		if in.MatchRune(r) {
			next[in.Out] = true
		}
	}
	return rxState{pcs: encodePCs(next)}
}

func (n *rxNFA) boundaries(b map[rune]bool) {
	for _, in := range n.prog.Inst {
		switch in.Op {
		case syntax.InstRune:
			if len(in.Rune) == 1 {
				b[in.Rune[0]] = true
				b[in.Rune[0]+1] = true
			}
			for i := 0; i+1 < len(in.Rune); i += 2 {
				b[in.Rune[i]] = true
				b[in.Rune[i+1]+1] = true
			}
		case syntax.InstRune1:
			b[in.Rune[0]] = true
			b[in.Rune[0]+1] = true
		case syntax.InstRuneAnyNotNL:
			b['\n'] = true
			b['\n'+1] = true
		}
	}
}

// RxCompare explores the product automaton. It returns a word accepted by a and not by b
// (aNotB) and one accepted by b and not by a (bNotA), each nil when none exists.
func RxCompare(a, b *rxNFA) (aNotB, bNotA []rune, states int) {
	bs := map[rune]bool{0: true}
	a.boundaries(bs)
	b.boundaries(bs)
	var reps []rune
	for r := range bs {
		if r >= 0 && r <= 0x10FFFF {
			reps = append(reps, r)
		}
	}
	sort.Slice(reps, func(i, j int) bool { return reps[i] < reps[j] })
	type pair struct{ x, y rxState }
	type node struct {
		p    pair
		word []rune
	}
	start := pair{a.initial(), b.initial()}
	seen := map[pair]bool{start: true}
	queue := []node{{p: start}}
	for len(queue) > 0 {
		nd := queue[0]
		queue = queue[1:]
		states++
		ax, by := a.accepts(nd.p.x), b.accepts(nd.p.y)
		if ax && !by && aNotB == nil {
			aNotB = append([]rune{}, nd.word...)
			if aNotB == nil {
				aNotB = []rune{}
			}
		}
		if by && !ax && bNotA == nil {
			bNotA = append([]rune{}, nd.word...)
			if bNotA == nil {
				bNotA = []rune{}
			}
		}
		if aNotB != nil && bNotA != nil {
			return
		}
		for _, r := range reps {
			nx := pair{a.step(nd.p.x, r), b.step(nd.p.y, r)}
			if !seen[nx] {
				seen[nx] = true
				w := append(append([]rune{}, nd.word...), r)
				queue = append(queue, node{p: nx, word: w})
			}
		}
		if states > 200000 {
			return
		}
	}
	return
}

// RxEquivalent compares two patterns; err != nil means undecided.
func RxEquivalent(pa, pb string) (equal bool, witness string, states int, err error) {
	a, err := rxCompile(pa)
	if err != nil {
		return false, "", 0, fmt.Errorf("%q: %v", pa, err)
	}
	b, err := rxCompile(pb)
	if err != nil {
		return false, "", 0, fmt.Errorf("%q: %v", pb, err)
	}
	x, y, n := RxCompare(a, b)
	if n > 200000 {
		return false, "", n, fmt.Errorf("state budget exhausted")
	}
	if x != nil {
		return false, fmt.Sprintf("%q is accepted by the pattern but not by the reference", string(x)), n, nil
	}
	if y != nil {
		return false, fmt.Sprintf("%q is accepted by the reference but not by the pattern", string(y)), n, nil
	}
	return true, "", n, nil
}

// RxIncluded decides L(pa) ⊆ L(pb).
func RxIncluded(pa, pb string) (ok bool, witness string, err error) {
	a, err := rxCompile(pa)
	if err != nil {
		return false, "", err
	}
	b, err := rxCompile(pb)
	if err != nil {
		return false, "", err
	}
	x, _, n := RxCompare(a, b)
	if n > 200000 {
		return false, "", fmt.Errorf("state budget exhausted")
	}
	if x != nil {
		return false, string(x), nil
	}
	return true, "", nil
}
