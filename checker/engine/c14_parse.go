package engine

import (
	"fmt"
	"go/token"
	"strings"
	"sync"

	"golang.org/x/tools/go/ssa"
)

// C14-PARSE: the rule-item parser's complete input/output table, by segmented-string abstract
// evaluation (substr_eval.go). Every rule text has exactly one of these skeletons (X: no '=' and no
// '|'; Y: no '|'; T: anything; each opaque part possibly absent):
//
//   plain      X                      key = text
//   bar        X '|' T                T empty: key = text            else key = X, message = label(T)
//   eq         X '=' Y                key = X, value = Y
//   eq+bar     X '=' Y '|' T          T empty: key = X, value = Y'|'  else key = X, value = Y, message = label(T)
//
// with label(T) = ExplainZh + " " + T when the CJK pattern matches T, ExplainEn + " " + T otherwise
// (the pattern's outcome is the only thing about T's content the parser may depend on). Y and T are
// refined (Y = V | V '=' V2, T = U | U '|' W) so that a parser looking at a later '=' or '|' is
// exposed. The evaluation also proves every slice/index expression of the parser in range on every
// text (used by C13-BOUNDS) — the skeletons are exhaustive.

type parseCase struct {
	family string
	items  []pItem
	// expectation in boundaries; -1 = empty text
	key, val, msg [2]int
}

func parseCases() []parseCase {
	var out []parseCase
	opt := []bool{false, true}
	type variant struct {
		items []pItem
	}
	// Y variants: (nothing) | V | V '=' V2 with optional V, V2
	yVariants := func() [][]pItem {
		var vs [][]pItem
		vs = append(vs, nil)
		vs = append(vs, []pItem{{name: "V", excl: "=|"}})
		for _, hv := range opt {
			for _, hv2 := range opt {
				var it []pItem
				if hv {
					it = append(it, pItem{name: "V", excl: "=|"})
				}
				it = append(it, pItem{lit: '='})
				if hv2 {
					it = append(it, pItem{name: "V2", excl: "|"})
				}
				vs = append(vs, it)
			}
		}
		return vs
	}
	// T variants (non-empty ones): U | U? '|' W?
	tVariants := func() [][]pItem {
		var vs [][]pItem
		vs = append(vs, []pItem{{name: "U", excl: "|"}})
		for _, hu := range opt {
			for _, hw := range opt {
				var it []pItem
				if hu {
					it = append(it, pItem{name: "U", excl: "|"})
				}
				it = append(it, pItem{lit: '|'})
				if hw {
					it = append(it, pItem{name: "W"})
				}
				vs = append(vs, it)
			}
		}
		return vs
	}
	none := [2]int{-1, -1}
	for _, hx := range opt {
		var x []pItem
		if hx {
			x = []pItem{{name: "X", excl: "=|"}}
		}
		nx := len(x)
		// plain
		out = append(out, parseCase{family: "plain", items: append([]pItem{}, x...), key: [2]int{0, nx}, val: none, msg: none})
		// bar, nothing after
		{
			it := append(append([]pItem{}, x...), pItem{lit: '|'})
			out = append(out, parseCase{family: "bar:nothing-after", items: it, key: [2]int{0, len(it)}, val: none, msg: none})
		}
		// bar + message
		for _, t := range tVariants() {
			it := append(append(append([]pItem{}, x...), pItem{lit: '|'}), t...)
			out = append(out, parseCase{family: "bar:message", items: it, key: [2]int{0, nx}, val: none, msg: [2]int{nx + 1, len(it)}})
		}
		for _, y := range yVariants() {
			base := append(append(append([]pItem{}, x...), pItem{lit: '='}), y...)
			ny := len(base)
			// eq
			out = append(out, parseCase{family: "eq", items: base, key: [2]int{0, nx}, val: [2]int{nx + 1, ny}, msg: none})
			// eq + bar, nothing after
			{
				it := append(append([]pItem{}, base...), pItem{lit: '|'})
				out = append(out, parseCase{family: "eq+bar:nothing-after", items: it, key: [2]int{0, nx}, val: [2]int{nx + 1, len(it)}, msg: none})
			}
			for _, t := range tVariants() {
				it := append(append(append([]pItem{}, base...), pItem{lit: '|'}), t...)
				out = append(out, parseCase{family: "eq+bar:message", items: it, key: [2]int{0, nx}, val: [2]int{nx + 1, ny}, msg: [2]int{ny + 1, len(it)}})
			}
		}
	}
	return out
}

type parseVerdict struct {
	decided bool                     // every case of every family walked without an undecided path
	safe    map[ssa.Instruction]bool // slice/index expressions proved in range on every text
	byFam   map[string][]string      // family -> mismatches
	undec   map[string][]string      // family -> reasons
	ncases  int
	npaths  int
}

func skeletonText(items []pItem) string {
	var sb strings.Builder
	for _, it := range items {
		if it.lit != 0 {
			sb.WriteByte(it.lit)
		} else {
			sb.WriteString("<" + it.name + ">")
		}
	}
	if sb.Len() == 0 {
		return `""`
	}
	return sb.String()
}

func evalParser(p *Prog, fn *ssa.Function) *parseVerdict {
	v := &parseVerdict{decided: true, safe: map[ssa.Instruction]bool{}, byFam: map[string][]string{}, undec: map[string][]string{}}
	touched := map[ssa.Instruction]bool{}
	unsafeI := map[ssa.Instruction]bool{}
	type work struct {
		pc    parseCase
		depth int
	}
	var queue []work
	for _, pc := range parseCases() {
		queue = append(queue, work{pc, 0})
	}
	for len(queue) > 0 {
		w := queue[0]
		queue = queue[1:]
		pc := w.pc
		e := &pEval{p: p, fn: fn, items: pc.items, touched: touched, unsafeI: unsafeI}
		e.run()
		// a search could not be decided because a segment may or may not contain the character:
		// replace the case by the cases that say where
		if e.refine != nil && w.depth < 4 {
			undec := false
			for _, r := range e.results {
				if r.undecided != "" {
					undec = true
				}
			}
			if undec {
				for _, items := range refineItems(pc.items, *e.refine) {
					shift := len(items) - len(pc.items)
					remap := func(b [2]int) [2]int {
						if b[0] < 0 {
							return b
						}
						for i := range b {
							if b[i] > e.refine.item {
								b[i] += shift
							}
						}
						return b
					}
					queue = append(queue, work{parseCase{family: pc.family, items: items, key: remap(pc.key), val: remap(pc.val), msg: remap(pc.msg)}, w.depth + 1})
				}
				continue
			}
		}
		v.ncases++
		sk := skeletonText(pc.items)
		sub := func(b [2]int) pStr {
			if b[0] < 0 {
				return pStr{}
			}
			return e.norm(pStr{[]pPart{{kind: 0, a: b[0], b: b[1]}}})
		}
		wantKey, wantVal, wantMsg := e.canon(sub(pc.key)), e.canon(sub(pc.val)), e.canon(sub(pc.msg))
		if len(e.results) == 0 {
			v.decided = false
			v.undec[pc.family] = append(v.undec[pc.family], "no path reaches a return for "+sk)
		}
		for _, r := range e.results {
			v.npaths++
			if r.undecided != "" {
				v.decided = false
				v.undec[pc.family] = append(v.undec[pc.family], "for texts "+sk+": "+r.undecided)
				continue
			}
			for _, u := range r.unsafe {
				v.byFam[pc.family] = append(v.byFam[pc.family], "for texts "+sk+" the parser can panic: "+u)
			}
			if len(r.vals) != 3 {
				v.byFam[pc.family] = append(v.byFam[pc.family], fmt.Sprintf("%d results returned, want key, value, message", len(r.vals)))
				continue
			}
			strs := make([]string, 3)
			bad := false
			for i, rv := range r.vals {
				s, ok := rv.(pStr)
				if !ok {
					v.decided = false
					v.undec[pc.family] = append(v.undec[pc.family], "for texts "+sk+": result "+[]string{"key", "value", "message"}[i]+" not modelled: "+e.show(rv))
					bad = true
					break
				}
				strs[i] = e.canon(s)
			}
			if bad {
				continue
			}
			if strs[0] != wantKey {
				v.byFam[pc.family] = append(v.byFam[pc.family], fmt.Sprintf("for texts %s the key is %s, want %s", sk, orEmpty(strs[0]), orEmpty(wantKey)))
			}
			if strs[1] != wantVal {
				v.byFam[pc.family] = append(v.byFam[pc.family], fmt.Sprintf("for texts %s the value is %s, want %s", sk, orEmpty(strs[1]), orEmpty(wantVal)))
			}
			if wantMsg == "" {
				if strs[2] != "" {
					v.byFam[pc.family] = append(v.byFam[pc.family], fmt.Sprintf("for texts %s a message %s is returned, want none", sk, strs[2]))
				}
				continue
			}
			// message: label chosen by the CJK test on the message text itself
			choice, tested := r.choices["IncludeZhRe:"+wantMsg]
			switch {
			case !tested:
				if strs[2] == "" {
					v.byFam[pc.family] = append(v.byFam[pc.family], fmt.Sprintf("for texts %s no message is returned, want the labelled %s", sk, wantMsg))
				} else {
					v.byFam[pc.family] = append(v.byFam[pc.family], fmt.Sprintf("for texts %s the message %s is built without testing the message text %s for CJK characters", sk, strs[2], wantMsg))
				}
			default:
				lname := "ExplainEn"
				if choice {
					lname = "ExplainZh"
				}
				// the label is a package-level constant (its text) or variable (by name)
				label := "{" + lname + "}"
				if sp := p.Pkg("valid"); sp != nil {
					if nc, ok := sp.Members[lname].(*ssa.NamedConst); ok {
						if txt, ok := constString(nc.Value); ok {
							label = e.canon(pStr{[]pPart{{kind: 1, s: txt}}})
						}
					}
				}
				want := label + "' '" + wantMsg
				if strs[2] != want {
					v.byFam[pc.family] = append(v.byFam[pc.family], fmt.Sprintf("for texts %s with the CJK test %v the message is %s, want %s", sk, choice, orEmpty(strs[2]), want))
				}
			}
		}
	}
	for ins := range touched {
		if !unsafeI[ins] && v.decided {
			v.safe[ins] = true
		}
	}
	return v
}

func orEmpty(s string) string {
	if s == "" {
		return `""`
	}
	return s
}

var parseVerdictCache sync.Map // *Prog -> *parseVerdict

func parserVerdict(p *Prog) *parseVerdict {
	fn := p.Func("valid", "ParseValidNameKV")
	if fn == nil {
		return nil
	}
	if v, ok := parseVerdictCache.Load(p); ok {
		return v.(*parseVerdict)
	}
	v := evalParser(p, fn)
	parseVerdictCache.Store(p, v)
	return v
}

func runC14Parse(c *Ctx) {
	p := c.P
	c.Rule("C14-PARSE", "ParseValidNameKV, evaluated on every skeleton of a rule text (plain, bar, eq, eq+bar; message present or not; later '=' and '|' in value and message), returns exactly: key = text before the first '=' that precedes any '|' (else before the first '|' that is followed by something, else the whole text); value = the text after that '=' up to the first '|' that is followed by something; message = the text after that '|' with the label chosen by the CJK test on it; and cannot panic", 6)
	fn := p.Func("valid", "ParseValidNameKV")
	if fn == nil {
		c.Unk("C14-PARSE", "valid.ParseValidNameKV", "anchor", token.NoPos, "parser not found")
		return
	}
	c.Funcs[fnName(fn)] = true
	v := parserVerdict(p)
	c.Sites += v.npaths
	for _, fam := range []string{"plain", "bar:nothing-after", "bar:message", "eq", "eq+bar:nothing-after", "eq+bar:message"} {
		switch {
		case len(v.byFam[fam]) > 0:
			c.Bad("C14-PARSE", fnName(fn), fam, fn.Pos(), uniqJoin(v.byFam[fam], 3))
		case len(v.undec[fam]) > 0:
			c.Unk("C14-PARSE", fnName(fn), fam, fn.Pos(), uniqJoin(v.undec[fam], 2))
		default:
			c.OK("C14-PARSE", fnName(fn), fam, fn.Pos(), "every path over every skeleton of this family returns the specified key, value and message")
		}
	}
	c.Extra["parser_table_cases"] = v.ncases
	c.Extra["parser_table_paths"] = v.npaths
}
