package engine

import (
	"fmt"
	"reflect"
	"regexp"
	"strings"
)

// Specification of the verdict of each format/content rule as a boolean formula over
// trusted library atoms (the opaque atoms decided along a trace). The formula is the
// oracle; it was written from README §4.2.1 and the property statement, one line each.

type tri int

const (
	triNo tri = iota
	triYes
	triSkip    // outside the property (configuration error path, widened loop summary)
	triUnknown // the atoms the specification needs were not found on the trace
)

type atomHit struct {
	Key string
	Val int
	Sub []string
}

func findAtoms(t Trace, re *regexp.Regexp) []atomHit {
	var out []atomHit
	for _, k := range t.Order {
		v, ok := t.PC[k]
		if !ok {
			continue
		}
		if m := re.FindStringSubmatch(k); m != nil {
			out = append(out, atomHit{Key: k, Val: v, Sub: m})
		}
	}
	return out
}

func kindClass(k reflect.Kind) string {
	switch k {
	case reflect.String:
		return "string"
	case reflect.Int, reflect.Int8, reflect.Int16, reflect.Int32, reflect.Int64:
		return "int"
	case reflect.Uint, reflect.Uint8, reflect.Uint16, reflect.Uint32, reflect.Uint64:
		return "uint"
	case reflect.Float32, reflect.Float64:
		return "float"
	case reflect.Slice:
		return "slice"
	case reflect.Array:
		return "array"
	}
	return "other"
}

const cusVal = `valid.ParseValidNameKV(validName)#1`

var (
	reMatchGlobal = regexp.MustCompile(`^\(\*regexp\.Regexp\)\.MatchString\(g:valid\.(\w+), (.*)\)$`)
	reParseIPNil  = regexp.MustCompile(`^eq\(net\.ParseIP\(tv\.String\(\)\),nil\)$`)
	reTo4Nil      = regexp.MustCompile(`^eq\(\(net\.IP\)\.To4\(net\.ParseIP\(tv\.String\(\)\)\),nil\)$`)
	reTimeParse   = regexp.MustCompile(`^eq\(nil,time\.Parse\((.*), tv\.String\(\)\)#1\)$`)
	reValEmpty    = regexp.MustCompile(`^eq\("",` + regexp.QuoteMeta(cusVal) + `\)$`)
	reHasPrefix   = regexp.MustCompile(`^strings\.HasPrefix\((.*), (.*)\)$`)
	reHasSuffix   = regexp.MustCompile(`^strings\.HasSuffix\((.*), (.*)\)$`)
	reJSONValid   = regexp.MustCompile(`^encoding/json\.Valid\((.*)\)$`)
	reStatErr     = regexp.MustCompile(`^eq\(nil,os\.Stat\(tv\.String\(\)\)#1\)$`)
	reIsDir       = regexp.MustCompile(`^invoke:[\w/.]*FileInfo\.IsDir\(os\.Stat\(tv\.String\(\)\)#0\)$`)
	reReMatch     = regexp.MustCompile(`^regexp\.MatchString\((.*), tv\.String\(\)\)#0$`)
	reInEq        = regexp.MustCompile(`^eq\((.*valid\.ValidNamesSplit\(.*)\)$`)
	reContains    = regexp.MustCompile(`^strings\.Contains\((.*), (strings\.Trim\(valid\.ValidNamesSplit\(.*)\)$`)
	reUniqueStr   = regexp.MustCompile(`^eq\(len\(makemap#\d+\),len\(strings\.Split\(tv\.String\(\), ","\)\)\)$`)
	reUniqueLen   = regexp.MustCompile(`^eq\(len\(makemap#\d+\),(meas:len|meas:len-array|tv\.Len\(\))\)$`)
	reBarePhi     = regexp.MustCompile(`^φ:[^()]*$`)
	reOption      = regexp.MustCompile(`^strings\.Trim\(valid\.ValidNamesSplit\(.*, \[47\]\)\[.*\], "'"\)$`)
)

// which global pattern a regex rule must consult is checked by language (engine R) in
// C05-LANG; here the global is only identified.
var regexRules = map[string]bool{"phone": true, "email": true, "idcard": true, "int": true, "float": true}

type specResult struct {
	Viol    tri
	Why     string
	Global  string // for regex rules: the pattern variable consulted
	Layout  string // for date rules: key of the layout given to time.Parse
	StatErr bool   // verdict may be carried by the environment-error clause
}

func hasBarePhi(t Trace) bool {
	for k := range t.PC {
		if reBarePhi.MatchString(k) {
			return true
		}
	}
	return false
}

func one(hits []atomHit) (atomHit, bool) {
	if len(hits) != 1 {
		return atomHit{}, false
	}
	return hits[0], true
}

// expectVerdict evaluates the specification formula of `rule` on a trace whose value has
// kind k. nE: number of configuration/type-error clauses written on the trace.
func expectVerdict(rule string, k reflect.Kind, t Trace, nE int) specResult {
	kc := kindClass(k)
	strOnly := func() (specResult, bool) {
		if kc != "string" {
			return specResult{Viol: triSkip, Why: "non-string input: type-error clause expected"}, true
		}
		return specResult{}, false
	}
	switch rule {
	case "phone", "email", "idcard":
		if r, done := strOnly(); done {
			return r
		}
		h, ok := one(findAtoms(t, reMatchGlobal))
		if !ok || h.Sub[2] != "tv.String()" {
			return specResult{Viol: triUnknown, Why: "expected exactly one <pattern>.MatchString(tv.String())"}
		}
		return specResult{Viol: b2t(h.Val == 0), Global: h.Sub[1]}
	case "int", "float":
		if kc == "string" {
			h, ok := one(findAtoms(t, reMatchGlobal))
			if !ok || h.Sub[2] != "tv.String()" {
				return specResult{Viol: triUnknown, Why: "expected exactly one <pattern>.MatchString(tv.String())"}
			}
			return specResult{Viol: b2t(h.Val == 0), Global: h.Sub[1]}
		}
		okKinds := map[string]bool{"int": rule == "int", "uint": rule == "int", "float": rule == "float"}
		return specResult{Viol: b2t(!okKinds[kc])}
	case "ip", "ipv4", "ipv6":
		if r, done := strOnly(); done {
			return r
		}
		p, ok := one(findAtoms(t, reParseIPNil))
		if !ok && rule == "ipv4" {
			// ParseIP(s).To4() != nil alone: To4 of the nil IP (text that does not parse) is nil, so the test of the
			// parse result itself is implied
			if q, okq := one(findAtoms(t, reTo4Nil)); okq {
				return specResult{Viol: b2t(q.Val == 1)}
			}
		}
		if !ok {
			return specResult{Viol: triUnknown, Why: "expected net.ParseIP(tv.String()) compared with nil"}
		}
		if rule == "ip" {
			return specResult{Viol: b2t(p.Val == 1)}
		}
		if p.Val == 1 {
			return specResult{Viol: triYes}
		}
		q, ok := one(findAtoms(t, reTo4Nil))
		if !ok {
			return specResult{Viol: triUnknown, Why: "expected ParseIP(..).To4() compared with nil"}
		}
		if rule == "ipv4" {
			return specResult{Viol: b2t(q.Val == 1)}
		}
		return specResult{Viol: b2t(q.Val == 0)}
	case "year", "year2month", "date", "datetime":
		if r, done := strOnly(); done {
			return r
		}
		h, ok := one(findAtoms(t, reTimeParse))
		if !ok {
			return specResult{Viol: triUnknown, Why: "expected the error of time.Parse(layout, tv.String()) compared with nil"}
		}
		return specResult{Viol: b2t(h.Val == 0), Layout: h.Sub[1]}
	case "prefix", "suffix":
		if r, done := strOnly(); done {
			return r
		}
		re := reHasPrefix
		if rule == "suffix" {
			re = reHasSuffix
		}
		h, ok := one(findAtoms(t, re))
		if !ok {
			return specResult{Viol: triUnknown, Why: "expected strings.Has" + strings.Title(rule) + "(input, argument)"}
		}
		if h.Sub[1] != "tv.String()" || h.Sub[2] != cusVal {
			return specResult{Viol: triUnknown, Why: "arguments of Has" + strings.Title(rule) + " are not (input, rule value): " + h.Key}
		}
		return specResult{Viol: b2t(h.Val == 0)}
	case "json":
		if r, done := strOnly(); done {
			return r
		}
		h, ok := one(findAtoms(t, reJSONValid))
		if !ok || !strings.Contains(h.Sub[1], "tv.String()") {
			return specResult{Viol: triUnknown, Why: "expected json.Valid(bytes of tv.String())"}
		}
		return specResult{Viol: b2t(h.Val == 0)}
	case "file", "dir":
		if r, done := strOnly(); done {
			return r
		}
		e, ok := one(findAtoms(t, reStatErr))
		if !ok {
			return specResult{Viol: triUnknown, Why: "expected the error of os.Stat(tv.String()) compared with nil"}
		}
		if e.Val == 0 {
			return specResult{Viol: triYes, StatErr: true}
		}
		d, ok := one(findAtoms(t, reIsDir))
		if !ok {
			return specResult{Viol: triUnknown, Why: "expected FileInfo.IsDir() of the stat result"}
		}
		if rule == "file" {
			return specResult{Viol: b2t(d.Val == 1)}
		}
		return specResult{Viol: b2t(d.Val == 0)}
	case "re":
		if r, done := strOnly(); done {
			return r
		}
		if nE > 0 {
			return specResult{Viol: triSkip, Why: "malformed rule argument"}
		}
		h, ok := one(findAtoms(t, reReMatch))
		if !ok {
			return specResult{Viol: triUnknown, Why: "expected regexp.MatchString(pattern, tv.String())"}
		}
		return specResult{Viol: b2t(h.Val == 0)}
	case "in", "include":
		if nE > 0 {
			return specResult{Viol: triSkip, Why: "malformed rule argument or non-string include"}
		}
		if rule == "include" && kc != "string" {
			return specResult{Viol: triUnknown, Why: "include on a non-string must report a configuration error"}
		}
		input := "tv.String()"
		if kc != "string" {
			input = "valid.ToStr(tv.Interface())"
		}
		anyMatch := false
		n := 0
		if rule == "in" {
			for _, h := range findAtoms(t, reInEq) {
				// eq(a,b) with keys sorted: one side is the input, the other an option
				inner := h.Key[3 : len(h.Key)-1]
				var opt string
				switch {
				case strings.HasSuffix(inner, ","+input):
					opt = strings.TrimSuffix(inner, ","+input)
				case strings.HasPrefix(inner, input+","):
					opt = strings.TrimPrefix(inner, input+",")
				default:
					return specResult{Viol: triUnknown, Why: "in: comparison does not involve the input " + input + ": " + h.Key}
				}
				if !reOption.MatchString(opt) {
					return specResult{Viol: triUnknown, Why: "in: option is not a quote-trimmed item of the '/'-split value: " + opt}
				}
				n++
				if h.Val == 1 {
					anyMatch = true
				}
			}
		} else {
			for _, h := range findAtoms(t, reContains) {
				if h.Sub[1] != input || !reOption.MatchString(h.Sub[2]) {
					return specResult{Viol: triUnknown, Why: "include: expected strings.Contains(input, option): " + h.Key}
				}
				n++
				if h.Val == 1 {
					anyMatch = true
				}
			}
		}
		return specResult{Viol: b2t(!anyMatch)}
	case "ints":
		switch kc {
		case "int", "uint":
			return specResult{Viol: triNo}
		case "string", "slice", "array":
			if hasBarePhi(t) {
				return specResult{Viol: triSkip, Why: "verdict flows through a widened loop summary"}
			}
			bad := false
			for _, h := range findAtoms(t, reMatchGlobal) {
				want := "strings.Split(tv.String(), "
				if kc != "string" {
					want = "valid.ToStr(tv.Index("
				}
				if !strings.HasPrefix(h.Sub[2], want) {
					return specResult{Viol: triUnknown, Why: "ints: element matched is not an item of the input: " + h.Key}
				}
				if h.Val == 0 {
					bad = true
				}
			}
			return specResult{Viol: b2t(bad), Global: "IntRe?"}
		}
		return specResult{Viol: triSkip, Why: "unsupported kind: configuration-error clause expected"}
	case "unique":
		switch kc {
		case "string":
			h, ok := one(findAtoms(t, reUniqueStr))
			if !ok {
				return specResult{Viol: triUnknown, Why: "expected len(set) == len(strings.Split(input, \",\"))"}
			}
			return specResult{Viol: b2t(h.Val == 0)}
		case "slice", "array":
			h, ok := one(findAtoms(t, reUniqueLen))
			if !ok {
				return specResult{Viol: triUnknown, Why: "expected len(set) == tv.Len()"}
			}
			return specResult{Viol: b2t(h.Val == 0)}
		}
		return specResult{Viol: triSkip, Why: "unsupported kind: configuration-error clause expected"}
	}
	return specResult{Viol: triSkip, Why: "no content specification for this rule"}
}

func b2t(b bool) tri {
	if b {
		return triYes
	}
	return triNo
}

// expected layouts of the date rules, as keys of symbolic strings.
func expectedLayouts(rule string) map[string]bool {
	sep := `strings.Trim(` + cusVal + `, "'")`
	S := func(i int) string {
		return fmt.Sprintf(`strings.Split(strings.Trim(%s, "'"), ",")[%d]`, cusVal, i)
	}
	cat := func(parts ...string) string {
		var vals []AVal
		for _, p := range parts {
			if strings.HasPrefix(p, "$") {
				vals = append(vals, Sym{K: p[1:]})
			} else {
				vals = append(vals, cstStr(p))
			}
		}
		var acc AVal = cstStr("")
		for _, v := range vals {
			acc = strCat(acc, v)
		}
		return keyOf(acc)
	}
	out := map[string]bool{}
	switch rule {
	case "year":
		out[cat("2006")] = true
	case "year2month":
		out[cat("2006-01")] = true
		out[cat("2006", "$"+sep, "01")] = true
	case "date":
		out[cat("2006-01-02")] = true
		out[cat("2006", "$"+sep, "01", "$"+sep, "02")] = true
	case "datetime":
		out[cat("2006-01-02 15:04:05")] = true
		a, b, c := "$"+S(0), "$"+S(1), "$"+S(2)
		out[cat("2006", a, "01", a, "02", " ", "15", ":", "04", ":", "05")] = true
		out[cat("2006", a, "01", a, "02", b, "15", ":", "04", ":", "05")] = true
		out[cat("2006", a, "01", a, "02", b, "15", c, "04", c, "05")] = true
	}
	return out
}
