package engine

import (
	"fmt"
	"go/token"
	"reflect"
	"regexp"
	"sort"
	"strings"

	"golang.org/x/tools/go/ssa"
)

func init() {
	register(&PropDef{
		ID: "C20",
		Explain: "Well-formedness of the dumper's output decided on the token sequences it can emit: the two mutually recursive emitters are interpreted abstractly per reflect kind (kind-set typestate), loops unrolled for 0..3 iterations, recursive calls replaced by a VALUE token; every emitted sequence must match the JSON shape for that kind — " +
			"object: '{' (member (',' member)*)? '}' with a comma iff a member was already emitted; member: quoted name ':' value; array: '[' (value (',' value)*)? ']'; map: '{' (key ':' value (',' key ':' value)*)? '}' where a key is quoted exactly once; scalars: quoted text for strings/bools, bare text for numbers; nil pointer -> null. " +
			"C20-FLOAT the bit size given to AppendFloat agrees with the kind of the value. NOT covered: equality of scalar text with encoding/json (escapes, float formatting beyond bit size), embedded structs, containers longer than the unrolling (the separators' conditions are additionally compared with the loop guard).",
		Assume:  []string{"strconv.Append* emit a JSON number for finite values", "excluded as in the property: interface fields, pointers to scalars, time.Time, func/chan"},
		Trusted: []string{"go/types", "go/ssa"},
		Run: func(c *Ctx) {
			runC20(c)
			runC20Extra(c)
			runC20Reentrant(c)
			runExemptType(c, "C20-EXEMPT")
			runC20Facade(c)
			base(c, "STATE")
		},
	})
}

type dumpTrace struct {
	tokens    string
	kind      uint32 // kind set of the value when the function returned
	t         *Trace
	recs      []Event
	floatBits []int64
}

func tokenize(v AVal, sb *strings.Builder) {
	switch x := v.(type) {
	case Cst:
		if s, ok := isCstStr(x); ok {
			lit := false
			for _, ch := range s {
				switch ch {
				case '{', '}', '[', ']', ',', ':':
					sb.WriteRune(ch)
					lit = false
				case '"':
					sb.WriteByte('q')
					lit = false
				default:
					if !lit {
						sb.WriteByte('r')
						lit = true
					}
				}
			}
			return
		}
		if i, ok := isCstInt(x); ok {
			tokenize(cstStr(string(rune(i))), sb)
			return
		}
		sb.WriteByte('r')
	case StrCat:
		for _, p := range x.Parts {
			tokenize(p, sb)
		}
	default:
		sb.WriteByte('r')
	}
}

func exploreDump(p *Prog, fn *ssa.Function, c *Ctx) []dumpTrace {
	w := NewWalkEnv(p)
	in := w.In
	in.EagerWiden = false
	in.WidenAfter = 5
	in.MaxLoop = 9
	in.NoInline["valid.IsExported"] = true
	in.Models["(*strings.Builder).WriteByte"] = func(in *Interp, site ssa.Instruction, cc *ssa.CallCommon, a []AVal) (AVal, bool) {
		in.Emit("write", site, a[0], a[1])
		return Cst{}, true
	}
	in.Models["(*strings.Builder).Write"] = func(in *Interp, site ssa.Instruction, cc *ssa.CallCommon, a []AVal) (AVal, bool) {
		in.Emit("write", site, a[0], Sym{K: "bytes:" + keyOf(a[1])})
		return Tup{E: []AVal{Sym{K: "n"}, Cst{}}}, true
	}
	// container sizes are enumerated concretely (0..3) so that separators are decided exactly
	sizeOf := func(in *Interp, key string) int64 {
		return int64(in.Choose("size("+key+")", 4))
	}
	in.Models["(reflect.Value).Len"] = func(in *Interp, site ssa.Instruction, cc *ssa.CallCommon, a []AVal) (AVal, bool) {
		w.need(site, keyOf(a[0]), "Len", reflectNeedMask["Len"])
		return cstInt(sizeOf(in, keyOf(a[0]))), true
	}
	in.Models["(reflect.Value).NumField"] = func(in *Interp, site ssa.Instruction, cc *ssa.CallCommon, a []AVal) (AVal, bool) {
		w.need(site, keyOf(a[0]), "NumField", reflectNeedMask["NumField"])
		return cstInt(sizeOf(in, keyOf(a[0]))), true
	}
	nextCount := map[string]int64{}
	prevReset := in.ResetHook
	in.ResetHook = func() {
		prevReset()
		for k := range nextCount {
			delete(nextCount, k)
		}
	}
	in.Models["(*reflect.MapIter).Next"] = func(in *Interp, site ssa.Instruction, cc *ssa.CallCommon, a []AVal) (AVal, bool) {
		it := keyOf(a[0])
		owner := strings.TrimSuffix(it, ".MapRange()")
		n := sizeOf(in, owner)
		nextCount[it]++
		return cstBool(nextCount[it] <= n), true
	}
	in.Models["strconv.AppendFloat"] = func(in *Interp, site ssa.Instruction, cc *ssa.CallCommon, a []AVal) (AVal, bool) {
		in.Emit("appendfloat", site, a...)
		return Sym{K: "strconv.AppendFloat()"}, true
	}
	for _, name := range []string{"(*valid.dumpStruct).HandleDumpStruct", "(*valid.dumpStruct).loopHandleKV"} {
		name := name
		in.Models[name] = func(in *Interp, site ssa.Instruction, cc *ssa.CallCommon, a []AVal) (AVal, bool) {
			ev := []AVal{cstStr(name)}
			ev = append(ev, a...)
			for _, x := range a {
				if s, ok := x.(Sym); ok && isReflectValue(s.T) {
					ev = append(ev, Tok{Dom: "kset", Name: s.K, Args: []AVal{cstInt(int64(w.get(s.K)))}})
				}
			}
			in.Emit("rec", site, ev...)
			if cc.Signature().Results().Len() == 1 {
				return a[0], true
			}
			return Tup{}, true
		}
	}
	var out []dumpTrace
	for i, t := range in.Explore(fn, symArgs(fn), 20000) {
		if t.Converged {
			continue
		}
		if t.Cut != "" {
			if strings.Contains(t.Cut, "loop") {
				continue // longer than the unrolling
			}
			c.Unk("C20-EMIT", fnName(fn), "explore", fn.Pos(), t.Cut)
			continue
		}
		if t.Panic != "" {
			c.Bad("C20-EMIT", fnName(fn), "panic:"+shorten(t.Panic, 40), instrPos(t.PanicAt), "dumper can panic: "+t.Panic)
			continue
		}
		widened := false
		for k := range t.PC {
			if strings.Contains(k, "φ:") {
				widened = true
			}
		}
		if widened {
			continue
		}
		dt := dumpTrace{}
		var sb strings.Builder
		for _, e := range t.Events {
			switch e.Kind {
			case "write":
				tokenize(e.Args[1], &sb)
			case "rec":
				nm, _ := isCstStr(e.Args[0])
				if strings.HasSuffix(nm, "HandleDumpStruct") {
					sb.WriteByte('V')
				} else {
					// loopHandleKV(field, value, needName?): member when it writes the name
					member := true
					if len(e.Args) >= 5 {
						if f, ok := e.Args[4].(Slc); ok && f.Hi-f.Lo > 0 {
							if b, known := isCstBool(f.Arr.Elems[f.Lo].V); known && !b {
								member = false
							}
						}
					}
					if member {
						sb.WriteByte('M')
					} else {
						sb.WriteByte('L')
					}
				}
				dt.recs = append(dt.recs, e)
			case "appendfloat":
				if k4 := keyOf(e.Args[4]); strings.HasSuffix(k4, ".Type().Bits()") && strings.TrimSuffix(k4, ".Type().Bits()")+".Float()" == keyOf(e.Args[1]) {
					// the width of the very value being formatted: right for both float kinds by construction
					dt.floatBits = append(dt.floatBits, -1)
				} else if b, ok := isCstInt(e.Args[4]); ok {
					dt.floatBits = append(dt.floatBits, b)
				}
			}
		}
		dt.tokens = sb.String()
		tt := in
		_ = tt
		tr := t
		dt.t = &tr
		_ = i
		out = append(out, dt)
	}
	return out
}

// kind of the judged value on a finished trace, reconstructed from its kind partitions.
func traceMask(t *Trace, key string) uint32 {
	ps := Pass{T: t, PC: t.PC, Run: &WalkRun{Env: &WalkEnv{Init: map[string]uint32{}}}}
	m := allKinds
	pre := "kind(" + kindKey(key) + ")∈{"
	for k, v := range ps.PC {
		if !strings.HasPrefix(k, pre) {
			continue
		}
		label := k[len(pre):strings.LastIndex(k, "}")]
		var set uint32
		switch {
		case strings.HasPrefix(label, "pre:"):
			set = reflectNeedMask[strings.TrimPrefix(label, "pre:")]
		case label == "valid":
			set = validKinds
		case label == "ptr":
			set = kmask(reflect.Ptr)
		case strings.HasPrefix(label, "table:0x"):
			var mm uint32
			fmt.Sscanf(strings.TrimPrefix(label, "table:"), "0x%x", &mm)
			set = mm
		default:
			if i := kindOfName(label); i >= 0 {
				set = 1 << uint(i)
			}
		}
		if set == 0 {
			continue
		}
		if v == 1 {
			m &= set
		} else {
			m &^= set
		}
	}
	return m
}

func runC20(c *Ctx) {
	runShiftWidth(c, "C20-FIELDIDX")
	p := c.P
	c.Rule("C20-EMIT", "every token sequence the emitters can produce for a kind matches the JSON shape for that kind (balanced, separated by exactly one comma, quoted exactly once); nil pointer -> null", 8)
	c.Rule("C20-FLOAT", "AppendFloat's bit size is 32 for Float32 values and 64 for Float64 values", 1)
	hd := p.Method("valid", "dumpStruct", "HandleDumpStruct")
	kv := p.Method("valid", "dumpStruct", "loopHandleKV")
	if hd == nil || kv == nil {
		c.Unk("C20-EMIT", "valid.dumpStruct", "anchor", token.NoPos, "dumper methods not found")
		return
	}
	c.Funcs[fnName(hd)] = true
	c.Funcs[fnName(kv)] = true
	// ---- HandleDumpStruct
	reObject := regexp.MustCompile(`^\{(M(,M)*)?\}$`)
	{
		type agg struct {
			n   int
			bad []string
		}
		per := map[string]*agg{"struct": {}, "invalid": {}, "other": {}}
		for _, dt := range exploreDump(p, hd, c) {
			c.Sites++
			// which case: tv = Indirect(v): look at decisions
			vKey := ""
			for k := range dt.t.PC {
				if strings.HasPrefix(k, "kind(") && strings.Contains(k, "∈{struct}") {
					vKey = k[5:strings.Index(k, ")∈")]
				}
			}
			isStruct := false
			for k, v := range dt.t.PC {
				if strings.Contains(k, "∈{struct}") && v == 1 {
					isStruct = true
				}
			}
			invalid := false
			for k, v := range dt.t.PC {
				if strings.Contains(k, "∈{valid}") && v == 0 {
					invalid = true
				}
				// the same input class met earlier: `if v.Kind() == reflect.Ptr && v.IsNil()` in front of Indirect
				if strings.HasPrefix(k, "nil(") && v == 1 {
					invalid = true
				}
			}
			_ = vKey
			switch {
			case invalid:
				a := per["invalid"]
				a.n++
				if dt.tokens != "r" {
					a.bad = append(a.bad, "nil pointer emits token sequence "+dt.tokens+" (want the bare literal null)")
				}
			case isStruct:
				a := per["struct"]
				a.n++
				if !reObject.MatchString(dt.tokens) {
					a.bad = append(a.bad, "struct emits "+showTokens(dt.tokens)+" — not '{' (member (',' member)*)? '}'")
				}
				// every member emitted is a field found exported on this very path (unexported fields
				// are omitted, as encoding/json does; reflect refuses Interface() on them anyway)
				for _, e := range dt.recs {
					nm, _ := isCstStr(e.Args[0])
					if !strings.HasSuffix(nm, "loopHandleKV") || len(e.Args) < 3 {
						continue
					}
					fk := keyOf(e.Args[2])
					if m := regexp.MustCompile(`[^\s{\[:]+\.Field\([^)]*\)\.Name`).FindString(fk); m != "" {
						fk = m // the struct field value is keyed by its fields: take the name's expression
					}
					exported := false
					for k, v := range e.PC {
						if v == 1 && strings.HasPrefix(k, "valid.IsExported(") && strings.Contains(k, fk) {
							exported = true
						}
					}
					if !exported {
						a.bad = append(a.bad, "the field "+shorten(fk, 60)+" is emitted as a member without having been found exported on that path (a struct whose fields are all unexported does not dump as {})")
					}
				}
			default:
				a := per["other"]
				a.n++
				// non-struct: only as a slice element -> exactly one value; otherwise nothing
				if dt.tokens != "" && dt.tokens != "L" {
					a.bad = append(a.bad, "non-struct value emits "+showTokens(dt.tokens))
				}
			}
		}
		var ks []string
		for k := range per {
			ks = append(ks, k)
		}
		sort.Strings(ks)
		for _, k := range ks {
			a := per[k]
			c.Check(len(a.bad) == 0 && a.n > 0, "C20-EMIT", fnName(hd), "case:"+k, hd.Pos(), fmt.Sprintf("%d emitted sequences well-formed", a.n), uniqJoin(append(a.bad, fmt.Sprintf("%d sequences", a.n)), 3))
		}
	}
	// ---- loopHandleKV per kind
	{
		type agg struct {
			n   int
			bad []string
		}
		per := map[string]*agg{}
		get := func(k string) *agg {
			if per[k] == nil {
				per[k] = &agg{}
			}
			return per[k]
		}
		reName := regexp.MustCompile(`^qrq:`)
		reArray := regexp.MustCompile(`^\[(V(,V)*)?\]$`)
		var floatBad []string
		nFloat := 0
		for _, dt := range exploreDump(p, kv, c) {
			c.Sites++
			m := traceMask(dt.t, "tv")
			toks := dt.tokens
			// name prefix
			needName := true
			for k, v := range dt.t.PC {
				if strings.HasPrefix(k, "lt(0,len(isNeedFileName))") && v == 1 {
					needName = false // flag given; its value decided separately
				}
			}
			if reName.MatchString(toks) {
				toks = toks[4:]
			} else if needName && !strings.HasPrefix(toks, "qrq:") {
				// flag present and false -> no name; fine
			}
			cls := "other"
			switch {
			case m&^kmask(reflect.String) == 0:
				cls = "string"
			case m&^kmask(reflect.Bool) == 0:
				cls = "bool"
			case m&^kmask(reflect.Int, reflect.Int8, reflect.Int16, reflect.Int32, reflect.Int64) == 0:
				cls = "int"
			case m&^kmask(reflect.Uint, reflect.Uint8, reflect.Uint16, reflect.Uint32, reflect.Uint64, reflect.Uintptr) == 0:
				cls = "uint"
			case m&^kmask(reflect.Float32) == 0:
				cls = "float32"
			case m&^kmask(reflect.Float64) == 0:
				cls = "float64"
			case m&^kmask(reflect.Float32, reflect.Float64) == 0:
				cls = "float"
			case m&^kmask(reflect.Ptr, reflect.Struct, reflect.Interface) == 0:
				cls = "nested"
			case m&^kmask(reflect.Slice, reflect.Array) == 0:
				cls = "array"
			case m&^kmask(reflect.Map) == 0:
				cls = "map"
			}
			a := get(cls)
			a.n++
			isTimeName, isTimeType := false, false
			for k, v := range dt.t.PC {
				if strings.Contains(k, `eq("Time",`) && v == 1 {
					isTimeName = true
				}
				if strings.Contains(k, "g:valid.timeReflectType") && v == 1 {
					isTimeType = true
				}
			}
			isTime := isTimeName && isTimeType
			if isTime {
				if toks != "qrq" {
					a.bad = append(a.bad, "time placeholder emits "+showTokens(toks))
				}
				continue
			}
			switch cls {
			case "string", "bool":
				if toks != "qrq" {
					a.bad = append(a.bad, cls+" emits "+showTokens(toks)+" (want quoted text)")
				}
			case "int", "uint":
				if toks != "r" {
					a.bad = append(a.bad, cls+" emits "+showTokens(toks)+" (want a bare number)")
				}
			case "float", "float32", "float64":
				if toks != "r" {
					a.bad = append(a.bad, "float emits "+showTokens(toks)+" (want a bare number)")
				}
				for _, b := range dt.floatBits {
					nFloat++
					if b == -1 {
						continue
					}
					switch {
					case cls == "float32" && b != 32:
						floatBad = append(floatBad, fmt.Sprintf("a Float32 value is formatted with bitSize %d: float32(0.1) is printed as 0.10000000149011612", b))
					case cls == "float64" && b != 64:
						floatBad = append(floatBad, fmt.Sprintf("a Float64 value is formatted with bitSize %d", b))
					case cls == "float":
						floatBad = append(floatBad, fmt.Sprintf("Float32 and Float64 share one AppendFloat call with bitSize %d: float32(0.1) is printed as 0.10000000149011612", b))
					}
				}
			case "nested":
				if toks != "V" {
					a.bad = append(a.bad, "nested value emits "+showTokens(toks))
				}
			case "array":
				if !reArray.MatchString(toks) {
					a.bad = append(a.bad, "slice/array emits "+showTokens(toks)+" — not '[' (value (',' value)*)? ']'")
				}
			case "map":
				reMap := regexp.MustCompile(`^\{((qLq|L):L(,(qLq|L):L)*)?\}$`)
				if !reMap.MatchString(toks) {
					a.bad = append(a.bad, "map emits "+showTokens(toks)+" — not '{' (key ':' value (',' key ':' value)*)? '}'")
					break
				}
				// every key must end up quoted exactly once: wrapped by the map code iff the
				// scalar emitter does not quote that kind itself
				li := 0
				for pos := 0; pos < len(toks); pos++ {
					if toks[pos] != 'L' {
						continue
					}
					isKey := li%2 == 0
					wrapped := pos > 0 && toks[pos-1] == 'q'
					if isKey && li < len(dt.recs) {
						for _, x := range dt.recs[li].Args {
							if k, ok := x.(Tok); ok && k.Dom == "kset" {
								mk, _ := isCstInt(k.Args[0])
								selfQuoted := kmask(reflect.String, reflect.Bool)
								if wrapped && uint32(mk)&selfQuoted != 0 {
									a.bad = append(a.bad, "map keys are wrapped in quotes by the map code AND quoted again by the scalar emitter when the key is a string: {\"\"k\"\":1}")
								}
								if !wrapped && uint32(mk)&^selfQuoted != 0 {
									a.bad = append(a.bad, "a map key of kind "+kmaskNames(uint32(mk)&^selfQuoted)+" is emitted without quotes: JSON object keys must be strings")
								}
							}
						}
					}
					li++
				}
			default:
				if toks != "qrq" && toks != "" {
					a.bad = append(a.bad, "kind set "+kmaskNames(m)+" emits "+showTokens(toks))
				}
			}
		}
		var ks []string
		for k := range per {
			ks = append(ks, k)
		}
		sort.Strings(ks)
		for _, k := range ks {
			a := per[k]
			c.Check(len(a.bad) == 0, "C20-EMIT", fnName(kv), "kind:"+k, kv.Pos(), fmt.Sprintf("%d emitted sequences well-formed", a.n), uniqJoin(a.bad, 3))
		}
		for _, need := range []string{"string", "int", "array", "map", "nested"} {
			if per[need] == nil {
				c.Unk("C20-EMIT", fnName(kv), "kind:"+need, kv.Pos(), "no emitted sequence observed for this kind class")
			}
		}
		c.Check(len(floatBad) == 0 && nFloat > 0, "C20-FLOAT", fnName(kv), "bitsize", kv.Pos(), fmt.Sprintf("%d float formatting paths", nFloat), uniqJoin(append(floatBad, fmt.Sprintf("%d float paths", nFloat)), 2))
	}
}

func showTokens(s string) string {
	r := strings.NewReplacer("q", `"`, "r", "‹text›", "M", "‹member›", "V", "‹value›", "L", "‹scalar›")
	if s == "" {
		return "nothing"
	}
	return "`" + r.Replace(s) + "`"
}
