package engine

import (
	"fmt"
	"go/token"
	"go/types"
	"strings"

	"golang.org/x/tools/go/ssa"
)

// C05-STICKY: "every element matches" / "no element repeats" verdicts are accumulated in a
// boolean that is carried around an element loop. The accumulation must be monotone: once an
// element has failed, no later element can make the verdict good again. On SSA: for every
// loop-header phi of boolean type in a rule function (or in a helper/closure it reaches), each
// value arriving over a back edge is, in one polarity p ∈ {true,false},
//   the phi itself (unchanged) | the constant p | a value known to equal p on that edge |
//   a fresh test result v whose back edge is only taken when v != p (the loop leaves at once
//   when the test gives p) | a phi of such values.
// A flag that is simply overwritten by the current element's test ("the last element decides")
// violates the rule.

func knownBoolAt(v ssa.Value, b *ssa.BasicBlock) (val, known bool) {
	val, known, _ = knownBoolAtIf(v, b)
	return
}

// knownBoolAtIf additionally returns the block whose If decided v.
func knownBoolAtIf(v ssa.Value, b *ssa.BasicBlock) (val, known bool, at *ssa.BasicBlock) {
	for d := b; d != nil; d = d.Idom() {
		if len(d.Preds) != 1 {
			continue
		}
		pr := d.Preds[0]
		iff, ok := pr.Instrs[len(pr.Instrs)-1].(*ssa.If)
		if !ok {
			continue
		}
		onTrue := pr.Succs[0] == d
		if pr.Succs[0] == pr.Succs[1] {
			continue
		}
		cond := iff.Cond
		neg := false
		for {
			if u, ok := cond.(*ssa.UnOp); ok && u.Op == token.NOT {
				cond, neg = u.X, !neg
				continue
			}
			break
		}
		if cond == v {
			return onTrue != neg, true, pr
		}
	}
	return false, false, nil
}

func stickyIn(ph *ssa.Phi, l *loopInfo, pol bool) (bool, string) {
	var check func(v ssa.Value, from, to *ssa.BasicBlock, depth int) (bool, string)
	check = func(v ssa.Value, from, to *ssa.BasicBlock, depth int) (bool, string) {
		if depth > 6 {
			return false, "too deep"
		}
		if v == ph {
			return true, ""
		}
		if c, ok := v.(*ssa.Const); ok && c.Value != nil {
			if (c.Value.String() == "true") == pol {
				return true, ""
			}
			return false, fmt.Sprintf("reset to the constant %s", c.Value.String())
		}
		val, known, decidedAt := knownBoolAtIf(v, from)
		if !known && from != nil {
			decidedAt = from
			// fact carried by the edge itself: from ends in `if v` / `if !v` and jumps to `to`
			if iff, ok := from.Instrs[len(from.Instrs)-1].(*ssa.If); ok && from.Succs[0] != from.Succs[1] {
				cond, neg := iff.Cond, false
				for {
					if u, ok := cond.(*ssa.UnOp); ok && u.Op == token.NOT {
						cond, neg = u.X, !neg
						continue
					}
					break
				}
				if cond == v {
					for si, sb := range from.Succs {
						if sb == to {
							val, known = (si == 0) != neg, true
						}
					}
				}
			}
		}
		if known {
			if val == pol {
				return true, ""
			}
			// v is known to be !pol here. That is the "leave at once" idiom when the branch that
			// decided v sends the other outcome (v == pol) straight out of the loop; otherwise a
			// later element's good result overwrites an earlier failure.
			if decidedAt != nil {
				for _, sb := range decidedAt.Succs {
					if !l.Body[sb] {
						return true, ""
					}
				}
			}
			return false, "overwritten by the current element's result regardless of earlier elements"
		}
		// `flag = flag && test(elem)`: the fresh test result is taken only where the flag itself
		// is known to still be !pol (no failure so far), so it cannot clear an earlier failure
		if fv, fknown := knownBoolAt(ph, from); fknown && fv != pol {
			return true, ""
		}
		if from != nil {
			if iff, ok := from.Instrs[len(from.Instrs)-1].(*ssa.If); ok && iff.Cond == ph && from.Succs[0] != from.Succs[1] {
				for si, sb := range from.Succs {
					if sb == to && (si == 0) != pol {
						return true, ""
					}
				}
			}
		}
		if inner, ok := v.(*ssa.Phi); ok && inner != ph && l.Body[inner.Block()] {
			for i, e := range inner.Edges {
				if ok2, why := check(e, inner.Block().Preds[i], inner.Block(), depth+1); !ok2 {
					return false, why
				}
			}
			return true, ""
		}
		return false, "overwritten by the current element's result regardless of earlier elements"
	}
	for i, e := range ph.Edges {
		pred := ph.Block().Preds[i]
		if !l.Body[pred] {
			continue // entry edge
		}
		if ok, why := check(e, pred, ph.Block(), 0); !ok {
			return false, why
		}
	}
	return true, ""
}

func runC05Sticky(c *Ctx) {
	p := c.P
	c.Rule("C05-STICKY", "a verdict flag carried around an element loop is monotone: once an element fails, later elements cannot clear the failure", 2)
	reg, _, err := registryTable(p)
	if err != nil {
		c.Unk("C05-STICKY", "-", "anchor", token.NoPos, "rule table unresolved: "+err.Error())
		return
	}
	seen := map[*ssa.Function]bool{}
	for _, e := range reg {
		if e.Fn == nil {
			continue
		}
		for fn := range reachableFrom(e.Fn) {
			if seen[fn] || fn.Pkg == nil || !strings.HasSuffix(fn.Pkg.Pkg.Path(), "/valid") {
				continue
			}
			// verdict-producing code only: functions that are handed the error buffer, and their closures
			takesBuf := func(f *ssa.Function) bool {
				for _, prm := range f.Params {
					if pt, ok := prm.Type().(*types.Pointer); ok && isNamed(pt.Elem(), "strings", "Builder") {
						return true
					}
				}
				return false
			}
			if !(takesBuf(fn) || fn.Parent() != nil && takesBuf(fn.Parent())) {
				continue
			}
			seen[fn] = true
			loops := naturalLoops(fn)
			n := 0
			for _, l := range loops {
				for _, ins := range l.Header.Instrs {
					ph, ok := ins.(*ssa.Phi)
					if !ok {
						break
					}
					bt, isB := ph.Type().Underlying().(*types.Basic)
					if !isB || bt.Kind() != types.Bool {
						continue
					}
					n++
					c.Sites++
					c.Funcs[fnName(fn)] = true
					okT, whyT := stickyIn(ph, l, true)
					okF, whyF := stickyIn(ph, l, false)
					name := ph.Comment
					if name == "" {
						name = ph.Name()
					}
					disc := fmt.Sprintf("flag:%s#%d", name, n)
					// the flag must be able to change: it starts as the opposite of its sticky value
					entryVal, entryKnown := false, false
					for i, e := range ph.Edges {
						if !l.Body[ph.Block().Preds[i]] {
							if cst, ok := e.(*ssa.Const); ok && cst.Value != nil {
								entryVal, entryKnown = cst.Value.String() == "true", true
							}
						}
					}
					if entryKnown {
						if okT && entryVal {
							okT = false
							whyT = "the flag starts as true and can only ever become true: no element can change the verdict"
						}
						if okF && !entryVal {
							okF = false
							whyF = "the flag starts as false and can only ever become false: no element can change the verdict"
						}
					}
					if okT || okF {
						c.OK("C05-STICKY", fnName(fn), disc, ph.Pos(), "monotone accumulation")
					} else {
						why := whyF
						if why == "" {
							why = whyT
						}
						c.Bad("C05-STICKY", fnName(fn), disc, ph.Pos(), fmt.Sprintf("the verdict flag %q carried around the element loop is not monotone (%s): a failing element followed by a passing one is accepted — only the last element decides", name, why))
					}
				}
			}
		}
	}
}

// C05-UNIQUE: `unique` is decided by counting: every element is put into a set on every
// iteration, under its own rendering, and the verdict is "number of elements == size of the set".
func runC05Unique(c *Ctx) {
	p := c.P
	c.Rule("C05-UNIQUE", "unique: every iteration inserts the current element (for slices: ToStr of element i) into a fresh set unconditionally; satisfied iff the set's size equals the number of elements iterated", 2)
	reg, _, err := registryTable(p)
	if err != nil {
		return
	}
	var fn *ssa.Function
	for _, e := range reg {
		if e.Name == "unique" {
			fn = e.Fn
		}
	}
	if fn == nil {
		c.Unk("C05-UNIQUE", "-", "anchor", token.NoPos, "rule function of `unique` not found in the rule table")
		return
	}
	c.Funcs[fnName(fn)] = true
	n := 0
	for _, l := range naturalLoops(fn) {
		var upd *ssa.MapUpdate
		for b := range l.Body {
			for _, ins := range b.Instrs {
				if mu, ok := ins.(*ssa.MapUpdate); ok {
					upd = mu
				}
			}
		}
		if upd == nil {
			continue
		}
		n++
		c.Sites++
		var bad []string
		mk, isMake := upd.Map.(*ssa.MakeMap)
		if !isMake {
			bad = append(bad, "the set is not a fresh map of this call")
		}
		latch := latchOf(l)
		if !upd.Block().Dominates(latch) {
			bad = append(bad, "an element can be skipped without being put into the set")
		}
		// loop bound: header condition idx < N ; N = len(X) or tv.Len()
		var count ssa.Value
		var idxNext ssa.Value
		if iff, ok := l.Header.Instrs[len(l.Header.Instrs)-1].(*ssa.If); ok {
			if bo, ok := iff.Cond.(*ssa.BinOp); ok && bo.Op == token.LSS {
				count, idxNext = bo.Y, bo.X
			}
		}
		if count == nil {
			bad = append(bad, "loop bound not recognised")
		}
		// key: element at the loop's own index
		keyOK := false
		var walk func(v ssa.Value, d int) bool
		walk = func(v ssa.Value, d int) bool {
			if d > 6 || v == nil {
				return false
			}
			switch x := v.(type) {
			case *ssa.UnOp:
				return walk(x.X, d+1)
			case *ssa.IndexAddr:
				return x.Index == idxNext || isPhiOf(x.Index, idxNext)
			case *ssa.Index:
				return x.Index == idxNext || isPhiOf(x.Index, idxNext)
			case *ssa.Call:
				nm := calleeName(&x.Call)
				if nm == "valid.ToStr" || nm == "(reflect.Value).Interface" || nm == "(reflect.Value).String" {
					return walk(x.Call.Args[0], d+1)
				}
				if nm == "(reflect.Value).Index" {
					return x.Call.Args[1] == idxNext || isPhiOf(x.Call.Args[1], idxNext)
				}
			case *ssa.MakeInterface:
				return walk(x.X, d+1)
			}
			return false
		}
		keyOK = walk(upd.Key, 0)
		if !keyOK {
			bad = append(bad, "the value put into the set is not the current element")
		}
		// verdict: len(set) == count on some comparison after the loop
		verdictOK := false
		if mk != nil && count != nil {
			for _, r := range refs(mk) {
				call, ok := r.(*ssa.Call)
				if !ok || calleeName(&call.Call) != "builtin.len" {
					continue
				}
				for _, r2 := range refs(call) {
					bo, ok := r2.(*ssa.BinOp)
					if !ok {
						continue
					}
					other := bo.X
					if other == call {
						other = bo.Y
					}
					if bo.Op == token.EQL && sameCount(other, count) {
						verdictOK = true
					} else {
						bad = append(bad, "the verdict does not compare the set's size with the number of elements for equality")
					}
				}
			}
		}
		if !verdictOK && len(bad) == 0 {
			bad = append(bad, "no comparison of the set's size with the number of elements found")
		}
		c.Check(len(bad) == 0, "C05-UNIQUE", fnName(fn), fmt.Sprintf("loop#%d", n), upd.Pos(), "insert every element; ok iff count == len(set)", uniqJoin(bad, 3))
	}
	if n == 0 {
		c.Unk("C05-UNIQUE", fnName(fn), "loops", fn.Pos(), "no set-filling loop found in the unique rule")
	}
}

func isPhiOf(v, next ssa.Value) bool {
	// range loops index with the incremented value itself; counted loops with the phi whose
	// increment is compared in the header — accept v when next == v+1 or v == next
	if bo, ok := next.(*ssa.BinOp); ok && bo.Op == token.ADD && bo.X == v {
		return true
	}
	return v == next
}

func sameCount(a, b ssa.Value) bool {
	if a == b {
		return true
	}
	ca, ok1 := a.(*ssa.Call)
	cb, ok2 := b.(*ssa.Call)
	if ok1 && ok2 && calleeName(&ca.Call) == calleeName(&cb.Call) && len(ca.Call.Args) == 1 && len(cb.Call.Args) == 1 && ca.Call.Args[0] == cb.Call.Args[0] {
		switch calleeName(&ca.Call) {
		case "builtin.len", "(reflect.Value).Len":
			return true
		}
	}
	return false
}
