package engine

import (
	"fmt"
	"go/token"
	"go/types"
	"strings"

	"golang.org/x/tools/go/ssa"
)

// C12-INPUT (second part): memory of the caller reached through reflect.Value.Interface().
// x := tv.Interface().([]T) (or a map / pointer type) IS the caller's slice, not a copy. Sorting it,
// copying into it, storing into its elements or appending within its capacity changes the value the
// caller passed in — the verdict may be right, the input is not left unmodified.
//
// and C12-GLOBALALIAS / C11: a package-level map (the global rule-function table, ...) is never
// made the value of a field of a per-call object or returned as "the per-call table": a later
// update through that field writes the global table, so one call's functions leak into all later
// calls.

func runC12InterfaceAlias(c *Ctx, rule string) {
	p := c.P
	var bad []string
	n := 0
	mutators := map[string]int{ // callee -> index of the argument that is mutated
		"sort.Strings": 0, "sort.Ints": 0, "sort.Float64s": 0, "sort.Slice": 0, "sort.SliceStable": 0, "sort.Sort": 0, "sort.Stable": 0,
		"builtin.copy": 0,
	}
	for _, fn := range p.Funcs {
		if fn.Pkg != p.Pkg("valid") {
			continue
		}
		for _, b := range fn.Blocks {
			for _, ins := range b.Instrs {
				ta, ok := ins.(*ssa.TypeAssert)
				if !ok {
					continue
				}
				call, ok := ta.X.(*ssa.Call)
				if !ok || calleeName(&call.Call) != "(reflect.Value).Interface" {
					continue
				}
				at := ta.AssertedType
				switch at.Underlying().(type) {
				case *types.Slice, *types.Map, *types.Pointer:
				default:
					continue
				}
				n++
				c.Sites++
				// aliases of the asserted value
				alias := map[ssa.Value]bool{}
				var add func(v ssa.Value, d int)
				add = func(v ssa.Value, d int) {
					if alias[v] || d > 6 {
						return
					}
					alias[v] = true
					for _, r := range refs(v) {
						switch x := r.(type) {
						case *ssa.Extract:
							if x.Index == 0 {
								add(x, d+1)
							}
						case *ssa.Phi, *ssa.ChangeType, *ssa.Slice:
							add(x.(ssa.Value), d+1)
						case *ssa.MakeInterface: // sort.Sort(sort.StringSlice(x))
							add(x, d+1)
						}
					}
				}
				add(ta, 0)
				for v := range alias {
					for _, r := range refs(v) {
						switch x := r.(type) {
						case *ssa.IndexAddr:
							for _, rr := range refs(x) {
								if st, ok := rr.(*ssa.Store); ok && st.Addr == ssa.Value(x) {
									bad = append(bad, fnName(fn)+" stores into an element of the caller's value obtained by Interface() at "+p.Pos(st.Pos()))
								}
							}
						case *ssa.MapUpdate:
							if x.Map == v {
								bad = append(bad, fnName(fn)+" updates the caller's map obtained by Interface() at "+p.Pos(x.Pos()))
							}
						case *ssa.Call:
							nm := calleeName(&x.Call)
							if idx, ok := mutators[nm]; ok && idx < len(x.Call.Args) && x.Call.Args[idx] == v {
								bad = append(bad, fnName(fn)+" passes the caller's value obtained by Interface() to "+nm+" at "+p.Pos(x.Pos())+": the caller's own slice is reordered/overwritten")
							}
							if nm == "builtin.append" && len(x.Call.Args) > 0 && x.Call.Args[0] == v {
								if _, isSl := v.(*ssa.Slice); isSl {
									bad = append(bad, fnName(fn)+" appends onto a reslice of the caller's value obtained by Interface() at "+p.Pos(x.Pos())+": elements of the caller's slice are overwritten")
								}
							}
						}
					}
				}
			}
		}
	}
	c.Check(len(bad) == 0, rule, "valid", "interface-alias", token.NoPos, fmt.Sprintf("%d slice/map/pointer values taken out of reflect.Value.Interface(), none mutated", n), uniqJoin(bad, 3))
}

func runGlobalMapAlias(c *Ctx, rule string) {
	p := c.P
	var bad []string
	n := 0
	sp := p.Pkg("valid")
	for _, fn := range p.Funcs {
		if fn.Pkg != sp || fn.Name() == "init" {
			continue
		}
		for _, b := range fn.Blocks {
			for _, ins := range b.Instrs {
				ld, ok := ins.(*ssa.UnOp)
				if !ok || ld.Op != token.MUL {
					continue
				}
				g, ok := ld.X.(*ssa.Global)
				if !ok || g.Pkg != sp {
					continue
				}
				_, isMap := ld.Type().Underlying().(*types.Map)
				_, isSlice := ld.Type().Underlying().(*types.Slice)
				if !isMap && !isSlice {
					continue
				}
				what := "map"
				if isSlice {
					what = "slice"
				}
				n++
				c.Sites++
				// where does the loaded map go (through φ)?
				seen := map[ssa.Value]bool{}
				var walk func(v ssa.Value, d int)
				walk = func(v ssa.Value, d int) {
					if seen[v] || d > 5 {
						return
					}
					seen[v] = true
					for _, r := range refs(v) {
						switch x := r.(type) {
						case *ssa.Phi:
							walk(x, d+1)
						case *ssa.ChangeType:
							walk(x, d+1)
						case *ssa.MakeInterface:
							walk(x, d+1)
						case *ssa.Slice:
							if x.X == v {
								walk(x, d+1) // a re-slice shares the backing array
							}
						case *ssa.IndexAddr:
							// an element of the package-level slice assigned in place
							if x.X == v && isSlice {
								for _, rr := range refs(x) {
									if st, ok := rr.(*ssa.Store); ok && st.Addr == ssa.Value(x) {
										bad = append(bad, fnName(fn)+" assigns an element of the package-level slice "+g.Name()+" in place at "+p.Pos(st.Pos())+": the table every later and concurrent call reads is changed by this call")
									}
								}
							}
						case ssa.CallInstruction:
							if !isSlice {
								break
							}
							cc := x.Common()
							nm := calleeName(cc)
							_, resliced := v.(*ssa.Slice)
							if nm == "builtin.append" && len(cc.Args) > 0 && cc.Args[0] == v && resliced {
								bad = append(bad, fnName(fn)+" appends onto a re-slice of the package-level slice "+g.Name()+" at "+p.Pos(instrPos(r))+": the appended elements overwrite the shared backing array (the defaults every later and concurrent call reads)")
							}
							if nm == "builtin.copy" && len(cc.Args) > 0 && cc.Args[0] == v {
								bad = append(bad, fnName(fn)+" copies into the package-level slice "+g.Name()+" at "+p.Pos(instrPos(r))+": the shared backing array is overwritten")
							}
							if cal := staticCallee(cc); cal != nil && cal.Blocks != nil && cal.Pkg == sp {
								for i, a := range callArgs(cc) {
									if a == v && i < len(cal.Params) {
										walk(cal.Params[i], d+1)
									}
								}
							}
						case *ssa.Store:
							if x.Val == v {
								_, toField := x.Addr.(*ssa.FieldAddr)
								if _, toGlobal := x.Addr.(*ssa.Global); !toGlobal && (isMap || toField) {
									bad = append(bad, fnName(fn)+" stores the package-level "+what+" "+g.Name()+" itself (not a copy) into "+strings.TrimPrefix(x.Addr.String(), "&")+" at "+p.Pos(x.Pos())+": an update through that reference writes the global table, visible to every later and concurrent call")
								}
							}
						case *ssa.Return:
							if !strings.HasPrefix(fn.Name(), "Get") && isMap { // read-only accessors are the caller's business
								bad = append(bad, fnName(fn)+" returns the package-level map "+g.Name()+" itself at "+p.Pos(x.Pos()))
							}
						}
					}
				}
				walk(ld, 0)
			}
		}
	}
	// a package-level array used as scratch space: a slice of it handed to an appending/copying call is
	// written by every caller at once
	for _, fn := range p.Funcs {
		if fn.Pkg != sp || fn.Name() == "init" {
			continue
		}
		for _, b := range fn.Blocks {
			for _, ins := range b.Instrs {
				sl, ok := ins.(*ssa.Slice)
				if !ok {
					continue
				}
				g, ok := sl.X.(*ssa.Global)
				if !ok || g.Pkg != sp {
					continue
				}
				n++
				for _, r := range refs(sl) {
					if call, ok := r.(ssa.CallInstruction); ok {
						nm := calleeName(call.Common())
						if strings.Contains(nm, "Append") || nm == "builtin.append" || nm == "builtin.copy" {
							bad = append(bad, fnName(fn)+" hands a slice of the package-level array "+g.Name()+" to "+nm+" at "+p.Pos(instrPos(r))+": every call (and every goroutine) writes the same scratch memory, so concurrent or nested uses print each other's digits")
						}
					}
				}
			}
		}
	}
	c.Check(len(bad) == 0, rule, "valid", "global-map-alias", token.NoPos, fmt.Sprintf("%d loads of package-level maps/slices, none stored into an object (maps: nor returned)", n), uniqJoin(bad, 3))
}
