package engine

import (
	"fmt"
	"go/token"
	"go/types"
	"strings"

	"golang.org/x/tools/go/ssa"
)

// C14-SET: RM.Set accumulates per field. The text stored for a field is built from the rules of
// this call (joined once, loop-invariant) and, when the field already had rules, from that
// field's own previous entry — never from anything carried over from another field of the same
// call (a loop-carried value), and the previous entry comes first.
func runC14Set(c *Ctx) {
	p := c.P
	c.Rule("C14-SET", "RM.Set: the text stored for a field = [its own previous entry + \",\" +] Join(rules of this call, \",\"); no value carried from one field of the list to the next flows into it", 1)
	set := p.Method("valid", "RM", "Set")
	if set == nil {
		c.Unk("C14-SET", "(valid.RM).Set", "anchor", token.NoPos, "RM.Set not found")
		return
	}
	c.Funcs[fnName(set)] = true
	headers := map[*ssa.BasicBlock]bool{}
	for _, l := range naturalLoops(set) {
		headers[l.Header] = true
	}
	n := 0
	for _, b := range set.Blocks {
		for _, ins := range b.Instrs {
			mu, ok := ins.(*ssa.MapUpdate)
			if !ok || mu.Map != set.Params[0] {
				continue
			}
			n++
			c.Sites++
			var bad []string
			// key: the current field name (element of Split(fieldNames, ","))
			keyOK := false
			if ld, ok := mu.Key.(*ssa.UnOp); ok {
				if ia, ok := ld.X.(*ssa.IndexAddr); ok {
					if call, ok := ia.X.(*ssa.Call); ok && calleeName(&call.Call) == "strings.Split" && call.Call.Args[0] == set.Params[1] {
						keyOK = true
					}
				}
			}
			if !keyOK {
				bad = append(bad, "the entry written is not keyed by the current name of the field list")
			}
			// value: concatenation tree
			var parts []string
			var walk func(v ssa.Value, d int)
			walk = func(v ssa.Value, d int) {
				if d > 8 {
					parts = append(parts, "?deep")
					return
				}
				switch x := v.(type) {
				case *ssa.BinOp:
					if x.Op == token.ADD {
						walk(x.X, d+1)
						walk(x.Y, d+1)
						return
					}
					parts = append(parts, "?op")
				case *ssa.Const:
					s, _ := constString(x)
					parts = append(parts, "const:"+s)
				case *ssa.Call:
					if calleeName(&x.Call) == "strings.Join" {
						if s, ok := constString(x.Call.Args[1]); ok && x.Call.Args[0] == set.Params[2] {
							parts = append(parts, "join:"+s)
							return
						}
					}
					parts = append(parts, "?call:"+calleeName(&x.Call))
				case *ssa.Lookup:
					if x.X == set.Params[0] && x.Index == mu.Key {
						parts = append(parts, "old")
						return
					}
					parts = append(parts, "?lookup-of-another-key")
				case *ssa.Extract:
					if lk, ok := x.Tuple.(*ssa.Lookup); ok && x.Index == 0 && lk.X == set.Params[0] && lk.Index == mu.Key {
						parts = append(parts, "old")
						return
					}
					parts = append(parts, "?extract")
				case *ssa.Phi:
					if headers[x.Block()] {
						parts = append(parts, "?carried:"+x.Comment)
						return
					}
					for _, e := range x.Edges {
						walk(e, d+1)
					}
					parts = append(parts, "?phi")
				default:
					parts = append(parts, fmt.Sprintf("?%T", v))
				}
			}
			walk(mu.Value, 0)
			shape := strings.Join(parts, " + ")
			switch shape {
			case "join:,", "old + const:, + join:,":
			default:
				switch {
				case strings.Contains(shape, "?carried"):
					bad = append(bad, "the stored text contains a value carried over from the previous field of the list ("+shape+"): rules accumulated for one field leak into the fields after it")
				case strings.Contains(shape, "join:") && !strings.Contains(shape, "join:,"):
					bad = append(bad, "rules are joined with a separator other than ','")
				default:
					bad = append(bad, "the stored text is not [previous entry + \",\" +] Join(rules, \",\"): "+shape)
				}
			}
			// "old +" only where the key was found present
			if strings.HasPrefix(shape, "old") {
				found := false
				for _, blk := range set.Blocks {
					for _, i2 := range blk.Instrs {
						lk, ok := i2.(*ssa.Lookup)
						if !ok || !lk.CommaOk || lk.X != set.Params[0] || lk.Index != mu.Key {
							continue
						}
						for _, r := range refs(lk) {
							if ex, ok := r.(*ssa.Extract); ok && ex.Index == 1 {
								if val, known := knownBoolAt(ex, b); known && val {
									found = true
								}
							}
						}
					}
				}
				if !found {
					bad = append(bad, "the previous entry is prepended without the field having been found present")
				}
			}
			c.Check(len(bad) == 0, "C14-SET", fnName(set), fmt.Sprintf("store#%d", n), mu.Pos(), shape, uniqJoin(bad, 3))
		}
	}
	if n == 0 {
		c.Unk("C14-SET", fnName(set), "store", set.Pos(), "RM.Set never stores into the rule map")
	}
}

// C14-STACK: the quote stack used by the splitter. Pop on a non-empty stack leaves it strictly
// shorter on every path (a Pop that keeps the last byte never lets the splitter see an empty
// stack again: every later separator is swallowed); IsEmpty ⇔ len == 0; Append appends its
// argument; LastVal/IsEqualLastVal look at the last byte.
func runC14Stack(c *Ctx) {
	p := c.P
	c.Rule("C14-STACK", "quote stack: Pop strictly shrinks a non-empty stack on every path; IsEmpty ⇔ len(data)==0; Append appends its argument; IsEqualLastVal compares the last byte", 3)
	sp := p.Pkg("valid/internal")
	if sp == nil {
		c.Unk("C14-STACK", "valid/internal", "anchor", token.NoPos, "package not loaded")
		return
	}
	m := func(n string) *ssa.Function { return p.Method("valid/internal", "stackByte", n) }
	pop, isEmpty, app, last, eqLast := m("Pop"), m("IsEmpty"), m("Append"), m("LastVal"), m("IsEqualLastVal")
	if pop == nil || isEmpty == nil || app == nil {
		c.Unk("C14-STACK", "valid/internal.stackByte", "anchor", token.NoPos, "stack methods not found")
		return
	}
	for _, f := range []*ssa.Function{pop, isEmpty, app, last, eqLast} {
		if f != nil {
			c.Funcs[fnName(f)] = true
		}
	}
	isDataAddr := func(v ssa.Value) bool {
		fa, ok := v.(*ssa.FieldAddr)
		return ok && fieldAddrName(fa) == "data"
	}
	// ---- Pop
	{
		c.Sites++
		var bad []string
		bc := newBoundsCtx(p, pop)
		// every return: either dominated by the "empty" edge, or every path to it passes a shrinking store
		var stores []*ssa.Store
		for _, b := range pop.Blocks {
			for _, ins := range b.Instrs {
				if st, ok := ins.(*ssa.Store); ok && isDataAddr(st.Addr) {
					stores = append(stores, st)
				}
			}
		}
		shrinks := func(st *ssa.Store) bool {
			f := &factSet{}
			bc.edgeFacts(f, st.Block())
			var roots []ssa.Value
			var chk func(v ssa.Value) bool
			lenOld := ""
			// len of the old data: the load of the same field
			for _, b := range pop.Blocks {
				for _, ins := range b.Instrs {
					if ld, ok := ins.(*ssa.UnOp); ok && ld.Op == token.MUL && isDataAddr(ld.X) {
						ln, _ := bc.lenTerm(ld)
						lenOld = ln
						roots = append(roots, ld)
					}
				}
			}
			if lenOld == "" {
				return false
			}
			f.le("", 0, lenOld, 0, 0) // 0 <= len
			chk = func(v ssa.Value) bool {
				switch x := v.(type) {
				case *ssa.Slice:
					if ld, ok := x.X.(*ssa.UnOp); !ok || !isDataAddr(ld.X) {
						return false
					}
					if x.High == nil {
						return false
					}
					roots = append(roots, x.High)
					bc.defFacts(f, roots)
					hn, ho := bc.term(x.High, 0)
					return prove(f, hn, ho+1, lenOld, 0) // high + 1 <= len
				case *ssa.Call:
					if calleeName(&x.Call) == "builtin.append" {
						// append(data[:0], data[:h]...) : length h
						base, ok := x.Call.Args[0].(*ssa.Slice)
						if !ok {
							return false
						}
						if k, isK := constInt(base.High); !isK || k != 0 {
							return false
						}
						return chk(x.Call.Args[1])
					}
				}
				return false
			}
			return chk(st.Val)
		}
		okStores := map[*ssa.BasicBlock]bool{}
		for _, st := range stores {
			if shrinks(st) {
				okStores[st.Block()] = true
			} else {
				bad = append(bad, "a store to the stack's data in Pop does not provably shorten it ("+p.Pos(st.Pos())+")")
			}
		}
		// every path from the entry to a return passes a block with a shrinking store, or its branch
		// conditions prove that the stack was empty (len(data) <= 0)
		if len(naturalLoops(pop)) > 0 {
			bad = append(bad, "Pop contains a loop: not decided")
		} else {
			lenOld := ""
			var dataLoads []ssa.Value
			for _, b := range pop.Blocks {
				for _, ins := range b.Instrs {
					if ld, ok := ins.(*ssa.UnOp); ok && ld.Op == token.MUL && isDataAddr(ld.X) {
						ln, _ := bc.lenTerm(ld)
						lenOld = ln
						dataLoads = append(dataLoads, ld)
					}
				}
			}
			type edge struct {
				cond  ssa.Value
				truth bool
			}
			var path []edge
			leak := false
			paths := 0
			var walk func(b *ssa.BasicBlock)
			walk = func(b *ssa.BasicBlock) {
				if leak || paths > 200 || okStores[b] {
					return
				}
				last := b.Instrs[len(b.Instrs)-1]
				if _, isRet := last.(*ssa.Return); isRet {
					paths++
					f := &factSet{}
					roots := append([]ssa.Value{}, dataLoads...)
					for _, e := range path {
						// an emptiness test through the stack's own predicate
						cond, truth := e.cond, e.truth
						for {
							u, ok := cond.(*ssa.UnOp)
							if !ok || u.Op != token.NOT {
								break
							}
							cond, truth = u.X, !truth
						}
						if call, ok := cond.(*ssa.Call); ok && staticCallee(&call.Call) == isEmpty && lenOld != "" {
							if truth {
								f.le(lenOld, 0, "", 0, 0)
							} else {
								f.le("", 0, lenOld, 0, -1)
							}
							continue
						}
						bc.addCond(f, e.cond, e.truth, 0)
						roots = append(roots, e.cond)
					}
					if lenOld != "" {
						f.le("", 0, lenOld, 0, 0)
					}
					bc.defFacts(f, roots)
					if lenOld == "" || !prove(f, lenOld, 0, "", 0) {
						leak = true
					}
					return
				}
				if iff, ok := last.(*ssa.If); ok {
					path = append(path, edge{iff.Cond, true})
					walk(b.Succs[0])
					path[len(path)-1].truth = false
					walk(b.Succs[1])
					path = path[:len(path)-1]
					return
				}
				for _, sb := range b.Succs {
					walk(sb)
				}
			}
			walk(pop.Blocks[0])
			if leak {
				bad = append(bad, "Pop can return from a non-empty stack without removing its last byte (e.g. a one-byte stack): the splitter then never sees the quote stack empty again and swallows every later separator")
			}
		}
		c.Check(len(bad) == 0, "C14-STACK", fnName(pop), "shrinks", pop.Pos(), fmt.Sprintf("%d stores, each proved to shorten the stack; no non-empty path avoids them", len(stores)), uniqJoin(bad, 3))
	}
	// ---- IsEmpty
	{
		c.Sites++
		okE := false
		if len(isEmpty.Blocks) == 1 {
			if ret, ok := isEmpty.Blocks[0].Instrs[len(isEmpty.Blocks[0].Instrs)-1].(*ssa.Return); ok && len(ret.Results) == 1 {
				if bo, ok := ret.Results[0].(*ssa.BinOp); ok && bo.Op == token.EQL {
					if k, isK := constInt(bo.Y); isK && k == 0 {
						if call, ok := bo.X.(*ssa.Call); ok && calleeName(&call.Call) == "builtin.len" {
							if ld, ok := call.Call.Args[0].(*ssa.UnOp); ok && isDataAddr(ld.X) {
								okE = true
							}
						}
					}
				}
			}
		}
		c.Check(okE, "C14-STACK", fnName(isEmpty), "empty-iff-len0", isEmpty.Pos(), "len(data) == 0", "IsEmpty is not len(data) == 0")
	}
	// ---- Append
	{
		c.Sites++
		okA := false
		for _, b := range app.Blocks {
			for _, ins := range b.Instrs {
				st, ok := ins.(*ssa.Store)
				if !ok || !isDataAddr(st.Addr) {
					continue
				}
				if call, ok := st.Val.(*ssa.Call); ok && calleeName(&call.Call) == "builtin.append" {
					if ld, ok := call.Call.Args[0].(*ssa.UnOp); ok && isDataAddr(ld.X) {
						if el := elemOfVariadic(call.Call.Args[1]); el == app.Params[1] {
							okA = true
						}
					}
				}
			}
		}
		c.Check(okA, "C14-STACK", fnName(app), "append-arg", app.Pos(), "data = append(data, b)", "Append does not append its argument to the stack")
	}
	// ---- IsEqualLastVal / LastVal
	if last != nil && eqLast != nil {
		c.Sites++
		var bad []string
		okCmp := false
		for _, b := range eqLast.Blocks {
			for _, ins := range b.Instrs {
				if bo, ok := ins.(*ssa.BinOp); ok && bo.Op == token.EQL {
					call, isCall := bo.X.(*ssa.Call)
					if isCall && staticCallee(&call.Call) == last && bo.Y == eqLast.Params[1] {
						okCmp = true
					}
					// written out: data[len(data)-1] == b
					for _, pr := range [][2]ssa.Value{{bo.X, bo.Y}, {bo.Y, bo.X}} {
						ld, isLd := pr[0].(*ssa.UnOp)
						if !isLd || ld.Op != token.MUL || pr[1] != ssa.Value(eqLast.Params[1]) {
							continue
						}
						if ia, ok := ld.X.(*ssa.IndexAddr); ok {
							if sub, ok := ia.Index.(*ssa.BinOp); ok && sub.Op == token.SUB {
								if k, isK := constInt(sub.Y); isK && k == 1 {
									okCmp = true
								}
							}
						}
					}
				}
			}
		}
		if !okCmp {
			bad = append(bad, "IsEqualLastVal is not LastVal() == b")
		}
		// LastVal: returns data[len-1] on the non-empty path
		okLast := false
		for _, b := range last.Blocks {
			for _, ins := range b.Instrs {
				ia, ok := ins.(*ssa.IndexAddr)
				if !ok {
					continue
				}
				if bo, ok := ia.Index.(*ssa.BinOp); ok && bo.Op == token.SUB {
					if k, isK := constInt(bo.Y); isK && k == 1 {
						if call, ok := bo.X.(*ssa.Call); ok && calleeName(&call.Call) == "builtin.len" {
							okLast = true
						}
					}
				}
			}
		}
		if !okLast {
			bad = append(bad, "LastVal does not read data[len(data)-1]")
		}
		c.Check(len(bad) == 0, "C14-STACK", fnName(eqLast), "last-byte", eqLast.Pos(), "LastVal() == b with LastVal = data[len-1]", strings.Join(bad, "; "))
	}
	_ = types.Typ
}

// C14-USE: every place that turns a rule list (the text stored in an RM entry or in a field's
// validNames) into rule items goes through the quote-aware splitter ValidNamesSplit. A plain
// strings.Split on such text cuts quoted messages and patterns at their commas.
func runC14SplitterUse(c *Ctx) {
	p := c.P
	c.Rule("C14-USE", "rule lists (RM entries, cached validNames) are split into items only by ValidNamesSplit, never by strings.Split", 1)
	sp := p.Pkg("valid")
	if sp == nil {
		return
	}
	isRuleList := func(v ssa.Value) string {
		for d := 0; d < 6 && v != nil; d++ {
			switch x := v.(type) {
			case *ssa.Extract:
				if nx, ok := x.Tuple.(*ssa.Next); ok {
					if rg, ok := nx.Iter.(*ssa.Range); ok && isNamed(rg.X.Type(), ModPath+"/valid", "RM") && x.Index == 2 {
						return "an entry of the rule map being ranged over"
					}
				}
				return ""
			case *ssa.Call:
				if calleeName(&x.Call) == "(valid.RM).Get" {
					return "the result of RM.Get"
				}
				return ""
			case *ssa.Lookup:
				if isNamed(x.X.Type(), ModPath+"/valid", "RM") {
					return "an entry of a rule map"
				}
				return ""
			case *ssa.UnOp:
				if fa, ok := x.X.(*ssa.FieldAddr); ok && fieldAddrName(fa) == "validNames" {
					return "a field's cached rule list"
				}
				v = x.X
			case *ssa.Field:
				if fieldValName(x) == "validNames" {
					return "a field's cached rule list"
				}
				return ""
			case *ssa.Phi:
				for _, e := range x.Edges {
					if s := func() string { return "" }(); s != "" {
						_ = e
					}
				}
				if len(x.Edges) > 0 {
					v = x.Edges[len(x.Edges)-1]
				} else {
					return ""
				}
			default:
				return ""
			}
		}
		return ""
	}
	var bad []string
	nSplit, nOK := 0, 0
	for _, fn := range p.Funcs {
		if fn.Pkg != sp {
			continue
		}
		for _, b := range fn.Blocks {
			for _, ins := range b.Instrs {
				call, ok := ins.(*ssa.Call)
				if !ok {
					continue
				}
				switch calleeName(&call.Call) {
				case "strings.Split", "strings.SplitN", "strings.Fields", "strings.FieldsFunc", "strings.SplitAfter":
					nSplit++
					if what := isRuleList(call.Call.Args[0]); what != "" {
						bad = append(bad, fmt.Sprintf("%s splits %s with %s at %s: quoted commas inside custom messages or patterns cut the rule", fnName(fn), what, calleeName(&call.Call), p.Pos(call.Pos())))
					}
				case "valid.ValidNamesSplit":
					if isRuleList(call.Call.Args[0]) != "" {
						nOK++
					}
				}
			}
		}
	}
	c.Sites += nSplit + nOK
	c.Check(len(bad) == 0 && nOK >= 4, "C14-USE", "valid", "rule-lists", token.NoPos, fmt.Sprintf("%d rule lists split by ValidNamesSplit; %d other Split calls, none on a rule list", nOK, nSplit), uniqJoin(append(bad, fmt.Sprintf("%d rule-list splits through ValidNamesSplit found (expected the four walkers and the missing-key reporter)", nOK)), 3))
}

// C14-VERBATIM: the key and the value returned by the parser are substrings of the rule text,
// cut at the delimiters and otherwise untouched (no trimming, case folding, replacing): every
// value stored into / returned as result 0 and 1 is a slice of the parameter (or of a slice of
// it) or the empty constant. A rule option such as the separator " " of `date= ` or the prefix
// " a" of `prefix= a` must reach the rule function byte for byte.
func runC14Verbatim(c *Ctx) {
	p := c.P
	c.Rule("C14-VERBATIM", "ParseValidNameKV returns key and value as untouched substrings of the rule text", 1)
	fn := p.Func("valid", "ParseValidNameKV")
	if fn == nil {
		c.Unk("C14-VERBATIM", "valid.ParseValidNameKV", "results", token.NoPos, "parser not found")
		return
	}
	c.Funcs[fnName(fn)] = true
	text := fn.Params[0]
	var bad []string
	n := 0
	var isSub func(v ssa.Value, d int) string
	isSub = func(v ssa.Value, d int) string {
		if d > 8 {
			return "too deep"
		}
		switch x := v.(type) {
		case *ssa.Parameter:
			if x == text {
				return ""
			}
			return "another parameter"
		case *ssa.Const:
			if s, ok := constString(x); ok && s == "" {
				return ""
			}
			return "a constant"
		case *ssa.Slice:
			return isSub(x.X, d+1)
		case *ssa.Phi:
			for _, e := range x.Edges {
				if w := isSub(e, d+1); w != "" {
					return w
				}
			}
			return ""
		case *ssa.UnOp:
			// load of a result/local cell: every store into it
			if al, ok := x.X.(*ssa.Alloc); ok {
				for _, r := range refs(al) {
					if st, ok := r.(*ssa.Store); ok && st.Addr == al {
						if w := isSub(st.Val, d+1); w != "" {
							return w
						}
					}
				}
				return ""
			}
			return "a load"
		case *ssa.Call:
			return "the result of " + calleeName(&x.Call)
		case *ssa.BinOp:
			return "a concatenation"
		}
		return fmt.Sprintf("a %T", v)
	}
	for _, b := range fn.Blocks {
		ret, ok := b.Instrs[len(b.Instrs)-1].(*ssa.Return)
		if !ok || len(ret.Results) != 3 {
			continue
		}
		for i, nm := range []string{"key", "value"} {
			n++
			c.Sites++
			if w := isSub(ret.Results[i], 0); w != "" {
				bad = append(bad, fmt.Sprintf("the %s returned at %s is %s, not an untouched substring of the rule text", nm, p.Pos(ret.Pos()), w))
			}
		}
	}
	c.Check(len(bad) == 0 && n > 0, "C14-VERBATIM", fnName(fn), "results", fn.Pos(), fmt.Sprintf("%d returned key/value results are substrings of the input", n), uniqJoin(bad, 3))
}
