package engine

import (
	"fmt"
	"go/constant"
	"go/types"
	"strings"

	"golang.org/x/tools/go/ssa"
)

// Engine AI — path-sensitive abstract interpretation of SSA over finite abstract
// domains (trace partitioning). Values are constants, opaque symbols named by the
// expression that produced them, and tokens of small finite domains supplied by the
// client (reflect kinds, order classes of a measure against a bound, …). Branches on
// opaque atoms partition the trace set; an atom is decided once per trace, so two
// syntactic occurrences of the same test agree. No concrete input is ever constructed
// and no solver is involved: every comparison is resolved by table lookup in the finite
// domain or left as an opaque atom.

// AVal is an abstract value. Key is a canonical name (used to identify atoms).
type AVal interface{ Key() string }

// Cst is a known constant (V == nil: the nil constant / zero value of a reference type).
type Cst struct {
	V constant.Value
	T types.Type
}

func (c Cst) Key() string {
	if c.V == nil {
		return "nil"
	}
	if c.V.Kind() == constant.String {
		return fmt.Sprintf("%q", constant.StringVal(c.V))
	}
	return c.V.ExactString()
}

// Sym is an opaque value identified by the expression that produced it.
type Sym struct {
	K string
	T types.Type
}

func (s Sym) Key() string { return s.K }

// Tup is a tuple of results.
type Tup struct{ E []AVal }

func (t Tup) Key() string {
	ks := make([]string, len(t.E))
	for i, e := range t.E {
		ks[i] = keyOf(e)
	}
	return "(" + strings.Join(ks, ", ") + ")"
}

// Cell is an abstract memory cell (a local, an array element, a struct field).
type Cell struct {
	ID     int
	Label  string
	V      AVal
	Elems  []*Cell
	Fields map[int]*Cell
	T      types.Type // type of the content
}

// ArrVal is the value of a (small) array whose elements are known cell by cell: what a load of a
// whole array yields and what a store of it copies.
type ArrVal struct {
	E []AVal
	T types.Type
}

func (a ArrVal) Key() string {
	ks := make([]string, len(a.E))
	for i, e := range a.E {
		ks[i] = keyOf(e)
	}
	return "[" + strings.Join(ks, ",") + "]"
}

// Ptr points to a cell.
type Ptr struct{ C *Cell }

func (p Ptr) Key() string {
	if p.C.Label != "" {
		return "&" + p.C.Label
	}
	return fmt.Sprintf("&cell%d", p.C.ID)
}

// Slc is a slice with statically known bounds over an array cell.
type Slc struct {
	Arr    *Cell
	Lo, Hi int
}

func (s Slc) Key() string {
	ks := []string{}
	for i := s.Lo; i < s.Hi && i < len(s.Arr.Elems); i++ {
		ks = append(ks, keyOf(s.Arr.Elems[i].V))
	}
	return "[" + strings.Join(ks, ", ") + "]"
}

// Clo is a function value (closure with its bindings).
type Clo struct {
	Fn   *ssa.Function
	Bind []AVal
}

func (c Clo) Key() string { return "func:" + fnName(c.Fn) }

// Ifc is a value boxed in an interface with known dynamic type.
type Ifc struct {
	V   AVal
	Dyn types.Type
}

func (i Ifc) Key() string { return keyOf(i.V) }

// StructVal is a struct value (copied out of a cell).
type StructVal struct {
	F    map[int]AVal
	T    types.Type
	Base *Sym // fields not in F are fields of this symbolic struct
}

func (s StructVal) Key() string {
	return fmt.Sprintf("struct%v", s.F)
}

// StrCat is a symbolic string: concatenation of constant and symbolic parts.
type StrCat struct{ Parts []AVal }

func (s StrCat) Key() string {
	ks := make([]string, len(s.Parts))
	for i, e := range s.Parts {
		ks[i] = keyOf(e)
	}
	return strings.Join(ks, "+")
}

// ListVal is a slice whose elements are all known (built from an empty slice by appends of known
// elements): names = append(names, x) ... strings.Join(names, sep).
type ListVal struct {
	E []AVal
	T types.Type
}

func (l ListVal) Key() string {
	ks := make([]string, len(l.E))
	for i, e := range l.E {
		ks[i] = keyOf(e)
	}
	return "list[" + strings.Join(ks, ", ") + "]"
}

// Tok is a token of a client-defined finite domain (e.g. a measure, a bound, a clause).
type Tok struct {
	Dom  string
	Name string
	Args []AVal
}

func (t Tok) Key() string {
	if len(t.Args) == 0 {
		return t.Dom + ":" + t.Name
	}
	ks := make([]string, len(t.Args))
	for i, e := range t.Args {
		ks[i] = keyOf(e)
	}
	return t.Dom + ":" + t.Name + "(" + strings.Join(ks, ", ") + ")"
}

func keyOf(v AVal) string {
	if v == nil {
		return "<undef>"
	}
	return v.Key()
}

func cstBool(b bool) Cst  { return Cst{V: constant.MakeBool(b), T: types.Typ[types.Bool]} }
func cstInt(i int64) Cst  { return Cst{V: constant.MakeInt64(i), T: types.Typ[types.Int]} }
func cstStr(s string) Cst { return Cst{V: constant.MakeString(s), T: types.Typ[types.String]} }
func isCstBool(v AVal) (bool, bool) {
	if c, ok := v.(Cst); ok && c.V != nil && c.V.Kind() == constant.Bool {
		return constant.BoolVal(c.V), true
	}
	return false, false
}
func isCstInt(v AVal) (int64, bool) {
	if c, ok := v.(Cst); ok && c.V != nil && c.V.Kind() == constant.Int {
		i, ex := constant.Int64Val(c.V)
		return i, ex
	}
	return 0, false
}
func isCstStr(v AVal) (string, bool) {
	if c, ok := v.(Cst); ok && c.V != nil && c.V.Kind() == constant.String {
		return constant.StringVal(c.V), true
	}
	return "", false
}

// zeroOf returns the abstract zero value of a type.
func zeroOf(t types.Type) AVal {
	switch u := t.Underlying().(type) {
	case *types.Basic:
		switch {
		case u.Info()&types.IsBoolean != 0:
			return Cst{V: constant.MakeBool(false), T: t}
		case u.Info()&types.IsString != 0:
			return Cst{V: constant.MakeString(""), T: t}
		case u.Info()&types.IsInteger != 0:
			return Cst{V: constant.MakeInt64(0), T: t}
		case u.Info()&types.IsFloat != 0:
			return Cst{V: constant.MakeFloat64(0), T: t}
		}
		return Cst{T: t}
	case *types.Struct:
		return StructVal{F: map[int]AVal{}, T: t}
	}
	return Cst{T: t} // nil
}
