package engine

import (
	"fmt"
	"sync"
)

// RegRun: the trace partitions of one rule function.
type RegRun struct {
	Entry  RegEntry
	Kinds  []int
	Traces []Trace
}

var regCache sync.Map // *Prog -> []RegRun

// exploreRegistry interprets every function of the rule table once per program.
func exploreRegistry(p *Prog) ([]RegRun, error) {
	if v, ok := regCache.Load(p); ok {
		return v.([]RegRun), nil
	}
	reg, _, err := registryTable(p)
	if err != nil {
		return nil, err
	}
	var out []RegRun
	for _, e := range reg {
		if e.Fn == nil {
			out = append(out, RegRun{Entry: e})
			continue
		}
		re := &RuleEnv{In: NewInterp(p), Kinds: anyValidKind()}
		re.installCommonModels()
		sizeDomain(re)
		re.In.NoInline["valid/internal.UnsafeStr2Bytes"] = true
		re.In.NoInline["valid/internal.UnsafeBytes2Str"] = true
		name := e.Name
		// The walkers invoke table[key](.., validName, ..) with key = key part of that very
		// validName, so inside the function registered under `name` the key part is `name`.
		re.In.AtomHook = func(in *Interp, atom string) (int, bool) {
			const pre, suf = `eq("`, `",valid.ParseValidNameKV(validName)#0)`
			if len(atom) > len(pre)+len(suf) && atom[:len(pre)] == pre && atom[len(atom)-len(suf):] == suf {
				if atom[len(pre):len(atom)-len(suf)] == name {
					return 1, true
				}
				return 0, true
			}
			return 0, false
		}
		if e.Name == "datetime" {
			re.In.WidenAfter = 5
		}
		trs := re.In.Explore(e.Fn, ruleArgs(e.Fn), 20000)
		out = append(out, RegRun{Entry: e, Kinds: re.Kinds, Traces: trs})
	}
	regCache.Store(p, out)
	return out, nil
}

func (r RegRun) String() string { return fmt.Sprintf("%s(%d traces)", r.Entry.Name, len(r.Traces)) }
