package engine

// placeholders filled by engine R (regexlang.go) and the ToStr table check
func runC05Lang(c *Ctx, used map[string]map[string]bool) {}
func runC05ToStr(c *Ctx)                                  {}
