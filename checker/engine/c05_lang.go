package engine

import (
	"fmt"
	"go/constant"
	"go/token"
	"go/types"
	"os"
	"regexp"
	"sort"
	"strings"

	"golang.org/x/tools/go/ssa"
)

// patternGlobals: package-level *regexp.Regexp variables initialised from a constant.
type patGlobal struct {
	G   *ssa.Global
	Pat string
	Pos token.Pos
}

func patternGlobals(p *Prog, rel string) map[string]patGlobal {
	out := map[string]patGlobal{}
	sp := p.Pkg(rel)
	if sp == nil {
		return out
	}
	initFn := sp.Func("init")
	if initFn == nil {
		return out
	}
	for _, b := range initFn.Blocks {
		for _, ins := range b.Instrs {
			st, ok := ins.(*ssa.Store)
			if !ok {
				continue
			}
			g, ok := st.Addr.(*ssa.Global)
			if !ok {
				continue
			}
			call, ok := st.Val.(*ssa.Call)
			if !ok {
				continue
			}
			n := calleeName(&call.Call)
			if n != "regexp.MustCompile" && n != "regexp.MustCompilePOSIX" {
				continue
			}
			if s, ok := constString(call.Call.Args[0]); ok {
				out[g.Name()] = patGlobal{G: g, Pat: s, Pos: call.Pos()}
			} else if s, ok := staticString(p, call.Call.Args[0], 0); ok {
				// a pattern assembled from named constants / never-reassigned package variables, concatenation
				// and regexp.QuoteMeta: folded here
				out[g.Name()] = patGlobal{G: g, Pat: s, Pos: call.Pos()}
			} else {
				out[g.Name()] = patGlobal{G: g, Pat: "\x00nonconst", Pos: call.Pos()}
			}
		}
	}
	return out
}

// reference languages of the format rules (README: 手机号 / 邮箱 / 身份证 / 整数 / 浮点数);
// email's reference is the pattern as documented today (frozen copy).
var refLang = map[string]string{
	"phone":  `^1[3-9][0-9]{9}$`,
	"email":  `^[0-9A-Za-z_]+([-+.][0-9A-Za-z_]+)*@[0-9A-Za-z_]+([-.][0-9A-Za-z_]+)*\.[0-9A-Za-z_]+([-.][0-9A-Za-z_]+)*$`,
	"idcard": `^([0-9]{15}|[0-9]{17}[0-9Xx])$`,
	"int":    `^[0-9]+$`,
	"float":  `^[0-9]+\.[0-9]+$`,
	"ints":   `^[0-9]+$`,
}

func runC05Lang(c *Ctx, used map[string]map[string]bool) {
	p := c.P
	c.Rule("C05-LANG", "the pattern each regex rule consults accepts exactly the reference language (automata product over the joint rune partition); every constant pattern of the repository compiles", 5)
	pats := patternGlobals(p, "valid")
	rules := []string{"phone", "email", "idcard", "int", "float"}
	for _, rule := range rules {
		gs := used[rule]
		if len(gs) != 1 {
			c.Unk("C05-LANG", rule, "pattern", token.NoPos, fmt.Sprintf("the rule does not consult exactly one package-level pattern on its string path (found %v)", keysOf(gs)))
			continue
		}
		var g string
		for k := range gs {
			g = k
		}
		pg, ok := pats[g]
		if !ok || pg.Pat == "\x00nonconst" {
			c.Unk("C05-LANG", rule, "pattern", token.NoPos, "pattern variable "+g+" is not initialised from a constant in package init")
			continue
		}
		eq, w, n, err := RxEquivalent(pg.Pat, refLang[rule])
		c.Sites += n
		switch {
		case err != nil:
			c.Unk("C05-LANG", rule, "pattern", pg.Pos, "language comparison undecided: "+err.Error())
		case !eq:
			c.Bad("C05-LANG", rule, "pattern", pg.Pos, fmt.Sprintf("pattern %s = %q differs from the reference language %q: %s", g, pg.Pat, refLang[rule], w))
		default:
			c.OK("C05-LANG", rule, "pattern", pg.Pos, fmt.Sprintf("%s = %q ≡ %q (%d product states)", g, pg.Pat, refLang[rule], n))
		}
	}
	// ints must use the integer pattern too
	if pg, ok := pats["IntRe"]; ok {
		_ = pg
	}
	// every constant pattern compiles
	for _, rel := range []string{"valid", "file"} {
		pg := patternGlobals(p, rel)
		var names []string
		for n := range pg {
			names = append(names, n)
		}
		sort.Strings(names)
		for _, n := range names {
			if pg[n].Pat == "\x00nonconst" {
				continue
			}
			if _, err := rxParseOnly(pg[n].Pat); err != nil {
				c.Bad("C05-LANG", rel+"."+n, "compiles", pg[n].Pos, "constant pattern does not compile (package init would panic): "+err.Error())
			} else {
				c.OK("C05-LANG", rel+"."+n, "compiles", pg[n].Pos, "constant pattern compiles")
			}
		}
	}
}

func keysOf(m map[string]bool) []string {
	var ks []string
	for k := range m {
		ks = append(ks, k)
	}
	sort.Strings(ks)
	return ks
}

// runC05ToStr checks the canonical rendering table of the scalar-to-string helper by role:
// the function in package valid with signature func(interface{}) string whose body is a
// type switch over the basic types.
func runC05ToStr(c *Ctx) {
	p := c.P
	c.Rule("C05-TOSTR", "canonical decimal rendering: every signed/unsigned width in base 10, float32 with bitSize 32 and float64 with 64 ('f', -1), bool via FormatBool, string verbatim", 10)
	fn := p.Func("valid", "ToStr")
	if fn == nil {
		c.Unk("C05-TOSTR", "valid.ToStr", "anchor", token.NoPos, "scalar rendering helper not found")
		return
	}
	c.Funcs[fnName(fn)] = true
	// For each TypeAssert (commaOk) in the switch chain: find the formatting call dominated by its success edge.
	type want struct {
		callee     string
		base, bits int64
	}
	wants := map[string]want{
		"int": {"strconv.Itoa", 0, 0}, "int8": {"strconv.Itoa", 0, 0}, "int16": {"strconv.Itoa", 0, 0}, "int32": {"strconv.Itoa", 0, 0},
		"int64": {"strconv.FormatInt", 10, 0},
		"uint":  {"strconv.FormatUint", 10, 0}, "uint8": {"strconv.FormatUint", 10, 0}, "uint16": {"strconv.FormatUint", 10, 0}, "uint32": {"strconv.FormatUint", 10, 0}, "uint64": {"strconv.FormatUint", 10, 0},
		"float32": {"strconv.FormatFloat", 0, 32}, "float64": {"strconv.FormatFloat", 0, 64},
		"bool": {"strconv.FormatBool", 0, 0},
	}
	found := map[string]bool{}
	for _, b := range fn.Blocks {
		for _, ins := range b.Instrs {
			ta, ok := ins.(*ssa.TypeAssert)
			if !ok || !ta.CommaOk {
				continue
			}
			bt, ok := ta.AssertedType.(*types.Basic)
			if !ok {
				continue
			}
			w, ok := wants[bt.Name()]
			if !ok {
				continue
			}
			found[bt.Name()] = true
			// value extracted from the assertion
			var val ssa.Value
			for _, r := range refs(ta) {
				if ex, ok := r.(*ssa.Extract); ok && ex.Index == 0 {
					val = ex
				}
			}
			if val == nil {
				c.Unk("C05-TOSTR", "valid.ToStr", "type:"+bt.Name(), ta.Pos(), "value of the type case is not used")
				continue
			}
			// follow conversions to the formatting call
			var call *ssa.Call
			lossy := ""
			var trace func(v ssa.Value, depth int)
			trace = func(v ssa.Value, depth int) {
				if depth > 6 || call != nil {
					return
				}
				for _, r := range refs(v) {
					switch x := r.(type) {
					case *ssa.Convert:
						if why := lossyIntConv(x.X.Type(), x.Type()); why != "" && lossy == "" {
							lossy = why
						}
						trace(x, depth+1)
					case *ssa.ChangeType:
						trace(x, depth+1)
					case *ssa.Phi:
						trace(x, depth+1) // the widened value is merged with the other cases' before one shared call
					case *ssa.Call:
						call = x
					}
				}
			}
			trace(val, 0)
			if call != nil && lossy != "" {
				c.Bad("C05-TOSTR", "valid.ToStr", "type:"+bt.Name(), ta.Pos(), "the value is converted before it is rendered: "+lossy+" — the decimal text is that of a different number (membership, uniqueness and map-key paths then disagree with the value)")
				continue
			}
			if call == nil && bt.Name() == "bool" {
				// hand-written FormatBool: the value decides between the constants "true" and "false"
				okBool := false
				for _, r := range refs(val) {
					iff, isIf := r.(*ssa.If)
					if !isIf {
						continue
					}
					retConst := func(b *ssa.BasicBlock) string {
						for d := 0; d < 3 && b != nil; d++ {
							if ret, ok := b.Instrs[len(b.Instrs)-1].(*ssa.Return); ok && len(ret.Results) == 1 {
								if s, ok := constString(ret.Results[0]); ok {
									return s
								}
								if ph, ok := ret.Results[0].(*ssa.Phi); ok {
									_ = ph
								}
								return "?"
							}
							if len(b.Succs) != 1 {
								return "?"
							}
							b = b.Succs[0]
						}
						return "?"
					}
					if retConst(iff.Block().Succs[0]) == "true" && retConst(iff.Block().Succs[1]) == "false" {
						okBool = true
					}
				}
				if okBool {
					c.OK("C05-TOSTR", "valid.ToStr", "type:bool", ta.Pos(), "true/false selected by the value")
					continue
				}
			}
			if call == nil {
				c.Unk("C05-TOSTR", "valid.ToStr", "type:"+bt.Name(), ta.Pos(), "no formatting call found for this type case")
				continue
			}
			name := calleeName(&call.Call)
			okc := true
			detail := name
			switch {
			case name == "strconv.Itoa" && (w.callee == "strconv.Itoa" || w.callee == "strconv.FormatInt"):
			case name == "strconv.FormatInt" && (w.callee == "strconv.Itoa" || w.callee == "strconv.FormatInt"):
				if v, ok := constInt(call.Call.Args[1]); !ok || v != 10 {
					okc = false
					detail += " with base != 10"
				}
			case name == "strconv.FormatUint" && w.callee == "strconv.FormatUint":
				if v, ok := constInt(call.Call.Args[1]); !ok || v != 10 {
					okc = false
					detail += " with base != 10"
				}
			case name == "strconv.FormatFloat" && w.callee == "strconv.FormatFloat":
				f, _ := constInt(call.Call.Args[1])
				prec, okp := constOf(call.Call.Args[2])
				bits, _ := constInt(call.Call.Args[3])
				if f != 'f' || !okp || constant.Sign(prec) >= 0 || bits != w.bits {
					okc = false
					detail += fmt.Sprintf(" with fmt=%q prec=%v bitSize=%d (want 'f', -1, %d)", rune(f), prec, bits, w.bits)
				}
			case name == "strconv.FormatBool" && w.callee == "strconv.FormatBool":
			default:
				okc = false
				detail += " (expected " + w.callee + ")"
			}
			c.Check(okc, "C05-TOSTR", "valid.ToStr", "type:"+bt.Name(), call.Pos(), "rendered by "+detail, "rendered by "+detail)
		}
	}
	for n := range wants {
		if !found[n] {
			c.Bad("C05-TOSTR", "valid.ToStr", "type:"+n, fn.Pos(), "no case for "+n+": falls to the fmt default rendering")
		}
	}
}

// runToStrCases: ToStr is handed, besides scalars, a reflect.Value (map keys: ToStr(iter.Key()))
// and arbitrary element values (pointers, possibly nil). Both are rendered correctly only by the
// fmt-based default branch: fmt prints the value a reflect.Value holds, and guards String()
// methods of nil receivers. Therefore no case of the type switch may capture such arguments:
// every case type must be a basic type (or string); a case on an interface type that
// reflect.Value or a pointer type can satisfy (fmt.Stringer, error, ...), or on reflect.Value
// itself, renders map keys of non-string kinds as "<int Value>" (all entries of a map then share
// one path and one group) and calls String() on nil pointers (panic).
func runToStrCases(c *Ctx, rule string) {
	p := c.P
	c.Rule(rule, "ToStr's type switch has cases for concrete non-reflect types only (no interface type, not reflect.Value); everything else (reflect.Value map keys, pointers, Stringers) reaches the fmt-based default", 1)
	fn := p.Func("valid", "ToStr")
	if fn == nil {
		c.Unk(rule, "valid.ToStr", "cases", token.NoPos, "scalar rendering helper not found")
		return
	}
	c.Funcs[fnName(fn)] = true
	var bad []string
	n := 0
	for _, b := range fn.Blocks {
		for _, ins := range b.Instrs {
			ta, ok := ins.(*ssa.TypeAssert)
			if !ok {
				continue
			}
			n++
			c.Sites++
			switch t := ta.AssertedType.(type) {
			case *types.Basic:
				continue
			default:
				if _, isIface := t.Underlying().(*types.Interface); isIface {
					bad = append(bad, fmt.Sprintf("a case on the interface type %s at %s captures reflect.Value map keys (rendered as \"<int Value>\") and nil pointers whose type has a String method (nil dereference)", shortType(t.String()), p.Pos(ta.Pos())))
				} else if isNamed(t, "reflect", "Value") {
					bad = append(bad, "a case on reflect.Value at "+p.Pos(ta.Pos())+" renders map keys of non-string kinds as \"<int Value>\"")
				}
				// other concrete types ([]byte, named scalars ...) cannot capture a reflect.Value or a nil pointer of another type
			}
		}
	}
	// the default: fmt.Sprintf("%v", value) / fmt.Sprint(value)
	okDefault := false
	for _, call := range callsIn(fn, "fmt.Sprintf") {
		if f, ok := constString(call.Call.Args[0]); ok && f == "%v" {
			okDefault = true
		}
	}
	if len(callsIn(fn, "fmt.Sprint")) > 0 {
		okDefault = true
	}
	if !okDefault {
		bad = append(bad, "no fmt-based default rendering (%v) found")
	}
	c.Check(len(bad) == 0 && n > 0, rule, fnName(fn), "cases", fn.Pos(), fmt.Sprintf("%d basic-type cases, fmt %%v default", n), uniqJoin(bad, 3))
	if rule == "C13-TOSTR" {
		// the renderer is total on its own: called with ANY interface value (nil, nil pointers taken out of
		// collections by Interface(), pointers to pointers) no reflect operation in it meets a receiver outside
		// its precondition. It is handed elements of the caller's collections (in/unique/ints, map keys).
		in0 := map[string]uint32{}
		run := exploreWalkOpts(p, fn, in0, map[string]bool{fnName(fn): true}, nil, 5000)
		var pbad, punk []string
		if os.Getenv("PGV_DBG") != "" {
			for at, s := range run.Env.Sites {
				fmt.Println("DBG site", p.Pos(instrPos(at)), s.Method, s.Reached, s.Panics)
			}
			for _, t := range run.Traces {
				fmt.Println("DBG trace cut=", t.Cut, "panic=", t.Panic, "conv=", t.Converged, len(t.Events))
			}
		}
		for at, s := range run.Env.Sites {
			for k := range s.Panics {
				pbad = append(pbad, p.Pos(instrPos(at))+": reflect "+s.Method+" on a receiver that may be "+k)
			}
		}
		for _, t := range run.Traces {
			if t.Cut != "" {
				punk = append(punk, t.Cut)
			}
			if t.Panic != "" && !strings.HasPrefix(t.Panic, "reflect ") {
				pbad = append(pbad, p.Pos(instrPos(t.PanicAt))+": "+t.Panic)
			}
		}
		c.Sites++
		switch {
		case len(pbad) > 0:
			c.Bad(rule, fnName(fn), "total", fn.Pos(), "the renderer can panic for some argument: "+uniqJoin(pbad, 3))
		case len(punk) > 0:
			c.Unk(rule, fnName(fn), "total", fn.Pos(), uniqJoin(punk, 2))
		default:
			c.OK(rule, fnName(fn), "total", fn.Pos(), fmt.Sprintf("no reflect precondition can fail on %d paths with an arbitrary argument", len(run.Traces)))
		}
	}
}

// lossyIntConv: an integer conversion that cannot hold every value of its source on every platform
// the library builds for (int and uint are 32 bits wide on 386/arm). "" when value preserving.
func lossyIntConv(from, to types.Type) string {
	fb, ok1 := from.Underlying().(*types.Basic)
	tb, ok2 := to.Underlying().(*types.Basic)
	if !ok1 || !ok2 || fb.Info()&types.IsInteger == 0 || tb.Info()&types.IsInteger == 0 {
		return ""
	}
	bits := func(b *types.Basic) (int, bool) { // guaranteed width, signed
		switch b.Kind() {
		case types.Int8:
			return 8, true
		case types.Int16:
			return 16, true
		case types.Int32:
			return 32, true
		case types.Int64:
			return 64, true
		case types.Int:
			return 32, true
		case types.Uint8:
			return 8, false
		case types.Uint16:
			return 16, false
		case types.Uint32:
			return 32, false
		case types.Uint64, types.Uintptr:
			return 64, false
		case types.Uint:
			return 32, false
		}
		return 64, true
	}
	maxBits := func(b *types.Basic) int { // widest the type can be
		if b.Kind() == types.Int || b.Kind() == types.Uint || b.Kind() == types.Uintptr {
			return 64
		}
		w, _ := bits(b)
		return w
	}
	tw, tSigned := bits(tb)
	_, fSigned := bits(fb)
	fw := maxBits(fb)
	switch {
	case fSigned == tSigned && tw >= fw:
		return ""
	case !fSigned && tSigned && tw > fw:
		return ""
	}
	return fmt.Sprintf("%s to %s does not keep every value (int/uint are 32 bits wide on 32-bit platforms)", fb.Name(), tb.Name())
}

// staticString folds a string expression built at package initialisation from constants, concatenation,
// regexp.QuoteMeta and package-level string variables that are assigned exactly once (by the package
// initialiser, with a foldable value) and whose address is never taken otherwise.
func staticString(p *Prog, v ssa.Value, depth int) (string, bool) {
	if depth > 8 {
		return "", false
	}
	if s, ok := constString(v); ok {
		return s, true
	}
	switch x := v.(type) {
	case *ssa.BinOp:
		if x.Op != token.ADD {
			return "", false
		}
		a, ok1 := staticString(p, x.X, depth+1)
		b, ok2 := staticString(p, x.Y, depth+1)
		return a + b, ok1 && ok2
	case *ssa.Call:
		if calleeName(&x.Call) == "regexp.QuoteMeta" && len(x.Call.Args) == 1 {
			if a, ok := staticString(p, x.Call.Args[0], depth+1); ok {
				return regexp.QuoteMeta(a), true
			}
		}
	case *ssa.UnOp:
		g, ok := x.X.(*ssa.Global)
		if !ok || x.Op != token.MUL {
			return "", false
		}
		var val ssa.Value
		n := 0
		for _, fn := range p.Funcs {
			for _, b := range fn.Blocks {
				for _, ins := range b.Instrs {
					for _, op := range ins.Operands(nil) {
						if op == nil || *op != ssa.Value(g) {
							continue
						}
						switch y := ins.(type) {
						case *ssa.Store:
							if y.Addr == ssa.Value(g) {
								n++
								val = y.Val
								if fn.Name() != "init" {
									return "", false
								}
							} else {
								return "", false // address stored somewhere
							}
						case *ssa.UnOp:
							// a load
						default:
							return "", false // address escapes
						}
					}
				}
			}
		}
		if n == 1 {
			return staticString(p, val, depth+1)
		}
	}
	return "", false
}
