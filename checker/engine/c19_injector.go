package engine

import (
	"fmt"
	"go/token"
	"go/types"
	"strings"

	"golang.org/x/tools/go/ssa"
)

var fileMutators = map[string]bool{
	"os.WriteFile": true, "io/ioutil.WriteFile": true, "os.Create": true, "os.OpenFile": true, "os.Remove": true, "os.RemoveAll": true,
	"os.Rename": true, "os.Truncate": true, "os.Chmod": true, "os.Mkdir": true, "os.MkdirAll": true, "(*os.File).Write": true, "(*os.File).WriteString": true,
	"(*os.File).Truncate": true, "os.Link": true, "os.Symlink": true, "io.Copy": true, "(*os.File).Chmod": true,
}

// dominatedByEdge: block b is only reachable through the edge of `iff` on which cond == want.
func dominatedByEdge(b *ssa.BasicBlock, pred *ssa.BasicBlock, want bool) bool {
	s := pred.Succs[1]
	if want {
		s = pred.Succs[0]
	}
	return len(s.Preds) == 1 && s.Dominates(b)
}

func runC19(c *Ctx) {
	p := c.P
	main := p.Pkg("")
	if main == nil {
		c.Unk("C19-ORDER", "main", "anchor", token.NoPos, "package main not loaded")
		return
	}
	handle := main.Func("handleFile")
	write := p.Func("file", "WriteFile")
	parse := p.Func("file", "ParseFile")
	if handle == nil || write == nil || parse == nil {
		c.Unk("C19-ORDER", "main", "anchor", token.NoPos, "handleFile / file.WriteFile / file.ParseFile not found")
		return
	}
	for _, f := range []*ssa.Function{handle, write, parse} {
		c.Funcs[fnName(f)] = true
	}
	c.Rule("C19-ORDER", "suffix test before parse and write; write only after a successful parse; parser error returns before areas are built; write inside the writer only after a successful read; the only file-mutating call reachable from the handler is that write on the input path", 5)
	// suffix guard
	{
		var suffixIf *ssa.BasicBlock
		suffixTrueMeansGo := true
		for _, b := range handle.Blocks {
			iff, ok := b.Instrs[len(b.Instrs)-1].(*ssa.If)
			if !ok {
				continue
			}
			cond := iff.Cond
			neg := false
			if u, ok := cond.(*ssa.UnOp); ok && u.Op == token.NOT {
				cond, neg = u.X, true
			}
			if call, ok := cond.(*ssa.Call); ok && calleeName(&call.Call) == "strings.HasSuffix" {
				if s, _ := constString(call.Call.Args[1]); s == ".go" && call.Call.Args[0] == handle.Params[0] {
					suffixIf = b
					suffixTrueMeansGo = !neg
				}
			}
		}
		// the guard may have been moved to the callers: then EVERY call of the handler (anywhere in the
		// program) must sit behind a '.go' suffix test of the very path it passes
		guardedByCallers := false
		if suffixIf == nil {
			nCalls, allGuarded := 0, true
			for _, fn := range p.Funcs {
				for _, b := range fn.Blocks {
					for _, ins := range b.Instrs {
						ci, ok := ins.(ssa.CallInstruction)
						if !ok || staticCallee(ci.Common()) != handle || len(ci.Common().Args) == 0 {
							continue
						}
						nCalls++
						arg := ci.Common().Args[0]
						guarded := false
						for _, gb := range fn.Blocks {
							iff, ok := gb.Instrs[len(gb.Instrs)-1].(*ssa.If)
							if !ok {
								continue
							}
							cond, neg := iff.Cond, false
							if u, ok := cond.(*ssa.UnOp); ok && u.Op == token.NOT {
								cond, neg = u.X, true
							}
							if tested, ok := goSuffixTested(cond); ok && sameLoad(tested, arg) && dominatedByEdge(b, gb, !neg) {
								guarded = true
							}
						}
						if !guarded {
							allGuarded = false
						}
					}
				}
			}
			guardedByCallers = nCalls > 0 && allGuarded
		}
		for _, target := range []struct {
			fn   *ssa.Function
			what string
		}{{parse, "parse"}, {write, "write"}} {
			calls := callsIn(handle, fnName(target.fn))
			if guardedByCallers && len(calls) > 0 {
				c.Sites++
				c.OK("C19-ORDER", fnName(handle), "suffix-before-"+target.what, handle.Pos(), "every caller of the handler tests the '.go' suffix of the path it passes")
				continue
			}
			ok := suffixIf != nil && len(calls) > 0
			for _, call := range calls {
				if suffixIf == nil || !dominatedByEdge(call.Block(), suffixIf, suffixTrueMeansGo) {
					ok = false
				}
			}
			c.Sites++
			c.Check(ok, "C19-ORDER", fnName(handle), "suffix-before-"+target.what, handle.Pos(), "behind the '.go' suffix test", "the "+target.what+" is not behind the '.go' suffix test: a file that is not a .go file can be rewritten")
		}
		// the text parsed is the file as it is on disk: go/parser reads it itself (src == nil) or is given
		// exactly what was read — offsets computed on a transformed copy (sanitised, BOM stripped, re-encoded)
		// are later applied to the raw bytes
		{
			var pbad []string
			np := 0
			for _, b := range parse.Blocks {
				for _, ins := range b.Instrs {
					call, ok := ins.(*ssa.Call)
					if !ok || calleeName(&call.Call) != "go/parser.ParseFile" || len(call.Call.Args) < 3 {
						continue
					}
					np++
					src := call.Call.Args[2]
					if mi, ok := src.(*ssa.MakeInterface); ok {
						src = mi.X
					}
					switch x := src.(type) {
					case *ssa.Const:
						if !x.IsNil() {
							pbad = append(pbad, "the parser is given a constant source")
						}
					case *ssa.Extract:
						rc, ok := x.Tuple.(*ssa.Call)
						nm := ""
						if ok {
							nm = calleeName(&rc.Call)
						}
						if nm != "os.ReadFile" && nm != "io/ioutil.ReadFile" && nm != "io.ReadAll" && nm != "io/ioutil.ReadAll" {
							pbad = append(pbad, "the source handed to the parser is the result of "+nm+", not the file's bytes as read")
						}
					default:
						what := fmt.Sprintf("%T", src)
						if sc, ok := src.(*ssa.Call); ok {
							what = "the result of " + calleeName(&sc.Call)
						}
						pbad = append(pbad, "the source handed to the parser at "+p.Pos(call.Pos())+" is "+what+", not the file's bytes as read: areas computed on a transformed copy are applied to the raw file")
					}
				}
			}
			c.Sites++
			c.Check(len(pbad) == 0 && np > 0, "C19-ORDER", fnName(parse), "parsed-as-read", parse.Pos(), "the parser reads the file itself or is given its bytes as read", strings.Join(uniqStrings(append(pbad, map[bool][]string{true: nil, false: {"no call of go/parser.ParseFile found"}}[np > 0]...)), "; "))
		}
		// write after successful parse
		okW := false
		wcalls := callsIn(handle, fnName(write))
		pcalls := callsIn(handle, fnName(parse))
		if len(wcalls) >= 1 && len(pcalls) == 1 {
			okW = true
			for _, w := range wcalls {
				if !succeededBefore(pcalls[0], w.Block()) {
					okW = false
				}
				// the areas and path passed are the parse's
				if w.Call.Args[0] != handle.Params[0] {
					okW = false
				}
			}
		}
		c.Sites++
		c.Check(okW, "C19-ORDER", fnName(handle), "write-after-parse-ok", handle.Pos(), "the write is dominated by the parse's success edge", "the file can be written although parsing failed (or a different path is written): an unparsable file would not stay byte-identical")
	}
	// ParseFile: parser error returns before any area
	{
		pc := callsIn(parse, "go/parser.ParseFile")
		ok := len(pc) == 1
		if ok {
			for _, b := range parse.Blocks {
				for _, ins := range b.Instrs {
					if call, isC := ins.(*ssa.Call); isC && calleeName(&call.Call) == "builtin.append" {
						if !succeededBefore(pc[0], b) {
							ok = false
						}
					}
				}
			}
		}
		c.Sites++
		c.Check(ok, "C19-ORDER", fnName(parse), "error-first", parse.Pos(), "areas are built only after the parser succeeded", "areas can be built from a file that failed to parse")
	}
	// WriteFile: write dominated by successful read
	{
		writes := append(callsIn(write, "io/ioutil.WriteFile"), callsIn(write, "os.WriteFile")...)
		reads := append(callsIn(write, "io/ioutil.ReadAll"), callsIn(write, "io.ReadAll")...)
		reads = append(reads, callsIn(write, "os.ReadFile")...)
		ok := len(writes) == 1 && len(reads) == 1 && succeededBefore(reads[0], writes[0].Block())
		c.Sites++
		c.Check(ok, "C19-ORDER", fnName(write), "write-after-read-ok", write.Pos(), "the write is dominated by a successful read", "the file can be written after a failed or partial read (truncating it)")
	}
	// only that mutation is reachable
	{
		var muts []string
		for f := range reachableFrom(handle) {
			for _, b := range f.Blocks {
				for _, ins := range b.Instrs {
					if call, ok := ins.(ssa.CallInstruction); ok {
						n := calleeName(call.Common())
						if fileMutators[n] {
							muts = append(muts, fmt.Sprintf("%s in %s", n, fnName(f)))
						}
					}
				}
			}
		}
		muts = uniqStrings(muts)
		ok := len(muts) == 1 && (strings.HasPrefix(muts[0], "io/ioutil.WriteFile in file.WriteFile") || strings.HasPrefix(muts[0], "os.WriteFile in file.WriteFile"))
		c.Sites++
		c.Check(ok, "C19-ORDER", fnName(handle), "only-mutation", handle.Pos(), "the only file-mutating call reachable is "+strings.Join(muts, ", "), "file-mutating calls reachable from the per-file handler: "+strings.Join(muts, ", "))
	}
	// ---------------- ISOLATE
	c.Rule("C19-ISOLATE", "directory and glob loops leave only through their headers and ignore the per-file result; nothing reachable from the handler exits the process or panics explicitly", 3)
	for _, name := range []string{"handleDir", "handlePatternFiles"} {
		fn := main.Func(name)
		if fn == nil {
			c.Unk("C19-ISOLATE", "main."+name, "loop", token.NoPos, "function not found")
			continue
		}
		c.Funcs[fnName(fn)] = true
		var bad []string
		n := 0
		for _, l := range naturalLoops(fn) {
			calls := false
			for b := range l.Body {
				for _, ins := range b.Instrs {
					if call, ok := ins.(*ssa.Call); ok && staticCallee(&call.Call) == handle {
						calls = true
						// result unused in a branch
						for _, r := range refs(call) {
							if _, isIf := r.(*ssa.If); isIf {
								bad = append(bad, "the loop branches on the per-file result")
							}
						}
					}
				}
			}
			if !calls {
				continue
			}
			n++
			for _, e := range l.exitEdges() {
				if e[0] != l.Header {
					bad = append(bad, "the loop over the files can be left from inside its body at "+p.Pos(firstPos(e[0]))+": one unprocessable file stops the remaining ones")
				}
			}
			// every file of the list reaches the handler: whether the handler is called in one round must not
			// depend on anything carried over from earlier rounds (`matched = matched || handle(f)` stops
			// handling files after the first success)
			for b := range l.Body {
				for _, ins := range b.Instrs {
					call, ok := ins.(*ssa.Call)
					if !ok || staticCallee(&call.Call) != handle {
						continue
					}
					for x := range l.Body {
						if x == l.Header || !x.Dominates(b) || x == b {
							continue
						}
						iff, ok := x.Instrs[len(x.Instrs)-1].(*ssa.If)
						if !ok {
							continue
						}
						seen := map[ssa.Value]bool{}
						var carried func(v ssa.Value, d int) bool
						carried = func(v ssa.Value, d int) bool {
							if v == nil || seen[v] || d > 6 {
								return false
							}
							seen[v] = true
							switch y := v.(type) {
							case *ssa.Phi:
								if y.Block() == l.Header {
									return true
								}
								for _, e := range y.Edges {
									if carried(e, d+1) {
										return true
									}
								}
							case *ssa.BinOp:
								return carried(y.X, d+1) || carried(y.Y, d+1)
							case *ssa.UnOp:
								return carried(y.X, d+1)
							case *ssa.Convert:
								return carried(y.X, d+1)
							}
							return false
						}
						if carried(iff.Cond, 0) {
							bad = append(bad, "whether a file is handled depends on a value carried over from the files before it (test at "+p.Pos(firstPos(x))+"): after some file the remaining ones are no longer processed")
						}
						// every entry that is not a directory is handed on: a test of the entry's file kind or metadata
						// other than IsDir() (Type().IsRegular(), Mode(), Info(), Stat/Lstat of the path) that decides
						// whether the handler is called skips symbolic links to generated files, which the per-file
						// handler opens without any trouble
						reachesFrom := func(s *ssa.BasicBlock) bool {
							seenB := map[*ssa.BasicBlock]bool{}
							var walk func(q *ssa.BasicBlock) bool
							walk = func(q *ssa.BasicBlock) bool {
								if q == b {
									return true
								}
								if seenB[q] || q == l.Header {
									return false
								}
								seenB[q] = true
								for _, n := range q.Succs {
									if walk(n) {
										return true
									}
								}
								return false
							}
							return walk(s)
						}
						if len(x.Succs) == 2 && reachesFrom(x.Succs[0]) != reachesFrom(x.Succs[1]) {
							seenV := map[ssa.Value]bool{}
							var kindTest func(v ssa.Value, d int) string
							kindTest = func(v ssa.Value, d int) string {
								if v == nil || seenV[v] || d > 6 {
									return ""
								}
								seenV[v] = true
								switch y := v.(type) {
								case *ssa.Call:
									nm := calleeName(&y.Call)
									if y.Call.IsInvoke() {
										nm = y.Call.Method.Name()
									}
									switch {
									case strings.HasSuffix(nm, "IsDir"):
										return ""
									case nm == "Type" || nm == "Mode" || nm == "Info" || strings.HasSuffix(nm, "IsRegular") || strings.HasSuffix(nm, ".Perm") || nm == "os.Stat" || nm == "os.Lstat" || strings.HasSuffix(nm, "(io/fs.FileMode).IsRegular") || strings.HasSuffix(nm, "(io/fs.FileMode).Type"):
										return nm
									}
									for _, a := range y.Call.Args {
										if r := kindTest(a, d+1); r != "" {
											return r
										}
									}
									if y.Call.IsInvoke() {
										return kindTest(y.Call.Value, d+1)
									}
								case *ssa.BinOp:
									if r := kindTest(y.X, d+1); r != "" {
										return r
									}
									return kindTest(y.Y, d+1)
								case *ssa.UnOp:
									return kindTest(y.X, d+1)
								case *ssa.Extract:
									return kindTest(y.Tuple, d+1)
								case *ssa.Phi:
									for _, e := range y.Edges {
										if r := kindTest(e, d+1); r != "" {
											return r
										}
									}
								}
								return ""
							}
							if nm := kindTest(iff.Cond, 0); nm != "" {
								bad = append(bad, "whether an entry is handed to the per-file handler is decided by "+nm+"() at "+p.Pos(firstPos(x))+", not by IsDir() alone: a symbolic link to a generated file (or any entry that is not a regular file, yet opens fine) is silently skipped")
							}
						}
					}
				}
			}
		}
		if n == 0 {
			bad = append(bad, "no loop calling the per-file handler")
		}
		c.Sites++
		c.Check(len(bad) == 0, "C19-ISOLATE", fnName(fn), "loop", fn.Pos(), "header-exit-only, per-file result ignored", strings.Join(uniqStrings(bad), "; "))
	}
	{
		var fatal []string
		for f := range reachableFrom(handle) {
			for _, b := range f.Blocks {
				for _, ins := range b.Instrs {
					switch x := ins.(type) {
					case *ssa.Panic:
						fatal = append(fatal, "panic in "+fnName(f))
					case ssa.CallInstruction:
						n := calleeName(x.Common())
						if n == "os.Exit" || strings.HasPrefix(n, "log.Fatal") || strings.HasPrefix(n, "log.Panic") || strings.HasPrefix(n, "(*log.Logger).Fatal") || strings.HasPrefix(n, "(*log.Logger).Panic") || n == "runtime.Goexit" {
							fatal = append(fatal, n+" in "+fnName(f))
						}
					}
				}
			}
		}
		c.Sites++
		c.Check(len(fatal) == 0, "C19-ISOLATE", fnName(handle), "no-fatal", handle.Pos(), "no process exit / explicit panic reachable from the per-file handler", "reachable: "+strings.Join(uniqStrings(fatal), ", "))
	}
	runC19Nil(c)
	runC19Bounds(c)
}

// succeededBefore: block b is dominated by the edge on which the error result of `call`
// is nil.
func succeededBefore(call *ssa.Call, b *ssa.BasicBlock) bool {
	fn := call.Parent()
	bc := newBoundsCtx(nil, fn)
	// the error value: Extract #last of the call, possibly stored to / loaded from a result cell
	var errVals []ssa.Value
	for _, r := range refs(call) {
		if ex, ok := r.(*ssa.Extract); ok && ex.Index == call.Type().(interface{ Len() int }).Len()-1 {
			errVals = append(errVals, ex)
			for _, r2 := range refs(ex) {
				if st, ok := r2.(*ssa.Store); ok {
					// loads of the same cell that must observe this store
					for _, bb := range fn.Blocks {
						for _, ins := range bb.Instrs {
							if ld, ok := ins.(*ssa.UnOp); ok && ld.Op == token.MUL && ld.X == st.Addr {
								if st.Block() == ld.Block() && indexIn(st) < indexIn(ld) {
									// no other store in between
									clean := true
									for _, mid := range bb.Instrs[indexIn(st)+1 : indexIn(ld)] {
										if s2, ok := mid.(*ssa.Store); ok && s2.Addr == st.Addr {
											clean = false
										}
									}
									if clean {
										errVals = append(errVals, ld)
									}
								}
							}
						}
					}
				}
			}
		}
	}
	if _, single := call.Type().(interface{ Len() int }); !single {
		errVals = append(errVals, call)
	}
	_ = bc
	for d := b; d != nil; d = d.Idom() {
		if len(d.Preds) != 1 {
			continue
		}
		pred := d.Preds[0]
		iff, ok := pred.Instrs[len(pred.Instrs)-1].(*ssa.If)
		if !ok {
			continue
		}
		cmp, ok := iff.Cond.(*ssa.BinOp)
		if !ok || !isNilConst(cmp.Y) {
			continue
		}
		for _, ev := range errVals {
			if cmp.X == ev {
				onTrue := pred.Succs[0] == d
				if (cmp.Op == token.NEQ && !onTrue) || (cmp.Op == token.EQL && onTrue) {
					return true
				}
			}
		}
	}
	return false
}

// optional go/ast pointer fields (documented "or nil")
var astOptional = map[string]bool{"Field.Tag": true, "Field.Comment": true, "Field.Doc": true, "GenDecl.Doc": true, "TypeSpec.Doc": true, "TypeSpec.Comment": true,
	"TypeSpec.TypeParams": true, "ValueSpec.Doc": true, "ValueSpec.Comment": true, "FuncDecl.Doc": true, "FuncDecl.Recv": true, "FuncDecl.Body": true, "File.Doc": true, "StructType.Fields": false}

func runC19Nil(c *Ctx) {
	p := c.P
	c.Rule("C19-NIL", "every use of an optional go/ast pointer (Field.Tag, Field.Comment, …) is dominated by a nil test of that pointer", 2)
	sp := p.Pkg("file")
	if sp == nil {
		c.Unk("C19-NIL", "file", "anchor", token.NoPos, "package file not loaded")
		return
	}
	n := 0
	for _, fn := range p.Funcs {
		if fn.Pkg != sp {
			continue
		}
		bc := newBoundsCtx(p, fn)
		// loads of optional fields
		type load struct {
			v    *ssa.UnOp
			name string
		}
		var loads []load
		for _, b := range fn.Blocks {
			for _, ins := range b.Instrs {
				ld, ok := ins.(*ssa.UnOp)
				if !ok || ld.Op != token.MUL {
					continue
				}
				fa, ok := ld.X.(*ssa.FieldAddr)
				if !ok {
					continue
				}
				nt := namedOf(fa.X.Type())
				if nt == nil || nt.Obj().Pkg() == nil || nt.Obj().Pkg().Path() != "go/ast" {
					continue
				}
				nm := nt.Obj().Name() + "." + fieldAddrName(fa)
				if astOptional[nm] {
					loads = append(loads, load{ld, nm})
				}
			}
		}
		for _, l := range loads {
			// uses that dereference
			for _, r := range refs(l.v) {
				deref := false
				switch x := r.(type) {
				case *ssa.FieldAddr:
					deref = x.X == l.v
				case *ssa.UnOp:
					deref = x.Op == token.MUL && x.X == l.v
				case ssa.CallInstruction:
					if len(x.Common().Args) > 0 && x.Common().Args[0] == l.v && x.Common().Signature().Recv() != nil {
						deref = true
					}
				}
				if !deref {
					continue
				}
				n++
				c.Sites++
				// dominated by a nil test of a load with the same canonical key
				guarded := false
				key := bc.key(l.v)
				for d := r.Block(); d != nil && !guarded; d = d.Idom() {
					if len(d.Preds) != 1 {
						continue
					}
					pred := d.Preds[0]
					iff, ok := pred.Instrs[len(pred.Instrs)-1].(*ssa.If)
					if !ok {
						continue
					}
					cmp, ok := iff.Cond.(*ssa.BinOp)
					if !ok || !isNilConst(cmp.Y) {
						continue
					}
					if bc.key(cmp.X) != key {
						continue
					}
					onTrue := pred.Succs[0] == d
					if (cmp.Op == token.NEQ && onTrue) || (cmp.Op == token.EQL && !onTrue) {
						guarded = true
					}
				}
				c.Check(guarded, "C19-NIL", fnName(fn), "use:"+l.name, instrPos(r), "dominated by a nil test", "go/ast."+l.name+" is optional (nil for a field without it) and is dereferenced without a nil test: a syntactically valid file crashes the tool")
			}
		}
	}
	if n < 2 {
		c.Unk("C19-NIL", "file", "uses", token.NoPos, fmt.Sprintf("expected uses of Field.Tag and Field.Comment, found %d", n))
	}
}

func runC19Bounds(c *Ctx) {
	p := c.P
	c.Rule("C19-BOUNDS", "every index/slice expression of package file is proved in bounds (axioms: quoted tag literal has len >= 2; area offsets lie inside the bytes they were parsed from; fact by language inclusion: every tag token contains ':')", 8)
	sp := p.Pkg("file")
	var fns []*ssa.Function
	for _, fn := range p.Funcs {
		if fn.Pkg == sp {
			fns = append(fns, fn)
		}
	}
	pats := patternGlobals(p, "file")
	colonOK := false
	if pg, ok := pats["rTags"]; ok {
		if inc, _, err := RxIncluded("^(?:"+pg.Pat+")$", "(?s):"); err == nil && inc {
			colonOK = true
		}
	}
	axioms := func(bc *boundsCtx, f *factSet, ins ssa.Instruction) {
		fn := bc.fn
		names := []string{fn.Name()}
		if fn.Name() == "injectTag" && len(callsIn(fn, "(*regexp.Regexp).FindAllString")) > 0 {
			names = append(names, "newTagItems") // the tokeniser inlined into injectTag: same fact about the tokens
		}
		for _, name := range names {
			switch name {
			case "newTagItems":
				// t ranges over rTags.FindAllString(...): every match contains ':' (proved by language inclusion)
				if colonOK {
					for _, call := range callsIn(fn, "strings.Index") {
						if s, _ := constString(call.Call.Args[1]); s == ":" {
							f.le("", 0, bc.key(call), 0, 0) // idx >= 0
						}
					}
					for _, call := range callsIn(fn, "strings.IndexByte") {
						if k, ok := constInt(call.Call.Args[1]); ok && k == ':' {
							f.le("", 0, bc.key(call), 0, 0) // idx >= 0
						}
					}
					// the same fact for the splitting form: a text containing ':' splits into >= 2 parts
					for _, nm := range []string{"strings.SplitN", "strings.Split"} {
						for _, call := range callsIn(fn, nm) {
							if s, _ := constString(call.Call.Args[1]); s != ":" {
								continue
							}
							if nm == "strings.SplitN" {
								if n, ok := constInt(call.Call.Args[2]); !ok || (n >= 0 && n < 2) {
									continue
								}
							}
							f.le("", 0, "len("+bc.key(call)+")", 0, -2)
						}
					}
				}
			case "ParseFile":
				// the source text of a tag literal (ast.BasicLit.Value of Field.Tag) is quoted: len >= 2
				for _, b := range fn.Blocks {
					for _, i := range b.Instrs {
						if ld, ok := i.(*ssa.UnOp); ok && ld.Op == token.MUL {
							if fa, ok := ld.X.(*ssa.FieldAddr); ok && fieldAddrName(fa) == "Value" && isNamed(fa.X.Type(), "go/ast", "BasicLit") {
								f.le("", 0, "len("+bc.key(ld)+")", 0, -2)
							}
						}
					}
				}
			case "injectTag", "WriteFile":
				// area offsets come from ParseFile of the same bytes and are applied in descending
				// order (C06-ORDER), so 1 <= Start <= End <= len(contents)+1 at every application
				var contents ssa.Value
				if fn.Name() == "injectTag" {
					contents = fn.Params[0]
				}
				for _, b := range fn.Blocks {
					for _, i := range b.Instrs {
						sl, ok := i.(*ssa.Slice)
						if !ok {
							continue
						}
						if fn.Name() == "WriteFile" {
							contents = sl.X
						}
						if sl.X != contents {
							continue
						}
						ln, lo := bc.lenTerm(contents)
						var startT, endT string
						for _, bb := range fn.Blocks {
							for _, ii := range bb.Instrs {
								if ld, ok := ii.(*ssa.UnOp); ok && ld.Op == token.MUL {
									if fa, ok := ld.X.(*ssa.FieldAddr); ok && strings.Contains(fa.X.Type().String(), "textArea") {
										switch fieldAddrName(fa) {
										case "Start":
											startT = bc.key(ld)
										case "End":
											endT = bc.key(ld)
										}
									}
								}
							}
						}
						if startT != "" && endT != "" {
							f.le("", 0, startT, 0, -1)  // Start >= 1
							f.le(startT, 0, endT, 0, 0) // Start <= End
							f.le(endT, 0, ln, lo, 1)    // End <= len+1
						}
					}
				}
			}
		}
		// make([]byte, End-Start): length is End-Start >= 0 — no index obligation arises from it
	}
	reportBounds(c, "C19-BOUNDS", fns, axioms)
	runFreshFileSet(c, "C19-BOUNDS") // premise of the area-offset axiom
	c.Extra["every_tag_token_contains_colon"] = colonOK
}

// runC19Dispatch: rule C19-DISPATCH. The CLI's plumbing in front of the per-file handler: the parser
// and the writer of package file are called from the per-file handler only (so every file passes the
// '.go' suffix test and the error isolation), and each of the flags -f, -d, -p is handed, unmodified,
// to the handler of its own kind: -f to the per-file handler (no glob expansion of a literal path),
// -p to the function that expands it with filepath.Glob, -d to the function that lists the directory.
func runC19Dispatch(c *Ctx, rule string) {
	p := c.P
	c.Rule(rule, "file.ParseFile / file.WriteFile are called only by the per-file handler; the variables bound to -f / -p / -d are written by package flag only and each is passed to the handler of its own kind (per-file / glob / directory)", 4)
	main := p.Pkg("")
	if main == nil {
		c.Unk(rule, "main", "anchor", token.NoPos, "package main not loaded")
		return
	}
	handle := main.Func("handleFile")
	mainFn := main.Func("main")
	if handle == nil || mainFn == nil {
		c.Unk(rule, "main", "anchor", token.NoPos, "main.main / main.handleFile not found")
		return
	}
	// (1) who may call
	for _, target := range []string{"file.ParseFile", "file.WriteFile"} {
		var bad []string
		n := 0
		for _, fn := range p.Funcs {
			if fn.Pkg != main {
				continue
			}
			for _, call := range callsInAny(fn, target) {
				n++
				host := fn
				for host.Parent() != nil {
					host = host.Parent()
				}
				if host != handle {
					bad = append(bad, fmt.Sprintf("%s: %s is called from %s, outside the per-file handler: that file is processed without the '.go' suffix test and without the handler's error isolation (a failure may end the run)", p.Pos(instrPos(call)), target, fnName(fn)))
				}
			}
		}
		c.Sites++
		if n == 0 {
			bad = append(bad, "no call found")
		}
		c.Check(len(bad) == 0, rule, "main", "callers:"+target, handle.Pos(), fmt.Sprintf("%d call site(s), all in %s", n, fnName(handle)), uniqJoin(bad, 2))
	}
	// (2) flag binding: main is interpreted with the flag package modelled (flag.String / flag.StringVar
	// bind a cell that holds the symbolic value "flag:-name"); every call of a handler is recorded with the
	// value it receives. Struct fields, helper functions and local copies in between are followed by the
	// interpreter, so the way the options are carried around does not matter.
	classOf := func(fn *ssa.Function) string {
		if fn == handle {
			return "f"
		}
		for _, b := range fn.Blocks {
			for _, ins := range b.Instrs {
				if call, ok := ins.(ssa.CallInstruction); ok {
					switch calleeName(call.Common()) {
					case "path/filepath.Glob":
						return "p"
					case "os.ReadDir", "io/ioutil.ReadDir":
						return "d"
					}
				}
			}
		}
		return ""
	}
	kind := map[string]string{"f": "per-file handler", "p": "glob handler (filepath.Glob)", "d": "directory handler (os.ReadDir)"}
	in := NewInterp(p)
	in.MaxDepth = 6
	bound := map[string]bool{}
	flagCell := func(in *Interp, name string, t types.Type) *Cell {
		c := in.newCell(t, "flagvar:-"+name)
		c.V = Sym{K: "flag:-" + name, T: t}
		return c
	}
	for _, m := range []string{"String", "Bool", "Int"} {
		m := m
		in.Models["flag."+m] = func(in *Interp, site ssa.Instruction, cc *ssa.CallCommon, a []AVal) (AVal, bool) {
			name, _ := isCstStr(a[0])
			bound[name] = true
			return Ptr{C: flagCell(in, name, cc.Signature().Results().At(0).Type().(*types.Pointer).Elem())}, true
		}
		in.Models["flag."+m+"Var"] = func(in *Interp, site ssa.Instruction, cc *ssa.CallCommon, a []AVal) (AVal, bool) {
			name, _ := isCstStr(a[1])
			bound[name] = true
			if ptr, ok := a[0].(Ptr); ok {
				ptr.C.V = Sym{K: "flag:-" + name, T: ptr.C.T}
			}
			return Tup{}, true
		}
	}
	in.Models["flag.Parse"] = func(in *Interp, site ssa.Instruction, cc *ssa.CallCommon, a []AVal) (AVal, bool) { return Tup{}, true }
	handlers := map[string]string{}
	for _, fn := range p.Funcs {
		if fn.Pkg == main && fn.Parent() == nil && fn != mainFn {
			if cl := classOf(fn); cl != "" {
				handlers[fnName(fn)] = cl
				fn := fn
				in.Models[fnName(fn)] = func(in *Interp, site ssa.Instruction, cc *ssa.CallCommon, a []AVal) (AVal, bool) {
					in.Emit("dispatch", site, cstStr(fnName(fn)), a[0])
					return Sym{K: "handled", T: types.Typ[types.Bool]}, true
				}
			} else {
				in.NoInline[fnName(fn)] = true
			}
		}
	}
	{
		var dirHandlers []*ssa.Function
		for _, fn := range p.Funcs {
			if fn.Pkg == main && fn.Parent() == nil && handlers[fnName(fn)] == "d" {
				dirHandlers = append(dirHandlers, fn)
			}
		}
		runListedDir(c, rule, handle, dirHandlers)
	}
	per := map[string][]string{}
	passed := map[string]int{}
	undecided := ""
	for _, t := range in.Explore(mainFn, nil, 400) {
		if t.Cut != "" {
			undecided = t.Cut
			continue
		}
		if t.Converged || t.Panic != "" {
			continue
		}
		for _, e := range t.Events {
			if e.Kind != "dispatch" {
				continue
			}
			hn, _ := isCstStr(e.Args[0])
			cl := handlers[hn]
			got := keyOf(e.Args[1])
			want := "flag:-" + cl
			if got == want {
				passed[cl]++
				continue
			}
			src := strings.TrimPrefix(got, "flag:-")
			if strings.HasPrefix(got, "flag:-") && kind[src] != "" {
				per[src] = append(per[src], fmt.Sprintf("%s: the value of -%s is handed to %s, the %s, instead of the %s: e.g. a literal -f path containing '[' or '*' is expanded as a pattern and the file is not injected", p.Pos(instrPos(e.Site)), src, hn, kind[cl], kind[src]))
			} else {
				per[cl] = append(per[cl], fmt.Sprintf("%s: %s receives %s instead of the value of -%s", p.Pos(instrPos(e.Site)), hn, shorten(got, 60), cl))
			}
		}
	}
	if undecided != "" {
		c.Unk(rule, "main.main", "flags", mainFn.Pos(), "main could not be interpreted: "+undecided)
		return
	}
	for _, name := range []string{"d", "f", "p"} {
		bad := per[name]
		if !bound[name] {
			bad = append(bad, "no string flag -"+name+" is bound")
		}
		if passed[name] == 0 {
			bad = append(bad, "the value of -"+name+" never reaches the "+kind[name])
		}
		c.Sites++
		c.Check(len(bad) == 0, rule, "main.main", "flag:-"+name, mainFn.Pos(), "handed, as given, to the "+kind[name], uniqJoin(bad, 2))
	}
}

// runListedDir: the directory that is listed is the directory the files are opened in. In the directory
// handler the argument of os.ReadDir and the prefix of every path handed to the per-file handler go through
// the same lexical normalisations (none today): filepath.Clean / Join / Abs resolve ".." textually, the
// kernel resolves it after following symbolic links, so for -d link/../dir a cleaned prefix names another
// directory than the one that was listed — the listed file is not injected and a namesake elsewhere is.
func runListedDir(c *Ctx, rule string, handle *ssa.Function, dirHandlers []*ssa.Function) {
	p := c.P
	isNormaliser := func(nm string) bool {
		switch nm {
		case "path/filepath.Clean", "path/filepath.Join", "path/filepath.Abs", "path/filepath.Rel", "path/filepath.EvalSymlinks", "path/filepath.Dir", "path/filepath.Base",
			"path.Clean", "path.Join", "path.Dir", "path.Base", "strings.ToLower", "strings.ToUpper", "strings.ReplaceAll", "strings.Replace":
			return true
		}
		return false
	}
	var normIn func(fn *ssa.Function, depth int, seen map[*ssa.Function]bool) []string
	normIn = func(fn *ssa.Function, depth int, seen map[*ssa.Function]bool) []string {
		var out []string
		if fn == nil || seen[fn] || depth > 3 {
			return nil
		}
		seen[fn] = true
		for _, b := range fn.Blocks {
			for _, ins := range b.Instrs {
				call, ok := ins.(ssa.CallInstruction)
				if !ok {
					continue
				}
				nm := calleeName(call.Common())
				if isNormaliser(nm) {
					out = append(out, nm)
				}
				if cal := staticCallee(call.Common()); cal != nil && cal.Pkg != nil && strings.HasPrefix(cal.Pkg.Pkg.Path(), ModPath) {
					out = append(out, normIn(cal, depth+1, seen)...)
				}
			}
		}
		return out
	}
	for _, fn := range dirHandlers {
		var listed ssa.Value
		for _, b := range fn.Blocks {
			for _, ins := range b.Instrs {
				if call, ok := ins.(ssa.CallInstruction); ok {
					switch calleeName(call.Common()) {
					case "os.ReadDir", "io/ioutil.ReadDir":
						listed = call.Common().Args[0]
					}
				}
			}
		}
		if listed == nil || len(fn.Params) == 0 {
			continue
		}
		var deriv func(v ssa.Value, seen map[ssa.Value]bool) (fromDir bool, norms []string)
		deriv = func(v ssa.Value, seen map[ssa.Value]bool) (bool, []string) {
			if seen[v] {
				return false, nil
			}
			seen[v] = true
			switch x := v.(type) {
			case *ssa.Parameter:
				return x == fn.Params[0], nil
			case *ssa.BinOp:
				a, na := deriv(x.X, seen)
				b, nb := deriv(x.Y, seen)
				return a || b, append(na, nb...)
			case *ssa.Phi:
				any := false
				var ns []string
				for _, e := range x.Edges {
					a, n := deriv(e, seen)
					any = any || a
					ns = append(ns, n...)
				}
				return any, ns
			case *ssa.Extract:
				return deriv(x.Tuple, seen)
			case *ssa.UnOp:
				// an element read back from a list of paths collected in this function (names appended in the
				// directory loop, handed on in a second loop)
				if ia, ok := x.X.(*ssa.IndexAddr); ok && x.Op == token.MUL {
					any := false
					var ns []string
					var walkList func(l ssa.Value)
					walkList = func(l ssa.Value) {
						if seen[l] {
							return
						}
						seen[l] = true
						switch y := l.(type) {
						case *ssa.Phi:
							for _, e := range y.Edges {
								walkList(e)
							}
						case *ssa.Call:
							if calleeName(&y.Call) == "builtin.append" && len(y.Call.Args) == 2 {
								walkList(y.Call.Args[0])
								for _, e := range variadicElems(y.Call.Args[1]) {
									f, n := deriv(e, seen)
									any = any || f
									ns = append(ns, n...)
								}
							}
						case *ssa.Slice:
							walkList(y.X)
						}
					}
					walkList(ia.X)
					return any, ns
				}
				return false, nil
			case *ssa.Call:
				any := false
				var ns []string
				for _, a := range x.Call.Args {
					// variadic arguments (filepath.Join(dir, name)) arrive in a slice
					elems := variadicElems(a)
					if len(elems) == 0 {
						elems = []ssa.Value{a}
					}
					for _, e := range elems {
						f, n := deriv(e, seen)
						any = any || f
						ns = append(ns, n...)
					}
				}
				if !any {
					return false, nil
				}
				nm := calleeName(&x.Call)
				if isNormaliser(nm) {
					ns = append(ns, nm)
				} else if cal := staticCallee(&x.Call); cal != nil && cal.Pkg != nil && strings.HasPrefix(cal.Pkg.Pkg.Path(), ModPath) {
					ns = append(ns, normIn(cal, 0, map[*ssa.Function]bool{})...)
				}
				return true, ns
			}
			return false, nil
		}
		_, listedNorms := deriv(listed, map[ssa.Value]bool{})
		n := 0
		var bad []string
		for _, b := range fn.Blocks {
			for _, ins := range b.Instrs {
				call, ok := ins.(ssa.CallInstruction)
				if !ok || staticCallee(call.Common()) != handle || len(call.Common().Args) == 0 {
					continue
				}
				n++
				from, norms := deriv(call.Common().Args[0], map[ssa.Value]bool{})
				if !from {
					bad = append(bad, p.Pos(instrPos(ins))+": the path handed to the per-file handler does not derive from the directory argument")
					continue
				}
				a, b2 := strings.Join(uniqStrings(listedNorms), ","), strings.Join(uniqStrings(norms), ",")
				if a != b2 {
					bad = append(bad, fmt.Sprintf("%s: the directory is listed as given [%s] but the files are opened under a prefix that went through [%s]: for a directory argument such as link/../dir (textual '..' after a symbolic link) the two name different directories, so the listed file is not injected and a namesake in the other directory is rewritten", p.Pos(instrPos(ins)), a, b2))
				}
			}
		}
		if n == 0 {
			continue // the per-file handler is reached some other way: judged by the dispatch obligations
		}
		c.Sites++
		c.Check(len(bad) == 0, rule, fnName(fn), "listed-dir", fn.Pos(), fmt.Sprintf("%d hand-over(s): prefix of the path = the directory that was listed", n), uniqJoin(bad, 2))
	}
}

func callsInAny(fn *ssa.Function, name string) []ssa.Instruction {
	var out []ssa.Instruction
	for _, b := range fn.Blocks {
		for _, ins := range b.Instrs {
			if call, ok := ins.(ssa.CallInstruction); ok && calleeName(call.Common()) == name {
				out = append(out, ins)
			}
		}
	}
	return out
}

// sameLoad: the same SSA value, or two loads of one package-level variable (the flag variables of main
// are read where they are used; nothing writes them after flag.Parse).
func sameLoad(a, b ssa.Value) bool {
	if a == b {
		return true
	}
	la, ok1 := a.(*ssa.UnOp)
	lb, ok2 := b.(*ssa.UnOp)
	if !ok1 || !ok2 || la.Op != token.MUL || lb.Op != token.MUL {
		return false
	}
	// one package-level variable, or one local variable cell (a flag variable declared in main and bound
	// with flag.StringVar): both reads happen after flag.Parse
	if la.X != lb.X {
		return false
	}
	switch la.X.(type) {
	case *ssa.Global, *ssa.Alloc:
		return true
	}
	return false
}

// goSuffixTested: cond is strings.HasSuffix(x, ".go"), directly or through a one-line predicate of the
// repository (func isGoFile(name string) bool { return strings.HasSuffix(name, ".go") }); returns x.
func goSuffixTested(cond ssa.Value) (ssa.Value, bool) {
	call, ok := cond.(*ssa.Call)
	if !ok {
		return nil, false
	}
	if calleeName(&call.Call) == "strings.HasSuffix" && len(call.Call.Args) == 2 {
		if sfx, _ := constString(call.Call.Args[1]); sfx == ".go" {
			return call.Call.Args[0], true
		}
		return nil, false
	}
	cal := staticCallee(&call.Call)
	if cal == nil || cal.Pkg == nil || !strings.HasPrefix(cal.Pkg.Pkg.Path(), ModPath) || len(cal.Blocks) != 1 || len(cal.Params) == 0 {
		return nil, false
	}
	ret, ok := cal.Blocks[0].Instrs[len(cal.Blocks[0].Instrs)-1].(*ssa.Return)
	if !ok || len(ret.Results) != 1 {
		return nil, false
	}
	inner, ok := ret.Results[0].(*ssa.Call)
	if !ok || calleeName(&inner.Call) != "strings.HasSuffix" || len(inner.Call.Args) != 2 {
		return nil, false
	}
	if sfx, _ := constString(inner.Call.Args[1]); sfx != ".go" {
		return nil, false
	}
	for i, prm := range cal.Params {
		if inner.Call.Args[0] == ssa.Value(prm) && i < len(call.Call.Args) {
			return call.Call.Args[i], true
		}
	}
	return nil, false
}
