package engine

import (
	"fmt"
	"go/constant"
	"go/token"
	"go/types"
	"regexp"
	"sort"
	"strings"

	"golang.org/x/tools/go/ssa"
)

// Engine B — bounds prover. Every index / slice instruction is an obligation
// 0 <= lo <= hi <= len; it is discharged from difference constraints collected on the
// dominator path (branch conditions), canonical induction variables, and library axioms
// (strings.Index family, strings.Split, make, constants). No value is ever computed:
// the prover only closes a set of constraints x - y <= c over symbolic terms.

const bInf = int64(1) << 40

type boundsCtx struct {
	p          *Prog
	fn         *ssa.Function
	keys       map[ssa.Value]string
	targets    []string                     // extra terms phi bounds are joined against (length of the indexed base)
	alias      map[ssa.Value]ssa.Value      // load -> the single stored value it must observe
	kills      map[string][]ssa.Instruction // address key -> stores
	reachAfter map[ssa.Instruction]map[*ssa.BasicBlock]bool
	subst      map[ssa.Value]ssa.Value // case split: phi -> value of one incoming edge
}

// resolve applies the case-split substitution (identity when none is active).
func (bc *boundsCtx) resolve(v ssa.Value) ssa.Value {
	for i := 0; i < 4 && bc.subst != nil; i++ {
		s, ok := bc.subst[v]
		if !ok {
			break
		}
		v = s
	}
	return v
}

func newBoundsCtx(p *Prog, fn *ssa.Function) *boundsCtx {
	bc := &boundsCtx{p: p, fn: fn, keys: map[ssa.Value]string{}, kills: map[string][]ssa.Instruction{}, alias: map[ssa.Value]ssa.Value{}}
	for _, b := range fn.Blocks {
		for _, ins := range b.Instrs {
			if st, ok := ins.(*ssa.Store); ok {
				if k := bc.addrKey(st.Addr); k != "" {
					bc.kills[k] = append(bc.kills[k], st)
				}
			}
		}
	}
	return bc
}

// addrKey: canonical key of an address expression (field / constant-index element).
func (bc *boundsCtx) addrKey(a ssa.Value) string {
	switch x := a.(type) {
	case *ssa.FieldAddr:
		if src := structCopySource(x.X); src != nil {
			return "&" + bc.key(src) + "." + fieldAddrName(x)
		}
		return "&" + bc.key(x.X) + "." + fieldAddrName(x)
	case *ssa.IndexAddr:
		if k, ok := constInt(x.Index); ok {
			return fmt.Sprintf("&%s[%d]", bc.key(x.X), k)
		}
	case *ssa.Global:
		return "&" + x.Name()
	case *ssa.Alloc:
		return fmt.Sprintf("&alloc%p", x)
	}
	return ""
}

// structCopySource: b is a local struct cell that is only ever assigned one whole-struct copy `*b = *a`
// of another local cell a (the receiver copy of an inlined value-receiver helper), is only read field by
// field afterwards, and a itself is assigned once (a spilled parameter): then a field of b is the field of a.
func structCopySource(b ssa.Value) ssa.Value {
	al, ok := b.(*ssa.Alloc)
	if !ok {
		return nil
	}
	var src ssa.Value
	for _, r := range refs(al) {
		switch x := r.(type) {
		case *ssa.Store:
			if x.Addr != ssa.Value(al) || src != nil {
				return nil
			}
			ld, ok := x.Val.(*ssa.UnOp)
			if !ok || ld.Op != token.MUL {
				return nil
			}
			a, ok := ld.X.(*ssa.Alloc)
			if !ok {
				return nil
			}
			n := 0
			for _, r2 := range refs(a) {
				if st, ok := r2.(*ssa.Store); ok && st.Addr == ssa.Value(a) {
					n++
				}
			}
			if n != 1 {
				return nil
			}
			src = a
		case *ssa.FieldAddr:
			for _, r2 := range refs(x) {
				if u, ok := r2.(*ssa.UnOp); !ok || u.Op != token.MUL {
					return nil
				}
			}
		case *ssa.DebugRef:
		default:
			return nil
		}
	}
	return src
}

// storeMayReach: can the store execute before the load on some path?
func storeMayReach(st ssa.Instruction, ld ssa.Instruction) bool {
	sb, lb := st.Block(), ld.Block()
	if sb == lb {
		if indexIn(st) < indexIn(ld) {
			return true
		}
	}
	// any path from sb's successors to lb
	seen := map[*ssa.BasicBlock]bool{}
	var walk func(b *ssa.BasicBlock) bool
	walk = func(b *ssa.BasicBlock) bool {
		if b == lb {
			return true
		}
		if seen[b] {
			return false
		}
		seen[b] = true
		for _, s := range b.Succs {
			if walk(s) {
				return true
			}
		}
		return false
	}
	for _, s := range sb.Succs {
		if walk(s) {
			return true
		}
	}
	return false
}

// key: canonical term name of an SSA value (value numbering lite).
func (bc *boundsCtx) key(v ssa.Value) string {
	v = bc.resolve(v)
	if k, ok := bc.keys[v]; ok {
		return k
	}
	var k string
	switch x := v.(type) {
	case *ssa.Const:
		if x.Value != nil {
			k = "const:" + x.Value.ExactString()
		} else {
			k = "nil"
		}
	case *ssa.Parameter:
		k = "param:" + x.Name()
	case *ssa.Global:
		k = "global:" + x.Name()
	case *ssa.UnOp:
		if x.Op == token.MUL {
			if ak := bc.addrKey(x.X); ak != "" {
				// loads of the same address with no store that may reach either are equal
				reached := false
				for _, st := range bc.kills[ak] {
					if storeMayReach(st, x) {
						reached = true
					}
				}
				if !reached {
					k = "*" + ak
				} else if len(bc.kills[ak]) == 1 {
					// a single store that dominates the load: the load yields the stored value
					st := bc.kills[ak][0].(*ssa.Store)
					sb, lb := st.Block(), x.Block()
					if (sb == lb && indexIn(st) < indexIn(x)) || (sb != lb && sb.Dominates(lb)) {
						// make sure the store cannot run again between (not inside a loop with the load)
						if !storeMayReach(x, st) {
							k = bc.key(st.Val)
							bc.alias[x] = st.Val
						}
					}
				}
			}
		}
	case *ssa.Call:
		if calleeName(&x.Call) == "builtin.len" && len(x.Call.Args) == 1 {
			k = "len(" + bc.key(x.Call.Args[0]) + ")"
		}
		if recv, isNF := reflectCountCall(&x.Call, "NumField"); isNF {
			k = "numfield(" + bc.reflKey(recv) + ")"
		}
	case *ssa.Field:
		// a field of a struct value loaded as a whole (a value-receiver helper was inlined: a.Start with
		// a := *areaCell) is the field read through the cell's address, when no store can come in between
		if ld, ok := x.X.(*ssa.UnOp); ok && ld.Op == token.MUL {
			if st, ok := ld.X.Type().Underlying().(*types.Pointer); ok {
				if sty, ok := st.Elem().Underlying().(*types.Struct); ok && x.Field < sty.NumFields() {
					fk := "&" + bc.key(ld.X) + "." + sty.Field(x.Field).Name()
					reached := false
					for _, ak := range []string{fk, bc.addrKey(ld.X)} {
						if ak == "" {
							continue
						}
						for _, stv := range bc.kills[ak] {
							if storeMayReach(stv, x) && !(len(bc.kills[ak]) == 1 && !storeMayReach(x, stv)) {
								reached = true
							}
						}
					}
					if !reached {
						k = "*" + fk
					}
				}
			}
		}
	case *ssa.ChangeType:
		k = bc.key(x.X)
	case *ssa.Convert:
		// int <-> int conversions of the same width class keep the value for our purposes
		if bt, ok := x.Type().Underlying().(*types.Basic); ok && bt.Info()&types.IsInteger != 0 {
			if st, ok := x.X.Type().Underlying().(*types.Basic); ok && st.Info()&types.IsInteger != 0 {
				k = bc.key(x.X)
			}
		}
	}
	if k == "" {
		k = fmt.Sprintf("%s@%p", v.Name(), v)
	}
	bc.keys[v] = k
	return k
}

// term: (name, offset) with value = name + offset; constants are ("", c).
// constVal: an integer constant, or the length of a constant string / an array (len(label) after a
// helper taking the label was inlined with a constant argument).
func (bc *boundsCtx) constVal(v ssa.Value) (int64, bool) {
	v = bc.resolve(v)
	if k, ok := constInt(v); ok {
		return k, true
	}
	if call, ok := v.(*ssa.Call); ok && calleeName(&call.Call) == "builtin.len" && len(call.Call.Args) == 1 {
		if n, k := bc.lenTerm(bc.resolve(call.Call.Args[0])); n == "" {
			return k, true
		}
	}
	return 0, false
}

func (bc *boundsCtx) term(v ssa.Value, depth int) (string, int64) {
	v = bc.resolve(v)
	if c, ok := v.(*ssa.Const); ok && c.Value != nil && c.Value.Kind() == constant.Int {
		i, _ := constant.Int64Val(c.Value)
		return "", i
	}
	if k, ok := bc.constVal(v); ok {
		return "", k
	}
	if depth < 6 {
		if b, ok := v.(*ssa.BinOp); ok {
			if k, isC := bc.constVal(b.Y); isC {
				n, off := bc.term(b.X, depth+1)
				switch b.Op {
				case token.ADD:
					return n, off + k
				case token.SUB:
					return n, off - k
				}
			}
			if k, isC := bc.constVal(b.X); isC && b.Op == token.ADD {
				n, off := bc.term(b.Y, depth+1)
				return n, off + k
			}
		}
		if cv, ok := v.(*ssa.Convert); ok {
			if bt, ok := cv.Type().Underlying().(*types.Basic); ok && bt.Info()&types.IsInteger != 0 {
				if st, ok := cv.X.Type().Underlying().(*types.Basic); ok && st.Info()&types.IsInteger != 0 {
					return bc.term(cv.X, depth+1)
				}
			}
		}
	}
	return bc.key(v), 0
}

// lenTerm: the term denoting len(x).
func (bc *boundsCtx) lenTerm(x ssa.Value) (string, int64) {
	switch t := x.Type().Underlying().(type) {
	case *types.Pointer:
		if arr, ok := t.Elem().Underlying().(*types.Array); ok {
			return "", arr.Len()
		}
	case *types.Array:
		return "", t.Len()
	}
	if s, ok := constString(x); ok {
		return "", int64(len(s))
	}
	return "len(" + bc.key(x) + ")", 0
}

type cstr struct {
	x, y string // x - y <= c   ("" is the constant zero)
	c    int64
}

type neq struct {
	x, y string
	c    int64 // x - y != c
}

type factSet struct {
	cs  []cstr
	nes []neq
}

func (f *factSet) le(x string, ox int64, y string, oy int64, c int64) { // (x+ox) - (y+oy) <= c
	f.cs = append(f.cs, cstr{x, y, c - ox + oy})
}

// facts of a comparison holding.
func (bc *boundsCtx) addCmp(f *factSet, op token.Token, X, Y ssa.Value) {
	// string emptiness
	if s, ok := constString(Y); ok && s == "" {
		if bt, isB := X.Type().Underlying().(*types.Basic); isB && bt.Info()&types.IsString != 0 {
			ln, lo := bc.lenTerm(X)
			switch op {
			case token.EQL:
				f.le(ln, lo, "", 0, 0)
			case token.NEQ:
				f.le("", 0, ln, lo, -1)
			}
			return
		}
	}
	if s, ok := constString(X); ok && s == "" {
		bc.addCmp(f, op, Y, X)
		return
	}
	// m := R.FindStringSubmatch(s) with R a package-level pattern constant: m != nil means a match, and a
	// match has exactly 1 + NumSubexp(R) elements
	if isNilConst(Y) && op == token.NEQ {
		if call, ok := X.(*ssa.Call); ok {
			if nm := calleeName(&call.Call); (nm == "(*regexp.Regexp).FindStringSubmatch" || nm == "(*regexp.Regexp).FindSubmatch") && len(call.Call.Args) >= 1 {
				if ld, ok := call.Call.Args[0].(*ssa.UnOp); ok {
					if g, ok := ld.X.(*ssa.Global); ok && g.Pkg != nil {
						if pg, ok := patternGlobals(bc.p, Rel(g.Pkg.Pkg.Path()))[g.Name()]; ok {
							if re, err := regexp.Compile(pg.Pat); err == nil {
								ln, lo := bc.lenTerm(X)
								k := int64(1 + re.NumSubexp())
								f.le(ln, lo, "", 0, k)
								f.le("", 0, ln, lo, -k)
							}
						}
					}
				}
			}
		}
		return
	}
	if isNilConst(X) && !isNilConst(Y) {
		bc.addCmp(f, op, Y, X)
		return
	}
	if bt, isB := X.Type().Underlying().(*types.Basic); !isB || bt.Info()&types.IsInteger == 0 {
		return
	}
	xn, xo := bc.term(X, 0)
	yn, yo := bc.term(Y, 0)
	switch op {
	case token.LSS:
		f.le(xn, xo, yn, yo, -1)
	case token.LEQ:
		f.le(xn, xo, yn, yo, 0)
	case token.GTR:
		f.le(yn, yo, xn, xo, -1)
	case token.GEQ:
		f.le(yn, yo, xn, xo, 0)
	case token.EQL:
		f.le(xn, xo, yn, yo, 0)
		f.le(yn, yo, xn, xo, 0)
	case token.NEQ:
		f.nes = append(f.nes, neq{xn, yn, yo - xo})
	}
}

var negOp = map[token.Token]token.Token{token.LSS: token.GEQ, token.LEQ: token.GTR, token.GTR: token.LEQ, token.GEQ: token.LSS, token.EQL: token.NEQ, token.NEQ: token.EQL}

// predicate helpers: one-expression boolean functions inlined as predicates
func (bc *boundsCtx) addCond(f *factSet, cond ssa.Value, truth bool, depth int) {
	switch x := cond.(type) {
	case *ssa.BinOp:
		op := x.Op
		if _, ok := negOp[op]; !ok {
			return
		}
		if !truth {
			op = negOp[op]
		}
		bc.addCmp(f, op, x.X, x.Y)
	case *ssa.UnOp:
		if x.Op == token.NOT {
			bc.addCond(f, x.X, !truth, depth)
		}
	case *ssa.Call:
		// strings.HasSuffix(s, t) / HasPrefix(s, t) found true: len(t) <= len(s)
		if nm := calleeName(&x.Call); truth && (nm == "strings.HasSuffix" || nm == "strings.HasPrefix" || nm == "bytes.HasSuffix" || nm == "bytes.HasPrefix") && len(x.Call.Args) == 2 {
			sn, so := bc.lenTerm(x.Call.Args[0])
			tn, to := bc.lenTerm(x.Call.Args[1])
			f.le(tn, to, sn, so, 0)
			return
		}
		callee := staticCallee(&x.Call)
		if callee == nil || depth > 1 || len(callee.Blocks) != 1 {
			return
		}
		// single-block function returning a comparison of len(field of receiver) with a constant
		ret, ok := callee.Blocks[0].Instrs[len(callee.Blocks[0].Instrs)-1].(*ssa.Return)
		if !ok || len(ret.Results) != 1 {
			return
		}
		cmp, ok := ret.Results[0].(*ssa.BinOp)
		if !ok {
			return
		}
		lc, ok := cmp.X.(*ssa.Call)
		if !ok || calleeName(&lc.Call) != "builtin.len" {
			return
		}
		k, ok := constInt(cmp.Y)
		if !ok {
			return
		}
		ld, ok := lc.Call.Args[0].(*ssa.UnOp)
		if !ok {
			return
		}
		fa, ok := ld.X.(*ssa.FieldAddr)
		if !ok || len(callee.Params) == 0 || fa.X != callee.Params[0] {
			return
		}
		// translate to the caller: len(*(&recv.field))
		recv := x.Call.Args[0]
		ak := "&" + bc.key(recv) + "." + fieldAddrName(fa)
		// only valid if no store to that field may reach this call
		for _, st := range bc.kills[ak] {
			if storeMayReach(st, x) {
				return
			}
		}
		ln := "len(*" + ak + ")"
		op := cmp.Op
		if !truth {
			op = negOp[op]
		}
		switch op {
		case token.EQL:
			f.le(ln, 0, "", 0, k)
			f.le("", 0, ln, 0, -k)
		case token.NEQ:
			f.nes = append(f.nes, neq{ln, "", k})
		case token.GTR:
			f.le("", 0, ln, 0, -k-1)
		case token.LSS:
			f.le(ln, 0, "", 0, k-1)
		}
	}
}

// edgeFacts: facts of all branch edges that dominate block b.
func (bc *boundsCtx) edgeFacts(f *factSet, b *ssa.BasicBlock) {
	for d := b; d != nil; d = d.Idom() {
		if len(d.Preds) != 1 {
			continue
		}
		pred := d.Preds[0]
		iff, ok := pred.Instrs[len(pred.Instrs)-1].(*ssa.If)
		if !ok {
			continue
		}
		bc.addCond(f, iff.Cond, pred.Succs[0] == d, 0)
	}
}

// defFacts: axioms about the definitions of the values involved (transitively).
func (bc *boundsCtx) defFacts(f *factSet, roots []ssa.Value) {
	seen := map[ssa.Value]bool{}
	var visit func(v ssa.Value, depth int)
	lenNonNeg := func(x ssa.Value) {
		ln, lo := bc.lenTerm(x)
		if ln != "" {
			f.le("", 0, ln, lo, 0)
		}
	}
	visit = func(v ssa.Value, depth int) {
		if v == nil || seen[v] || depth > 8 {
			return
		}
		seen[v] = true
		// range of the value's type: unsigned integers are >= 0 and bounded by their width; a
		// reflect.Kind obtained from reflect is one of the 27 kinds
		if bt, ok := v.Type().Underlying().(*types.Basic); ok && bt.Info()&types.IsUnsigned != 0 {
			if _, isC := v.(*ssa.Const); !isC {
				k := bc.key(v)
				f.le("", 0, k, 0, 0)
				switch bt.Kind() {
				case types.Uint8:
					f.le(k, 0, "", 0, 255)
				case types.Uint16:
					f.le(k, 0, "", 0, 65535)
				}
				if call, isCall := v.(*ssa.Call); isCall {
					if nm := calleeName(&call.Call); nm == "(reflect.Value).Kind" || strings.HasSuffix(nm, "reflect.Type.Kind") {
						f.le(k, 0, "", 0, 26)
					}
				}
			}
		}
		switch x := v.(type) {
		case *ssa.BinOp:
			visit(x.X, depth+1)
			visit(x.Y, depth+1)
			// t = i + len(sub) with i = strings.Index(s, sub) and the very same sub: the position right behind
			// the match. t >= i, and once i >= 0 is established (a dominating test) t <= len(s)
			if x.Op == token.ADD {
				for _, pr := range [][2]ssa.Value{{x.X, x.Y}, {x.Y, x.X}} {
					ic, ok1 := pr[0].(*ssa.Call)
					lc, ok2 := pr[1].(*ssa.Call)
					if !ok1 || !ok2 || calleeName(&lc.Call) != "builtin.len" || len(ic.Call.Args) != 2 || len(lc.Call.Args) != 1 {
						continue
					}
					if n := calleeName(&ic.Call); n != "strings.Index" && n != "bytes.Index" {
						continue
					}
					if ic.Call.Args[1] != lc.Call.Args[0] {
						continue
					}
					t, i := bc.key(x), bc.key(ic)
					f.le(i, 0, t, 0, 0) // i <= t (len >= 0)
					if boundOf(f, "", i) <= 0 {
						sl, so := bc.lenTerm(ic.Call.Args[0])
						lenNonNeg(ic.Call.Args[0])
						f.le(t, 0, sl, so, 0) // t <= len(s)
					}
				}
			}
			if _, isC := constInt(x.Y); !isC && x.Op == token.SUB {
				// t = a - b with two symbolic operands: t <= a - lb(b) ; t >= -(ub of b-a)
				t := bc.key(x)
				an, ao := bc.term(x.X, 0)
				bn, bo := bc.term(x.Y, 0)
				if lb := boundOf(f, "", bn); lb < bInf { // 0 - b <= lb  =>  b >= -lb
					// t - a = -b <= lb + ... : (t) - (an+ao) = -(bn+bo) <= lb - bo
					f.le(t, 0, an, ao, lb-bo)
				}
				if d := boundOf(f, bn, an); d < bInf { // b - a <= d => a - b >= -d => 0 - t <= d + (bo - ao)
					f.le("", 0, t, 0, d+bo-ao)
				}
			}
		case *ssa.Convert:
			visit(x.X, depth+1)
			// an unsigned value of at most 32 bits converted to a wider or equally wide integer keeps its value
			if fb, ok := x.X.Type().Underlying().(*types.Basic); ok && fb.Info()&types.IsUnsigned != 0 {
				if tb, ok := x.Type().Underlying().(*types.Basic); ok && tb.Info()&types.IsInteger != 0 {
					small := fb.Kind() == types.Uint8 || fb.Kind() == types.Uint16 || fb.Kind() == types.Uint32
					wide := tb.Kind() == types.Int || tb.Kind() == types.Int64 || tb.Kind() == types.Uint || tb.Kind() == types.Uint64 || (tb.Kind() == types.Int32 && fb.Kind() != types.Uint32) || tb.Kind() == types.Uint32
					if _, isC := x.X.(*ssa.Const); !isC && (small || isReflectKindValue(x.X)) && wide {
						a, b := bc.key(x), bc.key(x.X)
						if a != b {
							f.le(a, 0, b, 0, 0)
							f.le(b, 0, a, 0, 0)
						}
					}
				}
			}
		case *ssa.Call:
			n := calleeName(&x.Call)
			switch n {
			case "builtin.len":
				a := x.Call.Args[0]
				lenNonNeg(a)
				visit(a, depth+1)
				// len(x) where x defined by Slice / make / Split ...
			case "strings.Index", "strings.LastIndex", "strings.IndexByte", "strings.LastIndexByte", "bytes.Index", "bytes.IndexByte":
				i := bc.key(x)
				sl, so := bc.lenTerm(x.Call.Args[0])
				f.le("", 0, i, 0, 1) // i >= -1
				sub := int64(1)
				if s, ok := constString(x.Call.Args[1]); ok {
					sub = int64(len(s))
				} else if !strings.HasSuffix(n, "Byte") {
					sub = 0
				}
				lenNonNeg(x.Call.Args[0])
				if sub >= 1 {
					f.le(i, 0, sl, so, -1) // i <= len(s)-1 (also when not found: -1 <= len-1)
				}
				// found (i >= 0, established by a dominating test)  =>  i + |sub| <= len(s)
				if boundOf(f, "", i) <= 0 {
					f.le(i, 0, sl, so, -sub)
				}
			}
			// an index-search helper of the repository: every return is a negative constant ("not
			// found") or an index proved inside one of its slice/string parameters
			if h := staticCallee(&x.Call); h != nil && h.Pkg != nil && strings.HasPrefix(h.Pkg.Pkg.Path(), ModPath) && depth < 4 {
				if lo, pi, ok := searchResultRange(bc.p, h); ok && pi < len(x.Call.Args) {
					r := bc.key(x)
					f.le("", 0, r, 0, -lo) // r >= lo
					sl, so := bc.lenTerm(x.Call.Args[pi])
					lenNonNeg(x.Call.Args[pi])
					f.le(r, 0, sl, so, -1) // r <= len(arg)-1
				}
			}
			for _, a := range x.Call.Args {
				visit(a, depth+1)
			}
		case *ssa.Slice:
			// len(y) = hi - lo
			yl := "len(" + bc.key(x) + ")"
			var hn string
			var ho int64
			if x.High != nil {
				hn, ho = bc.term(x.High, 0)
			} else {
				hn, ho = bc.lenTerm(x.X)
			}
			var ln string
			var lo int64
			if x.Low != nil {
				ln, lo = bc.term(x.Low, 0)
			}
			if ln == "" {
				f.le(yl, 0, hn, ho, -lo)
				f.le(hn, ho, yl, 0, lo)
			}
			visit(x.X, depth+1)
			if x.High != nil {
				visit(x.High, depth+1)
			}
			if x.Low != nil {
				visit(x.Low, depth+1)
			}
		case *ssa.MakeSlice:
			yl := "len(" + bc.key(x) + ")"
			n, o := bc.term(x.Len, 0)
			f.le(yl, 0, n, o, 0)
			f.le(n, o, yl, 0, 0)
			visit(x.Len, depth+1)
		case *ssa.Phi:
			if _, isInt := x.Type().Underlying().(*types.Basic); !isInt {
				break
			}
			for _, e := range x.Edges {
				visit(e, depth+1)
			}
			// bounds of a phi = join of the bounds of its edges against zero and every length
			// term; an edge phi+k (k >= 0) does not lower the lower bound (induction) and
			// forbids an upper bound unless k == 0.
			me := bc.key(x)
			targets := append([]string{""}, bc.targets...)
			for _, c := range f.cs {
				for _, n := range []string{c.x, c.y} {
					if strings.HasPrefix(n, "len(") {
						targets = append(targets, n)
					}
				}
			}
			// and against the symbolic start value(s) of the φ itself: an induction variable that starts
			// at s+k and only grows stays >= s+k
			for _, e := range x.Edges {
				if n, _ := bc.term(e, 0); n != "" && n != me {
					targets = append(targets, n)
				}
			}
			targets = uniqStrings(targets)
			for _, T := range targets {
				// lower: T - x <= c  (x >= T - c)
				lbOK, lb := true, -bInf
				ubOK, ub := true, -bInf
				for ei, e := range x.Edges {
					n, off := bc.term(e, 0)
					if n == me {
						if off < 0 {
							lbOK = false
						}
						if off > 0 {
							ubOK = false
						}
						continue
					}
					// facts that hold when control leaves the predecessor of this edge
					ef := &factSet{cs: append([]cstr{}, f.cs...), nes: append([]neq{}, f.nes...)}
					if ei < len(x.Block().Preds) && depth < 3 {
						pred := x.Block().Preds[ei]
						bc.edgeFacts(ef, pred)
						// the condition of the very edge pred -> phi block
						if iff, ok := pred.Instrs[len(pred.Instrs)-1].(*ssa.If); ok && len(pred.Succs) == 2 && pred.Succs[0] != pred.Succs[1] {
							bc.addCond(ef, iff.Cond, pred.Succs[0] == x.Block(), 0)
						}
					}
					// T - (n+off) <= d[T][n] - off
					if b := boundOf(ef, T, n); b >= bInf {
						lbOK = false
					} else if b-off > lb {
						lb = b - off
					}
					if b := boundOf(ef, n, T); b >= bInf {
						ubOK = false
					} else if b+off > ub {
						ub = b + off
					}
				}
				if lbOK && lb > -bInf {
					f.le(T, 0, me, 0, lb)
				}
				if ubOK && ub > -bInf {
					f.le(me, 0, T, 0, ub)
				}
			}
		case *ssa.UnOp:
			bc.key(x)
			if a, ok := bc.alias[x]; ok {
				visit(a, depth+1)
			}
			visit(x.X, depth+1)
		case *ssa.Extract:
			visit(x.Tuple, depth+1)
		case *ssa.IndexAddr:
			visit(x.X, depth+1)
		case *ssa.FieldAddr:
			visit(x.X, depth+1)
		}
		// results of strings.Split have at least one element
		if c, ok := v.(*ssa.Call); ok {
			switch calleeName(&c.Call) {
			case "strings.Split", "strings.SplitN", "strings.Fields":
				if calleeName(&c.Call) != "strings.Fields" {
					f.le("", 0, "len("+bc.key(c)+")", 0, -1)
				}
			}
		}
	}
	for _, r := range roots {
		visit(r, 0)
	}
}

// boundOf returns the best c with x - y <= c derivable from the facts (bInf if none).
func boundOf(f *factSet, x, y string) int64 {
	if x == y {
		return 0
	}
	d, idx := closeFacts(f, x, y)
	return d[idx[x]][idx[y]]
}

// prove  (x+ox) - (y+oy) <= 0  from the facts.
func prove(f *factSet, x string, ox int64, y string, oy int64) bool {
	d, idx := closeFacts(f, x, y)
	return d[idx[x]][idx[y]] <= oy-ox
}

func closeFacts(f *factSet, x, y string) ([][]int64, map[string]int) {
	// collect terms
	idx := map[string]int{"": 0}
	names := []string{""}
	add := func(n string) {
		if _, ok := idx[n]; !ok {
			idx[n] = len(names)
			names = append(names, n)
		}
	}
	add(x)
	add(y)
	for _, c := range f.cs {
		add(c.x)
		add(c.y)
	}
	for _, n := range f.nes {
		add(n.x)
		add(n.y)
	}
	n := len(names)
	d := make([][]int64, n)
	for i := range d {
		d[i] = make([]int64, n)
		for j := range d[i] {
			if i != j {
				d[i][j] = bInf
			}
		}
	}
	// d[i][j] = best c with  name_i - name_j <= c
	for _, c := range f.cs {
		i, j := idx[c.x], idx[c.y]
		if c.c < d[i][j] {
			d[i][j] = c.c
		}
	}
	closure := func() {
		for k := 0; k < n; k++ {
			for i := 0; i < n; i++ {
				if d[i][k] >= bInf {
					continue
				}
				for j := 0; j < n; j++ {
					if d[k][j] < bInf && d[i][k]+d[k][j] < d[i][j] {
						d[i][j] = d[i][k] + d[k][j]
					}
				}
			}
		}
	}
	closure()
	for iter := 0; iter < 4; iter++ {
		changed := false
		for _, ne := range f.nes {
			i, j := idx[ne.x], idx[ne.y]
			// x - y != c.  If x - y <= c then x - y <= c-1; if x - y >= c then x - y >= c+1
			if d[i][j] == ne.c {
				d[i][j] = ne.c - 1
				changed = true
			}
			if d[j][i] == -ne.c {
				d[j][i] = -ne.c - 1
				changed = true
			}
		}
		if !changed {
			break
		}
		closure()
	}
	return d, idx
}

// BoundSite is one index/slice obligation.
type BoundSite struct {
	Ins    ssa.Instruction
	What   string // "index" | "slice"
	Proved bool
	Why    string
}

// checkBounds proves all index/slice instructions of fn.
func checkBounds(p *Prog, fn *ssa.Function, axioms func(bc *boundsCtx, f *factSet, ins ssa.Instruction)) []BoundSite {
	return checkBoundsOpt(p, fn, axioms, false)
}

// reflectCountCall: a call of reflect.Value.<name> or reflect.Type.<name>; returns the receiver.
func reflectCountCall(cc *ssa.CallCommon, name string) (ssa.Value, bool) {
	if cc.IsInvoke() {
		if cc.Method.Name() == name && isNamed(cc.Value.Type(), "reflect", "Type") {
			return cc.Value, true
		}
		return nil, false
	}
	if calleeName(cc) == "(reflect.Value)."+name && len(cc.Args) >= 1 {
		return cc.Args[0], true
	}
	return nil, false
}

// reflKey: a reflect.Value and the reflect.Type obtained from it by Type() denote the same
// struct type, so NumField of either bounds Field of either.
func (bc *boundsCtx) reflKey(v ssa.Value) string {
	if call, ok := v.(*ssa.Call); ok {
		if !call.Call.IsInvoke() && calleeName(&call.Call) == "(reflect.Value).Type" && len(call.Call.Args) == 1 {
			return bc.reflKey(call.Call.Args[0])
		}
	}
	return bc.key(v)
}

// checkBoundsOpt: withReflectFields additionally makes every reflect Field(i) call an
// obligation 0 <= i < NumField() of the same value/type.
func checkBoundsOpt(p *Prog, fn *ssa.Function, axioms func(bc *boundsCtx, f *factSet, ins ssa.Instruction), withReflectFields bool) []BoundSite {
	bc := newBoundsCtx(p, fn)
	reach := reachableBlocks(fn)
	callerLens := callerLenFacts(p, fn, bc)
	var out []BoundSite
	for _, b := range fn.Blocks {
		if !reach[b] || b == fn.Recover {
			continue
		}
		for _, ins := range b.Instrs {
			var base, idxV, lo, hi ssa.Value
			what := ""
			switch x := ins.(type) {
			case *ssa.IndexAddr:
				base, idxV, what = x.X, x.Index, "index"
			case *ssa.Index:
				if _, isMap := x.X.Type().Underlying().(*types.Map); isMap {
					continue
				}
				base, idxV, what = x.X, x.Index, "index"
			case *ssa.Slice:
				base, lo, hi, what = x.X, x.Low, x.High, "slice"
				if x.Max != nil {
					what = "slice3"
				}
			case *ssa.Call:
				recv, isF := reflectCountCall(&x.Call, "Field")
				if !withReflectFields || !isF {
					continue
				}
				args := x.Call.Args
				base, idxV, what = recv, args[len(args)-1], "reflect-field"
			default:
				continue
			}
			attempt := func(bc *boundsCtx, extra func(f *factSet)) (bool, string) {
				f := &factSet{}
				bc.edgeFacts(f, b)
				if extra != nil {
					extra(f)
				}
				for ln, lb := range callerLens {
					f.le("", 0, ln, 0, -lb) // lb <= len(param): holds at every call site of this unexported function
				}
				roots := []ssa.Value{base}
				for _, v := range []ssa.Value{idxV, lo, hi} {
					if v != nil {
						roots = append(roots, bc.resolve(v))
					}
				}
				// also the operands of the dominating conditions
				for d := b; d != nil; d = d.Idom() {
					if len(d.Preds) == 1 {
						if iff, ok := d.Preds[0].Instrs[len(d.Preds[0].Instrs)-1].(*ssa.If); ok {
							roots = append(roots, iff.Cond)
							if bo, ok := iff.Cond.(*ssa.BinOp); ok {
								roots = append(roots, bc.resolve(bo.X), bc.resolve(bo.Y))
							}
						}
					}
				}
				if what == "reflect-field" {
					ln := "numfield(" + bc.reflKey(base) + ")"
					bc.targets = []string{ln}
					f.le("", 0, ln, 0, 0)
				} else if ln, _ := bc.lenTerm(base); ln != "" {
					bc.targets = []string{ln}
					f.le("", 0, ln, 0, 0)
				} else {
					bc.targets = nil
				}
				bc.defFacts(f, roots)
				bc.rateFacts(f, b, base)
				if axioms != nil {
					axioms(bc, f, ins)
				}
				ln, lo0 := bc.lenTerm(base)
				if what == "reflect-field" {
					ln, lo0 = "numfield("+bc.reflKey(base)+")", 0
				}
				switch what {
				case "index", "reflect-field":
					in, io := bc.term(idxV, 0)
					ge0 := prove(f, "", 0, in, io)    // 0 <= idx
					lt := prove(f, in, io+1, ln, lo0) // idx+1 <= len
					if ge0 && lt {
						return true, ""
					}
					return false, fmt.Sprintf("cannot prove 0 <= index (%v) and index < len (%v)", ge0, lt)
				default:
					// capacity-based reslicing s[:0] / s[:n] up to cap is allowed by Go; we prove against len
					// unless the low bound is 0 and high is a constant 0.
					okAll := true
					var why []string
					var ln2 string = ln
					var hn string
					var ho int64
					if hi != nil {
						hn, ho = bc.term(hi, 0)
						if !prove(f, hn, ho, ln2, lo0) {
							// s[:k] with k <= cap: accept when k is the constant 0
							if !(hn == "" && ho == 0) {
								okAll = false
								why = append(why, "high <= len")
							}
						}
						if !prove(f, "", 0, hn, ho) {
							okAll = false
							why = append(why, "0 <= high")
						}
					} else {
						hn, ho = ln2, lo0
					}
					if lo != nil {
						l1, l1o := bc.term(lo, 0)
						if !prove(f, "", 0, l1, l1o) {
							okAll = false
							why = append(why, "0 <= low")
						}
						if !prove(f, l1, l1o, hn, ho) {
							okAll = false
							why = append(why, "low <= high")
						}
					}
					if okAll {
						return true, ""
					}
					return false, "cannot prove " + strings.Join(why, ", ")
				}
			}
			site := BoundSite{Ins: ins, What: what}
			site.Proved, site.Why = attempt(bc, nil)
			if !site.Proved {
				// case split at a merge point that dominates the site: correlated phis (start/labelLen,
				// lo/hi chosen by the same branch) are replaced by the values of one incoming edge at a
				// time, together with the facts of that edge; the site is proved if every case is
				for _, m := range mergeBlocksOf(b, idxV, lo, hi) {
					all := true
					for k, pred := range m.Preds {
						bc2 := newBoundsCtx(p, fn)
						bc2.subst = map[ssa.Value]ssa.Value{}
						for _, mi := range m.Instrs {
							ph, ok := mi.(*ssa.Phi)
							if !ok {
								break
							}
							bc2.subst[ph] = ph.Edges[k]
						}
						// the case is infeasible when a branch between the merge and the site tests a boolean φ of
						// the merge (a "found" flag set together with the index) that is false on this edge
						infeasible := false
						for d := b; d != nil && d != m; d = d.Idom() {
							if len(d.Preds) != 1 {
								continue
							}
							q := d.Preds[0]
							iff, ok := q.Instrs[len(q.Instrs)-1].(*ssa.If)
							if !ok || len(q.Succs) != 2 || q.Succs[0] == q.Succs[1] {
								continue
							}
							cond, neg := iff.Cond, false
							for {
								if u, ok := cond.(*ssa.UnOp); ok && u.Op == token.NOT {
									cond, neg = u.X, !neg
									continue
								}
								break
							}
							if sv, ok := bc2.subst[cond]; ok {
								if cv, known := constBool(sv); known {
									holds := cv != neg
									if holds != (q.Succs[0] == d) {
										infeasible = true
									}
								}
							}
						}
						if infeasible {
							continue
						}
						okk, _ := attempt(bc2, func(f *factSet) {
							bc2.edgeFacts(f, pred)
							if iff, ok := pred.Instrs[len(pred.Instrs)-1].(*ssa.If); ok && len(pred.Succs) == 2 && pred.Succs[0] != pred.Succs[1] {
								bc2.addCond(f, iff.Cond, pred.Succs[0] == m, 0)
							}
						})
						if !okk {
							all = false
							break
						}
					}
					if all {
						site.Proved, site.Why = true, ""
						break
					}
				}
			}
			out = append(out, site)
		}
	}
	return out
}

// rateFacts: "capacity k*n, cursor advances <= k per iteration of an n-iteration loop".
// Recognised shape: buf = make([]T, n*k); loop header phis i = [0, i+1], pos = [0, pos+c_j...]
// with every c_j <= k and the body guarded by i < n. Then pos <= k*i <= k*(n-1).
func (bc *boundsCtx) rateFacts(f *factSet, b *ssa.BasicBlock, base ssa.Value) {
	mk, ok := base.(*ssa.MakeSlice)
	if !ok {
		return
	}
	mul, ok := mk.Len.(*ssa.BinOp)
	if !ok || mul.Op != token.MUL {
		return
	}
	k, okK := constInt(mul.Y)
	nV := mul.X
	if !okK {
		k, okK = constInt(mul.X)
		nV = mul.Y
	}
	if !okK || k <= 0 {
		return
	}
	for _, l := range naturalLoops(bc.fn) {
		if !l.Body[b] {
			continue
		}
		var iPhi, posPhi *ssa.Phi
		for _, ins := range l.Header.Instrs {
			ph, ok := ins.(*ssa.Phi)
			if !ok {
				break
			}
			allInc1, maxInc, isCounter := true, int64(0), true
			for ei, e := range ph.Edges {
				pred := l.Header.Preds[ei]
				if !l.Body[pred] { // entry edge
					if c, ok := constInt(e); !ok || c != 0 {
						isCounter = false
					}
					continue
				}
				inc, ok := bc.maxIncrement(e, ph, 0)
				if !ok {
					isCounter = false
					continue
				}
				if inc != 1 {
					allInc1 = false
				}
				if inc > maxInc {
					maxInc = inc
				}
			}
			if !isCounter {
				continue
			}
			if allInc1 && iPhi == nil {
				// the loop guard must be  i < n
				if iff, ok := l.Header.Instrs[len(l.Header.Instrs)-1].(*ssa.If); ok {
					if cmp, ok := iff.Cond.(*ssa.BinOp); ok && cmp.Op == token.LSS && cmp.X == ph && cmp.Y == nV {
						iPhi = ph
						continue
					}
				}
			}
			if maxInc <= k && posPhi == nil {
				posPhi = ph
			}
		}
		if iPhi != nil && posPhi != nil && b != l.Header {
			// inside the body: i <= n-1 and pos <= k*i  =>  pos <= k*n - k = len(buf) - k
			f.le(bc.key(posPhi), 0, "len("+bc.key(mk)+")", 0, -k)
			f.le("", 0, bc.key(posPhi), 0, 0)
		}
	}
	// after the loop (block dominated by the header, outside the body): pos <= k*i <= k*n
	for _, l := range naturalLoops(bc.fn) {
		if l.Body[b] || !l.Header.Dominates(b) {
			continue
		}
		for _, ins := range l.Header.Instrs {
			ph, ok := ins.(*ssa.Phi)
			if !ok {
				break
			}
			isCounter, maxInc := true, int64(0)
			for ei, e := range ph.Edges {
				if !l.Body[l.Header.Preds[ei]] {
					if c, ok := constInt(e); !ok || c != 0 {
						isCounter = false
					}
					continue
				}
				inc, ok := bc.maxIncrement(e, ph, 0)
				if !ok {
					isCounter = false
				}
				if inc > maxInc {
					maxInc = inc
				}
			}
			// needs a unit counter guarded by i < n in the same header
			hasI := false
			if iff, ok := l.Header.Instrs[len(l.Header.Instrs)-1].(*ssa.If); ok {
				if cmp, ok := iff.Cond.(*ssa.BinOp); ok && cmp.Op == token.LSS && cmp.Y == nV {
					if ip, ok := cmp.X.(*ssa.Phi); ok && ip.Block() == l.Header {
						hasI = true
					}
				}
			}
			if isCounter && hasI && maxInc <= k && maxInc > 0 {
				f.le(bc.key(ph), 0, "len("+bc.key(mk)+")", 0, 0)
				f.le("", 0, bc.key(ph), 0, 0)
			}
		}
	}
}

// maxIncrement: e = ph + c along every path (through nested phis): returns max c.
func (bc *boundsCtx) maxIncrement(e ssa.Value, ph *ssa.Phi, depth int) (int64, bool) {
	if depth > 6 {
		return 0, false
	}
	if e == ph {
		return 0, true
	}
	switch x := e.(type) {
	case *ssa.BinOp:
		if x.Op == token.ADD {
			if c, ok := constInt(x.Y); ok && c >= 0 {
				r, ok := bc.maxIncrement(x.X, ph, depth+1)
				return r + c, ok
			}
		}
	case *ssa.Phi:
		m := int64(0)
		for _, ee := range x.Edges {
			r, ok := bc.maxIncrement(ee, ph, depth+1)
			if !ok {
				return 0, false
			}
			if r > m {
				m = r
			}
		}
		return m, true
	}
	return 0, false
}

func sortSites(p *Prog, s []BoundSite) {
	sort.Slice(s, func(i, j int) bool { return instrPos(s[i].Ins) < instrPos(s[j].Ins) })
}

// callerLenFacts: preconditions an unexported function inherits from its callers. For every
// slice/string parameter, the largest k such that len(argument) >= k is provable at EVERY call
// site (all call sites must be static calls inside the repository; a function whose value is
// taken, or an exported one, gets nothing). This is what lets "if len(xs) > 0 { helper(xs) }"
// discharge xs[0] inside the extracted helper.
func callerLenFacts(p *Prog, fn *ssa.Function, bc *boundsCtx) map[string]int64 {
	out := map[string]int64{}
	if fn.Object() == nil || fn.Object().Exported() || fn.Parent() != nil {
		return out
	}
	type site struct {
		caller *ssa.Function
		call   ssa.CallInstruction
	}
	var sites []site
	for _, g := range p.Funcs {
		for _, b := range g.Blocks {
			for _, ins := range b.Instrs {
				if call, ok := ins.(ssa.CallInstruction); ok {
					if staticCallee(call.Common()) == fn {
						sites = append(sites, site{g, call})
					}
				}
				// function value taken (stored, passed): unknown callers
				for _, op := range ins.Operands(nil) {
					if op != nil && *op == ssa.Value(fn) {
						if call, ok := ins.(ssa.CallInstruction); !ok || call.Common().Value != ssa.Value(fn) {
							return out
						}
					}
				}
			}
		}
	}
	if len(sites) == 0 {
		return out
	}
	for pi, prm := range fn.Params {
		switch prm.Type().Underlying().(type) {
		case *types.Slice:
		case *types.Basic:
			if bt := prm.Type().Underlying().(*types.Basic); bt.Info()&types.IsString == 0 {
				continue
			}
		default:
			continue
		}
		best := int64(1 << 30)
		for _, st := range sites {
			args := st.call.Common().Args
			if pi >= len(args) {
				best = 0
				break
			}
			cbc := newBoundsCtx(p, st.caller)
			f := &factSet{}
			cbc.edgeFacts(f, st.call.Block())
			cbc.defFacts(f, []ssa.Value{args[pi]})
			ln, lo := cbc.lenTerm(args[pi])
			var lb int64
			if ln == "" {
				lb = lo
			} else {
				f.le("", 0, ln, 0, 0)
				b := boundOf(f, "", ln) // 0 - len <= b  =>  len >= -b
				if b >= bInf {
					lb = 0
				} else {
					lb = -b - lo
				}
			}
			if lb < best {
				best = lb
			}
		}
		if best > 0 && best < (1<<30) {
			ln, _ := bc.lenTerm(prm)
			if ln != "" {
				out[ln] = best
			}
		}
	}
	return out
}

var searchRangeMemo = map[*ssa.Function]*[3]int64{}

// searchResultRange summarises an int-returning helper whose every return value is either an
// integer constant or a value proved (inside the helper) to satisfy 0 <= v < len(param k) for one
// fixed slice/string parameter k. Returns the smallest constant returned (<= 0; 0 if none), k.
func searchResultRange(p *Prog, h *ssa.Function) (lo int64, param int, ok bool) {
	if m, seen := searchRangeMemo[h]; seen {
		if m == nil {
			return 0, 0, false
		}
		return m[0], int(m[1]), m[2] == 1
	}
	searchRangeMemo[h] = nil // recursion guard
	if h.Blocks == nil || h.Signature.Results().Len() != 1 {
		return 0, 0, false
	}
	if bt, isB := h.Signature.Results().At(0).Type().Underlying().(*types.Basic); !isB || bt.Info()&types.IsInteger == 0 {
		return 0, 0, false
	}
	hb := newBoundsCtx(p, h)
	param = -1
	lo = 0
	nIdx := 0
	for _, b := range h.Blocks {
		ret, isRet := b.Instrs[len(b.Instrs)-1].(*ssa.Return)
		if !isRet || b == h.Recover {
			continue
		}
		v := ret.Results[0]
		if k, isK := constInt(v); isK {
			if k > 0 {
				return 0, 0, false
			}
			if k < lo {
				lo = k
			}
			continue
		}
		// an index: find the parameter it is proved inside
		f := &factSet{}
		hb.edgeFacts(f, b)
		found := -1
		for pi, prm := range h.Params {
			switch prm.Type().Underlying().(type) {
			case *types.Slice, *types.Basic:
			default:
				continue
			}
			ln, lno := hb.lenTerm(prm)
			if ln == "" {
				continue
			}
			f2 := &factSet{cs: append([]cstr{}, f.cs...), nes: append([]neq{}, f.nes...)}
			f2.le("", 0, ln, 0, 0)
			hb.targets = []string{ln}
			hb.defFacts(f2, []ssa.Value{v, prm})
			vn, vo := hb.term(v, 0)
			if prove(f2, "", 0, vn, vo) && prove(f2, vn, vo+1, ln, lno) {
				found = pi
				break
			}
		}
		if found < 0 || (param >= 0 && param != found) {
			return 0, 0, false
		}
		param = found
		nIdx++
	}
	if nIdx == 0 || param < 0 {
		return 0, 0, false
	}
	searchRangeMemo[h] = &[3]int64{lo, int64(param), 1}
	return lo, param, true
}

// mergeBlocksOf: blocks that dominate b and hold integer phis feeding the given operands
// (searched through +,- and conversions), nearest first.
func mergeBlocksOf(b *ssa.BasicBlock, vals ...ssa.Value) []*ssa.BasicBlock {
	seen := map[ssa.Value]bool{}
	found := map[*ssa.BasicBlock]bool{}
	var walk func(v ssa.Value, d int)
	walk = func(v ssa.Value, d int) {
		if v == nil || seen[v] || d > 4 {
			return
		}
		seen[v] = true
		switch x := v.(type) {
		case *ssa.Phi:
			if bt, ok := x.Type().Underlying().(*types.Basic); ok && bt.Info()&types.IsInteger != 0 {
				if x.Block().Dominates(b) && len(x.Block().Preds) >= 2 && len(x.Block().Preds) <= 4 {
					found[x.Block()] = true
				}
			}
		case *ssa.BinOp:
			walk(x.X, d+1)
			walk(x.Y, d+1)
		case *ssa.Convert:
			walk(x.X, d+1)
		}
	}
	for _, v := range vals {
		walk(v, 0)
	}
	var out []*ssa.BasicBlock
	for m := range found {
		out = append(out, m)
	}
	sort.Slice(out, func(i, j int) bool { return out[i].Index > out[j].Index })
	return out
}

// isReflectKindValue: v is the result of reflect.Value.Kind() / reflect.Type.Kind().
func isReflectKindValue(v ssa.Value) bool {
	call, ok := v.(*ssa.Call)
	if !ok {
		return false
	}
	nm := calleeName(&call.Call)
	return nm == "(reflect.Value).Kind" || strings.HasSuffix(nm, "reflect.Type.Kind")
}
