package engine

import (
	"fmt"
	"go/token"
	"strings"
)

func init() {
	register(&PropDef{
		ID: "C02",
		Explain: "Completeness of the reporting machinery, decided structurally: C02-LOOP every walker's rule loop and field/entry loop leaves only through its header (no break/return/goto/panic in a body, every body path reaches the latch), so validation never stops at the first failure; " +
			"C02-ONCE on every path of every rule function at most one clause is written (abstract interpretation, all kinds and predicate outcomes); C02-TERM every string written to an error buffer is a clause that ends with the separator by construction; " +
			"C02-PATH every clause names the object and field the rule function was called for; C02-MAT each getError evaluates cross-field groups before the emptiness test, returns nil only when the buffer is empty and trims exactly one trailing separator, and post-dominates the walk. " +
			"Not covered: whether each individual verdict is right (C01, C05, C03) and field-declaration order (pinned by the examples).",
		Assume:  []string{"user-supplied rule functions terminate their clauses with ErrEndFlag as documented"},
		Trusted: []string{"go/types", "go/ssa"},
		Run:     runC02,
	})
}

func runC02(c *Ctx) {
	runC02Registry(c)
	runC02Loop(c)
	runC02Mat(c)
	sharedDeclaredRules(c)
	base(c, "STATE", "ALIAS", "TEXT", "EXPORT", "FACADE")
	runToStrCases(c, "C02-PATHKEY")
	runFieldIdentity(c, "C02-FIELDID")
	runLiveSettings(c, "C02-LIVE")
	runAllElems(c, "C02-ALLELEMS")
	runMissingReach(c, "C02-MISSING-ALL")
	runReqDescend(c, "C02-REQDESCEND")
	importRules(c, "C16", runC16, "C02-RULESRC", "the rules evaluated for a field are the tag rules or the override that applies to that object: unscoped overrides only for the outermost object (rules C16-SCOPE, C16-REPLACE)", 2, ruleIn("C16-SCOPE", "C16-REPLACE"))
	importRules(c, "C03", runC03, "C02-REQUIRED", "a violated 'required' is reported: for every kind and every combination of zero value / empty collection the built-in required of each walker writes its clause exactly when the value is zero or an empty slice/array/map (rule C03-REQ) — a kind whose zero value is not recognised yields no clause although the rule is violated", 4, ruleIn("C03-REQ"))
	importRules(c, "C03", runC03Seen, "C02-MISSING-ONCE", "a key present in the input is reported by its own rules only: the missing-key reporter skips every key seen in the input, and every iteration records its key (rule C03-SEEN) — otherwise a bare key is reported twice", 3, nil)
	importRules(c, "C18", runC18, "C02-SKEL", "every rule item of a field is looked up under its own key part and either answered by an error clause (unknown name), handled as a built-in, or handed to the function found — the same skeleton in all four walkers (rule C18-SKEL): a lookup that normalises the name while the built-in dispatch does not lets an item such as ' required' fall between the two and vanish without a clause", 4, ruleIn("C18-SKEL"))
	importRules(c, "C18", runC18, "C02-URLPARAMS", "every parameter of a URL reaches its rules with its own, whole value: the query is cut at the first '?', at '&' and at the first '=' of the caller's text, and no further delimiter is looked for in text that was already percent-decoded (rule C18-URL) — a value cut short, or the parameters behind it lost, yields a clause for a satisfied rule or none for a violated one", 3, ruleIn("C18-URL"))
	importRules(c, "C17", runC17, "C02-GROUP", "cross-field group clauses are one per violated group of one object and name every member by its object path, and are written last, after the whole input has been walked (rules C17-KEY, C17-EVAL, C17-WHEN): members are registered under the walker's current path, not a type name; the evaluation never runs between two walks", 5, ruleIn("C17-KEY", "C17-EVAL", "C17-WHEN"))
}

func runC02Registry(c *Ctx) {
	p := c.P
	c.Rule("C02-ONCE", "on every path of every rule function (helpers inlined) at most one clause is written to the error buffer", 30)
	c.Rule("C02-PATH", "every clause written by a rule function carries the function's own object and field parameters in positions 0 and 1", 30)
	c.Rule("C02-TERM", "everything a rule function writes to the error buffer is a clause built by the clause constructors (which append the separator last)", 30)
	runs, err := exploreRegistry(p)
	if err != nil {
		c.Unk("C02-ONCE", "-", "anchor", token.NoPos, "rule table unresolved: "+err.Error())
		return
	}
	for _, r := range runs {
		if r.Entry.Fn == nil {
			continue
		}
		c.Funcs[fnName(r.Entry.Fn)] = true
		var multi, path, term, unk []string
		nPaths, nWrites := 0, 0
		for _, t := range r.Traces {
			if t.Converged {
				continue
			}
			if t.Cut != "" {
				unk = append(unk, t.Cut)
				continue
			}
			nPaths++
			ws := writesOf(t, "errBuf")
			nWrites += len(ws)
			if len(ws) > 1 {
				var at []string
				for _, w := range ws {
					at = append(at, p.Pos(instrPos(w.Site)))
				}
				multi = append(multi, fmt.Sprintf("%d clauses on one path (%s)", len(ws), strings.Join(at, ", ")))
			}
			for _, w := range ws {
				if w.Class == "?" {
					term = append(term, fmt.Sprintf("write at %s is not a constructed clause: %s", p.Pos(instrPos(w.Site)), shorten(keyOf(w.Raw), 100)))
					continue
				}
				if keyOf(w.Obj) != "objName" || keyOf(w.Field) != "fieldName" {
					path = append(path, fmt.Sprintf("clause at %s names (%s, %s) instead of the (objName, fieldName) it was called with", p.Pos(instrPos(w.Site)), keyOf(w.Obj), keyOf(w.Field)))
				}
			}
			// writes to any other builder would be invisible in the result: flag them
			for _, e := range t.Events {
				if e.Kind == "write" && keyOf(e.Args[0]) != "errBuf" {
					term = append(term, fmt.Sprintf("write at %s goes to %s, not to the error buffer passed in", p.Pos(instrPos(e.Site)), keyOf(e.Args[0])))
				}
			}
		}
		pos := r.Entry.Fn.Pos()
		if len(unk) > 0 {
			c.Unk("C02-ONCE", r.Entry.Name, "paths", pos, uniqJoin(unk, 3))
			continue
		}
		c.Check(len(multi) == 0, "C02-ONCE", r.Entry.Name, "paths", pos, fmt.Sprintf("%d paths, %d writes, at most one per path", nPaths, nWrites), uniqJoin(multi, 3))
		c.Check(len(path) == 0, "C02-PATH", r.Entry.Name, "clauses", pos, "all clauses carry (objName, fieldName)", uniqJoin(path, 3))
		c.Check(len(term) == 0, "C02-TERM", r.Entry.Name, "clauses", pos, "all writes are constructed clauses", uniqJoin(term, 3))
	}
}
