package engine

// Foundation rule groups. Several properties are statements about the verdicts a validation
// call returns; every one of them silently assumes the same machinery underneath: the rules
// evaluated are the ones declared for this call, nothing leaks in from an earlier call through
// a recycled object / a global / an aliased buffer, every rule item of a field is visited, the
// rule text is split and parsed faithfully, and the accumulated clauses are materialised
// unchanged. Each group below is a set of rules (defined with the property they were written
// for) that is a NECESSARY condition of every property that lists it: breaking the rule makes
// some input, sequence or schedule violate that property too (confirmed with the seeded changes,
// see DESIGN.md §10), so the property's check reports it as <Cxx>-BASE-<GROUP>.

type baseGroup struct {
	name string
	prop string
	run  func(*Ctx)
	keep func(string) bool
	text string
	min  int
}

var baseGroups = map[string]baseGroup{
	"DECLARED": {"DECLARED", "C08", runC08, ruleIn("C08-COPY", "C08-KEY"),
		"each call is judged by the rules declared for it under the tag name it asked for: the per-type rule information shared through the type cache is never written by a walker (rule C08-COPY) and is stored and looked up under everything it depends on, the requested tag name included (rule C08-KEY)", 2},
	"STATE": {"STATE", "C11", func(c *Ctx) {
		runC11Global(c, "C11")
		runC11Pool(c, "C11")
		runPoolReleaseLast(c, "C11-POOL")
		runPoolReleaseOnce(c, "C11-POOL")
		runGlobalMapAlias(c, "C11-GLOBAL")
	}, nil,
		"no state survives from one call to the next or is shared between concurrent calls: recycled validators/buffers are fully re-initialised and released last, no package-level variable is written on a validation path (rules C11-POOL, C11-GLOBAL)", 10},
	"ALIAS": {"ALIAS", "C12", runC12Unsafe, nil,
		"text handed out by the splitter never aliases a buffer that is written or recycled afterwards (rule C12-UNSAFE)", 1},
	"LOOP": {"LOOP", "C02", runC02Loop, nil,
		"every walker evaluates every rule item of every field/entry: its loops leave only through their headers (rule C02-LOOP)", 4},
	"TEXT": {"TEXT", "C14", func(c *Ctx) {
		runC14Parse(c)
		runC14(c)
		runC14Stack(c)
		runC14Split(c)
		runC14SplitterUse(c)
		runConvIdentity(c, "C14-CONV")
		runC14Set(c)
	}, ruleIn("C14-CONV", "C14-PARSE", "C14-GUARD", "C14-ORDER", "C14-FIRST", "C14-FAST", "C14-SPLIT", "C14-STACK", "C14-USE", "C14-VERBATIM", "C14-SET", "C14-DELIM"),
		"the rule text reaches the rule functions as the caller wrote it: RM.Set stores the joined rules unchanged and joins them with the splitter's separator (rules C14-SET, C14-DELIM — a setter that skips, trims or re-joins rules drops or garbles a rule before it is judged), the text is split into items and parsed into key, value and message faithfully (rules C14-PARSE, C14-FAST, C14-SPLIT, C14-STACK, C14-USE; C14-GUARD/ORDER/FIRST/VERBATIM when the parser's table is not decided)", 10},
	"MAT": {"MAT", "C02", runC02Mat, nil,
		"the clauses accumulated by a call are returned unchanged: groups evaluated before the emptiness test, nil iff empty, exactly one trailing separator removed (rule C02-MAT)", 8},
	"LRU": {"LRU", "C09", runC09, nil,
		"the default cache is a correct bounded map for every capacity, zero included (rules C09-*)", 8},
	"RULESRC": {"RULESRC", "C16", runC16, ruleIn("C16-SCOPE", "C16-REPLACE", "C16-API"),
		"the rule text evaluated for a field is the one in force for that object in this call: the programmatic rule when one is set, else the tag rule; the unscoped rule set only for the outermost object, a type-scoped set for every object of its type (rules C16-SCOPE, C16-REPLACE, C16-API)", 3},
	"EXPORT": {"EXPORT", "C04", func(c *Ctx) { runExportPred(c, "C04-EXPORT") }, nil,
		"every exported field is visited and no unexported one: the export predicate is exactly 'first byte in A..Z' on the field name (rule C04-EXPORT) — a field wrongly taken for unexported is skipped silently with all its rules", 1},
	"ZEROSKIP": {"ZEROSKIP", "C03", runC03, ruleIn("C03-SKIP"),
		"a rule function is called exactly when the very value it receives is non-empty (IsZero false; for URL parameters the decoded string compared with \"\"), in every walker (rule C03-SKIP) — a walker with a different notion of empty accepts inputs the rule's language excludes and disagrees with its siblings", 4},
	"FACADE": {"FACADE", "C18", func(c *Ctx) { runFacadeForward(c, "C18-FORWARD") }, nil,
		"every exported entry point hands each of its parameters (value, rule set, function table, tag name) on to the validator object on every path (rule C18-FORWARD) — a parameter dropped by a wrapper means the call is judged under the default tag / without the rules or functions the caller supplied", 25},
	"LABEL": {"LABEL", "C15", runC15Label, nil,
		"a parsed message gains exactly its explanation label: Chinese label iff the message contains a CJK character of [\\x{4e00}-\\x{9fa5}], else the English one (rule C15-LABEL)", 3},
}

// base imports the named foundation groups into the property being checked.
func base(c *Ctx, groups ...string) {
	for _, g := range groups {
		bg, ok := baseGroups[g]
		if !ok {
			c.Unk(c.Prop+"-BASE-"+g, "-", "group", 0, "unknown foundation group")
			continue
		}
		importRules(c, bg.prop, bg.run, c.Prop+"-BASE-"+bg.name, bg.text, bg.min, bg.keep)
	}
}
