package engine

import (
	"fmt"
	"go/token"
	"go/types"
	"sort"
	"strings"

	"golang.org/x/tools/go/ssa"
)

// Structural rules about the small functions around the anchored mechanisms (setters, getters,
// wrappers, conversion helpers). Each one is a necessary condition of the property it is listed
// under: breaking it changes what a call returns although the anchored function is intact.

// mustPass: every path from the entry of fn to a Return passes through a block for which hit is true.
// Returns the first return block reached without it (nil when the obligation holds).
func mustPass(fn *ssa.Function, hit func(b *ssa.BasicBlock) bool, skipEdge func(b *ssa.BasicBlock, succ int) bool) *ssa.BasicBlock {
	seen := map[*ssa.BasicBlock]bool{}
	var leak *ssa.BasicBlock
	var dfs func(b *ssa.BasicBlock)
	dfs = func(b *ssa.BasicBlock) {
		if leak != nil || seen[b] || hit(b) {
			return
		}
		seen[b] = true
		if _, isRet := b.Instrs[len(b.Instrs)-1].(*ssa.Return); isRet {
			leak = b
			return
		}
		for i, s := range b.Succs {
			if skipEdge != nil && skipEdge(b, i) {
				continue
			}
			dfs(s)
		}
	}
	if len(fn.Blocks) > 0 {
		dfs(fn.Blocks[0])
	}
	return leak
}

// runVarSetRules: rule C14-VARSET. Var's rule strings accumulate in the validator's own rule map under
// the reserved field name: SetRules hands all of them to RM.Set on that map and does not replace the map.
func runVarSetRules(c *Ctx, rule string) {
	p := c.P
	c.Rule(rule, "VVar.SetRules appends: on every path it calls RM.Set on the validator's own rule map with the reserved field name and the caller's rules, and the map itself is only replaced by the result of that call", 1)
	fn := p.Method("valid", "VVar", "SetRules")
	set := p.Method("valid", "RM", "Set")
	if fn == nil || set == nil || len(fn.Params) < 2 {
		c.Unk(rule, "(*valid.VVar).SetRules", "anchor", token.NoPos, "VVar.SetRules / RM.Set not found")
		return
	}
	c.Funcs[fnName(fn)] = true
	recv := fn.Params[0]
	isOwnMap := func(v ssa.Value) bool {
		ld, ok := unwrapChange(v).(*ssa.UnOp)
		if !ok || ld.Op != token.MUL {
			return false
		}
		fa, ok := ld.X.(*ssa.FieldAddr)
		if !ok || fa.X != ssa.Value(recv) {
			return false
		}
		_, isMap := ld.Type().Underlying().(*types.Map)
		return isMap
	}
	var good []*ssa.Call
	var bad []string
	rules := derivedFrom(fn.Params[len(fn.Params)-1])
	for _, b := range fn.Blocks {
		for _, ins := range b.Instrs {
			switch x := ins.(type) {
			case *ssa.Call:
				if staticCallee(&x.Call) == set && len(x.Call.Args) >= 3 {
					if !isOwnMap(x.Call.Args[0]) {
						bad = append(bad, p.Pos(x.Pos())+": RM.Set is applied to a map other than the validator's own rule map: rules given by an earlier SetRules call are lost")
						continue
					}
					if !rules[x.Call.Args[2]] {
						bad = append(bad, p.Pos(x.Pos())+": the rules handed to RM.Set are not the caller's")
						continue
					}
					good = append(good, x)
				}
			}
		}
	}
	for _, b := range fn.Blocks {
		for _, ins := range b.Instrs {
			if st, ok := ins.(*ssa.Store); ok {
				if fa, ok := st.Addr.(*ssa.FieldAddr); ok && fa.X == ssa.Value(recv) {
					if _, isMap := st.Val.Type().Underlying().(*types.Map); isMap {
						fromSet := false
						for _, g := range good {
							if unwrapChange(st.Val) == ssa.Value(g) {
								fromSet = true
							}
						}
						if !fromSet {
							bad = append(bad, p.Pos(st.Pos())+": SetRules replaces the validator's rule map: the rules of an earlier SetRules call on the same object disappear instead of being joined with ','")
						}
					}
				}
			}
		}
	}
	leak := mustPass(fn, func(b *ssa.BasicBlock) bool {
		for _, g := range good {
			if g.Block() == b {
				return true
			}
		}
		return false
	}, nil)
	if leak != nil {
		bad = append(bad, "a path of SetRules returns without handing the rules to RM.Set")
	}
	c.Sites++
	c.Check(len(bad) == 0, rule, fnName(fn), "append", fn.Pos(), "rules appended to the own map on every path", uniqJoin(bad, 2))
}

// runConvIdentity: rule C14-CONV. The zero-copy conversion helpers return their whole argument: a
// constant result is possible only where the argument was found empty.
func runConvIdentity(c *Ctx, rule string) {
	p := c.P
	c.Rule(rule, "the bytes<->string conversion helpers return their whole argument on every path (a constant result only where the argument was found empty)", 2)
	for _, name := range []string{"UnsafeBytes2Str", "UnsafeStr2Bytes"} {
		fn := p.Func("valid/internal", name)
		if fn == nil || len(fn.Params) != 1 {
			c.Unk(rule, "internal."+name, "anchor", token.NoPos, "conversion helper not found")
			continue
		}
		c.Funcs[fnName(fn)] = true
		prm := fn.Params[0]
		var bad []string
		for _, b := range fn.Blocks {
			ret, ok := b.Instrs[len(b.Instrs)-1].(*ssa.Return)
			if !ok || len(ret.Results) != 1 {
				continue
			}
			var check func(v ssa.Value, at *ssa.BasicBlock, d int)
			check = func(v ssa.Value, at *ssa.BasicBlock, d int) {
				switch x := v.(type) {
				case *ssa.Const:
					if !inRegion(prm, at, true) {
						bad = append(bad, fmt.Sprintf("%s: a constant is returned on a path where the argument may be non-empty (e.g. a one-byte rule item or option becomes \"\")", p.Pos(instrPos(at.Instrs[len(at.Instrs)-1]))))
					}
				case *ssa.Phi:
					if d < 4 {
						for i, e := range x.Edges {
							check(e, x.Block().Preds[i], d+1)
						}
					}
				}
			}
			check(ret.Results[0], b, 0)
		}
		c.Sites++
		c.Check(len(bad) == 0, rule, fnName(fn), "identity", fn.Pos(), "no constant result for a non-empty argument", uniqJoin(bad, 2))
	}
}

// runMsgArg: rule C15-MSGARG. Wherever a function takes the parsed custom message (parameter cusMsg), the
// argument is the message part of ParseValidNameKV (its third result), the caller's own cusMsg, or a constant.
func runMsgArg(c *Ctx, rule string) {
	p := c.P
	c.Rule(rule, "the custom-message parameter of the built-in required/exist helpers receives the message part parsed from the rule item (third result of ParseValidNameKV), the caller's own message parameter or a constant — never the raw rule item", 3)
	parse := p.Func("valid", "ParseValidNameKV")
	if parse == nil {
		c.Unk(rule, "valid.ParseValidNameKV", "anchor", token.NoPos, "parser not found")
		return
	}
	n := 0
	for _, fn := range p.Funcs {
		if fn.Pkg == nil || Rel(fn.Pkg.Pkg.Path()) != "valid" {
			continue
		}
		per := map[string]int{}
		for _, b := range fn.Blocks {
			for _, ins := range b.Instrs {
				call, ok := ins.(ssa.CallInstruction)
				if !ok {
					continue
				}
				sc := staticCallee(call.Common())
				if sc == nil || sc.Pkg != fn.Pkg {
					continue
				}
				args := call.Common().Args
				for i, prm := range sc.Params {
					if prm.Name() != "cusMsg" || i >= len(args) {
						continue
					}
					n++
					per[sc.Name()]++
					c.Sites++
					c.Funcs[fnName(fn)] = true
					okArg := false
					var why string
					var chk func(v ssa.Value, d int) bool
					chk = func(v ssa.Value, d int) bool {
						switch x := v.(type) {
						case *ssa.Const:
							return true
						case *ssa.Parameter:
							if x.Name() == "cusMsg" {
								return true
							}
							why = "it is the caller's parameter " + x.Name()
						case *ssa.Extract:
							if tc, ok := x.Tuple.(*ssa.Call); ok && staticCallee(&tc.Call) == parse {
								if x.Index == 2 {
									return true
								}
								why = fmt.Sprintf("it is result #%d of ParseValidNameKV (the %s), not the message", x.Index, []string{"key", "value", "message"}[x.Index%3])
							}
						case *ssa.Phi:
							if d < 4 {
								for _, e := range x.Edges {
									if !chk(e, d+1) {
										return false
									}
								}
								return true
							}
						default:
							why = "it is " + describeVal(v)
						}
						return false
					}
					okArg = chk(args[i], 0)
					c.Check(okArg, rule, fnName(fn), fmt.Sprintf("call:%s#%d", sc.Name(), per[sc.Name()]), instrPos(ins), "message part passed", fmt.Sprintf("the custom-message argument of %s is not the parsed message: %s — the clause then shows the raw rule text (and the wrong explanation label)", sc.Name(), why))
				}
			}
		}
	}
	if n == 0 {
		c.Unk(rule, "valid", "anchor", token.NoPos, "no call passing a custom message found")
	}
}

func describeVal(v ssa.Value) string {
	switch x := v.(type) {
	case *ssa.Call:
		return "the result of " + calleeName(&x.Call)
	case *ssa.UnOp:
		return "a value loaded from a variable"
	case *ssa.Phi:
		return "variable " + x.Comment + " (merged from several paths)"
	case *ssa.Const:
		return "the constant " + x.Value.String()
	}
	return fmt.Sprintf("%T %s", v, v.Name())
}

// runSetFnStore: rule C16-SETFN. Registering a per-call function always records it: every path of the
// per-object setter reaches the map update with the caller's name and function, whatever is registered
// globally or built in under that name (the per-call table is consulted first: C16-LOOKUP).
func runSetFnStore(c *Ctx, rule string) {
	p := c.P
	c.Rule(rule, "the per-object function setter stores the caller's function under the caller's name on every path", 1)
	fn := p.Method("valid", "validCommon", "setValidFn")
	if fn == nil || len(fn.Params) < 3 {
		c.Unk(rule, "(*valid.validCommon).setValidFn", "anchor", token.NoPos, "setter not found")
		return
	}
	c.Funcs[fnName(fn)] = true
	name, f := fn.Params[1], fn.Params[2]
	hit := func(b *ssa.BasicBlock) bool {
		for _, ins := range b.Instrs {
			if mu, ok := ins.(*ssa.MapUpdate); ok && mu.Key == ssa.Value(name) && unwrapChange(mu.Value) == ssa.Value(f) {
				return true
			}
		}
		return false
	}
	// a nil function may be ignored
	skip := func(b *ssa.BasicBlock, succ int) bool {
		if iff, ok := b.Instrs[len(b.Instrs)-1].(*ssa.If); ok {
			if es, ok := lenTest(iff, func(v ssa.Value) bool { return v == ssa.Value(f) }); ok {
				return succ == es
			}
		}
		return false
	}
	leak := mustPass(fn, hit, skip)
	c.Sites++
	msg := ""
	if leak != nil {
		msg = "a path of the setter returns at " + p.Pos(instrPos(leak.Instrs[len(leak.Instrs)-1])) + " without storing the function: a per-call function is dropped (e.g. when the name is already known globally or built in), so the call is judged by the global/built-in function instead of the one given for this call"
	}
	c.Check(leak == nil, rule, fnName(fn), "store", fn.Pos(), "stored on every path", msg)
}

// runAllElems: rule <prop>-ALLELEMS. In the Valid entry method of each walker, a loop over the elements /
// entries of the top-level value hands EVERY element to the walker: no path through the loop body skips
// the call (nil and zero elements are the walker's business: it reports or skips them itself).
func runAllElems(c *Ctx, rule string) {
	p := c.P
	c.Rule(rule, "in every Valid method, each loop that calls the walker calls it on every iteration path (no element of a top-level slice/array/map is skipped before the walker sees it)", 2)
	n := 0
	for _, fn := range p.Funcs {
		if fn.Pkg == nil || Rel(fn.Pkg.Pkg.Path()) != "valid" || fn.Name() != "Valid" || fn.Signature.Recv() == nil {
			continue
		}
		for _, l := range naturalLoops(fn) {
			isWalk := func(b *ssa.BasicBlock) bool {
				for _, ins := range b.Instrs {
					if call, ok := ins.(*ssa.Call); ok {
						if sc := staticCallee(&call.Call); sc != nil && sc.Name() == "validate" && sc.Signature.Recv() != nil {
							return true
						}
					}
				}
				return false
			}
			has := false
			for b := range l.Body {
				if isWalk(b) {
					has = true
				}
			}
			if !has {
				continue
			}
			n++
			c.Sites++
			c.Funcs[fnName(fn)] = true
			// a path header -> ... -> header inside the loop that avoids the walker call
			seen := map[*ssa.BasicBlock]bool{}
			skipped := false
			var dfs func(b *ssa.BasicBlock)
			dfs = func(b *ssa.BasicBlock) {
				if skipped || seen[b] || !l.Body[b] || isWalk(b) {
					return
				}
				seen[b] = true
				for _, s := range b.Succs {
					if s == l.Header {
						skipped = true
						return
					}
					dfs(s)
				}
			}
			for _, s := range l.Header.Succs {
				if l.Body[s] {
					dfs(s)
				}
			}
			if isWalk(l.Header) {
				skipped = false
			}
			c.Check(!skipped, rule, fnName(fn), fmt.Sprintf("loop#%d", n), l.Header.Instrs[0].Pos(), "the walker is called on every iteration", "an iteration of the loop at "+p.Pos(instrPos(l.Header.Instrs[len(l.Header.Instrs)-1]))+" can finish without handing the element to the walker: e.g. an all-zero struct element of a top-level slice is never judged, so its required fields and cross-field groups produce no clause")
		}
	}
	if n < 2 {
		c.Unk(rule, "valid", "anchor", token.NoPos, fmt.Sprintf("expected at least 2 element loops in Valid methods, found %d", n))
	}
}

// runLiveSettings: rule <prop>-LIVE. Exported package-level variables of basic type are settings a user
// may change before validating (ErrEndFlag is documented as the clause separator the tools split on).
// They are read where they are used; nothing is computed from them while the package is initialised.
func runLiveSettings(c *Ctx, rule string) {
	runSepLiteral(c, rule+"-LITERAL")
	p := c.P
	c.Rule(rule, "no package-level value is computed from an exported setting (e.g. the clause separator ErrEndFlag) at package initialisation: the setting is read at the time of use", 1)
	pkg := p.Pkg("valid")
	if pkg == nil {
		c.Unk(rule, "valid", "anchor", token.NoPos, "package valid not loaded")
		return
	}
	settings := map[*ssa.Global]int{}
	for _, fn := range p.Funcs {
		if fn.Pkg != pkg || (fn.Name() == "init" && fn.Parent() == nil) {
			continue
		}
		for _, b := range fn.Blocks {
			for _, ins := range b.Instrs {
				if ld, ok := ins.(*ssa.UnOp); ok && ld.Op == token.MUL {
					if g, ok := ld.X.(*ssa.Global); ok && g.Pkg == pkg && g.Object() != nil && g.Object().Exported() {
						if _, basic := g.Type().(*types.Pointer).Elem().Underlying().(*types.Basic); basic {
							settings[g]++
						}
					}
				}
			}
		}
	}
	var gs []*ssa.Global
	for g := range settings {
		gs = append(gs, g)
	}
	sort.Slice(gs, func(i, j int) bool { return gs[i].Name() < gs[j].Name() })
	if len(gs) == 0 {
		c.Unk(rule, "valid", "anchor", token.NoPos, "no exported setting of basic type is read by the package")
	}
	for _, g := range gs {
		var bad []string
		for _, fn := range p.Funcs {
			if fn.Pkg != pkg || fn.Name() != "init" || fn.Parent() != nil {
				continue
			}
			for _, b := range fn.Blocks {
				for _, ins := range b.Instrs {
					if ld, ok := ins.(*ssa.UnOp); ok && ld.Op == token.MUL && ld.X == ssa.Value(g) {
						bad = append(bad, p.Pos(instrPos(ins))+": "+g.Name()+" is read while the package is initialised: a value derived from it is frozen, so after the user changes "+g.Name()+" the clauses built from the frozen value still carry the old one (two clauses fuse when split on the separator)")
					}
				}
			}
		}
		c.Sites++
		c.Check(len(bad) == 0, rule, fnNameGlobal(g), "read-at-use", g.Pos(), fmt.Sprintf("%d reads, none at package initialisation", settings[g]), uniqJoin(bad, 2))
	}
}

// runMissingReach: rule C03-MISSING-ALL. The reporter of absent required keys looks at every rule key on
// every call: no path returns before the loop over the rule map, except where that map is empty.
func runMissingReach(c *Ctx, rule string) {
	p := c.P
	c.Rule(rule, "the missing-key reporter reaches its loop over the rule map on every path (an early return is allowed only on the empty-rule-map edge): an input with no keys at all is missing every required key", 1)
	fn := p.Func("valid", "requiredMissing")
	if fn == nil {
		c.Unk(rule, "valid.requiredMissing", "anchor", token.NoPos, "missing-key reporter not found")
		return
	}
	c.Funcs[fnName(fn)] = true
	var rm *ssa.Parameter
	for _, prm := range fn.Params {
		if n := namedOf(prm.Type()); n != nil && n.Obj().Name() == "RM" {
			rm = prm
		}
	}
	if rm == nil {
		c.Unk(rule, fnName(fn), "anchor", fn.Pos(), "rule-map parameter not found")
		return
	}
	set := derivedFrom(rm)
	hit := func(b *ssa.BasicBlock) bool {
		for _, ins := range b.Instrs {
			if r, ok := ins.(*ssa.Range); ok && set[r.X] {
				return true
			}
		}
		return false
	}
	skip := func(b *ssa.BasicBlock, succ int) bool {
		if iff, ok := b.Instrs[len(b.Instrs)-1].(*ssa.If); ok {
			if es, ok := lenTest(iff, func(v ssa.Value) bool { return set[v] }); ok {
				return succ == es
			}
		}
		return false
	}
	leak := mustPass(fn, hit, skip)
	c.Sites++
	msg := ""
	if leak != nil {
		msg = "a path returns at " + p.Pos(instrPos(leak.Instrs[len(leak.Instrs)-1])) + " before the rule keys are enumerated although rules exist: e.g. an empty map (or an input with no recorded key) is accepted although required keys are missing"
	}
	c.Check(leak == nil, rule, fnName(fn), "enumerates", fn.Pos(), "rule keys enumerated on every path", msg)
}

var _ = strings.Contains

// runReqDescend: rule <prop>-REQDESCEND. The struct walker's built-in required either reports the field
// as missing or hands the (non-empty) value on to the nested descent, on every path — whatever the form of
// the rule (with or without a custom message).
func runReqDescend(c *Ctx, rule string) {
	p := c.P
	c.Rule(rule, "every path of VStruct.required writes the required clause or reaches the nested descent (exist): a non-empty struct/slice/map under required is validated recursively also when the rule carries a custom message", 1)
	fn := p.Method("valid", "VStruct", "required")
	if fn == nil {
		c.Unk(rule, "(*valid.VStruct).required", "anchor", token.NoPos, "built-in required not found")
		return
	}
	c.Funcs[fnName(fn)] = true
	hasExist := false
	hit := func(b *ssa.BasicBlock) bool {
		for _, ins := range b.Instrs {
			if call, ok := ins.(ssa.CallInstruction); ok {
				if sc := staticCallee(call.Common()); sc != nil && sc.Name() == "exist" && sc.Signature.Recv() != nil {
					hasExist = true
					return true
				}
				if calleeName(call.Common()) == "(*strings.Builder).WriteString" {
					return true
				}
			}
		}
		return false
	}
	leak := mustPass(fn, hit, nil)
	for _, b := range fn.Blocks {
		hit(b)
	}
	c.Sites++
	msg := ""
	if leak != nil {
		msg = "a path of required returns at " + p.Pos(instrPos(leak.Instrs[len(leak.Instrs)-1])) + " without a clause and without descending: a non-empty nested object under e.g. 'required|message' is not validated, all violations inside it are lost"
	} else if !hasExist {
		msg = "required never reaches the nested descent"
	}
	c.Check(msg == "", rule, fnName(fn), "clause-or-descent", fn.Pos(), "clause or descent on every path", msg)
}

// runSepLiteral: rule <prop>-SEPLIT. The clause separator is the variable ErrEndFlag wherever a clause is
// terminated, joined or split; its initial value does not appear as a literal in the code that builds or
// takes apart error text.
func runSepLiteral(c *Ctx, rule string) {
	p := c.P
	c.Rule(rule, "no string literal ending in the initial value of ErrEndFlag is written, concatenated or used as a separator in package valid: the separator is always read from the variable", 1)
	pkg := p.Pkg("valid")
	if pkg == nil {
		c.Unk(rule, "valid", "anchor", token.NoPos, "package valid not loaded")
		return
	}
	sep := ""
	for _, m := range pkg.Members {
		g, ok := m.(*ssa.Global)
		if !ok || g.Name() != "ErrEndFlag" {
			continue
		}
		if ini := pkg.Func("init"); ini != nil {
			for _, b := range ini.Blocks {
				for _, ins := range b.Instrs {
					if st, ok := ins.(*ssa.Store); ok && st.Addr == ssa.Value(g) {
						sep, _ = constString(st.Val)
					}
				}
			}
		}
	}
	if sep == "" {
		c.Unk(rule, "valid.ErrEndFlag", "anchor", token.NoPos, "initial value of the separator variable not found")
		return
	}
	var bad []string
	n := 0
	for _, fn := range p.Funcs {
		if fn.Pkg != pkg || (fn.Name() == "init" && fn.Parent() == nil) {
			continue
		}
		for _, b := range fn.Blocks {
			for _, ins := range b.Instrs {
				var ops []*ssa.Value
				switch x := ins.(type) {
				case *ssa.BinOp:
					if x.Op != token.ADD {
						continue
					}
					ops = x.Operands(ops)
				case ssa.CallInstruction:
					nm := calleeName(x.Common())
					if !strings.HasPrefix(nm, "strings.") && !strings.HasPrefix(nm, "(*strings.Builder).") {
						continue
					}
					ops = ins.Operands(ops)
				default:
					continue
				}
				for _, op := range ops {
					if op == nil || *op == nil {
						continue
					}
					if s, ok := constString(*op); ok && s != "" {
						n++
						if strings.HasSuffix(s, sep) {
							bad = append(bad, fmt.Sprintf("%s: the literal %q carries the default separator: after the user changes ErrEndFlag this clause/extract still uses %q (two clauses fuse, or a dangling separator stays)", p.Pos(instrPos(ins)), s, sep))
						}
					}
				}
			}
		}
	}
	c.Sites++
	c.Check(len(bad) == 0 && n > 0, rule, "valid", "no-literal-separator", token.NoPos, fmt.Sprintf("%d string literals in text-building calls, none ends in the default separator %q", n, sep), uniqJoin(bad, 3))
}
