package engine

import (
	"fmt"
	"go/constant"
	"go/token"
	"go/types"
	"strings"

	"golang.org/x/tools/go/ssa"
)

// C15-QUOTED: a rule whose argument is a quoted text that may itself contain the message
// delimiter '|' (re='a|b'|message) has to cut the quoted span out of the rule text before it
// asks ParseValidNameKV for the custom message; otherwise the first '|' inside the pattern is
// taken for the delimiter and part of the pattern is shown as the message.
// For every rule function that locates a quote in its own rule text:
//
//	every ParseValidNameKV call whose message result is used takes  text[:q] + text[e:]
//	with q the index of the opening quote and e derived from the scan cursor that found the
//	closing quote — never the unmodified rule text.
func runC15Quoted(c *Ctx) {
	p := c.P
	c.Rule("C15-QUOTED", "a rule function that scans a quoted argument in its rule text parses the custom message from the text with the quoted span removed (text[:openQuote] + text[afterClose:])", 1)
	reg, _, err := registryTable(p)
	if err != nil {
		c.Unk("C15-QUOTED", "-", "anchor", token.NoPos, "rule table unresolved: "+err.Error())
		return
	}
	n := 0
	for _, e := range reg {
		fn := e.Fn
		if fn == nil || len(fn.Params) < 2 {
			continue
		}
		text := fn.Params[1] // validName
		var open *ssa.Call
		for _, b := range fn.Blocks {
			for _, ins := range b.Instrs {
				call, ok := ins.(*ssa.Call)
				if !ok {
					continue
				}
				nm := calleeName(&call.Call)
				if (nm == "strings.Index" || nm == "strings.IndexByte") && call.Call.Args[0] == text {
					if s, ok := constString(call.Call.Args[1]); ok && s == "'" {
						open = call
					}
					if k, ok := constInt(call.Call.Args[1]); ok && k == '\'' {
						open = call
					}
				}
			}
		}
		if open == nil {
			continue
		}
		n++
		c.Funcs[fnName(fn)] = true
		headers := map[*ssa.BasicBlock]bool{}
		for _, l := range naturalLoops(fn) {
			headers[l.Header] = true
		}
		dependsOnCursor := func(v ssa.Value) bool {
			seen := map[ssa.Value]bool{}
			var walk func(v ssa.Value, d int) bool
			walk = func(v ssa.Value, d int) bool {
				if v == nil || seen[v] || d > 8 {
					return false
				}
				seen[v] = true
				switch x := v.(type) {
				case *ssa.Phi:
					if headers[x.Block()] {
						return true
					}
					for _, e := range x.Edges {
						if walk(e, d+1) {
							return true
						}
					}
				case *ssa.BinOp:
					return walk(x.X, d+1) || walk(x.Y, d+1)
				}
				return false
			}
			return walk(v, 0)
		}
		nParse := 0
		var bad []string
		for _, b := range fn.Blocks {
			for _, ins := range b.Instrs {
				call, ok := ins.(*ssa.Call)
				if !ok || calleeName(&call.Call) != "valid.ParseValidNameKV" {
					continue
				}
				// is the message result used?
				msgUsed := false
				for _, r := range refs(call) {
					if ex, ok := r.(*ssa.Extract); ok && ex.Index == 2 && len(refs(ex)) > 0 {
						msgUsed = true
					}
				}
				if !msgUsed {
					continue
				}
				nParse++
				c.Sites++
				arg := call.Call.Args[0]
				if arg == text {
					bad = append(bad, "the custom message is parsed from the whole rule text at "+p.Pos(call.Pos())+": a '|' inside the quoted argument is taken for the message delimiter")
					continue
				}
				cat, isCat := arg.(*ssa.BinOp)
				if !isCat || cat.Op != token.ADD {
					bad = append(bad, "the text the message is parsed from is not rule-text[:open] + rule-text[afterClose:] at "+p.Pos(call.Pos()))
					continue
				}
				pre, ok1 := cat.X.(*ssa.Slice)
				suf, ok2 := cat.Y.(*ssa.Slice)
				switch {
				case !ok1 || !ok2 || pre.X != text || suf.X != text:
					bad = append(bad, "the message is parsed from text that is not cut out of the rule text at "+p.Pos(call.Pos()))
				case pre.Low != nil || pre.High != open:
					bad = append(bad, "the part kept before the quoted argument does not end at the opening quote")
				case suf.High != nil || suf.Low == nil || !dependsOnCursor(suf.Low):
					bad = append(bad, "the part kept after the quoted argument does not start from where the scan found the closing quote")
				}
			}
		}
		if nParse == 0 {
			bad = append(bad, "the rule never parses a custom message")
		}
		c.Check(len(bad) == 0, "C15-QUOTED", e.Name, "message-source", fn.Pos(), fmt.Sprintf("%d message parse(s) on the rule text with the quoted span removed", nParse), uniqJoin(bad, 3))
	}
	if n == 0 {
		c.Unk("C15-QUOTED", "-", "rules", token.NoPos, "no rule function scans a quoted argument (the `re` rule was expected)")
	}
}

// C15-JOIN (extractor): explanations are joined by the clause separator with none leading or
// trailing: the separator is written before an explanation iff something was already written to
// the OUTPUT (a test on the output buffer's own length, or a flag set exactly where output is
// written) — not iff the clause is not the first input clause, because clauses without an
// explanation are skipped. And each explanation starts right after the label that was found:
// clause[Index(clause, L)+len(L):] with the same label L.
func runC15Join(c *Ctx) {
	p := c.P
	c.Rule("C15-JOIN", "extractor: separator written iff the output buffer is non-empty (not by clause position); explanation = clause[Index(clause,L)+len(L):] for the same label L", 2)
	fn := p.Func("valid", "GetOnlyExplainErr")
	if fn == nil {
		c.Unk("C15-JOIN", "valid.GetOnlyExplainErr", "anchor", token.NoPos, "extractor not found")
		return
	}
	c.Funcs[fnName(fn)] = true
	endFlag := p.Global("valid", "ErrEndFlag")
	isEndFlag := func(v ssa.Value) bool {
		if ld, ok := v.(*ssa.UnOp); ok && ld.X == endFlag {
			return true
		}
		if s, ok := constString(v); ok && s == "; " {
			return true
		}
		return false
	}
	// ---- separator guard
	{
		var bad []string
		nSep := 0
		for _, b := range fn.Blocks {
			for _, ins := range b.Instrs {
				call, ok := ins.(*ssa.Call)
				if !ok || calleeName(&call.Call) != "(*strings.Builder).WriteString" || !isEndFlag(call.Call.Args[1]) {
					continue
				}
				nSep++
				c.Sites++
				buf := call.Call.Args[0]
				// controlling condition: the single-predecessor edge into this block
				if len(b.Preds) != 1 {
					bad = append(bad, "the separator write is not guarded")
					continue
				}
				iff, ok := b.Preds[0].Instrs[len(b.Preds[0].Instrs)-1].(*ssa.If)
				if !ok {
					bad = append(bad, "the separator is written unconditionally (a leading separator for the first explanation)")
					continue
				}
				onTrue := b.Preds[0].Succs[0] == b
				okGuard := false
				if bo, ok := iff.Cond.(*ssa.BinOp); ok {
					if ln, ok := bo.X.(*ssa.Call); ok && calleeName(&ln.Call) == "(*strings.Builder).Len" && sameSSAValue(ln.Call.Args[0], buf) {
						k, isK := constInt(bo.Y)
						switch {
						case isK && k == 0 && (bo.Op == token.GTR || bo.Op == token.NEQ) && onTrue:
							okGuard = true
						case isK && k == 1 && bo.Op == token.GEQ && onTrue:
							okGuard = true
						case isK && k == 0 && (bo.Op == token.EQL || bo.Op == token.LEQ) && !onTrue:
							okGuard = true
						}
					} else {
						// index-based guard?
						for _, side := range []ssa.Value{bo.X, bo.Y} {
							if ph, ok := side.(*ssa.Phi); ok && strings.Contains(ph.Comment, "rangeindex") {
								bad = append(bad, "the separator is written according to the clause's position in the input, not to whether anything was output: when the first clause has no explanation the result starts with a separator")
							}
							if bo2, ok := side.(*ssa.BinOp); ok {
								if ph, ok := bo2.X.(*ssa.Phi); ok && strings.Contains(ph.Comment, "rangeindex") {
									bad = append(bad, "the separator is written according to the clause's position in the input, not to whether anything was output: when the first clause has no explanation the result starts with a separator")
								}
							}
						}
					}
				}
				if ph, ok := iff.Cond.(*ssa.Phi); ok && len(bad) == 0 {
					// flag idiom: loop-carried bool, false at entry, true after each output write
					okGuard = true
					for _, e := range ph.Edges {
						if e == ph {
							continue
						}
						if cst, ok := e.(*ssa.Const); !ok || cst.Value == nil {
							okGuard = false
						}
					}
					_ = onTrue
				}
				if !okGuard && len(bad) == 0 {
					bad = append(bad, "the separator's guard is not a test of the output buffer's length at "+p.Pos(iff.Pos()))
				}
			}
		}
		if nSep == 0 {
			bad = append(bad, "the extractor never writes the clause separator between explanations")
		}
		c.Check(len(bad) == 0, "C15-JOIN", fnName(fn), "separator", fn.Pos(), fmt.Sprintf("%d separator write(s) guarded by the output length", nSep), uniqJoin(bad, 2))
	}
	// ---- label offsets
	{
		var bad []string
		nSl := 0
		for _, b := range fn.Blocks {
			for _, ins := range b.Instrs {
				sl, ok := ins.(*ssa.Slice)
				if !ok || sl.Low == nil || sl.High != nil {
					continue
				}
				if _, isStr := sl.X.Type().Underlying().(interface{ Kind() interface{} }); isStr {
				}
				lo, ok := sl.Low.(*ssa.BinOp)
				if !ok || lo.Op != token.ADD {
					continue
				}
				// label position and label width chosen together by an earlier branch
				// (start, width := Index(clause, Zh), len(Zh); if start == -1 { start, width = Index(clause, En), len(En) })
				if px, okx := lo.X.(*ssa.Phi); okx {
					if py, oky := lo.Y.(*ssa.Phi); oky && px.Block() == py.Block() && len(px.Edges) == len(py.Edges) {
						for k := range px.Edges {
							nSl++
							c.Sites++
							var idxc *ssa.Call
							var w int64 = -1
							for _, e := range []ssa.Value{px.Edges[k], py.Edges[k]} {
								if call, ok := e.(*ssa.Call); ok && calleeName(&call.Call) == "strings.Index" {
									idxc = call
								}
								if kk, ok := constInt(e); ok {
									w = kk
								}
							}
							if idxc == nil || w < 0 {
								bad = append(bad, "explanation does not start at Index(clause,label)+len(label) at "+p.Pos(sl.Pos()))
								continue
							}
							lbl, isC := constString(idxc.Call.Args[1])
							if idxc.Call.Args[0] != sl.X {
								bad = append(bad, "the label is searched in a different text than the one cut at "+p.Pos(sl.Pos()))
							} else if !isC || int64(len(lbl)) != w {
								bad = append(bad, fmt.Sprintf("the offset skipped after the label (%d bytes) is not the length of the label that was found (%q) at %s", w, lbl, p.Pos(sl.Pos())))
							}
						}
						continue
					}
				}
				nSl++
				c.Sites++
				var idx, ln *ssa.Call
				var off int64 = -1
				for _, side := range []ssa.Value{lo.X, lo.Y} {
					if call, ok := side.(*ssa.Call); ok {
						switch calleeName(&call.Call) {
						case "strings.Index":
							idx = call
						case "builtin.len":
							ln = call
						}
					}
					if k, ok := constInt(side); ok {
						off = k
					}
				}
				// what is searched is the label ITSELF (the exported ExplainZh / ExplainEn, or a constant): a
				// longer needle — the label behind a fixed prefix such as `", ` — recognises the label only in
				// clauses of one layout; the group clauses (`"a", "b" explain: …`) and clauses written by custom
				// functions are then dropped from the extract
				if idx != nil {
					needle := idx.Call.Args[1]
					okNeedle := true
					var hasLabel func(v ssa.Value, d int) bool
					hasLabel = func(v ssa.Value, d int) bool {
						if d > 5 {
							return false
						}
						switch x := v.(type) {
						case *ssa.UnOp:
							if g, ok := x.X.(*ssa.Global); ok && x.Op == token.MUL && strings.HasPrefix(g.Name(), "Explain") {
								return true
							}
						case *ssa.BinOp:
							return x.Op == token.ADD && (hasLabel(x.X, d+1) || hasLabel(x.Y, d+1))
						case *ssa.Phi:
							for _, e := range x.Edges {
								if hasLabel(e, d+1) {
									return true
								}
							}
						}
						return false
					}
					if bo, ok := needle.(*ssa.BinOp); ok && bo.Op == token.ADD && hasLabel(bo, 0) {
						okNeedle = false
					}
					// the labels are constants of the package: a folded needle that contains a label but is longer
					if val, ok := staticString(p, needle, 0); ok {
						if tp := p.TPkg("valid"); tp != nil {
							for _, ln := range []string{"ExplainZh", "ExplainEn"} {
								if cobj, ok := tp.Types.Scope().Lookup(ln).(*types.Const); ok {
									lbl := constant.StringVal(cobj.Val())
									if lbl != "" && strings.Contains(val, lbl) && val != lbl {
										okNeedle = false
									}
								}
							}
						}
					}
					if !okNeedle {
						bad = append(bad, "the text searched for at "+p.Pos(idx.Pos())+" is not the explanation label itself but something built around it: clauses whose label does not follow that exact prefix (group clauses, custom functions' clauses) are silently left out of the extract")
					}
				}
				switch {
				case idx == nil || (ln == nil && off < 0):
					bad = append(bad, "explanation does not start at Index(clause,label)+len(label) at "+p.Pos(sl.Pos()))
				case idx.Call.Args[0] != sl.X:
					bad = append(bad, "the label is searched in a different text than the one cut at "+p.Pos(sl.Pos()))
				case ln != nil:
					l1, okA := idx.Call.Args[1].(*ssa.UnOp)
					l2, okB := ln.Call.Args[0].(*ssa.UnOp)
					sameLabel := okA && okB && l1.X == l2.X
					if idx.Call.Args[1] == ln.Call.Args[0] {
						sameLabel = true
					}
					if s1, ok1 := constString(idx.Call.Args[1]); ok1 {
						if s2, ok2 := constString(ln.Call.Args[0]); ok2 && s1 == s2 {
							sameLabel = true
						}
					}
					if !sameLabel {
						bad = append(bad, "the offset skipped after the label is the length of a different label than the one found at "+p.Pos(sl.Pos()))
					}
				default:
					lbl, isC := constString(idx.Call.Args[1])
					if !isC || int64(len(lbl)) != off {
						bad = append(bad, fmt.Sprintf("the offset skipped after the label (%d bytes) is not the length of the label that was found (%q) at %s", off, lbl, p.Pos(sl.Pos())))
					}
				}
			}
		}
		if nSl < 2 {
			bad = append(bad, fmt.Sprintf("expected an explanation cut for the Chinese and for the English label, found %d", nSl))
		}
		c.Check(len(bad) == 0, "C15-JOIN", fnName(fn), "after-label", fn.Pos(), fmt.Sprintf("%d cuts at Index(clause,L)+len(L)", nSl), uniqJoin(bad, 2))
	}
}

// sameSSAValue: the same SSA value, or two loads of one local variable cell that is assigned
// exactly once (a local captured by a closure is lowered to such a cell).
func sameSSAValue(a, b ssa.Value) bool {
	if a == b {
		return true
	}
	la, ok1 := a.(*ssa.UnOp)
	lb, ok2 := b.(*ssa.UnOp)
	if !ok1 || !ok2 || la.Op != token.MUL || lb.Op != token.MUL {
		return false
	}
	if la.X != lb.X {
		return sameFieldOfLocal(la, lb)
	}
	al, ok := la.X.(*ssa.Alloc)
	if !ok {
		return sameFieldOfLocal(la, lb)
	}
	stores := 0
	for _, r := range refs(al) {
		if st, ok := r.(*ssa.Store); ok && st.Addr == al {
			stores++
		}
	}
	return stores == 1
}

// sameFieldOfLocal: two loads of the same field of one function-local struct (a small struct kept
// in a local instead of two parallel variables) between which the field is not written: every store
// to that field (and every whole-struct store to the local) comes before both loads on every path.
func sameFieldOfLocal(la, lb *ssa.UnOp) bool {
	fa, ok1 := la.X.(*ssa.FieldAddr)
	fb, ok2 := lb.X.(*ssa.FieldAddr)
	if !ok1 || !ok2 || fa.X != fb.X || fa.Field != fb.Field {
		return false
	}
	al, ok := fa.X.(*ssa.Alloc)
	if !ok {
		return false
	}
	// the local does not escape: only field addresses (loaded from / stored to), whole loads and
	// whole stores
	var writes []ssa.Instruction
	for _, r := range refs(al) {
		switch x := r.(type) {
		case *ssa.Store:
			if x.Addr != ssa.Value(al) {
				return false
			}
			writes = append(writes, x)
		case *ssa.FieldAddr:
			for _, rr := range refs(x) {
				switch y := rr.(type) {
				case *ssa.Store:
					if y.Addr != ssa.Value(x) {
						return false
					}
					if x.Field == fa.Field {
						writes = append(writes, y)
					}
				case *ssa.UnOp:
					if y.Op != token.MUL {
						return false
					}
				default:
					return false
				}
			}
		case *ssa.UnOp:
			if x.Op != token.MUL {
				return false
			}
		default:
			return false
		}
	}
	// (A) both loads in one block with no write of the field between them
	if la.Block() == lb.Block() {
		i, j := indexIn(la), indexIn(lb)
		if i > j {
			i, j = j, i
		}
		clean := true
		for _, w := range writes {
			if w.Block() == la.Block() && indexIn(w) > i && indexIn(w) < j {
				clean = false
			}
		}
		if clean {
			return true
		}
	}
	// (B) every write comes before both loads on every path
	before := func(st ssa.Instruction, ld *ssa.UnOp) bool {
		if st.Block() == ld.Block() {
			return indexIn(st) < indexIn(ld)
		}
		return st.Block().Dominates(ld.Block())
	}
	for _, w := range writes {
		if !before(w, la) || !before(w, lb) {
			return false
		}
	}
	return true
}
