package engine

import (
	"fmt"
)

// DebugTraces prints the trace partitions of one registry function.
var filterKind = -1

func DebugTracesKind(repo, rule, kind string) {
	filterKind = kindOfName(kind)
	DebugTraces(repo, rule)
}

func DebugTraces(repo, rule string) {
	p, err := Load(Config{Repo: repo})
	if err != nil {
		fmt.Println("load:", err)
		return
	}
	reg, _, err := registryTable(p)
	if err != nil {
		fmt.Println(err)
		return
	}
	for _, e := range reg {
		if e.Name != rule || e.Fn == nil {
			continue
		}
		re := &RuleEnv{In: NewInterp(p), Kinds: anyValidKind()}
		re.installCommonModels()
		sizeDomain(re)
		re.In.NoInline["valid/internal.UnsafeStr2Bytes"] = true
		if rule == "datetime" {
			re.In.WidenAfter = 5
		}
		trs := re.In.Explore(e.Fn, ruleArgs(e.Fn), 5000)
		fmt.Printf("%s: %d traces\n", rule, len(trs))
		for i, t := range trs {
			if t.Converged {
				continue
			}
			if k, ok := kindFromTrace(t, re.Kinds, "tv"); ok && filterKind >= 0 && k != filterKind {
				continue
			}
			fmt.Printf("#%d cut=%q panic=%q pc=[%s]\n", i, t.Cut, t.Panic, t.Describe())
			for _, w := range writesOf(t, "errBuf") {
				fmt.Printf("    write %s %s\n", w.Class, keyOf(w.Raw))
			}
		}
	}
}

// DebugWalkPC prints decision orders of the first n traces of a walker-mode run.
func DebugWalkPC(repo, name string, n int) {
	p, err := Load(Config{Repo: repo})
	if err != nil {
		fmt.Println(err)
		return
	}
	fn := p.funcByName(name)
	if fn == nil {
		return
	}
	r := exploreWalk(p, fn, nil, summarisedNames(p), n)
	for i, t := range r.Traces {
		fmt.Printf("#%d conv=%v cut=%q panic=%q order=%v\n", i, t.Converged, t.Cut, t.Panic, t.Order)
	}
}

func DebugCtx(repo string) {
	p, err := Load(Config{Repo: repo})
	if err != nil {
		fmt.Println(err)
		return
	}
	wl := runWalkLayers(p)
	for _, r := range wl.Runs {
		fmt.Printf("%s traces=%d init=", fnName(r.Fn), len(r.Traces))
		for k, v := range r.Env.Init {
			fmt.Printf("%s:{%s} ", k, kmaskNames(v))
		}
		for k, v := range r.Env.Suffix {
			fmt.Printf("*%s:{%s} ", k, kmaskNames(v))
		}
		fmt.Println()
	}
}

func DebugMiss(repo, name string) {
	p, _ := Load(Config{Repo: repo})
	wl := runWalkLayers(p)
	for _, r := range wl.Runs {
		if fnName(r.Fn) != name {
			continue
		}
		for i, ps := range passesOf(r) {
			miss := ""
			for k, v := range ps.PC {
				if len(k) > 26 && k[:26] == "has(valid.validName2FnMap[" && v == 0 {
					miss = k
				}
			}
			if miss == "" {
				continue
			}
			fmt.Printf("pass %d conv=%v events:", i, ps.T.Converged)
			for _, e := range ps.Events {
				v, ok := e.PC[miss]
				fmt.Printf(" %s(%v,%v)", e.Kind, v, ok)
			}
			fmt.Println()
			if len(ps.Events) == 1 {
				for k, v := range ps.PC {
					fmt.Printf("     %s=%d\n", shorten(k, 150), v)
				}
			}
		}
	}
}

func DebugItems(repo string) {
	p, _ := Load(Config{Repo: repo})
	wl := runWalkLayers(p)
	seen := map[string]bool{}
	for _, rc := range ruleCalls(wl) {
		if fnName(rc.we.Run.Fn) != "(*valid.VStruct).validate" {
			continue
		}
		s := rc.item + "\n    obj=" + rc.obj + "\n    fld=" + rc.fld + "\n    val=" + rc.v
		for k, v := range rc.we.E.PC {
			if len(k) < 160 && (k[:3] == "eq(" || k[:3] == "lt(") && !seen[k] {
				s += fmt.Sprintf("\n      %s=%d", k, v)
			}
		}
		if !seen[rc.item] {
			seen[rc.item] = true
			fmt.Println(s)
		}
	}
}
