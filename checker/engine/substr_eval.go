package engine

import (
	"fmt"
	"go/constant"
	"go/token"
	"go/types"
	"sort"
	"strings"

	"golang.org/x/tools/go/ssa"
)

// Segmented-string abstract evaluation.
//
// A function that only cuts a text at delimiter characters (strings.Index / SplitN / slicing /
// length comparisons) behaves the same on every text of the same *skeleton*: a sequence of literal
// delimiter characters and opaque, non-empty segments of which only "cannot contain these
// characters" is known. Positions are boundaries between items; integers are linear forms over the
// segments' unknown lengths (each >= 1), so every index computation and comparison the function
// makes is either decided for the whole class of texts or the evaluation reports "not decided"
// (fail closed). Walking all paths of the function over a finite family of skeletons that covers
// every text gives the function's complete input/output table, whatever the style it is written
// in. Nothing is executed; no solver is involved.

type pItem struct {
	lit  byte   // != 0: a literal character
	name string // opaque segment (length >= 1)
	excl string // characters the segment cannot contain
}

type pPart struct {
	kind int // 0 substring of the input [a,b) in boundaries, 1 literal text, 2 package-level string variable
	a, b int
	s    string
}

type pVal interface{}

type pStr struct{ parts []pPart }
type pInt struct {
	coef map[int]int64 // item index -> coefficient of its length
	c    int64
}
type pBool bool
type pList struct {
	elems []pStr
	isNil bool
}
type pRe struct{ name string }
type pUnk struct {
	why string
	env bool // unknown because it comes from outside the text (a call that is not modelled), not because the text class leaves it open
}
type pTuple []pVal
type pByte struct {
	known bool
	lit   byte
	excl  string
}
type pElemPtr struct {
	list pList
	idx  int
}
type pCell struct{ id ssa.Value }

type pResult struct {
	probed    bool   // the path ended at the probed call
	probeArg  string // canonical text handed to it
	vals      []pVal
	choices   map[string]bool // canonical text matched against the CJK pattern -> outcome chosen on this path
	unsafe    []string
	undecided string
}

type pEval struct {
	p       *Prog
	fn      *ssa.Function
	items   []pItem
	results []pResult
	// instructions (Slice, Lookup, IndexAddr) evaluated without any "may be out of range"
	touched map[ssa.Instruction]bool
	unsafeI map[ssa.Instruction]bool
	steps   int
	// a search met a segment that may or may not contain the character searched: the case must be
	// split on that (refinement request)
	refine *pRefine
	// optional: model of calls the evaluator does not know (e.g. the rule-item parser's results);
	// probe: a path ends when it calls this function, the text of argument probeIdx is recorded;
	// forkEnv: a branch on a value unknown for reasons outside the text is explored both ways
	model    func(call *ssa.Call) (pVal, bool)
	probe    string
	probeIdx int
	forkEnv  bool
}

type pRefine struct {
	item int
	ch   byte
	last bool
}

// refineItems: the skeletons that together cover `items` with segment r.item split on whether and
// where it contains r.ch first (last). shift = number of items added.
func refineItems(items []pItem, r pRefine) [][]pItem {
	it := items[r.item]
	pure := pItem{name: it.name, excl: it.excl + string(r.ch)}
	var out [][]pItem
	build := func(mid []pItem) []pItem {
		n := append([]pItem{}, items[:r.item]...)
		n = append(n, mid...)
		return append(n, items[r.item+1:]...)
	}
	out = append(out, build([]pItem{pure}))
	for _, h1 := range []bool{false, true} {
		for _, h2 := range []bool{false, true} {
			a := pItem{name: it.name + "a", excl: it.excl}
			b := pItem{name: it.name + "b", excl: it.excl}
			if r.last {
				b.excl += string(r.ch)
			} else {
				a.excl += string(r.ch)
			}
			var mid []pItem
			if h1 {
				mid = append(mid, a)
			}
			mid = append(mid, pItem{lit: r.ch})
			if h2 {
				mid = append(mid, b)
			}
			out = append(out, build(mid))
		}
	}
	return out
}

type pState struct {
	env     map[ssa.Value]pVal
	cells   map[ssa.Value]pVal
	choices map[string]bool
	visits  map[*ssa.BasicBlock]int
	unsafe  []string
}

func (s *pState) clone() *pState {
	n := &pState{env: make(map[ssa.Value]pVal, len(s.env)), cells: make(map[ssa.Value]pVal, len(s.cells)), choices: make(map[string]bool, len(s.choices)), visits: make(map[*ssa.BasicBlock]int, len(s.visits))}
	for k, v := range s.env {
		n.env[k] = v
	}
	for k, v := range s.cells {
		n.cells[k] = v
	}
	for k, v := range s.choices {
		n.choices[k] = v
	}
	for k, v := range s.visits {
		n.visits[k] = v
	}
	n.unsafe = append([]string(nil), s.unsafe...)
	return n
}

func pConstInt(v int64) pInt { return pInt{coef: map[int]int64{}, c: v} }

func (a pInt) add(b pInt, sign int64) pInt {
	r := pInt{coef: map[int]int64{}, c: a.c + sign*b.c}
	for k, v := range a.coef {
		r.coef[k] += v
	}
	for k, v := range b.coef {
		r.coef[k] += sign * v
	}
	for k, v := range r.coef {
		if v == 0 {
			delete(r.coef, k)
		}
	}
	return r
}

func (a pInt) isConst() bool { return len(a.coef) == 0 }

func (a pInt) same(b pInt) bool {
	d := a.add(b, -1)
	return d.isConst() && d.c == 0
}

// range of a linear form when every segment length is >= 1 (hasLo/hasHi false: unbounded)
func (a pInt) bounds() (lo int64, hasLo bool, hi int64, hasHi bool) {
	base := a.c
	hasLo, hasHi = true, true
	for _, v := range a.coef {
		base += v
		if v > 0 {
			hasHi = false
		} else {
			hasLo = false
		}
	}
	return base, hasLo, base, hasHi
}

// decide a OP 0
func (a pInt) decide(op token.Token) (val, known bool) {
	lo, hasLo, hi, hasHi := a.bounds()
	switch op {
	case token.GTR:
		if hasLo && lo > 0 {
			return true, true
		}
		if hasHi && hi <= 0 {
			return false, true
		}
	case token.GEQ:
		if hasLo && lo >= 0 {
			return true, true
		}
		if hasHi && hi < 0 {
			return false, true
		}
	case token.LSS:
		if hasHi && hi < 0 {
			return true, true
		}
		if hasLo && lo >= 0 {
			return false, true
		}
	case token.LEQ:
		if hasHi && hi <= 0 {
			return true, true
		}
		if hasLo && lo > 0 {
			return false, true
		}
	case token.EQL:
		if a.isConst() {
			return a.c == 0, true
		}
		if (hasLo && lo > 0) || (hasHi && hi < 0) {
			return false, true
		}
	case token.NEQ:
		if a.isConst() {
			return a.c != 0, true
		}
		if (hasLo && lo > 0) || (hasHi && hi < 0) {
			return true, true
		}
	}
	return false, false
}

func (e *pEval) prefixLen(k int) pInt {
	r := pConstInt(0)
	for i := 0; i < k; i++ {
		if e.items[i].lit != 0 {
			r.c++
		} else {
			r.coef[i] = 1
		}
	}
	return r
}

func (e *pEval) boundaryOf(abs pInt) (int, bool) {
	for k := 0; k <= len(e.items); k++ {
		if e.prefixLen(k).same(abs) {
			return k, true
		}
	}
	return 0, false
}

func (e *pEval) norm(s pStr) pStr {
	var out []pPart
	for _, p := range s.parts {
		switch p.kind {
		case 0:
			if p.a >= p.b {
				continue
			}
			if n := len(out); n > 0 && out[n-1].kind == 0 && out[n-1].b == p.a {
				out[n-1].b = p.b
				continue
			}
		case 1:
			if p.s == "" {
				continue
			}
			if n := len(out); n > 0 && out[n-1].kind == 1 {
				out[n-1].s += p.s
				continue
			}
		}
		out = append(out, p)
	}
	return pStr{out}
}

func (e *pEval) canon(s pStr) string {
	var sb strings.Builder
	for _, p := range e.norm(s).parts {
		switch p.kind {
		case 0:
			for i := p.a; i < p.b; i++ {
				if e.items[i].lit != 0 {
					fmt.Fprintf(&sb, "'%c'", e.items[i].lit)
				} else {
					fmt.Fprintf(&sb, "<%s>", e.items[i].name)
				}
			}
		case 1:
			for i := 0; i < len(p.s); i++ {
				fmt.Fprintf(&sb, "'%c'", p.s[i])
			}
		case 2:
			fmt.Fprintf(&sb, "{%s}", p.s)
		}
	}
	return sb.String()
}

func (e *pEval) show(v pVal) string {
	switch x := v.(type) {
	case pStr:
		c := e.canon(x)
		if c == "" {
			return `""`
		}
		return c
	case pInt:
		return fmt.Sprint(x)
	case pBool:
		return fmt.Sprint(bool(x))
	case pUnk:
		return "?(" + x.why + ")"
	}
	return fmt.Sprintf("%T", v)
}

func (e *pEval) lenOf(s pStr) (pInt, bool) {
	r := pConstInt(0)
	for _, p := range e.norm(s).parts {
		switch p.kind {
		case 0:
			r = r.add(e.prefixLen(p.b).add(e.prefixLen(p.a), -1), 1)
		case 1:
			r.c += int64(len(p.s))
		default:
			return pInt{}, false
		}
	}
	return r, true
}

// emptiness: 1 empty, 0 non-empty, -1 unknown
func (e *pEval) emptiness(s pStr) int {
	n := e.norm(s)
	if len(n.parts) == 0 {
		return 1
	}
	for _, p := range n.parts {
		if p.kind != 2 {
			return 0
		}
	}
	return -1
}

// indexIn: position (relative to the start of s) of the first/last occurrence of character ch.
func (e *pEval) indexIn(s pStr, ch byte, last bool) pVal {
	n := e.norm(s)
	if len(n.parts) == 0 {
		return pConstInt(-1)
	}
	if len(n.parts) != 1 {
		return pUnk{why: "search in a composed text"}
	}
	p := n.parts[0]
	switch p.kind {
	case 1:
		i := strings.IndexByte(p.s, ch)
		if last {
			i = strings.LastIndexByte(p.s, ch)
		}
		return pConstInt(int64(i))
	case 2:
		return pUnk{why: "search in a package variable"}
	}
	if !last {
		for i := p.a; i < p.b; i++ {
			it := e.items[i]
			if it.lit != 0 {
				if it.lit == ch {
					return e.prefixLen(i).add(e.prefixLen(p.a), -1)
				}
				continue
			}
			if !strings.ContainsRune(it.excl, rune(ch)) {
				if e.refine == nil {
					e.refine = &pRefine{item: i, ch: ch}
				}
				return pUnk{why: fmt.Sprintf("first %q may lie inside segment %s", ch, it.name)}
			}
		}
		return pConstInt(-1)
	}
	for i := p.b - 1; i >= p.a; i-- {
		it := e.items[i]
		if it.lit != 0 {
			if it.lit == ch {
				return e.prefixLen(i).add(e.prefixLen(p.a), -1)
			}
			continue
		}
		if !strings.ContainsRune(it.excl, rune(ch)) {
			if e.refine == nil {
				e.refine = &pRefine{item: i, ch: ch, last: true}
			}
			return pUnk{why: fmt.Sprintf("last %q may lie inside segment %s", ch, it.name)}
		}
	}
	return pConstInt(-1)
}

// sliceOf: s[lo:hi] (nil = absent). reports unsafe when the bounds are not provably ordered and inside s.
func (e *pEval) sliceOf(s pStr, lo, hi *pInt) (pVal, string) {
	n := e.norm(s)
	if len(n.parts) == 0 {
		if (lo == nil || (lo.isConst() && lo.c == 0)) && (hi == nil || (hi.isConst() && hi.c == 0)) {
			return pStr{}, ""
		}
		return pUnk{why: "slice of the empty text"}, "slice bounds may exceed the empty text"
	}
	if len(n.parts) != 1 {
		return pUnk{why: "slice of a composed text"}, ""
	}
	p := n.parts[0]
	switch p.kind {
	case 1:
		l, h := int64(0), int64(len(p.s))
		if lo != nil {
			if !lo.isConst() {
				return pUnk{why: "slice of a literal at a symbolic position"}, ""
			}
			l = lo.c
		}
		if hi != nil {
			if !hi.isConst() {
				return pUnk{why: "slice of a literal at a symbolic position"}, ""
			}
			h = hi.c
		}
		if l < 0 || l > h || h > int64(len(p.s)) {
			return pUnk{why: "bad slice"}, "slice bounds out of range on a literal"
		}
		return pStr{[]pPart{{kind: 1, s: p.s[l:h]}}}, ""
	case 2:
		return pUnk{why: "slice of a package variable"}, ""
	}
	ka, kb := p.a, p.b
	if lo != nil {
		k, ok := e.boundaryOf(e.prefixLen(p.a).add(*lo, 1))
		if !ok {
			// not at a delimiter: can it be proved inside at least?
			return pUnk{why: "cut at a position that is not next to a delimiter"}, "a slice bound is not tied to a delimiter position (may be out of range)"
		}
		ka = k
	}
	if hi != nil {
		k, ok := e.boundaryOf(e.prefixLen(p.a).add(*hi, 1))
		if !ok {
			return pUnk{why: "cut at a position that is not next to a delimiter"}, "a slice bound is not tied to a delimiter position (may be out of range)"
		}
		kb = k
	}
	if ka < p.a || kb > p.b || ka > kb {
		return pUnk{why: "bad slice"}, fmt.Sprintf("slice bounds out of range: [%d:%d] of [%d:%d] (boundaries)", ka, kb, p.a, p.b)
	}
	return e.norm(pStr{[]pPart{{kind: 0, a: ka, b: kb}}}), ""
}

func (e *pEval) splitOf(s pStr, ch byte, n int64) pVal {
	if n == 0 {
		return pList{isNil: true}
	}
	var out []pStr
	cur := e.norm(s)
	for {
		if n > 0 && int64(len(out)) == n-1 {
			out = append(out, cur)
			return pList{elems: out}
		}
		iv := e.indexIn(cur, ch, false)
		idx, ok := iv.(pInt)
		if !ok {
			return iv
		}
		if idx.isConst() && idx.c == -1 {
			out = append(out, cur)
			return pList{elems: out}
		}
		one := idx.add(pConstInt(1), 1)
		head, w1 := e.sliceOf(cur, nil, &idx)
		tail, w2 := e.sliceOf(cur, &one, nil)
		hs, ok1 := head.(pStr)
		ts, ok2 := tail.(pStr)
		if !ok1 || !ok2 || w1 != "" || w2 != "" {
			return pUnk{why: "split not resolved"}
		}
		out = append(out, hs)
		cur = ts
		if len(out) > 16 {
			return pUnk{why: "split too long"}
		}
	}
}

func sepChar(v ssa.Value) (byte, bool) {
	if s, ok := constString(v); ok && len(s) == 1 {
		return s[0], true
	}
	if k, ok := constInt(v); ok && k > 0 && k < 128 {
		return byte(k), true
	}
	return 0, false
}

func (e *pEval) get(st *pState, v ssa.Value) pVal {
	if x, ok := st.env[v]; ok {
		return x
	}
	switch c := v.(type) {
	case *ssa.Const:
		if c.Value == nil {
			if _, ok := c.Type().Underlying().(*types.Slice); ok {
				return pList{isNil: true}
			}
			if b, ok := c.Type().Underlying().(*types.Basic); ok && b.Info()&types.IsString != 0 {
				return pStr{}
			}
			return pUnk{why: "nil"}
		}
		switch c.Value.Kind() {
		case constant.String:
			return e.norm(pStr{[]pPart{{kind: 1, s: constant.StringVal(c.Value)}}})
		case constant.Int:
			i, _ := constant.Int64Val(c.Value)
			return pConstInt(i)
		case constant.Bool:
			return pBool(constant.BoolVal(c.Value))
		}
	case *ssa.Global:
		return pCell{c}
	}
	return pUnk{why: "value " + v.Name() + " not modelled", env: true}
}

// run walks every path from the entry; results are collected in e.results.
func (e *pEval) run() {
	st := &pState{env: map[ssa.Value]pVal{}, cells: map[ssa.Value]pVal{}, choices: map[string]bool{}, visits: map[*ssa.BasicBlock]int{}}
	if len(e.fn.Params) > 0 {
		st.env[e.fn.Params[0]] = e.norm(pStr{[]pPart{{kind: 0, a: 0, b: len(e.items)}}})
	}
	e.exec(e.fn.Blocks[0], 0, nil, st)
}

// runWithParams: like run, but the parameters are given explicitly (missing ones are unknown
// values from outside the text).
func (e *pEval) runWithParams(params map[int]pVal) {
	st := &pState{env: map[ssa.Value]pVal{}, cells: map[ssa.Value]pVal{}, choices: map[string]bool{}, visits: map[*ssa.BasicBlock]int{}}
	for i, prm := range e.fn.Params {
		if v, ok := params[i]; ok {
			st.env[prm] = v
		} else {
			st.env[prm] = pUnk{why: "parameter " + prm.Name(), env: true}
		}
	}
	e.exec(e.fn.Blocks[0], 0, nil, st)
}

func (e *pEval) fail(st *pState, why string) {
	e.results = append(e.results, pResult{undecided: why, unsafe: st.unsafe, choices: st.choices})
}

func (e *pEval) exec(b *ssa.BasicBlock, from int, pred *ssa.BasicBlock, st *pState) {
	if from == 0 {
		st.visits[b]++
		if st.visits[b] > 3 {
			e.fail(st, "a loop is not unrolled by the abstract text")
			return
		}
		// φs first, simultaneously
		if pred != nil {
			vals := map[ssa.Value]pVal{}
			for _, ins := range b.Instrs {
				ph, ok := ins.(*ssa.Phi)
				if !ok {
					break
				}
				for i, pr := range b.Preds {
					if pr == pred {
						vals[ph] = e.get(st, ph.Edges[i])
					}
				}
			}
			for k, v := range vals {
				st.env[k] = v
			}
		}
	}
	for i := from; i < len(b.Instrs); i++ {
		e.steps++
		if e.steps > 200000 {
			e.fail(st, "evaluation budget exhausted")
			return
		}
		ins := b.Instrs[i]
		switch x := ins.(type) {
		case *ssa.Phi:
			continue
		case *ssa.If:
			cv, ok := e.get(st, x.Cond).(pBool)
			if !ok {
				if u, isU := e.get(st, x.Cond).(pUnk); isU && u.env && e.forkEnv {
					e.exec(b.Succs[0], 0, b, st.clone())
					e.exec(b.Succs[1], 0, b, st.clone())
					return
				}
				e.fail(st, "a branch is not decided for this class of texts: "+e.show(e.get(st, x.Cond))+" at "+e.p.Pos(x.Cond.Pos()))
				return
			}
			if cv {
				e.exec(b.Succs[0], 0, b, st)
			} else {
				e.exec(b.Succs[1], 0, b, st)
			}
			return
		case *ssa.Jump:
			e.exec(b.Succs[0], 0, b, st)
			return
		case *ssa.Return:
			var vals []pVal
			for _, r := range x.Results {
				vals = append(vals, e.get(st, r))
			}
			e.results = append(e.results, pResult{vals: vals, choices: st.choices, unsafe: st.unsafe})
			return
		case *ssa.Panic:
			e.results = append(e.results, pResult{unsafe: append(st.unsafe, "explicit panic at "+e.p.Pos(x.Pos())), choices: st.choices})
			return
		case *ssa.Store:
			if cell, ok := e.get(st, x.Addr).(pCell); ok {
				st.cells[cell.id] = e.get(st, x.Val)
			}
			continue
		case *ssa.RunDefers, *ssa.DebugRef:
			continue
		case *ssa.Call:
			// the CJK test forks the path
			if calleeName(&x.Call) == "(*regexp.Regexp).MatchString" {
				if re, ok := e.get(st, x.Call.Args[0]).(pRe); ok {
					arg, isStr := e.get(st, x.Call.Args[1]).(pStr)
					if !isStr {
						st.env[x] = pUnk{why: "pattern applied to an unmodelled text"}
						continue
					}
					key := re.name + ":" + e.canon(arg)
					if v, seen := st.choices[key]; seen {
						st.env[x] = pBool(v)
						continue
					}
					for _, choice := range []bool{true, false} {
						s2 := st.clone()
						s2.choices[key] = choice
						s2.env[x] = pBool(choice)
						e.exec(b, i+1, pred, s2)
					}
					return
				}
			}
			if e.probe != "" && calleeName(&x.Call) == e.probe && e.probeIdx < len(x.Call.Args) {
				r := pResult{probed: true, choices: st.choices, unsafe: st.unsafe}
				if s, ok := e.get(st, x.Call.Args[e.probeIdx]).(pStr); ok {
					r.probeArg = e.canon(s)
				} else {
					r.undecided = "the text handed to " + e.probe + " is not resolved: " + e.show(e.get(st, x.Call.Args[e.probeIdx]))
				}
				e.results = append(e.results, r)
				return
			}
			if e.model != nil {
				if v, ok := e.model(x); ok {
					st.env[x] = v
					continue
				}
			}
			st.env[x] = e.evalCall(st, x)
			continue
		}
		if v, ok := ins.(ssa.Value); ok {
			st.env[v] = e.evalValue(st, v)
		}
	}
}

func (e *pEval) markUnsafe(st *pState, ins ssa.Instruction, why string) {
	st.unsafe = append(st.unsafe, why+" at "+e.p.Pos(ins.Pos()))
	e.unsafeI[ins] = true
}

func (e *pEval) evalCall(st *pState, x *ssa.Call) pVal {
	nm := calleeName(&x.Call)
	arg := func(i int) pVal { return e.get(st, x.Call.Args[i]) }
	switch nm {
	case "builtin.len":
		switch a := arg(0).(type) {
		case pStr:
			if l, ok := e.lenOf(a); ok {
				return l
			}
			return pUnk{why: "length of a package variable"}
		case pList:
			return pConstInt(int64(len(a.elems)))
		}
		return pUnk{why: "len of unmodelled value"}
	case "strings.Index", "strings.IndexByte", "strings.IndexRune", "strings.LastIndex", "strings.LastIndexByte":
		s, ok := arg(0).(pStr)
		ch, okc := sepChar(x.Call.Args[1])
		if !ok || !okc {
			return pUnk{why: nm + " with an unmodelled argument"}
		}
		return e.indexIn(s, ch, strings.Contains(nm, "Last"))
	case "strings.Contains", "strings.ContainsRune":
		s, ok := arg(0).(pStr)
		ch, okc := sepChar(x.Call.Args[1])
		if !ok || !okc {
			return pUnk{why: nm + " with an unmodelled argument"}
		}
		iv, ok := e.indexIn(s, ch, false).(pInt)
		if !ok {
			return pUnk{why: nm + " not decided"}
		}
		return pBool(!(iv.isConst() && iv.c == -1))
	case "strings.SplitN", "strings.Split":
		s, ok := arg(0).(pStr)
		ch, okc := sepChar(x.Call.Args[1])
		if !ok || !okc {
			return pUnk{why: nm + " with an unmodelled argument"}
		}
		n := int64(-1)
		if nm == "strings.SplitN" {
			ni, ok := arg(2).(pInt)
			if !ok || !ni.isConst() {
				return pUnk{why: "SplitN with a symbolic count"}
			}
			n = ni.c
		}
		return e.splitOf(s, ch, n)
	case "strings.Cut":
		s, ok := arg(0).(pStr)
		ch, okc := sepChar(x.Call.Args[1])
		if !ok || !okc {
			return pUnk{why: nm + " with an unmodelled argument"}
		}
		l, isL := e.splitOf(s, ch, 2).(pList)
		if !isL {
			return pUnk{why: "Cut not decided"}
		}
		if len(l.elems) == 2 {
			return pTuple{l.elems[0], l.elems[1], pBool(true)}
		}
		return pTuple{s, pStr{}, pBool(false)}
	case "strings.HasPrefix", "strings.HasSuffix":
		return pUnk{why: nm + " not modelled"}
	}
	return pUnk{why: "call of " + nm + " not modelled", env: true}
}

func (e *pEval) evalValue(st *pState, v ssa.Value) pVal {
	switch x := v.(type) {
	case *ssa.Alloc:
		st.cells[x] = e.zeroOf(x.Type().(*types.Pointer).Elem())
		return pCell{x}
	case *ssa.ChangeType:
		return e.get(st, x.X)
	case *ssa.Convert:
		if bt, ok := x.Type().Underlying().(*types.Basic); ok && bt.Info()&types.IsString != 0 {
			if s, ok := e.get(st, x.X).(pStr); ok {
				return s
			}
		}
		if bt, ok := x.Type().Underlying().(*types.Basic); ok && bt.Info()&types.IsInteger != 0 {
			if n, ok := e.get(st, x.X).(pInt); ok {
				return n
			}
		}
		return pUnk{why: "conversion not modelled"}
	case *ssa.Extract:
		if t, ok := e.get(st, x.Tuple).(pTuple); ok && x.Index < len(t) {
			return t[x.Index]
		}
		if u, ok := e.get(st, x.Tuple).(pUnk); ok && u.env {
			return u
		}
		return pUnk{why: "component of an unmodelled call"}
	case *ssa.UnOp:
		switch x.Op {
		case token.NOT:
			if b, ok := e.get(st, x.X).(pBool); ok {
				return !b
			}
			if u, ok := e.get(st, x.X).(pUnk); ok && u.env {
				return u
			}
			return pUnk{why: "negation of undecided"}
		case token.SUB:
			if n, ok := e.get(st, x.X).(pInt); ok {
				return pConstInt(0).add(n, -1)
			}
		case token.MUL:
			switch a := e.get(st, x.X).(type) {
			case pCell:
				if g, ok := a.id.(*ssa.Global); ok {
					if named := namedOf(g.Type().(*types.Pointer).Elem()); named != nil && named.Obj().Name() == "Regexp" {
						return pRe{g.Name()}
					}
					if bt, ok := g.Type().(*types.Pointer).Elem().Underlying().(*types.Basic); ok && bt.Info()&types.IsString != 0 {
						return pStr{[]pPart{{kind: 2, s: g.Name()}}}
					}
					return pUnk{why: "package variable " + g.Name()}
				}
				if cv, ok := st.cells[a.id]; ok {
					return cv
				}
				return pUnk{why: "cell read before written"}
			case pElemPtr:
				if a.idx < 0 || a.idx >= len(a.list.elems) {
					return pUnk{why: "element out of range"}
				}
				return a.list.elems[a.idx]
			}
			return pUnk{why: "load not modelled"}
		}
	case *ssa.IndexAddr:
		l, ok := e.get(st, x.X).(pList)
		k, okk := e.get(st, x.Index).(pInt)
		e.touched[x] = true
		if !ok || !okk || !k.isConst() {
			e.unsafeI[x] = true
			return pUnk{why: "element address not modelled"}
		}
		if k.c < 0 || int(k.c) >= len(l.elems) {
			e.markUnsafe(st, x, fmt.Sprintf("index %d of a list of %d element(s): out of range", k.c, len(l.elems)))
			return pUnk{why: "element out of range"}
		}
		return pElemPtr{l, int(k.c)}
	case *ssa.Lookup:
		s, ok := e.get(st, x.X).(pStr)
		k, okk := e.get(st, x.Index).(pInt)
		e.touched[x] = true
		if !ok || !okk {
			e.unsafeI[x] = true
			return pUnk{why: "byte read not modelled"}
		}
		one := k.add(pConstInt(1), 1)
		sub, why := e.sliceOf(s, &k, &one)
		ss, isS := sub.(pStr)
		if why != "" || !isS {
			e.markUnsafe(st, x, "byte index may be out of range")
			return pUnk{why: "byte out of range"}
		}
		n := e.norm(ss)
		if len(n.parts) == 1 && n.parts[0].kind == 0 && n.parts[0].b == n.parts[0].a+1 {
			it := e.items[n.parts[0].a]
			if it.lit != 0 {
				return pByte{known: true, lit: it.lit}
			}
			return pUnk{why: "a byte inside segment " + it.name}
		}
		if len(n.parts) == 1 && n.parts[0].kind == 1 && len(n.parts[0].s) == 1 {
			return pByte{known: true, lit: n.parts[0].s[0]}
		}
		return pUnk{why: "byte not resolved"}
	case *ssa.Slice:
		e.touched[x] = true
		s, ok := e.get(st, x.X).(pStr)
		if !ok {
			e.unsafeI[x] = true
			return pUnk{why: "slice of an unmodelled value"}
		}
		var lo, hi *pInt
		if x.Low != nil {
			l, ok := e.get(st, x.Low).(pInt)
			if !ok {
				e.unsafeI[x] = true
				return pUnk{why: "slice at an undecided position"}
			}
			lo = &l
		}
		if x.High != nil {
			h, ok := e.get(st, x.High).(pInt)
			if !ok {
				e.unsafeI[x] = true
				return pUnk{why: "slice at an undecided position"}
			}
			hi = &h
		}
		r, why := e.sliceOf(s, lo, hi)
		if why != "" {
			e.markUnsafe(st, x, why)
		} else if _, isU := r.(pUnk); isU {
			e.unsafeI[x] = true
		}
		return r
	case *ssa.BinOp:
		a, b := e.get(st, x.X), e.get(st, x.Y)
		if ua, ok := a.(pUnk); ok && ua.env {
			return pUnk{why: ua.why, env: true}
		}
		if ub, ok := b.(pUnk); ok && ub.env {
			if _, textUnknown := a.(pUnk); !textUnknown {
				return pUnk{why: ub.why, env: true}
			}
		}
		switch av := a.(type) {
		case pInt:
			bv, ok := b.(pInt)
			if !ok {
				return pUnk{why: "arithmetic with an undecided value"}
			}
			switch x.Op {
			case token.ADD:
				return av.add(bv, 1)
			case token.SUB:
				return av.add(bv, -1)
			case token.EQL, token.NEQ, token.LSS, token.LEQ, token.GTR, token.GEQ:
				if val, known := av.add(bv, -1).decide(x.Op); known {
					return pBool(val)
				}
				return pUnk{why: fmt.Sprintf("comparison %s not decided by the segment lengths", x.Op)}
			}
			return pUnk{why: "integer operation not modelled"}
		case pStr:
			bv, ok := b.(pStr)
			if !ok {
				return pUnk{why: "text operation with an undecided value"}
			}
			switch x.Op {
			case token.ADD:
				return e.norm(pStr{append(append([]pPart{}, av.parts...), bv.parts...)})
			case token.EQL, token.NEQ:
				ca, cb := e.canon(av), e.canon(bv)
				eq, known := false, false
				allLit := func(s pStr) (string, bool) {
					out := ""
					for _, p := range e.norm(s).parts {
						if p.kind != 1 {
							return "", false
						}
						out += p.s
					}
					return out, true
				}
				la, oka := allLit(av)
				lb, okb := allLit(bv)
				switch {
				case oka && okb:
					eq, known = la == lb, true
				case ca == cb:
					eq, known = true, true
				case e.emptiness(av) == 1 && e.emptiness(bv) == 0, e.emptiness(av) == 0 && e.emptiness(bv) == 1:
					eq, known = false, true
				}
				if !known {
					return pUnk{why: "text comparison not decided: " + ca + " vs " + cb}
				}
				return pBool(eq == (x.Op == token.EQL))
			}
			return pUnk{why: "text operation not modelled"}
		case pBool:
			bv, ok := b.(pBool)
			if !ok {
				return pUnk{why: "boolean operation with an undecided value"}
			}
			switch x.Op {
			case token.EQL:
				return pBool(av == bv)
			case token.NEQ:
				return pBool(av != bv)
			case token.AND:
				return pBool(av && bv)
			case token.OR:
				return pBool(av || bv)
			}
		case pByte:
			if k, ok := b.(pInt); ok && k.isConst() && av.known && (x.Op == token.EQL || x.Op == token.NEQ) {
				return pBool((int64(av.lit) == k.c) == (x.Op == token.EQL))
			}
			if bb, ok := b.(pByte); ok && bb.known && av.known && (x.Op == token.EQL || x.Op == token.NEQ) {
				return pBool((av.lit == bb.lit) == (x.Op == token.EQL))
			}
		}
		return pUnk{why: "operation on unmodelled values"}
	}
	return pUnk{why: fmt.Sprintf("%T not modelled", v)}
}

func (e *pEval) zeroOf(t types.Type) pVal {
	switch u := t.Underlying().(type) {
	case *types.Basic:
		switch {
		case u.Info()&types.IsString != 0:
			return pStr{}
		case u.Info()&types.IsInteger != 0:
			return pConstInt(0)
		case u.Info()&types.IsBoolean != 0:
			return pBool(false)
		}
	case *types.Slice:
		return pList{isNil: true}
	}
	return pUnk{why: "zero value not modelled"}
}

func uniqSorted(in []string) []string {
	m := map[string]bool{}
	for _, s := range in {
		m[s] = true
	}
	var out []string
	for s := range m {
		out = append(out, s)
	}
	sort.Strings(out)
	return out
}
