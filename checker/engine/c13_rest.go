package engine

import (
	"fmt"
	"go/token"
	"go/types"
	"strings"

	"golang.org/x/tools/go/ssa"
)

// boundsScope: functions of valid and valid/internal reachable from the validation entry
// points (rule functions included).
func runC13Bounds(c *Ctx) {
	p := c.P
	c.Rule("C13-BOUNDS", "every index/slice expression reachable from a validation entry point is proved in bounds (difference constraints from dominating branches, induction variables, axioms of strings.Index/Split/make)", 30)
	reach, _ := validationReach(p)
	var fns []*ssa.Function
	for _, fn := range p.Funcs {
		if reach[fn] {
			fns = append(fns, fn)
		}
	}
	reportBounds(c, "C13-BOUNDS", fns, validAxioms)
}

func reportBounds(c *Ctx, rule string, fns []*ssa.Function, axioms func(bc *boundsCtx, f *factSet, ins ssa.Instruction)) {
	p := c.P
	for _, fn := range fns {
		sites := checkBounds(p, fn, axioms)
		if len(sites) == 0 {
			continue
		}
		c.Funcs[fnName(fn)] = true
		sortSites(p, sites)
		// ordinal per (what, base description)
		count := map[string]int{}
		for _, s := range sites {
			c.Sites++
			desc := s.What + ":" + baseName(s.Ins)
			count[desc]++
			disc := fmt.Sprintf("%s#%d", desc, count[desc])
			if s.Proved {
				c.OK(rule, fnName(fn), disc, instrPos(s.Ins), "in bounds on every path")
			} else if pv := parserVerdict(p); pv != nil && fn == p.Func("valid", "ParseValidNameKV") && pv.safe[s.Ins] {
				// the difference-constraint prover does not see it, but the parser's complete table does:
				// the expression was evaluated in range on every skeleton of a rule text (C14-PARSE)
				c.OK(rule, fnName(fn), disc, instrPos(s.Ins), "in range for every rule text: evaluated on every text skeleton by the parser's table (C14-PARSE)")
			} else {
				c.Bad(rule, fnName(fn), disc, instrPos(s.Ins), "not proved in bounds: "+s.Why+" — a rule text / input reaching this expression with the unguarded shape panics")
			}
		}
	}
}

func baseName(ins ssa.Instruction) string {
	var base ssa.Value
	switch x := ins.(type) {
	case *ssa.IndexAddr:
		base = x.X
	case *ssa.Index:
		base = x.X
	case *ssa.Slice:
		base = x.X
	}
	return srcName(base, 0)
}

// srcName: a readable, position-free name for a value (parameter / variable comment).
func srcName(v ssa.Value, depth int) string {
	if depth > 4 || v == nil {
		return "expr"
	}
	switch x := v.(type) {
	case *ssa.Parameter:
		return x.Name()
	case *ssa.Phi:
		if x.Comment != "" {
			return x.Comment
		}
	case *ssa.Alloc:
		if x.Comment != "" {
			return x.Comment
		}
	case *ssa.UnOp:
		return srcName(x.X, depth+1)
	case *ssa.FieldAddr:
		return srcName(x.X, depth+1) + "." + fieldAddrName(x)
	case *ssa.IndexAddr:
		return srcName(x.X, depth+1) + "[]"
	case *ssa.Slice:
		return srcName(x.X, depth+1)
	case *ssa.Call:
		n := calleeName(&x.Call)
		if i := strings.LastIndex(n, "."); i >= 0 {
			n = n[i+1:]
		}
		return n + "()"
	case *ssa.Extract:
		return srcName(x.Tuple, depth+1)
	case *ssa.Global:
		return x.Name()
	case *ssa.MakeSlice:
		return "make"
	}
	return "expr"
}

// validAxioms: facts about other programs' output needed in package valid (one reason each).
func validAxioms(bc *boundsCtx, f *factSet, ins ssa.Instruction) {
	// Index(s, a) and LastIndex(s, b) of two different constant bytes cannot coincide.
	var idxCalls []*ssa.Call
	needle := func(call *ssa.Call) (string, bool) {
		if s, ok := constString(call.Call.Args[1]); ok && len(s) == 1 {
			return s, true
		}
		if k, ok := constInt(call.Call.Args[1]); ok && k >= 0 && k < 128 {
			return string(rune(k)), true
		}
		return "", false
	}
	for _, b := range bc.fn.Blocks {
		for _, i := range b.Instrs {
			if call, ok := i.(*ssa.Call); ok {
				switch calleeName(&call.Call) {
				case "strings.Index", "strings.LastIndex", "strings.IndexByte", "strings.LastIndexByte":
					if _, ok := needle(call); ok {
						idxCalls = append(idxCalls, call)
					}
				}
			}
		}
	}
	for i := 0; i < len(idxCalls); i++ {
		for j := i + 1; j < len(idxCalls); j++ {
			a, b := idxCalls[i], idxCalls[j]
			sa, _ := needle(a)
			sb, _ := needle(b)
			if sa != sb && bc.key(a.Call.Args[0]) == bc.key(b.Call.Args[0]) {
				f.nes = append(f.nes, neq{bc.key(a), bc.key(b), 0})
			}
		}
	}
}

func runC13Misc(c *Ctx) {
	p := c.P
	c.Rule("C13-MISC", "unchecked type assertions have a producer proof; indirect rule-function calls are nil-guarded; no panic/fatal/os.Exit/Must* call with non-constant input on a validation path", 3)
	reach, _ := validationReach(p)
	pools := findPools(p)
	nAssert, nFatal := 0, 0
	for _, fn := range p.Funcs {
		if !reach[fn] {
			continue
		}
		for _, b := range fn.Blocks {
			if !reachableBlocks(fn)[b] {
				continue
			}
			for _, ins := range b.Instrs {
				switch x := ins.(type) {
				case *ssa.TypeAssert:
					if x.CommaOk {
						continue
					}
					nAssert++
					c.Sites++
					// producer rules: result of a sync.Pool Get whose New returns that type and every Put puts that type;
					// result of the type cache Load (who-stores, checked by C08-MISS)
					just := ""
					if call, ok := x.X.(*ssa.Call); ok && calleeName(&call.Call) == "(*sync.Pool).Get" {
						g, _ := call.Call.Args[0].(*ssa.Global)
						for _, pi := range pools {
							if pi.G == g {
								okPuts := true
								for _, put := range pi.Puts {
									mi, isMI := put.Call.Args[1].(*ssa.MakeInterface)
									if !isMI || mi.X.Type().String() != x.AssertedType.String() {
										okPuts = false
									}
								}
								if okPuts && poolNewReturns(p, g, x.AssertedType.String()) {
									just = "pool New and every Put produce " + shortType(x.AssertedType.String())
								}
							}
						}
					}
					if ex, ok := x.X.(*ssa.Extract); ok {
						if call, ok := ex.Tuple.(*ssa.Call); ok && call.Call.IsInvoke() && call.Call.Method.Name() == "Load" {
							just = "value loaded from the type cache: every Store stores this type (rule C08-MISS)"
						}
					}
					c.Check(just != "", "C13-MISC", fnName(fn), "assert:"+shortType(x.AssertedType.String()), x.Pos(), just, "unchecked type assertion without a producer proof")
				case ssa.CallInstruction:
					n := calleeName(x.Common())
					fatal := n == "os.Exit" || strings.HasPrefix(n, "log.Fatal") || strings.HasPrefix(n, "log.Panic") || strings.HasPrefix(n, "(*log.Logger).Fatal") || strings.HasPrefix(n, "(*log.Logger).Panic") || n == "regexp.MustCompile" || n == "builtin.panic"
					if fatal {
						nFatal++
						constArgs := true
						for _, a := range x.Common().Args {
							if _, isC := a.(*ssa.Const); !isC {
								constArgs = false
							}
						}
						if n == "regexp.MustCompile" && constArgs {
							continue
						}
						c.Bad("C13-MISC", fnName(fn), "fatal:"+n, instrPos(ins), "call of "+n+" on a validation path")
					}
				case *ssa.Panic:
					c.Bad("C13-MISC", fnName(fn), "panic", x.Pos(), "explicit panic on a validation path")
				}
			}
		}
	}
	c.OK("C13-MISC", "valid", "fatal-calls", token.NoPos, fmt.Sprintf("%d unchecked assertions justified, no fatal call with non-constant input among reachable functions", nAssert))
	// indirect calls nil-guarded: from the walker interpretation
	wl := runWalkLayers(p)
	bad := 0
	n := 0
	for _, we := range walkEvents(wl, "fn-not-nil-checked") {
		_ = we
		bad++
	}
	for range walkEvents(wl, "rulecall") {
		n++
	}
	c.Check(bad == 0 && n > 0, "C13-MISC", "walkers", "fn-nil-guard", token.NoPos, fmt.Sprintf("%d indirect rule calls, each after a nil test of the function value", n), fmt.Sprintf("%d indirect rule calls without a nil test of the function value (built-in rules hold nil in the table)", bad))
	_ = nFatal
}

func poolNewReturns(p *Prog, g *ssa.Global, typ string) bool {
	// the composite literal sync.Pool{New: func() interface{} { return new(T) }} in package init
	sp := g.Pkg
	initFn := sp.Func("init")
	if initFn == nil {
		return false
	}
	for _, b := range initFn.Blocks {
		for _, ins := range b.Instrs {
			st, ok := ins.(*ssa.Store)
			if !ok {
				continue
			}
			fa, ok := st.Addr.(*ssa.FieldAddr)
			if !ok || fa.X != g {
				continue
			}
			var f *ssa.Function
			switch v := st.Val.(type) {
			case *ssa.Function:
				f = v
			case *ssa.MakeClosure:
				f = v.Fn.(*ssa.Function)
			}
			if f == nil {
				continue
			}
			for _, fb := range f.Blocks {
				if ret, ok := fb.Instrs[len(fb.Instrs)-1].(*ssa.Return); ok && len(ret.Results) == 1 {
					if mi, ok := ret.Results[0].(*ssa.MakeInterface); ok && mi.X.Type().String() == typ {
						return true
					}
				}
			}
		}
	}
	return false
}

// runC13IfaceCompare: `a == b` on two interface values panics at run time when their common
// dynamic type is not comparable (slices, maps, functions, structs containing them). Values
// that come out of reflect.Value.Interface() have arbitrary dynamic types, so a comparison of
// two interface operands on a validation path is a panic source unless one side is the nil
// constant or the static type guarantees a comparable dynamic type (reflect.Type, error values
// compared with sentinels are not used here).
func runC13IfaceCompare(c *Ctx) {
	p := c.P
	c.Rule("C13-IFACECMP", "no == / != between two interface values of arbitrary dynamic type on a validation path (use reflect.DeepEqual): uncomparable dynamic types panic", 0)
	reach, _ := validationReach(p)
	n := 0
	var bad []string
	for _, fn := range p.Funcs {
		if !reach[fn] {
			continue
		}
		for _, b := range fn.Blocks {
			for _, ins := range b.Instrs {
				bo, ok := ins.(*ssa.BinOp)
				if !ok || (bo.Op != token.EQL && bo.Op != token.NEQ) {
					continue
				}
				tx, ix := bo.X.Type().Underlying().(*types.Interface)
				ty, iy := bo.Y.Type().Underlying().(*types.Interface)
				if !ix || !iy {
					continue
				}
				// "arbitrary dynamic type" means a method-less interface (interface{} out of reflect.Value.Interface(),
				// a map key, ...). Two values of a method-bearing interface — `err == errSentinel` — hold the
				// pointer-shaped implementations of that interface; comparing them is the sentinel idiom
				if tx.NumMethods() > 0 && ty.NumMethods() > 0 {
					continue
				}
				if isNilConst(bo.X) || isNilConst(bo.Y) {
					continue
				}
				if isNamed(bo.X.Type(), "reflect", "Type") || isNamed(bo.Y.Type(), "reflect", "Type") {
					continue // dynamic type is always a pointer
				}
				n++
				c.Sites++
				// map keys found by ranging over the same map are comparable by construction; everything
				// else (notably reflect.Value.Interface()) is arbitrary
				bad = append(bad, fmt.Sprintf("%s compares two interface values with %s at %s: if their dynamic type is a slice, a map or a function the comparison panics", fnName(fn), bo.Op, p.Pos(bo.Pos())))
			}
		}
	}
	c.Check(len(bad) == 0, "C13-IFACECMP", "valid", "interface-equality", token.NoPos, fmt.Sprintf("%d interface comparisons on validation paths, none between arbitrary values", n), uniqJoin(bad, 3))
}
