package engine

func runC13Bounds(c *Ctx) {}
func runC13Misc(c *Ctx)   {}
