package engine

import "strings"

// importRules runs another property's rule set on the same program and records the selected
// obligations under this property, as rule `as`. Used where one mechanism is a necessary
// condition of several properties (e.g. "cached per-type information is never written" is
// needed for transparency of the cache, for independence of calls, for the scope of per-call
// rule overrides and for every verdict being judged by the declared rules).
// keep selects by the foreign rule id (e.g. "C08-COPY"); nil keeps everything.
func importRules(c *Ctx, foreignProp string, run func(*Ctx), as, text string, min int, keep func(rule string) bool) {
	sub := NewCtx(foreignProp, c.P, c.Tier)
	run(sub)
	sub.Finalize() // vacuity guards of the imported rules count as well
	c.Rule(as, text, min)
	for _, o := range sub.Obls {
		if keep != nil && !keep(o.Rule) {
			continue
		}
		parts := strings.SplitN(o.Key, "/", 3)
		rest := o.Key
		if len(parts) == 3 {
			rest = parts[1] + "/" + parts[2]
		}
		c.Obls = append(c.Obls, Obligation{Key: c.Prop + "/" + as + "/" + rest, Rule: as, Where: o.Where, Status: o.Status, Detail: o.Detail})
	}
	for f := range sub.Funcs {
		c.Funcs[f] = true
	}
	c.Sites += sub.Sites
}

// importSome: like importRules, but keeps single obligations (selected by their key).
func importSome(c *Ctx, foreignProp string, run func(*Ctx), as, text string, min int, keepKey func(key string) bool) {
	sub := NewCtx(foreignProp, c.P, c.Tier)
	run(sub)
	c.Rule(as, text, min)
	for _, o := range sub.Obls {
		if !keepKey(o.Key) {
			continue
		}
		parts := strings.SplitN(o.Key, "/", 3)
		rest := o.Key
		if len(parts) == 3 {
			rest = parts[1] + "/" + parts[2]
		}
		c.Obls = append(c.Obls, Obligation{Key: c.Prop + "/" + as + "/" + rest, Rule: as, Where: o.Where, Status: o.Status, Detail: o.Detail})
	}
	for f := range sub.Funcs {
		c.Funcs[f] = true
	}
	c.Sites += sub.Sites
}

func ruleIn(ids ...string) func(string) bool {
	return func(r string) bool {
		for _, id := range ids {
			if r == id {
				return true
			}
		}
		return false
	}
}

// runCopyOnly: rule C08-COPY alone (no store through memory reached from a cached per-type value).
func runCopyOnly(c *Ctx) {
	c.Rule("C08-COPY", "no store through memory reachable from a value loaded out of the cache", 1)
	g := c.P.Global("valid", "cacheStructType")
	if g == nil {
		c.Unk("C08-COPY", "-", "anchor", 0, "global type cache not found")
		return
	}
	runC08Copy(c, fnNameGlobal(g))
}

// sharedDeclaredRules: the walkers judge every call by the rules declared for that call. The
// per-type rule information is shared by all calls through the type cache, so writing a
// per-call override (or anything else) into it changes which rules later calls evaluate.
func sharedDeclaredRules(c *Ctx) {
	importRules(c, "C08", runC08, c.Prop+"-DECLARED", "each call is judged by the rules declared for it under the tag name it asked for: the per-type rule information shared through the type cache is never written by a walker (per-call overrides go to a local copy) and is keyed by the struct type AND the requested tag name — rules C08-COPY, C08-KEY", 2, ruleIn("C08-COPY", "C08-KEY"))
}
