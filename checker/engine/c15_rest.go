package engine

func runC15Label(c *Ctx)   {}
func runC15Extract(c *Ctx) {}
