package engine

import (
	"fmt"
	"go/token"
	"strings"

	"golang.org/x/tools/go/ssa"
)

// runC15Label: label selection in the rule-text parser and in the clause constructor.
func runC15Label(c *Ctx) {
	p := c.P
	c.Rule("C15-LABEL", "the parser prefixes the message with the Chinese label iff the CJK pattern matches it, else with the English label, separated by one space (both branches); the CJK pattern's language is [\\x{4e00}-\\x{9fa5}]; the clause constructor adds the English label only when its first extra argument carries no label", 3)
	fn := p.Func("valid", "ParseValidNameKV")
	if fn == nil {
		c.Unk("C15-LABEL", "valid.ParseValidNameKV", "anchor", token.NoPos, "parser not found")
		return
	}
	c.Funcs[fnName(fn)] = true
	w := NewWalkEnv(p)
	in := w.In
	var bad []string
	nMsg := 0
	globalsUsed := map[string]bool{}
	for _, t := range in.Explore(fn, symArgs(fn), 500) {
		if t.Cut != "" || t.Panic != "" {
			if t.Cut != "" {
				c.Unk("C15-LABEL", fnName(fn), "paths", fn.Pos(), t.Cut)
			}
			continue
		}
		if t.Converged {
			continue
		}
		rt, ok := t.Ret.(Tup)
		if !ok || len(rt.E) != 3 {
			continue
		}
		msg := rt.E[2]
		if s, ok := isCstStr(msg); ok && s == "" {
			continue
		}
		nMsg++
		c.Sites++
		sc, ok := msg.(StrCat)
		if !ok || len(sc.Parts) != 2 {
			bad = append(bad, "message is returned without an explanation label: "+shorten(keyOf(msg), 80))
			continue
		}
		label, _ := isCstStr(sc.Parts[0])
		raw := keyOf(sc.Parts[1])
		// the CJK test decided on this path, applied to the raw message
		zh := -1
		for k, v := range t.PC {
			if m := reMatchGlobal.FindStringSubmatch(k); m != nil {
				globalsUsed[m[1]] = true
				if m[2] == raw {
					zh = v
				} else {
					bad = append(bad, "CJK test applied to something other than the extracted message")
				}
			}
		}
		switch {
		case zh == 1 && label != "说明: ":
			bad = append(bad, fmt.Sprintf("message containing CJK gets label %q (want \"说明: \")", label))
		case zh == 0 && label != "explain: ":
			bad = append(bad, fmt.Sprintf("message without CJK gets label %q (want \"explain: \")", label))
		case zh == -1:
			bad = append(bad, "label chosen without testing the message for CJK characters")
		}
	}
	c.Check(len(bad) == 0 && nMsg >= 4, "C15-LABEL", fnName(fn), "label", fn.Pos(), fmt.Sprintf("%d message-carrying paths (both branches, both labels)", nMsg), uniqJoin(append(bad, fmt.Sprintf("%d message paths", nMsg)), 3))
	// CJK pattern language
	pats := patternGlobals(p, "valid")
	for g := range globalsUsed {
		pg, ok := pats[g]
		if !ok {
			c.Unk("C15-LABEL", "valid."+g, "language", token.NoPos, "CJK pattern not initialised from a constant")
			continue
		}
		eq, wit, n, err := RxEquivalent(pg.Pat, `[\x{4e00}-\x{9fa5}]`)
		c.Sites += n
		switch {
		case err != nil:
			c.Unk("C15-LABEL", "valid."+g, "language", pg.Pos, err.Error())
		case !eq:
			c.Bad("C15-LABEL", "valid."+g, "language", pg.Pos, "CJK detection pattern differs from [\\x{4e00}-\\x{9fa5}]: "+wit)
		default:
			c.OK("C15-LABEL", "valid."+g, "language", pg.Pos, "≡ [\\x{4e00}-\\x{9fa5}]")
		}
	}
	if len(globalsUsed) == 0 {
		c.Unk("C15-LABEL", "valid.IncludeZhRe", "language", token.NoPos, "no CJK pattern consulted by the parser")
	}
	// constructor: English label only when the first extra argument has no label
	ctor := p.Func("valid", "GetJoinValidErrStr")
	if ctor == nil {
		c.Unk("C15-LABEL", "valid.GetJoinValidErrStr", "anchor", token.NoPos, "clause constructor not found")
		return
	}
	c.Funcs[fnName(ctor)] = true
	w2 := NewWalkEnv(p)
	in2 := w2.In
	in2.EagerWiden = false
	in2.WidenAfter = 6
	delete(in2.Models, "valid.GetJoinValidErrStr")
	delete(in2.NoInline, "valid.GetJoinValidErrStr")
	in2.NoInline["valid.newStrBuf"] = true
	in2.Models["(*strings.Builder).String"] = func(in *Interp, site ssa.Instruction, cc *ssa.CallCommon, a []AVal) (AVal, bool) {
		return Sym{K: "text"}, true
	}
	arr := &Cell{ID: 800}
	for i := 0; i < 2; i++ {
		arr.Elems = append(arr.Elems, &Cell{ID: 801 + i, V: Sym{K: fmt.Sprintf("o%d", i)}})
	}
	var cbad []string
	nc := 0
	for _, t := range in2.Explore(ctor, []AVal{Sym{K: "objName"}, Sym{K: "fieldName"}, Sym{K: "inputVal"}, Slc{Arr: arr, Lo: 0, Hi: 2}}, 500) {
		if t.Cut != "" || t.Panic != "" || t.Converged {
			if t.Cut != "" || t.Panic != "" {
				cbad = append(cbad, "not decided: "+t.Cut+t.Panic)
			}
			continue
		}
		nc++
		contains := func(sub string) int {
			if v, ok := t.PC[`strings.Contains(o0, "`+sub+`")`]; ok {
				return v
			}
			idx := `strings.Index(o0, "` + sub + `")`
			if v, ok := t.PC["lt("+idx+",0)"]; ok {
				return 1 - v
			}
			if v, ok := t.PC["eq(-1,"+idx+")"]; ok {
				return 1 - v
			}
			if v, ok := t.PC["lt(-1,"+idx+")"]; ok {
				return v
			}
			return -1
		}
		hasEn, hasZh := contains("explain:"), contains("说明:")
		var last string
		var text strings.Builder // the constant parts of what is written, in order (pieces may be split further)
		for _, e := range t.Events {
			if e.Kind == "write" {
				last = keyOf(e.Args[1])
				if s, ok := isCstStr(e.Args[1]); ok {
					text.WriteString(s)
				} else if k, ok := isCstInt(e.Args[1]); ok && k >= 0 && k < 128 {
					text.WriteByte(byte(k))
				} else {
					text.WriteString("\x00")
				}
			}
		}
		wroteLabel := strings.Contains(text.String(), "explain: ")
		noLabel := hasEn == 0 && hasZh == 0
		if wroteLabel != noLabel {
			cbad = append(cbad, fmt.Sprintf("English label written=%v although first extra argument has label: en=%d zh=%d", wroteLabel, hasEn, hasZh))
		}
		if !strings.HasSuffix(last, `"; "`) && !strings.HasSuffix(last, `valid.ErrEndFlag`) {
			cbad = append(cbad, "the clause does not end with the separator: last write is "+shorten(last, 60))
		}
	}
	c.Check(len(cbad) == 0 && nc > 0, "C15-LABEL", fnName(ctor), "english-label", ctor.Pos(), fmt.Sprintf("%d paths", nc), uniqJoin(cbad, 3))
}

// runC15Extract: the explanation extractor.
func runC15Extract(c *Ctx) {
	p := c.P
	c.Rule("C15-EXTRACT", "every slice expression of the extractor is proved in bounds, and no slice bound depends on a value carried from one clause to the next other than the input cursor", 2)
	fn := p.Func("valid", "GetOnlyExplainErr")
	if fn == nil {
		c.Unk("C15-EXTRACT", "valid.GetOnlyExplainErr", "anchor", token.NoPos, "extractor not found")
		return
	}
	c.Funcs[fnName(fn)] = true
	sites := checkBounds(p, fn, validAxioms)
	nSlices := 0
	for i, s := range sites {
		if s.What == "index" {
			if _, isRange := s.Ins.(*ssa.IndexAddr); isRange {
				// element of the range over the clauses
			}
		}
		c.Sites++
		nSlices++
		disc := fmt.Sprintf("%s#%d", s.What, i+1)
		if s.Proved {
			c.OK("C15-EXTRACT", fnName(fn), disc, instrPos(s.Ins), "in bounds")
		} else {
			c.Bad("C15-EXTRACT", fnName(fn), disc, instrPos(s.Ins), "the extractor can fail: "+s.Why)
		}
	}
	if nSlices == 0 {
		c.Unk("C15-EXTRACT", fnName(fn), "slices", fn.Pos(), "no slice expression found in the extractor")
	}
	// clause independence: backward slice of every slice bound contains no loop-header phi
	// except an induction variable (index / cursor that only moves forward by the data it consumed)
	headers := map[*ssa.BasicBlock]bool{}
	for _, l := range naturalLoops(fn) {
		headers[l.Header] = true
	}
	var bad []string
	for _, b := range fn.Blocks {
		for _, ins := range b.Instrs {
			sl, ok := ins.(*ssa.Slice)
			if !ok {
				continue
			}
			for _, bound := range []ssa.Value{sl.Low, sl.High} {
				if bound == nil {
					continue
				}
				seen := map[ssa.Value]bool{}
				var walk func(v ssa.Value, depth int)
				walk = func(v ssa.Value, depth int) {
					if v == nil || seen[v] || depth > 12 {
						return
					}
					seen[v] = true
					switch x := v.(type) {
					case *ssa.Phi:
						if headers[x.Block()] {
							// allowed: range index (phi + 1) or the input string cursor itself
							if strings.Contains(x.Comment, "rangeindex") {
								return
							}
							if _, isStr := x.Type().Underlying().(interface{ Info() int }); isStr {
								return
							}
							if bt := x.Type().String(); bt == "string" {
								return // the remaining input
							}
							bad = append(bad, fmt.Sprintf("slice bound at %s depends on %s, a value carried from one clause to the next", p.Pos(sl.Pos()), x.Comment))
							return
						}
						for _, e := range x.Edges {
							walk(e, depth+1)
						}
					case *ssa.BinOp:
						walk(x.X, depth+1)
						walk(x.Y, depth+1)
					case *ssa.Call:
						// results of pure searches depend on their arguments
						for _, a := range x.Call.Args {
							if _, isInt := a.Type().Underlying().(interface{}); isInt {
								walk(a, depth+1)
							}
						}
					case *ssa.Convert:
						walk(x.X, depth+1)
					}
				}
				walk(bound, 0)
			}
		}
	}
	c.Check(len(bad) == 0, "C15-EXTRACT", fnName(fn), "clause-independence", fn.Pos(), "no slice bound is carried across clauses", uniqJoin(bad, 3))
}
