// Package engine holds the static-analysis machinery for protoc-go-valid.
// Nothing in here executes code from /repo: sources are parsed, type-checked and
// lowered to SSA, and every rule is decided on that representation.
package engine

import (
	"fmt"
	"go/ast"
	"go/token"
	"go/types"
	"os"
	"sort"
	"strings"

	"golang.org/x/tools/go/packages"
	"golang.org/x/tools/go/ssa"
	"golang.org/x/tools/go/ssa/ssautil"
)

const ModPath = "gitee.com/xuesongtao/protoc-go-valid"

// Config selects what is loaded.
type Config struct {
	Repo    string            // directory of the repository
	GOOS    string            // "" = host
	GOARCH  string            // "" = host
	Tags    string            // build tags
	Overlay map[string][]byte // absolute file name -> replacement contents (selftest only)
}

func (c Config) String() string {
	goos, goarch := c.GOOS, c.GOARCH
	if goos == "" {
		goos = "host"
	}
	if goarch == "" {
		goarch = "host"
	}
	s := goos + "/" + goarch
	if c.Tags != "" {
		s += " tags=" + c.Tags
	}
	return s
}

// Prog is the resolved program.
type Prog struct {
	Cfg   Config
	Fset  *token.FileSet
	Pkgs  map[string]*packages.Package // keyed by import path
	SSA   *ssa.Program
	SPkgs map[string]*ssa.Package // keyed by import path
	// all source functions of the repository's packages (incl. anonymous and methods)
	Funcs []*ssa.Function
	// renamings undone before analysis (old name <- new name), for the evidence file
	Normalised []string
}

// Load parses, type-checks and builds SSA for every package of the repository.
// Any load or type error is returned: the caller must fail the check (fail closed).
// Pure renamings (unexported functions, methods, struct fields, parameters and named results)
// relative to the baseline table are undone on an in-memory overlay first, so that rules
// anchored on names see the names they know (see normalise.go).
func Load(c Config) (*Prog, error) {
	p, err := loadOnce(c)
	if err != nil {
		return nil, err
	}
	// up to three rounds: undoing a type rename makes the signatures of the functions that mention
	// the type comparable with the baseline in the next round
	cur := c
	var allNotes []string
	for round := 0; round < 3; round++ {
		ov, notes := renameBack(p)
		if len(ov) == 0 {
			break
		}
		c2 := cur
		c2.Overlay = map[string][]byte{}
		for k, v := range cur.Overlay {
			c2.Overlay[k] = v
		}
		for k, v := range ov {
			c2.Overlay[k] = v
		}
		p2, err2 := loadOnce(c2)
		if err2 != nil {
			// the rename-back edit did not type-check (name clash): analyse what we have
			allNotes = append(allNotes, "rename normalisation stopped: "+err2.Error())
			break
		}
		p, cur = p2, c2
		allNotes = append(allNotes, notes...)
	}
	p.Cfg = c
	inl, err := inlineNewHelpers(p)
	if err != nil {
		return nil, fmt.Errorf("helper inlining: %v", err)
	}
	p.Normalised = append(allNotes, inl...)
	return p, nil
}

func loadOnce(c Config) (*Prog, error) {
	env := append(os.Environ(), "GOWORK=off", "GOFLAGS=-mod=mod", "GOPROXY=off", "GOSUMDB=off", "GOTOOLCHAIN=local", "CGO_ENABLED=0")
	if c.GOOS != "" {
		env = append(env, "GOOS="+c.GOOS)
	}
	if c.GOARCH != "" {
		env = append(env, "GOARCH="+c.GOARCH)
	}
	cfg := &packages.Config{
		Mode:    packages.LoadAllSyntax,
		Dir:     c.Repo,
		Env:     env,
		Tests:   false,
		Overlay: c.Overlay,
	}
	if c.Tags != "" {
		cfg.BuildFlags = []string{"-tags=" + c.Tags}
	}
	initial, err := packages.Load(cfg, "./...")
	if err != nil {
		return nil, fmt.Errorf("packages.Load: %v", err)
	}
	var errs []string
	packages.Visit(initial, nil, func(p *packages.Package) {
		for _, e := range p.Errors {
			errs = append(errs, e.Error())
		}
	})
	if len(errs) > 0 {
		sort.Strings(errs)
		if len(errs) > 8 {
			errs = errs[:8]
		}
		return nil, fmt.Errorf("load/type errors: %s", strings.Join(errs, " | "))
	}
	p := &Prog{Cfg: c, Pkgs: map[string]*packages.Package{}, SPkgs: map[string]*ssa.Package{}}
	for _, pk := range initial {
		if !strings.HasPrefix(pk.PkgPath, ModPath) {
			continue
		}
		p.Pkgs[pk.PkgPath] = pk
		p.Fset = pk.Fset
	}
	if len(p.Pkgs) < 5 {
		return nil, fmt.Errorf("expected >= 5 repository packages, loaded %d", len(p.Pkgs))
	}
	prog, spkgs := ssautil.Packages(initial, ssa.InstantiateGenerics)
	for i, sp := range spkgs {
		if sp == nil {
			return nil, fmt.Errorf("no SSA package for %s", initial[i].PkgPath)
		}
		if strings.HasPrefix(sp.Pkg.Path(), ModPath) {
			p.SPkgs[sp.Pkg.Path()] = sp
		}
	}
	prog.Build()
	p.SSA = prog
	for fn := range ssautil.AllFunctions(prog) {
		if fn.Pkg == nil || fn.Blocks == nil {
			continue
		}
		if _, ok := p.SPkgs[fn.Pkg.Pkg.Path()]; ok {
			p.Funcs = append(p.Funcs, fn)
		}
	}
	sort.Slice(p.Funcs, func(i, j int) bool { return p.FuncName(p.Funcs[i]) < p.FuncName(p.Funcs[j]) })
	return p, nil
}

// Rel returns the import path relative to the module ("" for the root package).
func Rel(path string) string {
	r := strings.TrimPrefix(path, ModPath)
	return strings.TrimPrefix(r, "/")
}

// FuncName gives a stable, readable name: "valid.(*VStruct).validate", "valid.To", "valid.In$1".
func (p *Prog) FuncName(fn *ssa.Function) string {
	if fn == nil {
		return "<nil>"
	}
	s := fn.String()
	s = strings.ReplaceAll(s, ModPath+"/", "")
	s = strings.ReplaceAll(s, ModPath, "main")
	return s
}

// Pos renders a position as repo-relative file:line.
func (p *Prog) Pos(pos token.Pos) string {
	if !pos.IsValid() {
		return "-"
	}
	ps := p.Fset.Position(pos)
	f := ps.Filename
	if strings.HasPrefix(f, p.Cfg.Repo+"/") {
		f = f[len(p.Cfg.Repo)+1:]
	}
	return fmt.Sprintf("%s:%d", f, ps.Line)
}

// Pkg returns the SSA package with the given module-relative path ("valid", "file", "", …).
func (p *Prog) Pkg(rel string) *ssa.Package {
	path := ModPath
	if rel != "" {
		path += "/" + rel
	}
	return p.SPkgs[path]
}

// TPkg returns the go/packages package with the given module-relative path.
func (p *Prog) TPkg(rel string) *packages.Package {
	path := ModPath
	if rel != "" {
		path += "/" + rel
	}
	return p.Pkgs[path]
}

// Func finds a package-level function by name, nil if absent.
func (p *Prog) Func(rel, name string) *ssa.Function {
	sp := p.Pkg(rel)
	if sp == nil {
		return nil
	}
	return sp.Func(name)
}

// Method finds method `name` on named type `typ` (pointer or value receiver).
func (p *Prog) Method(rel, typ, name string) *ssa.Function {
	sp := p.Pkg(rel)
	if sp == nil {
		return nil
	}
	t := sp.Type(typ)
	if t == nil {
		return nil
	}
	for _, T := range []types.Type{t.Type(), types.NewPointer(t.Type())} {
		ms := p.SSA.MethodSets.MethodSet(T)
		if sel := ms.Lookup(sp.Pkg, name); sel != nil {
			if fn := p.SSA.MethodValue(sel); fn != nil && fn.Blocks != nil {
				return fn
			}
		}
	}
	return nil
}

// Global finds a package-level variable.
func (p *Prog) Global(rel, name string) *ssa.Global {
	sp := p.Pkg(rel)
	if sp == nil {
		return nil
	}
	return sp.Var(name)
}

// FileOf returns the syntax file containing pos.
func (p *Prog) FileOf(pos token.Pos) *ast.File {
	for _, pk := range p.Pkgs {
		for _, f := range pk.Syntax {
			if f.Pos() <= pos && pos <= f.End() {
				return f
			}
		}
	}
	return nil
}
