package engine

import (
	"fmt"
	"go/token"
	"go/types"
	"sort"
	"strings"

	"golang.org/x/tools/go/ssa"
)

// Engine L: lock discipline of the mutex-bearing cache type (C10, reused by C11).

const ruleLock = "C10-LOCK"

func init() {
	register(&PropDef{
		ID: "C10",
		Explain: "Lockset analysis of the LRU cache type (the CacheEr implementation that embeds a sync mutex), over every path of every method: " +
			"each access to guarded state (mutable fields, the node map, the container/list and its elements) happens with the mutex held, in write mode when the access mutates; " +
			"each operation is one critical section released on every exit with the matching unlock; the private helper is entered only with the write lock held; " +
			"no lock-taking method is called while the lock is held; guarded internals are not returned; no guarded access outside the type's methods except in the constructor. " +
			"This decides data-race freedom on cache state, freedom from self-deadlock and per-operation atomicity for ALL schedules (hence linearizability w.r.t. the sequential code); " +
			"it does not decide what the sequential code computes (C09) nor behaviour of a removal callback that re-enters the cache.",
		Assume:  []string{"sync.Mutex/RWMutex semantics", "removal callback does not re-enter the cache", "SetDelCallBackFn-style pure setters are configuration-time (called before concurrent use)"},
		Trusted: []string{"go/types", "go/ssa (x/tools v0.29.0)", "container/list mutator table"},
		Run:     func(c *Ctx) { runLock(c, ruleLock); base(c, "STATE", "LRU") },
	})
}

// cacheType finds the CacheEr implementation with an embedded/contained sync mutex.
func cacheType(p *Prog) (*types.Named, int) {
	sp := p.Pkg("valid")
	if sp == nil {
		return nil, -1
	}
	var ifc *types.Interface
	if t := sp.Type("CacheEr"); t != nil {
		ifc, _ = t.Type().Underlying().(*types.Interface)
	}
	names := []string{}
	for name := range sp.Members {
		names = append(names, name)
	}
	sort.Strings(names)
	for _, name := range names {
		t, ok := sp.Members[name].(*ssa.Type)
		if !ok {
			continue
		}
		n, ok := t.Type().(*types.Named)
		if !ok {
			continue
		}
		st, ok := n.Underlying().(*types.Struct)
		if !ok {
			continue
		}
		mu := -1
		for i := 0; i < st.NumFields(); i++ {
			ft := st.Field(i).Type()
			if isNamed(ft, "sync", "RWMutex") || isNamed(ft, "sync", "Mutex") {
				if _, isPtr := ft.(*types.Pointer); !isPtr {
					mu = i
				}
			}
		}
		if mu < 0 {
			continue
		}
		if ifc != nil && !types.Implements(types.NewPointer(n), ifc) && !types.Implements(n, ifc) {
			continue
		}
		return n, mu
	}
	return nil, -1
}

var listMutators = map[string]bool{"PushFront": true, "PushBack": true, "Remove": true, "MoveToFront": true, "MoveToBack": true,
	"MoveBefore": true, "MoveAfter": true, "InsertBefore": true, "InsertAfter": true, "Init": true, "PushBackList": true, "PushFrontList": true}

// lock state
type lkState struct {
	held     int  // 0 unlocked, 1 read, 2 write
	released bool // a critical section has already ended
	deferred int  // mode a deferred unlock will release (0 none)
	bad      bool // inconsistent at a join
}

func (s lkState) String() string {
	h := []string{"unlocked", "read-locked", "write-locked"}[s.held]
	if s.bad {
		return "inconsistent"
	}
	return h
}

type lockAnalysis struct {
	c        *Ctx
	rule     string
	named    *types.Named
	st       *types.Struct
	muIdx    int
	methods  []*ssa.Function
	mutable  map[int]bool // field index -> written outside constructors
	locksIn  map[*ssa.Function]bool
	entry    map[*ssa.Function]lkState
	callSite map[*ssa.Function][]lkState // states at in-type call sites of a helper
	agg      map[string]*accAgg
	payload  map[*types.Named]bool // struct types whose POINTER is stored as a list element's Value
	// lock helpers of the type itself (both are lock-taking methods, found by what they do):
	// wrapper: takes the lock, calls its func parameter, releases (withLock(f)); mode 1 read / 2 write
	// acquirer: takes the lock and returns the matching unlock function (defer l.lock()())
	wrapper   map[*ssa.Function]int
	acquirer  map[*ssa.Function]int
	underLock map[*ssa.Function]int // closures handed to a wrapper: entered with the lock held in that mode
}

type accAgg struct {
	fn   string
	what string
	pos  token.Pos
	need int
	bad  []string
	n    int
}

func runLock(c *Ctx, rule string) {
	p := c.P
	c.Rule(rule, "every guarded access of the mutex-bearing cache type under the lock (write mode if mutating), one critical section per operation released on all exits, helper entered with the write lock, no re-entry, no escape, no outside access", 12)
	named, mu := cacheType(p)
	if named == nil {
		c.Unk(rule, "-", "anchor", token.NoPos, "no CacheEr implementation containing a sync mutex found in package valid (anchor unresolved)")
		return
	}
	la := &lockAnalysis{c: c, rule: rule, named: named, st: named.Underlying().(*types.Struct), muIdx: mu,
		mutable: map[int]bool{}, locksIn: map[*ssa.Function]bool{}, entry: map[*ssa.Function]lkState{}, callSite: map[*ssa.Function][]lkState{}, agg: map[string]*accAgg{}}
	for _, fn := range p.Funcs {
		if recvNamed(fn) == named || (fn.Parent() != nil && recvNamed(fn.Parent()) == named) {
			la.methods = append(la.methods, fn)
		}
	}
	// the mutex must never be copied: every method has a pointer receiver and no instruction
	// loads or stores a whole value of the cache type (a copy carries its own copy of the lock:
	// locking it excludes nobody, and a copy taken while a writer waits can block forever)
	{
		var bad []string
		n := 0
		for _, fn := range p.Funcs {
			if fn.Pkg == nil || !strings.HasPrefix(fn.Pkg.Pkg.Path(), ModPath) {
				continue
			}
			if recv := fn.Signature.Recv(); recv != nil && fn.Parent() == nil {
				if rn := namedOf(recv.Type()); rn == named {
					n++
					if _, isPtr := recv.Type().(*types.Pointer); !isPtr {
						bad = append(bad, fnName(fn)+" has a value receiver: every call works on a copy of the cache, mutex included")
					}
				}
			}
			for _, b := range fn.Blocks {
				for _, ins := range b.Instrs {
					v, ok := ins.(ssa.Value)
					if !ok {
						continue
					}
					if _, isAlloc := ins.(*ssa.Alloc); isAlloc {
						continue
					}
					if namedOf(v.Type()) == named {
						if _, isPtr := v.Type().(*types.Pointer); !isPtr {
							bad = append(bad, fmt.Sprintf("%s copies a whole cache value (%T at %s)", fnName(fn), ins, p.Pos(ins.Pos())))
						}
					}
				}
			}
		}
		c.Sites += n
		c.Check(len(bad) == 0 && n > 0, rule, named.Obj().Name(), "no-lock-copy", token.NoPos, fmt.Sprintf("%d methods, all on pointer receivers; no struct copy", n), uniqJoin(bad, 3))
	}
	// field mutability + outside access
	la.findPayload()
	la.scanStores()
	// which methods take the lock themselves
	for _, m := range la.methods {
		for _, b := range m.Blocks {
			for _, in := range b.Instrs {
				if k, _ := la.lockOp(m, in); k != "" {
					la.locksIn[m] = true
				}
			}
		}
	}
	la.wrapper, la.acquirer, la.underLock = map[*ssa.Function]int{}, map[*ssa.Function]int{}, map[*ssa.Function]int{}
	for _, m := range la.methods {
		if !la.locksIn[m] || m.Parent() != nil {
			continue
		}
		mode, nAcq, nRel := 0, 0, 0
		for _, b := range m.Blocks {
			for _, in := range b.Instrs {
				switch op, _ := la.lockOp(m, in); op {
				case "Lock":
					mode, nAcq = 2, nAcq+1
				case "RLock":
					mode, nAcq = 1, nAcq+1
				case "Unlock", "RUnlock":
					nRel++
				}
			}
		}
		if nAcq != 1 {
			continue
		}
		// wrapper: calls one of its own func-typed parameters
		callsParam := false
		for _, b := range m.Blocks {
			for _, in := range b.Instrs {
				if call, ok := in.(*ssa.Call); ok {
					if prm, ok := call.Call.Value.(*ssa.Parameter); ok && prm.Parent() == m {
						if _, isFn := prm.Type().Underlying().(*types.Signature); isFn {
							callsParam = true
						}
					}
				}
			}
		}
		if callsParam && nRel >= 1 {
			la.wrapper[m] = mode
			continue
		}
		// acquirer: no release of its own; every return hands back the bound unlock method of its own mutex
		if nRel == 0 && m.Signature.Results().Len() == 1 {
			okRet, nRet := true, 0
			want := map[int]string{2: "Unlock$bound", 1: "RUnlock$bound"}[mode]
			for _, b := range m.Blocks {
				ret, ok := b.Instrs[len(b.Instrs)-1].(*ssa.Return)
				if !ok || b == m.Recover {
					continue
				}
				nRet++
				mc, ok := ret.Results[0].(*ssa.MakeClosure)
				if !ok || len(mc.Bindings) != 1 {
					okRet = false
					continue
				}
				if fn, ok := mc.Fn.(*ssa.Function); !ok || fn.Name() != want {
					okRet = false
					continue
				}
				if i, _, ok := la.selfField(mc.Bindings[0]); !ok || i != la.muIdx {
					okRet = false
				}
			}
			if okRet && nRet > 0 {
				la.acquirer[m] = mode
			}
		}
	}
	// closures handed to a wrapper run with the lock held
	for _, m := range la.methods {
		for _, b := range m.Blocks {
			for _, in := range b.Instrs {
				call, ok := in.(*ssa.Call)
				if !ok {
					continue
				}
				w := staticCallee(&call.Call)
				mode, isW := la.wrapper[w]
				if !isW {
					continue
				}
				for _, a := range call.Call.Args {
					if mc, ok := a.(*ssa.MakeClosure); ok {
						if fn, ok := mc.Fn.(*ssa.Function); ok && fn.Parent() != nil {
							if old, had := la.underLock[fn]; had && old != mode {
								mode = 0
							}
							la.underLock[fn] = mode
						}
					}
				}
			}
		}
	}
	// an operation that is composed of several lock-taking methods (Store = store() + evict(), each
	// locking on its own) is not atomic: another goroutine can observe the state between them
	for _, m := range la.methods {
		if la.locksIn[m] {
			continue
		}
		var sites []string
		for _, b := range m.Blocks {
			for _, in := range b.Instrs {
				if call, ok := in.(ssa.CallInstruction); ok {
					if callee := staticCallee(call.Common()); callee != nil && recvNamed(callee) == named && la.locksIn[callee] {
						sites = append(sites, callee.Name())
					}
				}
			}
		}
		if len(sites) >= 2 {
			c.Bad(rule, fnName(m), "atomic", m.Pos(), fmt.Sprintf("the operation runs %d separate critical sections (%s): it is not atomic, other goroutines can observe and change the cache between them", len(sites), strings.Join(sites, ", ")))
		} else if len(sites) == 1 {
			c.OK(rule, fnName(m), "atomic", m.Pos(), "delegates to one lock-taking method")
		}
	}
	// pass 1: lockers and lock-free public methods with entry unlocked
	done := map[*ssa.Function]bool{}
	var helpers []*ssa.Function
	calledClosure := map[*ssa.Function]bool{}
	for _, m := range la.methods {
		for _, b := range m.Blocks {
			for _, in := range b.Instrs {
				if call, ok := in.(*ssa.Call); ok {
					if mc, ok := call.Call.Value.(*ssa.MakeClosure); ok {
						if fn, ok := mc.Fn.(*ssa.Function); ok && fn.Parent() != nil && len(*mc.Referrers()) == 1 {
							calledClosure[fn] = true
						}
					}
				}
			}
		}
	}
	for _, m := range la.methods {
		if calledClosure[m] && !la.locksIn[m] {
			helpers = append(helpers, m) // a function literal called on the spot: entered in its caller's lock state
			continue
		}
		if mode, ok := la.underLock[m]; ok && mode != 0 && !la.locksIn[m] {
			helpers = append(helpers, m)
			la.callSite[m] = append(la.callSite[m], lkState{held: mode})
			continue
		}
		if la.locksIn[m] || m.Object() == nil || m.Object().Exported() {
			la.entry[m] = lkState{}
		} else {
			helpers = append(helpers, m)
		}
	}
	for _, m := range la.methods {
		if _, ok := la.entry[m]; ok {
			la.analyse(m, false)
			done[m] = true
		}
	}
	// helpers: entry state from call sites (iterate for helper->helper chains)
	for round := 0; round < 4 && len(helpers) > 0; round++ {
		var rest []*ssa.Function
		for _, h := range helpers {
			sites := la.callSite[h]
			if len(sites) == 0 {
				rest = append(rest, h)
				continue
			}
			st := sites[0]
			for _, s := range sites[1:] {
				if s.held != st.held {
					st.bad = true
				}
			}
			if st.bad {
				c.Bad(rule, fnName(h), "helper-entry", h.Pos(), "helper is called with different lock states at different call sites")
				st = lkState{}
			}
			st.released, st.deferred = false, 0
			la.entry[h] = st
			la.analyse(h, true)
			done[h] = true
		}
		helpers = rest
	}
	for _, h := range helpers { // never called inside the type: treat as entered unlocked
		la.entry[h] = lkState{}
		la.analyse(h, false)
	}
	// final reporting pass
	for _, m := range la.methods {
		c.Funcs[fnName(m)] = true
	}
	keys := make([]string, 0, len(la.agg))
	for k := range la.agg {
		keys = append(keys, k)
	}
	sort.Strings(keys)
	for _, k := range keys {
		a := la.agg[k]
		if len(a.bad) > 0 {
			c.Bad(rule, a.fn, a.what, a.pos, fmt.Sprintf("%d of %d accesses without the required lock: %s", len(a.bad), a.n, strings.Join(a.bad, "; ")))
		} else {
			c.OK(rule, a.fn, a.what, a.pos, fmt.Sprintf("%d accesses, all with the mutex held in %s mode or stronger", a.n, []string{"", "read", "write"}[a.need]))
		}
	}
	// escape: exported methods must not return guarded internals
	for _, m := range la.methods {
		if m.Object() == nil || !m.Object().Exported() {
			continue
		}
		res := m.Signature.Results()
		for i := 0; i < res.Len(); i++ {
			if la.guardedType(res.At(i).Type()) {
				c.Bad(rule, fnName(m), "escape", m.Pos(), "exported method returns guarded internal of type "+res.At(i).Type().String())
			}
		}
	}
}

func (la *lockAnalysis) guardedType(t types.Type) bool {
	if isNamed(t, "container/list", "List") || isNamed(t, "container/list", "Element") {
		return true
	}
	for i := 0; i < la.st.NumFields(); i++ {
		if i == la.muIdx {
			continue
		}
		ft := la.st.Field(i).Type()
		if _, ok := ft.Underlying().(*types.Map); ok && types.Identical(ft, t) {
			return true
		}
	}
	return false
}

// isSelfField reports whether v is &x.f with x of the cache struct type; returns field index.
func (la *lockAnalysis) selfField(v ssa.Value) (int, *ssa.FieldAddr, bool) {
	fa, ok := v.(*ssa.FieldAddr)
	if !ok {
		return 0, nil, false
	}
	if namedOf(fa.X.Type()) != la.named {
		return 0, nil, false
	}
	return fa.Field, fa, true
}

// freshObject: the base of a FieldAddr is an object allocated in this very function.
func freshObject(v ssa.Value) bool {
	switch x := v.(type) {
	case *ssa.Alloc:
		return true
	case *ssa.Phi:
		for _, e := range x.Edges {
			if !freshObject(e) {
				return false
			}
		}
		return true
	}
	return false
}

func (la *lockAnalysis) scanStores() {
	c := la.c
	for _, fn := range c.P.Funcs {
		isMethod := recvNamed(fn) == la.named || (fn.Parent() != nil && recvNamed(fn.Parent()) == la.named)
		pureSetter := isMethod && la.isPureSetter(fn)
		for _, b := range fn.Blocks {
			for _, in := range b.Instrs {
				var fa *ssa.FieldAddr
				var idx int
				isStore := false
				switch x := in.(type) {
				case *ssa.Store:
					if i, f, ok := la.selfField(x.Addr); ok {
						fa, idx, isStore = f, i, true
					}
				case *ssa.FieldAddr:
					if i, f, ok := la.selfField(x); ok {
						fa, idx = f, i
					}
				}
				if fa == nil {
					continue
				}
				c.Sites++
				if freshObject(fa.X) {
					continue // constructor initialising an unpublished object
				}
				if !isMethod {
					if _, isFA := in.(*ssa.FieldAddr); isFA {
						c.Bad(la.rule, fnName(fn), "outside:"+la.st.Field(idx).Name(), in.Pos(), "field of the cache accessed outside the type's methods and outside a constructor")
					}
					continue
				}
				if isStore && idx != la.muIdx {
					if pureSetter {
						c.OK(la.rule, fnName(fn), "setter:"+la.st.Field(idx).Name(), in.Pos(), "configuration-time pure setter (exempt, documented assumption)")
						continue
					}
					la.mutable[idx] = true
				}
			}
		}
	}
	// a field stored by a pure setter is read later under the lock or not; treat it as config-time immutable
}

// isPureSetter: the method's only effect is storing parameters into fields of the receiver.
func (la *lockAnalysis) isPureSetter(fn *ssa.Function) bool {
	if len(fn.Blocks) != 1 {
		return false
	}
	stores := 0
	for _, in := range fn.Blocks[0].Instrs {
		switch x := in.(type) {
		case *ssa.FieldAddr, *ssa.Return, *ssa.DebugRef:
		case *ssa.Store:
			if _, ok := x.Val.(*ssa.Parameter); !ok {
				return false
			}
			if ft, ok := x.Val.Type().Underlying().(*types.Signature); !ok || ft == nil {
				return false
			}
			stores++
		default:
			return false
		}
	}
	return stores > 0
}

// lockOp classifies mutex operations on the receiver's own mutex.
func (la *lockAnalysis) lockOp(fn *ssa.Function, in ssa.Instruction) (string, bool) {
	var cc *ssa.CallCommon
	deferred := false
	switch x := in.(type) {
	case *ssa.Call:
		cc = &x.Call
	case *ssa.Defer:
		cc, deferred = &x.Call, true
	case *ssa.Go:
		cc = &x.Call
	default:
		return "", false
	}
	name := calleeName(cc)
	if mc, ok := cc.Value.(*ssa.MakeClosure); ok && len(mc.Bindings) == 1 {
		// a bound method value of the own mutex (unlock := l.rwMu.Unlock; defer unlock())
		if bf, ok := mc.Fn.(*ssa.Function); ok {
			if i, _, ok := la.selfField(mc.Bindings[0]); ok && i == la.muIdx {
				switch bf.Name() {
				case "Unlock$bound":
					return "Unlock", deferred
				case "RUnlock$bound":
					return "RUnlock", deferred
				case "Lock$bound":
					return "Lock", deferred
				case "RLock$bound":
					return "RLock", deferred
				}
			}
		}
	}
	var op string
	switch name {
	case "(*sync.RWMutex).Lock", "(*sync.Mutex).Lock":
		op = "Lock"
	case "(*sync.RWMutex).Unlock", "(*sync.Mutex).Unlock":
		op = "Unlock"
	case "(*sync.RWMutex).RLock":
		op = "RLock"
	case "(*sync.RWMutex).RUnlock":
		op = "RUnlock"
	case "(*sync.RWMutex).TryLock", "(*sync.RWMutex).TryRLock", "(*sync.Mutex).TryLock", "(*sync.RWMutex).RLocker":
		op = "Try"
	default:
		return "", false
	}
	if len(cc.Args) == 0 {
		return "", false
	}
	if i, _, ok := la.selfField(cc.Args[0]); !ok || i != la.muIdx {
		return "", false
	}
	return op, deferred
}

// access classification: returns need (0 none, 1 read, 2 write) and a target label.
func (la *lockAnalysis) access(in ssa.Instruction) (int, string) {
	fieldLabel := func(i int) string { return "field " + la.st.Field(i).Name() }
	switch x := in.(type) {
	case *ssa.UnOp:
		if x.Op == token.MUL {
			if i, fa, ok := la.selfField(x.X); ok && i != la.muIdx && !freshObject(fa.X) {
				if la.mutable[i] {
					return 1, fieldLabel(i)
				}
				return 0, ""
			}
			if fa, ok := x.X.(*ssa.FieldAddr); ok && isNamed(fa.X.Type(), "container/list", "Element") {
				return 1, "list.Element." + fieldAddrName(fa)
			}
			// a field of an entry object the list elements POINT at: the object is shared with every
			// operation that reaches the element, so it is read and written under the lock like the
			// element itself (a pointer copied out under the lock and dereferenced after the unlock
			// reads what a concurrent Store overwrites)
			if fa, ok := x.X.(*ssa.FieldAddr); ok && la.payload[namedOf(fa.X.Type())] && !freshObject(fa.X) {
				if pt, isPtr := fa.X.Type().Underlying().(*types.Pointer); isPtr && namedOf(pt.Elem()) != nil {
					return 1, "entry." + fieldAddrName(fa)
				}
			}
		}
	case *ssa.Store:
		if fa, ok := x.Addr.(*ssa.FieldAddr); ok && la.payload[namedOf(fa.X.Type())] && !freshObject(fa.X) {
			if pt, isPtr := fa.X.Type().Underlying().(*types.Pointer); isPtr && namedOf(pt.Elem()) != nil {
				return 2, "entry." + fieldAddrName(fa)
			}
		}
		if i, fa, ok := la.selfField(x.Addr); ok && i != la.muIdx && !freshObject(fa.X) {
			return 2, fieldLabel(i)
		}
		if fa, ok := x.Addr.(*ssa.FieldAddr); ok && isNamed(fa.X.Type(), "container/list", "Element") {
			return 2, "list.Element." + fieldAddrName(fa)
		}
	case *ssa.MapUpdate:
		if la.guardedType(x.Map.Type()) {
			return 2, "node map"
		}
	case *ssa.Lookup:
		if la.guardedType(x.X.Type()) {
			return 1, "node map"
		}
	case *ssa.Range:
		if la.guardedType(x.X.Type()) {
			return 1, "node map"
		}
	case *ssa.Call:
		name := calleeName(&x.Call)
		if strings.HasPrefix(name, "(*container/list.List).") {
			m := strings.TrimPrefix(name, "(*container/list.List).")
			if listMutators[m] {
				return 2, "list." + m
			}
			return 1, "list." + m
		}
		if strings.HasPrefix(name, "(*container/list.Element).") {
			return 1, "list.Element." + strings.TrimPrefix(name, "(*container/list.Element).")
		}
		if name == "builtin.delete" && len(x.Call.Args) > 0 && la.guardedType(x.Call.Args[0].Type()) {
			return 2, "node map"
		}
		if name == "builtin.len" && len(x.Call.Args) > 0 && la.guardedType(x.Call.Args[0].Type()) {
			return 1, "node map"
		}
		// the ADDRESS of a guarded field handed to a call (l.buf.WriteString(..), helper(&l.count)):
		// the callee can write through it, so it counts as a mutation of that field
		for _, a := range x.Call.Args {
			if i, fa, ok := la.selfField(a); ok && i != la.muIdx && !freshObject(fa.X) {
				if _, isPtr := a.Type().(*types.Pointer); isPtr {
					return 2, fieldLabel(i) + " (address passed to " + shortType(name) + ")"
				}
			}
		}
	}
	return 0, ""
}

func (la *lockAnalysis) analyse(fn *ssa.Function, helper bool) {
	c := la.c
	name := fnName(fn)
	if la.isPureSetter(fn) {
		return // exempted in scanStores (configuration-time)
	}
	reach := reachableBlocks(fn)
	in := map[*ssa.BasicBlock]lkState{}
	has := map[*ssa.BasicBlock]bool{}
	if len(fn.Blocks) == 0 {
		return
	}
	entry := la.entry[fn]
	in[fn.Blocks[0]] = entry
	has[fn.Blocks[0]] = true
	report := false
	transfer := func(b *ssa.BasicBlock, s lkState) lkState {
		for _, ins := range b.Instrs {
			if op, deferred := la.lockOp(fn, ins); op != "" {
				if !report {
					// state only
				}
				switch {
				case op == "Try":
					if report {
						c.Unk(la.rule, name, "trylock", ins.Pos(), "TryLock/RLocker is not modelled")
					}
				case deferred && (op == "Unlock" || op == "RUnlock"):
					want := 2
					if op == "RUnlock" {
						want = 1
					}
					if report {
						c.Check(s.held == want, la.rule, name, "defer-"+op, ins.Pos(), "deferred "+op+" registered while "+s.String(), "deferred "+op+" registered while "+s.String()+" (unlock kind does not match the lock held)")
					}
					s.deferred = want
				case deferred:
					if report {
						c.Bad(la.rule, name, "defer-"+op, ins.Pos(), "deferred lock acquisition")
					}
				case op == "Lock" || op == "RLock":
					if report {
						switch {
						case s.held != 0:
							c.Bad(la.rule, name, "acquire", ins.Pos(), op+" while already "+s.String()+": self-deadlock")
						case s.released:
							c.Bad(la.rule, name, "acquire", ins.Pos(), "second critical section in one operation: the operation is not atomic")
						case helper:
							c.Bad(la.rule, name, "acquire", ins.Pos(), "helper entered with the lock held acquires it again")
						default:
							c.OK(la.rule, name, "acquire", ins.Pos(), op+" opens the operation's single critical section")
						}
					}
					s.held = 2
					if op == "RLock" {
						s.held = 1
					}
				case op == "Unlock" || op == "RUnlock":
					want := 2
					if op == "RUnlock" {
						want = 1
					}
					if report && s.held != want {
						c.Bad(la.rule, name, "release", ins.Pos(), op+" while "+s.String())
					}
					s.held = 0
					s.released = true
				}
				continue
			}
			switch x := ins.(type) {
			case *ssa.RunDefers:
				if s.deferred != 0 {
					if report && s.held != s.deferred {
						c.Bad(la.rule, name, "release", ins.Pos(), "deferred unlock runs while "+s.String())
					}
					s.held = 0
					s.released = true
				}
				continue
			case *ssa.Defer:
				// defer l.lock()(): the deferred call is the unlock function an acquirer handed back
				if cl, ok := x.Call.Value.(*ssa.Call); ok {
					if mode, isAcq := la.acquirer[staticCallee(&cl.Call)]; isAcq {
						if report {
							c.Check(s.held == mode, la.rule, name, "defer-unlock-of-acquirer", ins.Pos(), "deferred release registered while "+s.String(), "deferred release registered while "+s.String()+" (does not match the lock the acquirer took)")
						}
						s.deferred = mode
						continue
					}
				}
			case *ssa.Return:
				if report {
					want := entry.held
					if !helper {
						want = 0
					}
					if mode, isAcq := la.acquirer[fn]; isAcq {
						want = mode // hands the lock to its caller together with the unlock function
					}
					c.Check(s.held == want && !s.bad, la.rule, name, fmt.Sprintf("exit%d", b.Index), ins.Pos(),
						"exit reached "+s.String(), "exit reached "+s.String()+" (lock not released on this path / helper changed the lock state)")
				}
				continue
			case *ssa.Call:
				if mc, ok := x.Call.Value.(*ssa.MakeClosure); ok {
					if cf, ok := mc.Fn.(*ssa.Function); ok && cf.Parent() != nil && !report {
						la.callSite[cf] = append(la.callSite[cf], s)
					}
				}
				if prm, ok := x.Call.Value.(*ssa.Parameter); ok && la.wrapper[fn] != 0 && prm.Parent() == fn {
					if report {
						c.Check(s.held == la.wrapper[fn] && !s.bad, la.rule, name, "wrapper-call", ins.Pos(), "the function handed in runs while "+s.String(), "the function handed to the lock wrapper runs while "+s.String()+": its accesses are not covered by the lock")
					}
					continue
				}
				if callee := staticCallee(&x.Call); callee != nil && recvNamed(callee) == la.named {
					if mode, isAcq := la.acquirer[callee]; isAcq {
						if report {
							switch {
							case s.held != 0:
								c.Bad(la.rule, name, "acquire", ins.Pos(), "lock helper "+callee.Name()+" called while already "+s.String()+": self-deadlock")
							case s.released:
								c.Bad(la.rule, name, "acquire", ins.Pos(), "second critical section in one operation: the operation is not atomic")
							case helper:
								c.Bad(la.rule, name, "acquire", ins.Pos(), "helper entered with the lock held acquires it again")
							default:
								c.OK(la.rule, name, "acquire", ins.Pos(), callee.Name()+" opens the operation's single critical section")
							}
						}
						s.held = mode
						continue
					}
					if la.locksIn[callee] {
						if report && s.held != 0 {
							c.Bad(la.rule, name, "reentry:"+callee.Name(), ins.Pos(), "calls lock-taking method "+callee.Name()+" while "+s.String()+": self-deadlock")
						}
					} else if !report {
						la.callSite[callee] = append(la.callSite[callee], s)
					}
				}
			}
			need, what := la.access(ins)
			if need == 0 {
				continue
			}
			if report {
				key := name + "|" + []string{"", "read", "write"}[need] + ":" + what
				a := la.agg[key]
				if a == nil {
					a = &accAgg{fn: name, what: []string{"", "read", "write"}[need] + ":" + what, pos: instrPos(ins), need: need}
					la.agg[key] = a
				}
				a.n++
				c.Sites++
				if s.held < need || s.bad {
					a.bad = append(a.bad, fmt.Sprintf("%s while %s", c.P.Pos(instrPos(ins)), s.String()))
				}
			}
		}
		return s
	}
	// fixpoint
	work := []*ssa.BasicBlock{fn.Blocks[0]}
	out := map[*ssa.BasicBlock]lkState{}
	for len(work) > 0 {
		b := work[0]
		work = work[1:]
		o := transfer(b, in[b])
		if prev, ok := out[b]; ok && prev == o {
			continue
		}
		out[b] = o
		for _, s := range b.Succs {
			if !reach[s] {
				continue
			}
			if !has[s] {
				has[s] = true
				in[s] = o
				work = append(work, s)
				continue
			}
			merged := in[s]
			if merged.held != o.held || merged.deferred != o.deferred {
				merged.bad = true
			}
			merged.released = merged.released || o.released
			merged.bad = merged.bad || o.bad
			if merged != in[s] {
				in[s] = merged
				work = append(work, s)
			}
		}
	}
	report = true
	for _, b := range fn.Blocks {
		if reach[b] && has[b] {
			transfer(b, in[b])
		}
	}
}

// findPayload: when the methods of the cache insert a POINTER to a repository struct as the Value of a
// list element (an entry object holding key and value), that struct's fields are guarded state too.
func (la *lockAnalysis) findPayload() {
	la.payload = map[*types.Named]bool{}
	for _, fn := range la.c.P.Funcs {
		if fn.Blocks == nil {
			continue
		}
		for _, b := range fn.Blocks {
			for _, ins := range b.Instrs {
				call, ok := ins.(*ssa.Call)
				if !ok {
					continue
				}
				nm := calleeName(&call.Call)
				if !strings.HasPrefix(nm, "(*container/list.List).Push") && !strings.HasPrefix(nm, "(*container/list.List).Insert") {
					continue
				}
				args := callArgs(&call.Call)
				if len(args) < 2 {
					continue
				}
				v := args[1]
				if mi, ok := v.(*ssa.MakeInterface); ok {
					v = mi.X
				}
				if pt, ok := v.Type().Underlying().(*types.Pointer); ok {
					if n := namedOf(pt.Elem()); n != nil && n.Obj().Pkg() != nil && strings.HasPrefix(n.Obj().Pkg().Path(), ModPath) {
						if _, isStruct := n.Underlying().(*types.Struct); isStruct {
							la.payload[n] = true
						}
					}
				}
			}
		}
	}
}
