package engine

import (
	"fmt"
	"go/token"
	"go/types"
	"strings"

	"golang.org/x/tools/go/ssa"
)

// clauseProducers: functions that (transitively, through static calls) construct a clause
// or call a rule function indirectly.
func clauseProducers(p *Prog) map[*ssa.Function]bool {
	direct := map[*ssa.Function]bool{}
	for _, fn := range p.Funcs {
		for _, b := range fn.Blocks {
			for _, ins := range b.Instrs {
				call, ok := ins.(ssa.CallInstruction)
				if !ok {
					continue
				}
				cc := call.Common()
				n := calleeName(cc)
				if n == "valid.GetJoinValidErrStr" || n == "valid.GetJoinFieldErr" {
					direct[fn] = true
				}
				if !cc.IsInvoke() && staticCallee(cc) == nil {
					if _, isB := cc.Value.(*ssa.Builtin); !isB && isCommonValidFn(cc.Value.Type()) {
						direct[fn] = true
					}
				}
			}
		}
	}
	// transitive closure over static calls
	for changed := true; changed; {
		changed = false
		for _, fn := range p.Funcs {
			if direct[fn] {
				continue
			}
			for _, b := range fn.Blocks {
				for _, ins := range b.Instrs {
					if call, ok := ins.(ssa.CallInstruction); ok {
						if c := staticCallee(call.Common()); c != nil && direct[c] {
							direct[fn] = true
							changed = true
						}
					}
				}
			}
		}
	}
	return direct
}

func validEntries(p *Prog) []*ssa.Function {
	var out []*ssa.Function
	for _, w := range findWalkers(p) {
		if rn := recvNamed(w.Fn); rn != nil {
			if m := p.Method("valid", rn.Obj().Name(), "Valid"); m != nil {
				out = append(out, m)
			}
		}
	}
	return out
}

func runC02Loop(c *Ctx) {
	p := c.P
	c.Rule("C02-LOOP", "every loop on the validation path whose body can produce a clause (walker loops over fields, entries, elements, rule items, groups) leaves only through its header: no break, return, goto or panic in the body, so one failure never ends the walk", 9)
	runShiftWidth(c, "C02-LOOP")
	runCounterBalance(c, "C02-LOOP")
	prod := clauseProducers(p)
	// functions on the validation path, excluding what is only reachable through rule functions
	inRule := map[*ssa.Function]bool{}
	if reg, _, err := registryTable(p); err == nil {
		for _, e := range reg {
			if e.Fn != nil {
				for f := range reachableFrom(e.Fn) {
					inRule[f] = true
				}
			}
		}
	} else {
		c.Unk("C02-LOOP", "-", "anchor", token.NoPos, err.Error())
		return
	}
	entries := validEntries(p)
	if len(entries) < 4 {
		c.Unk("C02-LOOP", "-", "anchor", token.NoPos, fmt.Sprintf("expected 4 Valid entry points, found %d", len(entries)))
	}
	onPath := map[*ssa.Function]bool{}
	for _, e := range entries {
		for f := range reachableFrom(e) {
			if !inRule[f] && f.Pkg != nil && Rel(f.Pkg.Pkg.Path()) == "valid" {
				onPath[f] = true
			}
		}
	}
	// getError and group evaluation are reached from Valid already
	var fns []*ssa.Function
	for _, f := range p.Funcs {
		if onPath[f] {
			fns = append(fns, f)
		}
	}
	for _, fn := range fns {
		loops := naturalLoops(fn)
		li := 0
		for _, l := range loops {
			// reporting loop?
			reporting := false
			for b := range l.Body {
				for _, ins := range b.Instrs {
					call, ok := ins.(ssa.CallInstruction)
					if !ok {
						continue
					}
					cc := call.Common()
					if callee := staticCallee(cc); callee != nil && prod[callee] {
						reporting = true
					}
					if n := calleeName(cc); n == "valid.GetJoinValidErrStr" || n == "valid.GetJoinFieldErr" {
						reporting = true
					}
					if !cc.IsInvoke() && staticCallee(cc) == nil {
						if _, isB := cc.Value.(*ssa.Builtin); !isB && isCommonValidFn(cc.Value.Type()) {
							reporting = true
						}
					}
				}
			}
			if !reporting {
				continue
			}
			li++
			c.Funcs[fnName(fn)] = true
			c.Sites++
			var bad []string
			for _, e := range l.exitEdges() {
				if e[0] != l.Header {
					what := "leaves the loop"
					if len(e[1].Succs) == 0 && len(e[1].Instrs) > 0 {
						switch e[1].Instrs[len(e[1].Instrs)-1].(type) {
						case *ssa.Return:
							what = "returns"
						case *ssa.Panic:
							what = "panics"
						}
					}
					bad = append(bad, fmt.Sprintf("control %s from inside the body at %s", what, p.Pos(firstPos(e[0]))))
				}
			}
			pos := firstPos(l.Header)
			disc := fmt.Sprintf("loop%d:%s", li, l.Header.Comment)
			c.Check(len(bad) == 0, "C02-LOOP", fnName(fn), disc, pos, "exits only through its header", strings.Join(bad, "; "))
		}
	}
}

func firstPos(b *ssa.BasicBlock) token.Pos {
	for _, ins := range b.Instrs {
		if ins.Pos().IsValid() {
			return ins.Pos()
		}
	}
	for _, ins := range b.Instrs {
		if p := instrPos(ins); p.IsValid() {
			return p
		}
	}
	return b.Parent().Pos()
}

// runC02Mat: error materialisation in every getError.
func runC02Mat(c *Ctx) {
	p := c.P
	c.Rule("C02-MAT", "each getError: cross-field groups are evaluated before the emptiness test; nil is returned only when the buffer is empty; otherwise errors.New(strings.TrimSuffix(buffer text, separator)); every Valid path that walked ends in getError", 8)
	wl := runWalkLayers(p)
	groupTypes := map[string]bool{}
	for _, we := range walkEvents(wl, "group") {
		if rn := recvNamed(we.Run.Fn); rn != nil {
			groupTypes[rn.Obj().Name()] = true
		}
	}
	for _, fn := range p.Funcs {
		if fn.Name() != "getError" || fn.Signature.Recv() == nil || Rel(fn.Pkg.Pkg.Path()) != "valid" {
			continue
		}
		c.Funcs[fnName(fn)] = true
		rn := recvNamed(fn)
		var lenCall, groupCall *ssa.Call
		for _, b := range fn.Blocks {
			for _, ins := range b.Instrs {
				if call, ok := ins.(*ssa.Call); ok {
					switch calleeName(&call.Call) {
					case "(*strings.Builder).Len":
						lenCall = call
					case "(*valid.validCommon).valid":
						groupCall = call
					}
				}
			}
		}
		name := fnName(fn)
		body := fn // the function holding the emptiness test and the returns
		var lenSite ssa.Instruction
		if lenCall != nil {
			lenSite = lenCall
		}
		if lenCall == nil {
			// the materialisation may have been extracted into a helper that getError tail-calls
			// with the buffer: return helper(v.errBuf)
			for _, b := range fn.Blocks {
				for _, ins := range b.Instrs {
					call, ok := ins.(*ssa.Call)
					if !ok {
						continue
					}
					h := staticCallee(&call.Call)
					if h == nil || h.Pkg != fn.Pkg || h.Object() == nil || h.Object().Exported() || len(h.Params) != 1 {
						continue
					}
					if pt, ok := h.Params[0].Type().(*types.Pointer); !ok || !isNamed(pt.Elem(), "strings", "Builder") {
						continue
					}
					for _, hb := range h.Blocks {
						for _, hi := range hb.Instrs {
							if lc, ok := hi.(*ssa.Call); ok && calleeName(&lc.Call) == "(*strings.Builder).Len" && lc.Call.Args[0] == h.Params[0] {
								lenCall, body, lenSite = lc, h, call
							}
						}
					}
				}
			}
			if body != fn {
				c.Funcs[fnName(body)] = true
				// getError must return what the helper returns
				okTail := false
				for _, b := range fn.Blocks {
					if ret, ok := b.Instrs[len(b.Instrs)-1].(*ssa.Return); ok && b != fn.Recover && len(ret.Results) == 1 {
						if throughResultCell(ret.Results[0], b) == ssa.Value(lenSite.(*ssa.Call)) {
							okTail = true
						}
					}
				}
				if !okTail {
					lenCall = nil
				}
			}
		}
		if lenCall == nil {
			// the probe may be the text itself: msg := buf.String(); if msg == "" { return nil }
			for _, b := range fn.Blocks {
				for _, ins := range b.Instrs {
					call, ok := ins.(*ssa.Call)
					if !ok || calleeName(&call.Call) != "(*strings.Builder).String" {
						continue
					}
					for _, r := range refs(call) {
						if bin, ok := r.(*ssa.BinOp); ok && (bin.Op == token.EQL || bin.Op == token.NEQ) && isEmptinessConst(bin.Y) {
							lenCall, lenSite = call, call
						}
					}
				}
			}
		}
		if lenCall == nil {
			c.Unk("C02-MAT", name, "empty-test", fn.Pos(), "no emptiness test of the error buffer found")
			continue
		}
		if rn != nil && groupTypes[rn.Obj().Name()] {
			ok := groupCall != nil && (groupCall.Block().Dominates(lenSite.Block()) && (groupCall.Block() != lenSite.Block() || indexIn(groupCall) < indexIn(lenSite)))
			c.Check(ok, "C02-MAT", name, "groups-first", lenCall.Pos(), "group evaluation dominates the emptiness test", "the walker registers either/botheq members but getError does not evaluate the groups before testing the buffer for emptiness: group clauses are lost")
		}
		// returns
		for _, b := range body.Blocks {
			if !reachableBlocks(body)[b] {
				continue
			}
			ret, ok := b.Instrs[len(b.Instrs)-1].(*ssa.Return)
			if !ok || b == body.Recover {
				continue
			}
			c.Sites++
			disc := fmt.Sprintf("return@%s", b.Comment)
			// the candidates for the returned value, each with the edge (pred -> at) it arrives through;
			// pred == nil: decided in block `at` itself
			type cand struct {
				v        ssa.Value
				pred, at *ssa.BasicBlock
			}
			var cands []cand
			v := throughResultCell(ret.Results[0], b)
			switch x := v.(type) {
			case *ssa.Phi:
				for i, e := range x.Edges {
					cands = append(cands, cand{e, x.Block().Preds[i], x.Block()})
				}
			case *ssa.UnOp:
				// named result spilled into a cell (deferred release): every store to the cell, plus the zero
				// value on the paths without a store
				al, isAl := x.X.(*ssa.Alloc)
				if x.Op == token.MUL && isAl {
					var storeBlocks []*ssa.BasicBlock
					for _, r := range refs(al) {
						if st, ok := r.(*ssa.Store); ok && st.Addr == ssa.Value(al) {
							if ld, ok := st.Val.(*ssa.UnOp); ok && ld.Op == token.MUL && ld.X == ssa.Value(al) {
								continue // `return err` with a named result err: the cell is assigned its own value
							}
							cands = append(cands, cand{st.Val, nil, st.Block()})
							storeBlocks = append(storeBlocks, st.Block())
						}
					}
					// the implicit nil: the non-empty side must not reach the return without a store
					okNil := len(storeBlocks) > 0
					for _, s := range nonEmptySuccs(lenCall) {
						reached := false
						seen := map[*ssa.BasicBlock]bool{}
						var walk func(q *ssa.BasicBlock)
						walk = func(q *ssa.BasicBlock) {
							if seen[q] || reached {
								return
							}
							seen[q] = true
							for _, sb := range storeBlocks {
								if sb == q {
									return
								}
							}
							if q == b {
								reached = true
								return
							}
							for _, n := range q.Succs {
								walk(n)
							}
						}
						walk(s)
						if reached {
							okNil = false
						}
					}
					c.Check(okNil, "C02-MAT", name, disc+":nil", ret.Pos(), "the result stays nil only on the 'buffer is empty' side", "the named result can stay nil on a path where the buffer may hold clauses")
				} else {
					cands = append(cands, cand{v, nil, b})
				}
			default:
				cands = append(cands, cand{v, nil, b})
			}
			for ci, cd := range cands {
				v := cd.v
				implies := func(want bool) bool {
					if cd.pred != nil {
						return edgeImpliesEdge(lenCall, cd.pred, cd.at, want)
					}
					return edgeImplies(lenCall, cd.at, want)
				}
				d := disc
				if len(cands) > 1 {
					d = fmt.Sprintf("%s#%d", disc, ci)
				}
				if isNilConst(v) {
					c.Check(implies(true), "C02-MAT", name, d+":nil", ret.Pos(), "nil returned only on the 'buffer is empty' edge", "nil is returned on a path where the buffer may hold clauses")
					continue
				}
				okShape := false
				detail := "returned error is not errors.New(strings.TrimSuffix(buffer.String(), separator))"
				if mi, isMI := v.(*ssa.MakeInterface); isMI {
					v = mi.X
				}
				if call, isCall := v.(*ssa.Call); isCall && calleeName(&call.Call) == "errors.New" {
					if trimmedBufferText(call.Call.Args[0]) {
						okShape = true
						detail = "errors.New(strings.TrimSuffix(buf.String(), ErrEndFlag))"
					}
				}
				c.Check(okShape && implies(false), "C02-MAT", name, d+":error", ret.Pos(), detail, detail+" or the error is returned on the 'buffer is empty' edge")
			}
		}
	}
	// every Valid trace that called a walker ends by returning getError's result
	for _, r := range wl.Runs {
		if r.Fn.Name() != "Valid" {
			continue
		}
		bad, n := 0, 0
		for _, t := range r.Traces {
			if t.Cut != "" || t.Panic != "" || t.Converged {
				continue
			}
			walked, last := false, ""
			for _, e := range t.Events {
				if e.Kind == "call" {
					nm, _ := isCstStr(e.Args[0])
					if strings.HasSuffix(nm, ".validate") {
						walked = true
					}
					last = nm
				}
			}
			if !walked {
				continue
			}
			n++
			if !strings.HasSuffix(last, ".getError") || t.Ret == nil || !strings.Contains(keyOf(t.Ret), "getError") {
				bad++
			}
		}
		c.Check(bad == 0 && n > 0, "C02-MAT", fnName(r.Fn), "ends-in-getError", r.Fn.Pos(), fmt.Sprintf("%d walking paths all return getError()", n), fmt.Sprintf("%d of %d walking paths do not return the materialised error", bad, n))
	}
}

// isEmptinessConst: the constant an emptiness probe is compared with: 0 for Len(), "" for String().
func isEmptinessConst(v ssa.Value) bool {
	if k, ok := constInt(v); ok && k == 0 {
		return true
	}
	if s, ok := constString(v); ok && s == "" {
		return true
	}
	return false
}

// trimmedBufferText: v is the buffer's text with one trailing separator removed, spelt either
// strings.TrimSuffix(buf.String(), ErrEndFlag) or, written out, φ(s, s[:len(s)-len(sep)]) where the cut
// arrives from the true side of strings.HasSuffix(s, sep) (s = buf.String(), sep = ErrEndFlag).
func trimmedBufferText(v ssa.Value) bool {
	isBufText := func(x ssa.Value) bool {
		c, ok := x.(*ssa.Call)
		return ok && calleeName(&c.Call) == "(*strings.Builder).String"
	}
	isSep := func(x ssa.Value) bool {
		u, ok := x.(*ssa.UnOp)
		if !ok {
			return false
		}
		g, ok := u.X.(*ssa.Global)
		return ok && g.Name() == "ErrEndFlag"
	}
	if ts, ok := v.(*ssa.Call); ok && calleeName(&ts.Call) == "strings.TrimSuffix" {
		return isBufText(ts.Call.Args[0]) && isSep(ts.Call.Args[1])
	}
	ph, ok := v.(*ssa.Phi)
	if !ok || len(ph.Edges) != 2 {
		return false
	}
	for i, e := range ph.Edges {
		sl, ok := e.(*ssa.Slice)
		other := ph.Edges[1-i]
		if !ok || sl.X != other || !isBufText(other) || sl.Low != nil || sl.High == nil {
			continue
		}
		// high = len(s) - len(sep)
		sub, ok := sl.High.(*ssa.BinOp)
		if !ok || sub.Op != token.SUB {
			continue
		}
		lx, ok1 := sub.X.(*ssa.Call)
		ly, ok2 := sub.Y.(*ssa.Call)
		if !ok1 || !ok2 || calleeName(&lx.Call) != "builtin.len" || calleeName(&ly.Call) != "builtin.len" || lx.Call.Args[0] != other || !isSep(ly.Call.Args[0]) {
			continue
		}
		// the cut is made on the true side of HasSuffix(s, sep): pred of the phi edge i is (dominated by) that side
		pred := ph.Block().Preds[i]
		for d := pred; d != nil; d = d.Idom() {
			if len(d.Preds) != 1 {
				continue
			}
			iff, ok := d.Preds[0].Instrs[len(d.Preds[0].Instrs)-1].(*ssa.If)
			if !ok || d.Preds[0].Succs[0] != d {
				continue
			}
			hs, ok := iff.Cond.(*ssa.Call)
			if ok && calleeName(&hs.Call) == "strings.HasSuffix" && hs.Call.Args[0] == other && isSep(hs.Call.Args[1]) {
				return true
			}
		}
	}
	return false
}

func indexIn(ins ssa.Instruction) int {
	for i, x := range ins.Block().Instrs {
		if x == ins {
			return i
		}
	}
	return -1
}

// throughResultCell: `return *t0` where t0 is the spilled result cell: find the unique
// store to t0 in the same block.
func throughResultCell(v ssa.Value, b *ssa.BasicBlock) ssa.Value {
	u, ok := v.(*ssa.UnOp)
	if !ok || u.Op != token.MUL {
		return v
	}
	al, ok := u.X.(*ssa.Alloc)
	if !ok {
		return v
	}
	var last ssa.Value
	for _, ins := range b.Instrs {
		if st, ok := ins.(*ssa.Store); ok && st.Addr == al {
			last = st.Val
		}
	}
	if last != nil {
		return last
	}
	return v
}

// nonEmptySuccs: the successor blocks entered when the buffer was found non-empty.
func nonEmptySuccs(lenCall *ssa.Call) []*ssa.BasicBlock {
	var out []*ssa.BasicBlock
	for _, r := range refs(lenCall) {
		bin, ok := r.(*ssa.BinOp)
		if !ok {
			continue
		}
		if !isEmptinessConst(bin.Y) {
			continue
		}
		for _, r2 := range refs(bin) {
			iff, ok := r2.(*ssa.If)
			if !ok {
				continue
			}
			switch bin.Op {
			case token.EQL:
				out = append(out, iff.Block().Succs[1])
			case token.NEQ, token.GTR:
				out = append(out, iff.Block().Succs[0])
			}
		}
	}
	return out
}

// edgeImpliesEdge: like edgeImplies for a value that arrives through the edge pred -> at (a phi operand).
func edgeImpliesEdge(lenCall *ssa.Call, pred, at *ssa.BasicBlock, want bool) bool {
	if edgeImplies(lenCall, pred, want) {
		return true
	}
	// pred is the testing block itself and `at` is its successor on the wanted side
	for _, r := range refs(lenCall) {
		bin, ok := r.(*ssa.BinOp)
		if !ok {
			continue
		}
		if !isEmptinessConst(bin.Y) {
			continue
		}
		for _, r2 := range refs(bin) {
			iff, ok := r2.(*ssa.If)
			if !ok || iff.Block() != pred {
				continue
			}
			var emptySucc, nonEmptySucc *ssa.BasicBlock
			switch bin.Op {
			case token.EQL:
				emptySucc, nonEmptySucc = pred.Succs[0], pred.Succs[1]
			case token.NEQ, token.GTR:
				emptySucc, nonEmptySucc = pred.Succs[1], pred.Succs[0]
			default:
				continue
			}
			if emptySucc == nonEmptySucc {
				continue
			}
			if want && emptySucc == at {
				return true
			}
			if !want && nonEmptySucc == at {
				return true
			}
		}
	}
	return false
}

// edgeImplies: block b is only reachable through the edge on which `lenCall == 0` is
// `want` (true: buffer empty).
func edgeImplies(lenCall *ssa.Call, b *ssa.BasicBlock, want bool) bool {
	for _, r := range refs(lenCall) {
		bin, ok := r.(*ssa.BinOp)
		if !ok {
			continue
		}
		if !isEmptinessConst(bin.Y) {
			continue
		}
		for _, r2 := range refs(bin) {
			iff, ok := r2.(*ssa.If)
			if !ok {
				continue
			}
			blk := iff.Block()
			var emptySucc, nonEmptySucc *ssa.BasicBlock
			switch bin.Op {
			case token.EQL:
				emptySucc, nonEmptySucc = blk.Succs[0], blk.Succs[1]
			case token.NEQ, token.GTR:
				emptySucc, nonEmptySucc = blk.Succs[1], blk.Succs[0]
			default:
				continue
			}
			s := nonEmptySucc
			if want {
				s = emptySucc
			}
			if len(s.Preds) == 1 && s.Dominates(b) {
				return true
			}
		}
	}
	return false
}

// runShiftWidth: a set of fields / elements / kinds kept as bits of an integer (`mask & (1 << i)`) holds
// only as many members as the integer is wide: for i >= 64 the shift yields 0, the test is silently false
// and every field from the 65th on is skipped (never validated, never overridden, never dumped). Every
// shift by a non-constant count must be dominated by a test that bounds the count below the width of the
// shifted type.
func runShiftWidth(c *Ctx, rule string) {
	p := c.P
	var bad []string
	n := 0
	for _, fn := range p.Funcs {
		if fn.Pkg == nil || !strings.HasPrefix(fn.Pkg.Pkg.Path(), ModPath) {
			continue
		}
		for _, b := range fn.Blocks {
			for _, ins := range b.Instrs {
				bo, ok := ins.(*ssa.BinOp)
				if !ok || bo.Op != token.SHL {
					continue
				}
				if _, isC := constInt(bo.Y); isC {
					continue
				}
				n++
				width := int64(64)
				if bt, ok := bo.Type().Underlying().(*types.Basic); ok {
					switch bt.Kind() {
					case types.Int8, types.Uint8:
						width = 8
					case types.Int16, types.Uint16:
						width = 16
					case types.Int32, types.Uint32:
						width = 32
					case types.Int, types.Uint, types.Uintptr:
						width = 32 // the narrowest platform
					}
				}
				count := bo.Y
				if cv, ok := count.(*ssa.Convert); ok {
					count = cv.X
				}
				bounded := false
				for d := b; d != nil && !bounded; d = d.Idom() {
					for _, pr := range d.Preds {
						if len(d.Preds) != 1 {
							break
						}
						iff, ok := pr.Instrs[len(pr.Instrs)-1].(*ssa.If)
						if !ok {
							continue
						}
						cmp, ok := iff.Cond.(*ssa.BinOp)
						if !ok {
							continue
						}
						onTrue := pr.Succs[0] == d
						x, y := cmp.X, cmp.Y
						if cv, ok := x.(*ssa.Convert); ok {
							x = cv.X
						}
						if cv, ok := y.(*ssa.Convert); ok {
							y = cv.X
						}
						// count < K / count <= K on the true edge, or count >= K / count > K on the false edge
						if k, isK := constInt(y); isK && x == count {
							switch {
							case cmp.Op == token.LSS && onTrue && k <= width,
								cmp.Op == token.LEQ && onTrue && k < width,
								cmp.Op == token.GEQ && !onTrue && k <= width,
								cmp.Op == token.GTR && !onTrue && k < width:
								bounded = true
							}
						}
						if k, isK := constInt(x); isK && y == count {
							switch {
							case cmp.Op == token.GTR && onTrue && k <= width,
								cmp.Op == token.GEQ && onTrue && k < width,
								cmp.Op == token.LEQ && !onTrue && k <= width,
								cmp.Op == token.LSS && !onTrue && k < width:
								bounded = true
							}
						}
					}
				}
				if !bounded {
					bad = append(bad, fmt.Sprintf("%s: %s shifts by a count that is not bounded below the %d bits of the shifted value (%s): a bit set indexed by a field/element number loses every member from the %dth on — those fields are silently skipped", p.Pos(bo.Pos()), fnName(fn), width, bo.Y.Name(), width+1))
				}
			}
		}
	}
	c.Sites += n
	c.Check(len(bad) == 0, rule, "repo", "bit-index-width", token.NoPos, fmt.Sprintf("%d shifts by a non-constant count, each bounded below the width of the shifted value", n), uniqJoin(bad, 3))
}

// runCounterBalance: a counter kept in a field of the validator and stepped up on entry and down on exit
// of a function (a nesting-depth guard, a pending-work count) must be balanced on EVERY path to a return:
// an early return that skips the decrement leaks one level per visit, and after enough scalar elements
// every later nested object is refused or skipped although it is not deep at all.
func runCounterBalance(c *Ctx, rule string) {
	p := c.P
	var bad []string
	n := 0
	for _, fn := range p.Funcs {
		if fn.Pkg == nil || !strings.HasPrefix(fn.Pkg.Pkg.Path(), ModPath) || fn.Blocks == nil || fn.Signature.Recv() == nil || len(fn.Params) == 0 {
			continue
		}
		recv := ssa.Value(fn.Params[0])
		type step struct {
			field int
			delta int
		}
		steps := map[ssa.Instruction]step{}
		ups, downs := map[int]bool{}, map[int]bool{}
		for _, b := range fn.Blocks {
			for _, ins := range b.Instrs {
				st, ok := ins.(*ssa.Store)
				if !ok {
					continue
				}
				fa, ok := st.Addr.(*ssa.FieldAddr)
				if !ok || fa.X != recv {
					continue
				}
				bo, ok := st.Val.(*ssa.BinOp)
				if !ok || (bo.Op != token.ADD && bo.Op != token.SUB) {
					continue
				}
				k, isK := constInt(bo.Y)
				ld, isLd := bo.X.(*ssa.UnOp)
				if !isK || !isLd || ld.Op != token.MUL || k <= 0 || k > 4 {
					continue
				}
				fa2, ok := ld.X.(*ssa.FieldAddr)
				if !ok || fa2.X != recv || fa2.Field != fa.Field {
					continue
				}
				d := int(k)
				if bo.Op == token.SUB {
					d = -d
					downs[fa.Field] = true
				} else {
					ups[fa.Field] = true
				}
				steps[ins] = step{fa.Field, d}
			}
		}
		for f := range ups {
			if !downs[f] {
				continue
			}
			n++
			// possible net changes at block entry
			in := map[*ssa.BasicBlock]map[int]bool{fn.Blocks[0]: {0: true}}
			work := []*ssa.BasicBlock{fn.Blocks[0]}
			out := func(b *ssa.BasicBlock) map[int]bool {
				cur := map[int]bool{}
				for d := range in[b] {
					cur[d] = true
				}
				for _, ins := range b.Instrs {
					if s, ok := steps[ins]; ok && s.field == f {
						nx := map[int]bool{}
						for d := range cur {
							if v := d + s.delta; v >= -6 && v <= 6 {
								nx[v] = true
							}
						}
						cur = nx
					}
				}
				return cur
			}
			for steps2 := 0; len(work) > 0 && steps2 < 4000; steps2++ {
				b := work[0]
				work = work[1:]
				o := out(b)
				for _, s := range b.Succs {
					if in[s] == nil {
						in[s] = map[int]bool{}
					}
					grew := false
					for d := range o {
						if !in[s][d] {
							in[s][d] = true
							grew = true
						}
					}
					if grew {
						work = append(work, s)
					}
				}
			}
			st := namedOf(recv.Type()).Underlying().(*types.Struct)
			for _, b := range fn.Blocks {
				if ret, ok := b.Instrs[len(b.Instrs)-1].(*ssa.Return); ok && in[b] != nil {
					for d := range out(b) {
						if d != 0 {
							bad = append(bad, fmt.Sprintf("%s: %s returns with the counter %s changed by %+d: it is stepped up on entry and down on the normal exit, but this return skips the decrement — every visit through it leaks one level, and after enough of them later nested objects are refused or skipped", p.Pos(ret.Pos()), fnName(fn), st.Field(f).Name(), d))
						}
					}
				}
			}
		}
	}
	c.Sites += n
	c.Check(len(bad) == 0, rule, "repo", "counter-balance", token.NoPos, fmt.Sprintf("%d entry/exit counters, each balanced on every path to a return", n), uniqJoin(bad, 3))
}
