package engine

func runC02Loop(c *Ctx) {}
func runC02Mat(c *Ctx)  {}
