package engine

import (
	"go/token"
	"go/types"

	"golang.org/x/tools/go/ssa"
)

// runExemptType: the walkers and the dumper treat exactly one struct type specially — time.Time
// (fields of that type carry no inner rules and are judged/rendered as a whole). They recognise it by
// comparing a reflect.Type with the package-level timeReflectType, so that variable must denote
// time.Time itself: reflect.TypeOf(<a time.Time value>) or reflect.TypeOf(<*time.Time>).Elem(). The
// type of *time.Time, or of another type, silently moves the exemption (a nil *time.Time under
// required is then skipped, a time.Time field is descended into).
func runExemptType(c *Ctx, rule string) {
	p := c.P
	c.Rule(rule, "timeReflectType, the one type the walkers exempt from descent, denotes time.Time: initialised once, in package initialisation, from reflect.TypeOf of a time.Time value (or TypeOf(*time.Time).Elem())", 1)
	g := p.Global("valid", "timeReflectType")
	if g == nil {
		c.Unk(rule, "valid.timeReflectType", "anchor", token.NoPos, "exempt-type variable not found")
		return
	}
	isTime := func(t types.Type, ptr bool) bool {
		if ptr {
			pt, ok := t.Underlying().(*types.Pointer)
			if !ok {
				return false
			}
			t = pt.Elem()
		}
		n, ok := t.(*types.Named)
		return ok && n.Obj().Pkg() != nil && n.Obj().Pkg().Path() == "time" && n.Obj().Name() == "Time"
	}
	var stores []*ssa.Store
	for _, fn := range p.Funcs {
		for _, b := range fn.Blocks {
			for _, ins := range b.Instrs {
				if st, ok := ins.(*ssa.Store); ok && st.Addr == ssa.Value(g) {
					stores = append(stores, st)
				}
			}
		}
	}
	if sp := p.Pkg("valid"); sp != nil {
		if ini := sp.Func("init"); ini != nil {
			for _, b := range ini.Blocks {
				for _, ins := range b.Instrs {
					if st, ok := ins.(*ssa.Store); ok && st.Addr == ssa.Value(g) {
						dup := false
						for _, s := range stores {
							dup = dup || s == st
						}
						if !dup {
							stores = append(stores, st)
						}
					}
				}
			}
		}
	}
	c.Sites += len(stores)
	if len(stores) != 1 {
		c.Bad(rule, "valid.timeReflectType", "denotes-time.Time", g.Pos(), "the exempt type is assigned in other than exactly one place")
		return
	}
	st := stores[0]
	if st.Parent().Name() != "init" {
		c.Bad(rule, "valid.timeReflectType", "denotes-time.Time", st.Pos(), "the exempt type is assigned outside package initialisation (in "+fnName(st.Parent())+")")
		return
	}
	typeOfArg := func(v ssa.Value) (types.Type, bool) {
		call, ok := v.(*ssa.Call)
		if !ok || calleeName(&call.Call) != "reflect.TypeOf" {
			return nil, false
		}
		mi, ok := call.Call.Args[0].(*ssa.MakeInterface)
		if !ok {
			return nil, false
		}
		return mi.X.Type(), true
	}
	ok := false
	how := ""
	if t, isTO := typeOfArg(st.Val); isTO {
		ok, how = isTime(t, false), "reflect.TypeOf of a "+t.String()+" value"
	} else if call, isCall := st.Val.(*ssa.Call); isCall && call.Call.IsInvoke() && call.Call.Method.Name() == "Elem" {
		if t, isTO := typeOfArg(call.Call.Value); isTO {
			ok, how = isTime(t, true), "reflect.TypeOf("+t.String()+").Elem()"
		}
	}
	if how == "" {
		how = "not reflect.TypeOf of a value / reflect.TypeOf(pointer).Elem()"
	}
	c.Check(ok, rule, "valid.timeReflectType", "denotes-time.Time", st.Pos(), how, "the exempt type is "+how+", not time.Time: the walkers skip (and the dumper special-cases) a different type than documented")
}
