package engine

import (
	"fmt"
	"go/token"
	"go/types"
	"sort"
	"strings"

	"golang.org/x/tools/go/ssa"
)

// Rules about the plumbing in front of the anchored mechanisms: the exported package-level entry
// points of package valid (the facade) only build a validator object, configure it with their
// parameters and hand the value over. The statements of the properties are about what a CALL of an
// entry point returns, so a parameter that is dropped on the way (a tag name not forwarded, a rule
// set not installed) breaks them although every anchored function is intact.

// facadeFuncs: exported package-level functions of package valid that obtain a validator object
// from one of the constructors or run a validator's Valid method (directly or through a sibling entry
// point; helpers introduced later are inlined before analysis).
func facadeFuncs(p *Prog) []*ssa.Function {
	pkg := p.Pkg("valid")
	if pkg == nil {
		return nil
	}
	ctors := map[*ssa.Function]bool{}
	for _, n := range []string{"NewVStruct", "NewVMap", "NewVVar", "NewVUrl"} {
		if f := pkg.Func(n); f != nil {
			ctors[f] = true
		}
	}
	var out []*ssa.Function
	in := map[*ssa.Function]bool{}
	// directly, or through a sibling entry point (a wrapper that calls another wrapper)
	for changed := true; changed; {
		changed = false
		for _, fn := range p.Funcs {
			if fn.Pkg != pkg || fn.Parent() != nil || fn.Signature.Recv() != nil || fn.Object() == nil || !fn.Object().Exported() || ctors[fn] || in[fn] {
				continue
			}
			uses := false
			for _, b := range fn.Blocks {
				for _, ins := range b.Instrs {
					if call, ok := ins.(ssa.CallInstruction); ok {
						if sc := staticCallee(call.Common()); sc != nil && (ctors[sc] || in[sc] || (sc.Pkg == pkg && sc.Name() == "Valid" && sc.Signature.Recv() != nil)) {
							uses = true
						}
					}
				}
			}
			if uses {
				in[fn] = true
				out = append(out, fn)
				changed = true
			}
		}
	}
	sort.Slice(out, func(i, j int) bool { return fnName(out[i]) < fnName(out[j]) })
	return out
}

// derivedFrom: the values computed from root by projections and conversions only.
func derivedFrom(root ssa.Value) map[ssa.Value]bool {
	set := map[ssa.Value]bool{root: true}
	work := []ssa.Value{root}
	for len(work) > 0 {
		v := work[len(work)-1]
		work = work[:len(work)-1]
		rs := v.Referrers()
		if rs == nil {
			continue
		}
		for _, r := range *rs {
			var nv ssa.Value
			switch x := r.(type) {
			case *ssa.IndexAddr:
				if x.X == v {
					nv = x
				}
			case *ssa.Index:
				if x.X == v {
					nv = x
				}
			case *ssa.Lookup:
				if x.X == v {
					nv = x
				}
			case *ssa.Slice:
				if x.X == v {
					nv = x
				}
			case *ssa.UnOp:
				if x.Op == token.MUL {
					if _, isIA := v.(*ssa.IndexAddr); isIA {
						nv = x
					}
				}
			case *ssa.ChangeType:
				nv = x
			case *ssa.Convert:
				nv = x
			case *ssa.MakeInterface:
				nv = x
			case *ssa.ChangeInterface:
				nv = x
			case *ssa.Extract:
				nv = x
			case *ssa.Range:
				nv = x
			case *ssa.Next:
				nv = x
			case *ssa.Phi:
				nv = x
			}
			if nv != nil && !set[nv] {
				set[nv] = true
				work = append(work, nv)
			}
		}
	}
	return set
}

// consumes: the instruction hands a value of the set on (call argument, stored value, map update,
// iteration), as opposed to merely measuring it (len, cap, comparison with nil).
func consumes(ins ssa.Instruction, set map[ssa.Value]bool) bool {
	switch x := ins.(type) {
	case ssa.CallInstruction:
		cc := x.Common()
		if b, ok := cc.Value.(*ssa.Builtin); ok && (b.Name() == "len" || b.Name() == "cap") {
			return false
		}
		for _, a := range cc.Args {
			if set[a] {
				return true
			}
		}
		// variadic pass-through / single values packed into a fresh slice: the slot store below counts
	case *ssa.Store:
		return set[x.Val]
	case *ssa.MapUpdate:
		return set[x.Key] || set[x.Value]
	case *ssa.Range:
		return set[x.X]
	case *ssa.Return:
		for _, r := range x.Results {
			if set[r] {
				return true
			}
		}
	}
	return false
}

// runFacadeForward: rule <prop>-FORWARD.
func runFacadeForward(c *Ctx, rule string) {
	p := c.P
	c.Rule(rule, "every exported entry point hands each of its parameters on: on every path from entry to a return the parameter (or a projection of it) is passed to a call, stored or iterated, unless the path leaves through the 'empty' edge of a test of that very parameter", 25)
	fns := facadeFuncs(p)
	if len(fns) < 10 {
		c.Unk(rule, "valid", "anchor", token.NoPos, fmt.Sprintf("expected at least 10 exported entry points that build a validator object, found %d", len(fns)))
	}
	for _, fn := range fns {
		c.Funcs[fnName(fn)] = true
		for _, prm := range fn.Params {
			c.Sites++
			set := derivedFrom(prm)
			good := map[*ssa.BasicBlock]bool{}
			for _, b := range fn.Blocks {
				for _, ins := range b.Instrs {
					if consumes(ins, set) {
						good[b] = true
					}
				}
			}
			// search a path entry -> return that avoids every consuming block and every 'empty' edge
			// path search with the boolean flags merged from constants remembered along the path (a flag set
			// together with the parameter's projection on the branch that found it non-empty)
			type at struct {
				b, from *ssa.BasicBlock
				env     string
			}
			seen := map[at]bool{}
			var leak *ssa.BasicBlock
			var dfs func(b, from *ssa.BasicBlock, env map[*ssa.Phi]bool)
			envKey := func(env map[*ssa.Phi]bool) string {
				var ks []string
				for p, v := range env {
					ks = append(ks, fmt.Sprintf("%s=%v", p.Name(), v))
				}
				sort.Strings(ks)
				return strings.Join(ks, ",")
			}
			dfs = func(b, from *ssa.BasicBlock, env map[*ssa.Phi]bool) {
				if leak != nil || good[b] {
					return
				}
				// flags decided by the edge we came through
				if from != nil {
					var upd map[*ssa.Phi]bool
					for _, ins := range b.Instrs {
						phi, ok := ins.(*ssa.Phi)
						if !ok {
							break
						}
						for i, p := range b.Preds {
							if p != from {
								continue
							}
							if upd == nil {
								upd = map[*ssa.Phi]bool{}
								for k, v := range env {
									upd[k] = v
								}
							}
							if k, isK := constBool(phi.Edges[i]); isK {
								upd[phi] = k
							} else {
								delete(upd, phi)
							}
						}
					}
					if upd != nil {
						env = upd
					}
				}
				key := at{b, from, envKey(env)}
				if seen[key] {
					return
				}
				seen[key] = true
				last := b.Instrs[len(b.Instrs)-1]
				if _, isRet := last.(*ssa.Return); isRet {
					leak = b
					return
				}
				if iff, ok := last.(*ssa.If); ok {
					if es, ok := lenTest(iff, func(v ssa.Value) bool { return set[v] }); ok {
						dfs(b.Succs[1-es], b, env)
						return
					}
					k, isK := constBool(iff.Cond)
					if phi, isPhi := iff.Cond.(*ssa.Phi); isPhi {
						k, isK = env[phi]
					}
					if isK {
						if k {
							dfs(b.Succs[0], b, env)
						} else {
							dfs(b.Succs[1], b, env)
						}
						return
					}
				}
				for _, s := range b.Succs {
					dfs(s, b, env)
				}
			}
			if len(fn.Blocks) > 0 {
				dfs(fn.Blocks[0], nil, map[*ssa.Phi]bool{})
			}
			c.Check(leak == nil, rule, fnName(fn), "param:"+prm.Name(), prm.Pos(), "handed on (or tested empty) on every path",
				func() string {
					if leak == nil {
						return ""
					}
					return "parameter " + prm.Name() + " of " + fn.Name() + " is dropped on a path that returns at " + p.Pos(instrPos(leak.Instrs[len(leak.Instrs)-1])) + ": the call is carried out as if the caller had not passed it (e.g. the default tag name or no rule set is used instead)"
				}())
		}
	}
}

// runSrcSink: rule <prop>-NILTYPE. The value to validate may be nil (or hold nil elements). It may be
// handed to reflect.ValueOf (total) and to the Valid methods (which test it), but reflect.TypeOf of a
// nil interface value is a nil Type, and any method invoked on that panics. The rule follows the value
// from the entry points through in-repo calls (variadic packing included) and reports a method invoked
// on the Type derived from it without a dominating nil test.
func runSrcSink(c *Ctx, rule string) {
	p := c.P
	c.Rule(rule, "the value to validate never reaches reflect.TypeOf(...) followed by a method call on the resulting (possibly nil) Type without a nil test; it is only handed to Valid, reflect.ValueOf and total library functions", 1)
	type key struct {
		fn   *ssa.Function
		idx  int
		kind int // 0: the possibly-nil interface value itself, 1: a slice/array holding it, 2: the possibly-nil reflect.Type
	}
	var work []key
	seen := map[key]bool{}
	push := func(k key) {
		if !seen[k] {
			seen[k] = true
			work = append(work, k)
		}
	}
	nsrc := 0
	for _, fn := range facadeFuncs(p) {
		// the src role: the parameter handed to a Valid method
		for i, prm := range fn.Params {
			if _, isIface := prm.Type().Underlying().(*types.Interface); !isIface {
				continue
			}
			set := derivedFrom(prm)
			isSrc := false
			for _, b := range fn.Blocks {
				for _, ins := range b.Instrs {
					if call, ok := ins.(ssa.CallInstruction); ok {
						if sc := staticCallee(call.Common()); sc != nil && sc.Name() == "Valid" && sc.Signature.Recv() != nil {
							args := call.Common().Args
							if len(args) == 2 && set[args[1]] {
								isSrc = true
							}
						}
					}
				}
			}
			if isSrc {
				nsrc++
				push(key{fn, i, 0})
			}
		}
	}
	if nsrc < 10 {
		c.Unk(rule, "valid", "anchor", token.NoPos, fmt.Sprintf("expected at least 10 entry points with a value-to-validate parameter, found %d", nsrc))
	}
	nilTested := func(v ssa.Value, at *ssa.BasicBlock) bool { return inRegion(v, at, false) }
	var bad []string
	flows := 0
	for len(work) > 0 {
		k := work[len(work)-1]
		work = work[:len(work)-1]
		if k.idx >= len(k.fn.Params) || len(k.fn.Blocks) == 0 {
			continue
		}
		flows++
		c.Funcs[fnName(k.fn)] = true
		// local propagation
		val := map[ssa.Value]int{k.fn.Params[k.idx]: k.kind}
		changed := true
		for changed {
			changed = false
			set := func(v ssa.Value, kind int) {
				if _, ok := val[v]; !ok {
					val[v] = kind
					changed = true
				}
			}
			for _, b := range k.fn.Blocks {
				for _, ins := range b.Instrs {
					switch x := ins.(type) {
					case *ssa.MakeInterface:
						if kd, ok := val[x.X]; ok {
							set(x, kd)
						}
					case *ssa.ChangeInterface:
						if kd, ok := val[x.X]; ok {
							set(x, kd)
						}
					case *ssa.ChangeType:
						if kd, ok := val[x.X]; ok {
							set(x, kd)
						}
					case *ssa.Phi:
						for _, e := range x.Edges {
							if kd, ok := val[e]; ok {
								set(x, kd)
							}
						}
					case *ssa.Store:
						if kd, ok := val[x.Val]; ok && kd != 1 {
							if ia, isIA := x.Addr.(*ssa.IndexAddr); isIA {
								set(ia.X, 1) // the array/slice now holds it
							}
						}
					case *ssa.Slice:
						if kd, ok := val[x.X]; ok && kd == 1 {
							set(x, 1)
						}
					case *ssa.UnOp:
						if x.Op == token.MUL {
							if ia, isIA := x.X.(*ssa.IndexAddr); isIA {
								if kd, ok := val[ia.X]; ok && kd == 1 {
									if _, isI := x.Type().Underlying().(*types.Interface); isI {
										set(x, 0)
									}
								}
							}
						}
					case *ssa.Call:
						if calleeName(&x.Call) == "reflect.TypeOf" && len(x.Call.Args) == 1 {
							if kd, ok := val[x.Call.Args[0]]; ok && kd == 0 && !nilTested(x.Call.Args[0], b) {
								set(x, 2)
							}
						}
					}
				}
			}
		}
		for _, b := range k.fn.Blocks {
			for _, ins := range b.Instrs {
				call, ok := ins.(ssa.CallInstruction)
				if !ok {
					continue
				}
				cc := call.Common()
				if cc.IsInvoke() {
					if kd, ok := val[cc.Value]; ok && kd == 2 && !nilTested(cc.Value, b) {
						bad = append(bad, fmt.Sprintf("%s: method %s is invoked on the reflect.Type of the value to validate, which is a nil Type when that value is nil (e.g. Struct(nil, rule)): nil-pointer panic instead of an error", p.Pos(instrPos(ins)), cc.Method.Name()))
					}
					continue
				}
				sc := staticCallee(cc)
				if sc == nil || len(sc.Blocks) == 0 || !strings.HasPrefix(fnName(sc), "valid.") && !strings.HasPrefix(fnName(sc), "(*valid.") && !strings.HasPrefix(fnName(sc), "(valid.") {
					continue
				}
				for i, a := range cc.Args {
					if kd, ok := val[a]; ok {
						if kd == 0 && nilTested(a, b) {
							continue
						}
						push(key{sc, i, kd})
					}
				}
			}
		}
	}
	c.Sites += flows
	c.Check(len(bad) == 0 && flows >= nsrc, rule, "valid", "flows", token.NoPos, fmt.Sprintf("%d (function, parameter) flows of the value to validate followed from %d entry points", flows, nsrc), uniqJoin(bad, 3))
}

// inRegion: block `at` can only be reached through the edge of some test of v (len(v) against 0/1, or v
// against nil) on which v is empty/nil (wantEmpty) or non-empty/non-nil (!wantEmpty).
func inRegion(v ssa.Value, at *ssa.BasicBlock, wantEmpty bool) bool {
	fn := at.Parent()
	for _, b := range fn.Blocks {
		iff, ok := b.Instrs[len(b.Instrs)-1].(*ssa.If)
		if !ok {
			continue
		}
		es, ok := lenTest(iff, func(x ssa.Value) bool { return x == v })
		if !ok {
			continue
		}
		want, other := b.Succs[1-es], b.Succs[es]
		if wantEmpty {
			want, other = other, want
		}
		if want == other {
			continue
		}
		if len(want.Preds) == 1 && want.Dominates(at) {
			return true
		}
		if b.Dominates(at) && at != b && !blockReaches(other, at, b) {
			return true
		}
	}
	return false
}

// blockReaches: `to` is reachable from `from` without passing through `avoid`.
func blockReaches(from, to, avoid *ssa.BasicBlock) bool {
	seen := map[*ssa.BasicBlock]bool{avoid: true}
	var dfs func(b *ssa.BasicBlock) bool
	dfs = func(b *ssa.BasicBlock) bool {
		if b == to {
			return true
		}
		if seen[b] {
			return false
		}
		seen[b] = true
		for _, s := range b.Succs {
			if dfs(s) {
				return true
			}
		}
		return false
	}
	return dfs(from)
}

// runErrPair: rule <prop>-ERRPAIR. A call that returns (pointer-or-interface, error) gives a nil first
// result when the error is set; the first result may be dereferenced only where the error is known nil.
func runErrPair(c *Ctx, rule string) {
	p := c.P
	c.Rule(rule, "the pointer/interface result of a call that also returns an error is dereferenced only where that error was found nil (or the result itself non-nil)", 1)
	for _, fn := range p.Funcs {
		if fn.Pkg == nil || !strings.HasPrefix(Rel(fn.Pkg.Pkg.Path()), "valid") {
			continue
		}
		for _, b := range fn.Blocks {
			for _, ins := range b.Instrs {
				call, ok := ins.(*ssa.Call)
				if !ok {
					continue
				}
				tup, ok := call.Type().(*types.Tuple)
				if !ok || tup.Len() != 2 || !isErrorType(tup.At(1).Type()) {
					continue
				}
				switch tup.At(0).Type().Underlying().(type) {
				case *types.Pointer, *types.Interface:
				default:
					continue
				}
				var res, errv ssa.Value
				for _, r := range refs(call) {
					if ex, ok := r.(*ssa.Extract); ok {
						if ex.Index == 0 {
							res = ex
						} else {
							errv = ex
						}
					}
				}
				if res == nil {
					continue
				}
				c.Funcs[fnName(fn)] = true
				var bad []string
				n := 0
				for _, r := range refs(res) {
					deref := false
					switch x := r.(type) {
					case ssa.CallInstruction:
						cc := x.Common()
						if cc.IsInvoke() && cc.Value == res {
							deref = true
						} else if sc := staticCallee(cc); sc != nil && sc.Signature.Recv() != nil && len(cc.Args) > 0 && cc.Args[0] == res {
							deref = true
						}
					case *ssa.FieldAddr:
						deref = x.X == res
					case *ssa.UnOp:
						deref = x.Op == token.MUL && x.X == res
					}
					if !deref {
						continue
					}
					n++
					if (errv != nil && inRegion(errv, r.Block(), true)) || inRegion(res, r.Block(), false) {
						continue
					}
					bad = append(bad, fmt.Sprintf("%s: the result of %s is used although the error returned with it may be set: it is nil then (nil dereference instead of an error clause)", p.Pos(instrPos(r)), calleeName(&call.Call)))
				}
				if n > 0 {
					c.Sites++
					c.Check(len(bad) == 0, rule, fnName(fn), "result:"+calleeName(&call.Call), call.Pos(), fmt.Sprintf("%d dereference(s) behind the error test", n), uniqJoin(bad, 2))
				}
			}
		}
	}
}

func isErrorType(t types.Type) bool {
	n, ok := t.(*types.Named)
	return ok && n.Obj().Pkg() == nil && n.Obj().Name() == "error"
}

// runInitGlobal: rule <prop>-INITGLOBAL. A package-level pointer / interface / func variable that is
// dereferenced on a validation path must be non-nil by then: it is assigned a non-nil value in the
// package initialiser, or the use is dominated by a Do of a sync.Once that is consumed at no other
// place and whose function assigns it.
func runInitGlobal(c *Ctx, rule string) {
	p := c.P
	c.Rule(rule, "every package-level pointer/interface/func variable dereferenced outside init is assigned a non-nil value by the package initialiser, or lazily under a sync.Once used for nothing else and executed before the use", 5)
	pkg := p.Pkg("valid")
	if pkg == nil {
		c.Unk(rule, "valid", "anchor", token.NoPos, "package valid not loaded")
		return
	}
	nonNil := func(v ssa.Value) bool {
		switch x := unwrapChange(v).(type) {
		case *ssa.Const:
			return !x.IsNil()
		case *ssa.Alloc, *ssa.MakeMap, *ssa.MakeInterface, *ssa.MakeClosure, *ssa.Function, *ssa.MakeSlice, *ssa.MakeChan:
			return true
		case *ssa.Call:
			return true // constructors (regexp.MustCompile, NewLRU, ...) return non-nil
		}
		return false
	}
	initStores := map[*ssa.Global]bool{}
	storesIn := map[*ssa.Function]map[*ssa.Global]bool{}
	onceDo := map[*ssa.Global][]*ssa.Call{}
	for _, fn := range p.Funcs {
		for _, b := range fn.Blocks {
			for _, ins := range b.Instrs {
				switch x := ins.(type) {
				case *ssa.Store:
					if g, ok := x.Addr.(*ssa.Global); ok && nonNil(x.Val) {
						if fn.Name() == "init" && fn.Pkg != nil && fn.Parent() == nil {
							initStores[g] = true
						}
						if storesIn[fn] == nil {
							storesIn[fn] = map[*ssa.Global]bool{}
						}
						storesIn[fn][g] = true
					}
				case *ssa.Call:
					if calleeName(&x.Call) == "(*sync.Once).Do" && len(x.Call.Args) == 2 {
						if g, ok := x.Call.Args[0].(*ssa.Global); ok {
							onceDo[g] = append(onceDo[g], x)
						}
					}
				}
			}
		}
	}
	type use struct {
		g   *ssa.Global
		at  ssa.Instruction
		fn  *ssa.Function
		why string
	}
	var uses []use
	for _, fn := range p.Funcs {
		if fn.Pkg != pkg || (fn.Name() == "init" && fn.Parent() == nil) {
			continue
		}
		for _, b := range fn.Blocks {
			for _, ins := range b.Instrs {
				ld, ok := ins.(*ssa.UnOp)
				if !ok || ld.Op != token.MUL {
					continue
				}
				g, ok := ld.X.(*ssa.Global)
				if !ok || g.Pkg != pkg {
					continue
				}
				switch g.Type().(*types.Pointer).Elem().Underlying().(type) {
				case *types.Pointer, *types.Interface, *types.Signature:
				default:
					continue
				}
				for _, r := range refs(ld) {
					switch x := r.(type) {
					case ssa.CallInstruction:
						cc := x.Common()
						switch {
						case cc.IsInvoke() && cc.Value == ld:
							uses = append(uses, use{g, r, fn, "method " + cc.Method.Name() + " invoked"})
						case !cc.IsInvoke() && cc.Value == ld:
							uses = append(uses, use{g, r, fn, "called"})
						case !cc.IsInvoke() && len(cc.Args) > 0 && cc.Args[0] == ld && staticCallee(cc) != nil && staticCallee(cc).Signature.Recv() != nil:
							uses = append(uses, use{g, r, fn, "method " + staticCallee(cc).Name() + " called"})
						}
					case *ssa.FieldAddr:
						if x.X == ld {
							uses = append(uses, use{g, r, fn, "field read"})
						}
					}
				}
			}
		}
	}
	per := map[*ssa.Global][]string{}
	cnt := map[*ssa.Global]int{}
	for _, u := range uses {
		cnt[u.g]++
		if initStores[u.g] {
			continue
		}
		if inRegionOfLoad(u) {
			continue
		}
		// lazily initialised under a dedicated Once that dominates the use
		ok := false
		why := "it is not assigned by the package initialiser"
		for og, dos := range onceDo {
			for _, do := range dos {
				if do.Parent() != u.fn || !(do.Block().Dominates(u.at.Block())) {
					continue
				}
				var clo *ssa.Function
				switch f := do.Call.Args[1].(type) {
				case *ssa.MakeClosure:
					clo, _ = f.Fn.(*ssa.Function)
				case *ssa.Function:
					clo = f
				}
				if clo == nil || !storesIn[clo][u.g] {
					continue
				}
				if len(dos) != 1 {
					var where []string
					for _, d := range dos {
						where = append(where, fnName(d.Parent()))
					}
					sort.Strings(where)
					why = "it is assigned lazily under " + og.Name() + ".Do, but that Once is consumed at " + fmt.Sprint(len(dos)) + " places (" + strings.Join(where, ", ") + "): whichever runs first leaves the other's initialisation undone for ever"
					continue
				}
				ok = true
			}
		}
		if !ok {
			per[u.g] = append(per[u.g], fmt.Sprintf("%s: %s on package variable %s, which may still be nil: %s", p.Pos(instrPos(u.at)), u.why, u.g.Name(), why))
		}
	}
	var gs []*ssa.Global
	for g := range cnt {
		gs = append(gs, g)
	}
	sort.Slice(gs, func(i, j int) bool { return gs[i].Name() < gs[j].Name() })
	for _, g := range gs {
		c.Sites++
		c.Check(len(per[g]) == 0, rule, fnNameGlobal(g), "initialised", g.Pos(), fmt.Sprintf("%d dereferencing use(s), variable non-nil at each", cnt[g]), uniqJoin(per[g], 2))
	}
}

// inRegionOfLoad: the loaded value itself is nil-tested before the use.
func inRegionOfLoad(u struct {
	g   *ssa.Global
	at  ssa.Instruction
	fn  *ssa.Function
	why string
}) bool {
	var ld ssa.Value
	switch x := u.at.(type) {
	case ssa.CallInstruction:
		cc := x.Common()
		if cc.IsInvoke() || len(cc.Args) == 0 {
			ld = cc.Value
		} else if cc.Value != nil {
			if _, isFn := cc.Value.(*ssa.Function); isFn {
				ld = cc.Args[0]
			} else {
				ld = cc.Value
			}
		}
	case *ssa.FieldAddr:
		ld = x.X
	}
	return ld != nil && inRegion(ld, u.at.Block(), false)
}

// runUnits: rule <prop>-UNITS. Positions and lengths of text come in two units: byte offsets (len of a
// string / []byte, the strings.Index family, token.Pos arithmetic) and rune counts (utf8.RuneCount*,
// len of a []rune). Comparing or combining the two, or slicing bytes with a rune count, is right for
// ASCII text only; the properties quantify over non-ASCII text as well.
func runUnits(c *Ctx, rule string, pkgs ...string) {
	p := c.P
	c.Rule(rule, "byte offsets and rune counts are never compared, added or subtracted with one another, and bytes are never indexed or sliced with a rune count", 1)
	const (
		none  = 0
		bytes = 1
		runes = 2
		mixed = 3
	)
	names := map[int]string{bytes: "a byte offset/length", runes: "a rune count"}
	isBytesLike := func(t types.Type) bool {
		switch u := t.Underlying().(type) {
		case *types.Basic:
			return u.Info()&types.IsString != 0
		case *types.Slice:
			b, ok := u.Elem().Underlying().(*types.Basic)
			return ok && b.Kind() == types.Byte
		}
		return false
	}
	isRunes := func(t types.Type) bool {
		u, ok := t.Underlying().(*types.Slice)
		if !ok {
			return false
		}
		b, ok := u.Elem().Underlying().(*types.Basic)
		return ok && b.Kind() == types.Rune
	}
	total := 0
	for _, fn := range p.Funcs {
		if fn.Pkg == nil {
			continue
		}
		in := false
		for _, pk := range pkgs {
			if p.Pkg(pk) == fn.Pkg {
				in = true
			}
		}
		if !in {
			continue
		}
		memo := map[ssa.Value]int{}
		var unit func(v ssa.Value, d int) int
		unit = func(v ssa.Value, d int) int {
			if u, ok := memo[v]; ok {
				return u
			}
			if d > 12 {
				return none
			}
			memo[v] = none
			u := none
			switch x := v.(type) {
			case *ssa.Call:
				n := calleeName(&x.Call)
				switch {
				case n == "builtin.len" && len(x.Call.Args) == 1:
					if isBytesLike(x.Call.Args[0].Type()) {
						u = bytes
					} else if isRunes(x.Call.Args[0].Type()) {
						u = runes
					}
				case strings.HasPrefix(n, "strings.Index") || strings.HasPrefix(n, "strings.LastIndex") || strings.HasPrefix(n, "bytes.Index") || strings.HasPrefix(n, "bytes.LastIndex"):
					u = bytes
				case n == "unicode/utf8.RuneCountInString" || n == "unicode/utf8.RuneCount":
					u = runes
				}
			case *ssa.BinOp:
				if x.Op == token.ADD || x.Op == token.SUB {
					a, b := unit(x.X, d+1), unit(x.Y, d+1)
					switch {
					case a == none:
						u = b
					case b == none || a == b:
						u = a
					default:
						u = mixed
					}
				}
			case *ssa.Phi:
				for _, e := range x.Edges {
					eu := unit(e, d+1)
					if eu != none {
						if u == none || u == eu {
							u = eu
						} else {
							u = mixed
						}
					}
				}
			case *ssa.Convert:
				if b, ok := x.Type().Underlying().(*types.Basic); ok && b.Info()&types.IsInteger != 0 {
					u = unit(x.X, d+1)
				}
			}
			memo[v] = u
			return u
		}
		var bad []string
		n := 0
		for _, b := range fn.Blocks {
			for _, ins := range b.Instrs {
				switch x := ins.(type) {
				case *ssa.BinOp:
					switch x.Op {
					case token.EQL, token.NEQ, token.LSS, token.LEQ, token.GTR, token.GEQ, token.ADD, token.SUB:
						a, bu := unit(x.X, 0), unit(x.Y, 0)
						if a != none || bu != none {
							n++
						}
						if (a == bytes && bu == runes) || (a == runes && bu == bytes) {
							bad = append(bad, fmt.Sprintf("%s: %s is %s with %s (operator %s): equal only for ASCII text", p.Pos(instrPos(ins)), names[a], map[bool]string{true: "compared", false: "combined"}[x.Op != token.ADD && x.Op != token.SUB], names[bu], x.Op))
						}
					}
				case *ssa.Slice:
					if isBytesLike(x.X.Type()) {
						for _, idx := range []ssa.Value{x.Low, x.High} {
							if idx != nil {
								n++
								if unit(idx, 0) == runes {
									bad = append(bad, fmt.Sprintf("%s: text is sliced at a rune count: wrong position for non-ASCII text", p.Pos(instrPos(ins))))
								}
							}
						}
					}
				case *ssa.IndexAddr:
					if isBytesLike(x.X.Type()) && unit(x.Index, 0) == runes {
						bad = append(bad, fmt.Sprintf("%s: bytes are indexed with a rune count", p.Pos(instrPos(ins))))
					}
				case *ssa.Index:
					if isBytesLike(x.X.Type()) && unit(x.Index, 0) == runes {
						bad = append(bad, fmt.Sprintf("%s: a string is indexed with a rune count", p.Pos(instrPos(ins))))
					}
				}
			}
		}
		if n > 0 {
			total += n
			c.Funcs[fnName(fn)] = true
			c.Sites += n
			c.Check(len(bad) == 0, rule, fnName(fn), "units", fn.Pos(), fmt.Sprintf("%d position/length expression(s) in one unit each", n), uniqJoin(bad, 2))
		}
	}
	if total == 0 {
		c.Unk(rule, "-", "anchor", token.NoPos, "no position/length arithmetic found in "+strings.Join(pkgs, ", "))
	}
}
