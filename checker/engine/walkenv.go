package engine

import (
	"fmt"
	"go/constant"
	"go/token"
	"go/types"
	"reflect"
	"strings"

	"golang.org/x/tools/go/ssa"
)

// WalkEnv — models for interpreting the walkers and entry points: reflect.Values carry a
// KIND SET (subset of the 27 reflect kinds, Invalid included) that is refined by the tests
// the code performs (kind typestate, path-sensitive). Every reflect call is checked against
// its documented precondition for every kind still possible; a kind that violates it
// partitions the trace and ends in a reported panic.

const allKinds uint32 = (1 << 27) - 1
const validKinds uint32 = allKinds &^ 1

func kmask(ks ...reflect.Kind) uint32 {
	var m uint32
	for _, k := range ks {
		m |= 1 << uint(k)
	}
	return m
}

func kmaskNames(m uint32) string {
	if m == allKinds {
		return "any kind (Invalid included)"
	}
	if m == validKinds {
		return "any valid kind"
	}
	var ns []string
	for k := 0; k < 27; k++ {
		if m&(1<<uint(k)) != 0 {
			ns = append(ns, kindNames[k])
		}
	}
	if len(ns) > 8 {
		return fmt.Sprintf("%s… (%d kinds)", strings.Join(ns[:8], ","), len(ns))
	}
	return strings.Join(ns, ",")
}

var reflectNeedMask = func() map[string]uint32 {
	m := map[string]uint32{}
	for name, ks := range reflectNeeds {
		m[name] = kmask(ks...)
	}
	for _, n := range []string{"Type", "IsZero", "Interface", "CanInterface", "NumMethod", "Set", "Addr"} {
		m[n] = validKinds
	}
	// Equal (go1.20) panics when it has to compare two values of one non-comparable type: slices, maps
	// and functions always, structs/arrays/interfaces when something inside them is not comparable
	m["Equal"] = allKinds &^ kmask(reflect.Slice, reflect.Map, reflect.Func, reflect.Struct, reflect.Array, reflect.Interface)
	return m
}()

// reflect operations that cannot panic whatever they are applied to (everything else in package
// reflect either has a model with its precondition or is reported as undecided: fail closed).
var reflectNeverPanics = map[string]bool{
	"(reflect.Value).Kind": true, "(reflect.Value).IsValid": true, "(reflect.Value).String": true,
	"(reflect.Value).CanInterface": true, "(reflect.Value).CanAddr": true, "(reflect.Value).CanSet": true,
	"(reflect.Value).CanInt": true, "(reflect.Value).CanUint": true, "(reflect.Value).CanFloat": true, "(reflect.Value).CanComplex": true,
	"(reflect.Value).Comparable": true,
	"reflect.TypeOf":             true, "reflect.ValueOf": true, "reflect.Indirect": true, "reflect.DeepEqual": true,
	"(reflect.Kind).String":    true,
	"invoke:Kind@reflect.Type": true, "invoke:Name@reflect.Type": true, "invoke:String@reflect.Type": true, "invoke:PkgPath@reflect.Type": true,
	"invoke:Size@reflect.Type": true, "invoke:Comparable@reflect.Type": true, "invoke:NumMethod@reflect.Type": true,
	"(reflect.StructTag).Get": true, "(reflect.StructTag).Lookup": true,
	"(*reflect.MapIter).Next": true, "(*reflect.MapIter).Key": true, "(*reflect.MapIter).Value": true,
}

// reflectUnmodelled is the interpreter's Unmodelled hook of every client that decides totality: a call
// into package reflect that has neither a model nor a place in the never-panics list ends the partition
// undecided, naming the operation.
func reflectUnmodelled(in *Interp, site ssa.Instruction, name string, args []AVal) {
	isReflect := strings.HasPrefix(name, "reflect.") || strings.HasPrefix(name, "(reflect.") || strings.HasPrefix(name, "(*reflect.") || strings.HasSuffix(name, "@reflect.Type")
	if !isReflect || reflectNeverPanics[name] {
		return
	}
	in.cut("reflect operation " + name + " is not in the precondition table (it may panic for some kinds)")
}

var typeNeedMask = map[string]uint32{
	"Key":      kmask(reflect.Map),
	"Elem":     kmask(reflect.Array, reflect.Chan, reflect.Map, reflect.Ptr, reflect.Slice),
	"NumField": kmask(reflect.Struct),
	"Field":    kmask(reflect.Struct),
	"Len":      kmask(reflect.Array),
	"Bits": kmask(reflect.Int, reflect.Int8, reflect.Int16, reflect.Int32, reflect.Int64, reflect.Uint, reflect.Uint8, reflect.Uint16, reflect.Uint32, reflect.Uint64, reflect.Uintptr,
		reflect.Float32, reflect.Float64, reflect.Complex64, reflect.Complex128),
	"NumIn":  kmask(reflect.Func),
	"NumOut": kmask(reflect.Func),
}

// ReflectSite records what happened at one reflect call site.
type ReflectSite struct {
	Site    ssa.Instruction
	Method  string
	Reached int
	Panics  map[string]bool // descriptions of kinds that violate the precondition
}

type WalkEnv struct {
	In     *Interp
	kset   map[string]uint32
	Init   map[string]uint32 // initial kind sets of named symbols (entry assumptions)
	Suffix map[string]uint32 // initial kind sets by key suffix (values read back from fields)
	Sites  map[ssa.Instruction]*ReflectSite
	nextN  map[string]int
}

func NewWalkEnv(p *Prog) *WalkEnv {
	w := &WalkEnv{In: NewInterp(p), Init: map[string]uint32{}, Suffix: map[string]uint32{}, Sites: map[ssa.Instruction]*ReflectSite{}}
	w.In.MaybeNil = func(key string) bool { return strings.Contains(key, ".(*") }
	in := w.In
	in.ForgetAll = true
	in.EagerWiden = true
	in.Variant = func(key string) bool { return strings.Contains(key, ".MapRange()") || strings.Contains(key, "next:") }
	in.SnapshotPC = true
	in.Monitored = map[string]bool{}
	in.MaxLoop = 8
	in.ResetHook = func() {
		w.kset = map[string]uint32{}
		w.nextN = map[string]int{}
	}
	in.Unmodelled = reflectUnmodelled
	w.install()
	return w
}

// canonical key of the value whose kind a key denotes ("X.Type()" aliases X).
func kindKey(k string) string {
	for strings.HasSuffix(k, ".Type()") {
		k = strings.TrimSuffix(k, ".Type()")
	}
	return k
}

func (w *WalkEnv) get(key string) uint32 {
	key = kindKey(key)
	if m, ok := w.kset[key]; ok {
		return m
	}
	if m, ok := w.Init[key]; ok {
		return m
	}
	for suf, m := range w.Suffix {
		if strings.HasSuffix(key, suf) {
			return m
		}
	}
	// values obtained from a valid container are valid
	if strings.HasSuffix(key, ".Key()") || strings.HasSuffix(key, ".Value()") {
		return validKinds
	}
	if strings.HasSuffix(key, ")") {
		// find the "(" matching the final ")" and look at the method name before it
		depth := 0
		for i := len(key) - 1; i >= 0; i-- {
			switch key[i] {
			case ')':
				depth++
			case '(':
				depth--
			}
			if depth == 0 {
				if strings.HasSuffix(key[:i], ".Index") || strings.HasSuffix(key[:i], ".Field") {
					return validKinds
				}
				break
			}
		}
	}
	if strings.HasPrefix(key, "reflect.ValueOf(") {
		// the ValueOf expression itself (its closing parenthesis ends the key), not something derived from it:
		// reflect.ValueOf(p).Elem() of a nil pointer is the zero Value
		depth := 0
		for i := len("reflect.ValueOf"); i < len(key); i++ {
			switch key[i] {
			case '(':
				depth++
			case ')':
				depth--
			}
			if depth == 0 {
				if i == len(key)-1 {
					return validKinds
				}
				break
			}
		}
		if !strings.HasSuffix(key, ".Elem()") {
			return validKinds
		}
	}
	return allKinds
}

func (w *WalkEnv) set(key string, m uint32) {
	key = kindKey(key)
	old, had := w.kset[key]
	w.kset[key] = m
	w.In.Journal(key, func() {
		if had {
			w.kset[key] = old
		} else {
			delete(w.kset, key)
		}
	})
}

// split partitions the trace on "kind(key) ∈ mask" and refines; returns whether in mask.
func (w *WalkEnv) split(key string, mask uint32, label string) bool {
	cur := w.get(key)
	switch {
	case cur&mask == 0:
		return false
	case cur&^mask == 0:
		return true
	}
	// undecided: partition
	n := w.nextN["split:"+key+label]
	w.nextN["split:"+key+label] = n + 1
	atom := fmt.Sprintf("kind(%s)∈{%s}#%d", kindKey(key), label, n)
	if w.In.Choose(atom, 2) == 1 {
		w.set(key, cur&mask)
		return true
	}
	w.set(key, cur&^mask)
	return false
}

func (w *WalkEnv) site(at ssa.Instruction, method string) *ReflectSite {
	s := w.Sites[at]
	if s == nil {
		s = &ReflectSite{Site: at, Method: method, Panics: map[string]bool{}}
		w.Sites[at] = s
	}
	s.Reached++
	return s
}

// need enforces a precondition: kinds outside mask end the partition in a panic.
func (w *WalkEnv) need(at ssa.Instruction, key, method string, mask uint32) {
	s := w.site(at, method)
	cur := w.get(key)
	if cur&^mask == 0 {
		return
	}
	if !w.split(key, mask, "pre:"+method) {
		bad := kmaskNames(cur &^ mask)
		s.Panics[bad] = true
		w.In.Panics(at, "reflect %s on a value whose kind may be %s", method, bad)
	}
}

func (w *WalkEnv) install() {
	in := w.In
	for _, n := range []string{"valid.ToStr", "valid.newStrBuf", "valid.putStrBuf", "valid.StrEscape", "valid.GetJoinValidErrStr", "valid.GetJoinFieldErr"} {
		in.NoInline[n] = true
	}
	in.Models["(*strings.Builder).WriteString"] = func(in *Interp, site ssa.Instruction, cc *ssa.CallCommon, a []AVal) (AVal, bool) {
		in.Emit("write", site, a[0], a[1])
		return Tup{E: []AVal{Sym{K: "n", T: types.Typ[types.Int]}, Cst{}}}, true
	}
	for _, m := range []string{"WriteByte", "WriteRune"} {
		in.Models["(*strings.Builder)."+m] = func(in *Interp, site ssa.Instruction, cc *ssa.CallCommon, a []AVal) (AVal, bool) {
			in.Emit("write", site, a[0], a[1])
			return Tup{E: []AVal{Sym{K: "n", T: types.Typ[types.Int]}, Cst{}}}, true
		}
	}
	in.Models["valid.GetJoinValidErrStr"] = func(in *Interp, site ssa.Instruction, cc *ssa.CallCommon, a []AVal) (AVal, bool) {
		args := []AVal{a[0], a[1], a[2]}
		if len(a) > 3 {
			if o, ok := a[3].(Slc); ok {
				for i := o.Lo; i < o.Hi; i++ {
					args = append(args, in.load(Ptr{C: o.Arr.Elems[i]}, nil, site))
				}
			}
		}
		return Tok{Dom: "clause", Name: "valid", Args: args}, true
	}
	in.Models["valid.GetJoinFieldErr"] = func(in *Interp, site ssa.Instruction, cc *ssa.CallCommon, a []AVal) (AVal, bool) {
		return Tok{Dom: "clause", Name: "field", Args: a}, true
	}
	in.Models["errors.New"] = func(in *Interp, site ssa.Instruction, cc *ssa.CallCommon, a []AVal) (AVal, bool) {
		return Tok{Dom: "err", Name: "new", Args: a}, true // never nil
	}
	in.Models["fmt.Errorf"] = func(in *Interp, site ssa.Instruction, cc *ssa.CallCommon, a []AVal) (AVal, bool) {
		args := []AVal{a[0]}
		if len(a) > 1 {
			if o, ok := a[1].(Slc); ok {
				for i := o.Lo; i < o.Hi; i++ {
					args = append(args, in.load(Ptr{C: o.Arr.Elems[i]}, nil, site))
				}
			}
		}
		return Tok{Dom: "err", Name: "new", Args: args}, true // never nil
	}
	retype := func(cc *ssa.CallCommon) types.Type {
		r := cc.Signature().Results()
		if r.Len() == 1 {
			return r.At(0).Type()
		}
		return nil
	}
	// --- reflect.Value methods
	vmethods := []string{"Kind", "Type", "IsValid", "IsNil", "IsZero", "Len", "Index", "Elem", "Field", "NumField", "MapRange", "MapKeys", "MapIndex",
		"Interface", "String", "Int", "Uint", "Float", "Bool", "CanInterface", "Bytes", "Equal"}
	for _, m := range vmethods {
		m := m
		in.Models["(reflect.Value)."+m] = func(in *Interp, site ssa.Instruction, cc *ssa.CallCommon, a []AVal) (AVal, bool) {
			key := keyOf(a[0])
			if c, ok := a[0].(Cst); ok && c.V == nil && isReflectValue(c.T) {
				// the zero Value (reflect.Value{} / an unassigned variable): kind Invalid
				key = "reflect.Value{}"
				w.set(key, 1)
			}
			switch m {
			case "Kind":
				w.site(site, m)
				return Tok{Dom: "kindof", Name: kindKey(key)}, true
			case "IsValid":
				w.site(site, m)
				return cstBool(w.split(key, validKinds, "valid")), true
			case "String":
				w.site(site, m)
				return Sym{K: key + ".String()", T: types.Typ[types.String]}, true
			}
			if mask, ok := reflectNeedMask[m]; ok {
				w.need(site, key, m, mask)
			} else {
				w.site(site, m)
			}
			var ks []string
			for _, x := range a[1:] {
				ks = append(ks, keyOf(x))
			}
			rk := key + "." + m + "(" + strings.Join(ks, ", ") + ")"
			if m == "Elem" && w.get(key)&^kmask(reflect.Interface) == 0 {
				// the dynamic value of an interface is never itself of kind Interface
				w.set(rk, allKinds&^kmask(reflect.Interface))
			}
			switch m {
			case "IsZero":
				return Sym{K: "zero(" + key + ")", T: types.Typ[types.Bool]}, true
			case "IsNil":
				return Sym{K: "nil(" + key + ")", T: types.Typ[types.Bool]}, true
			case "Len":
				return Tok{Dom: "len", Name: key}, true
			case "Type":
				return Sym{K: key + ".Type()", T: retype(cc)}, true
			}
			return Sym{K: rk, T: retype(cc)}, true
		}
	}
	// --- addressability: Addr / UnsafeAddr panic on a value that is not addressable; the code's own
	// CanAddr() test (true edge) establishes it for that value
	in.Models["(reflect.Value).CanAddr"] = func(in *Interp, site ssa.Instruction, cc *ssa.CallCommon, a []AVal) (AVal, bool) {
		key := kindKey(keyOf(a[0]))
		w.site(site, "CanAddr")
		n := w.nextN["canaddr:"+key]
		w.nextN["canaddr:"+key] = n + 1
		if in.Choose(fmt.Sprintf("canaddr(%s)#%d", key, n), 2) == 1 {
			w.set("addressable:"+key, 1)
			return cstBool(true), true
		}
		return cstBool(false), true
	}
	for _, m := range []string{"Addr", "UnsafeAddr"} {
		m := m
		in.Models["(reflect.Value)."+m] = func(in *Interp, site ssa.Instruction, cc *ssa.CallCommon, a []AVal) (AVal, bool) {
			key := kindKey(keyOf(a[0]))
			s := w.site(site, m)
			if _, ok := w.kset["addressable:"+key]; !ok {
				s.Panics["not known to be addressable"] = true
				in.Panics(site, "reflect %s on a value that was not found addressable (no CanAddr test on this path)", m)
			}
			r := Sym{K: keyOf(a[0]) + "." + m + "()", T: cc.Signature().Results().At(0).Type()}
			if m == "Addr" {
				w.set(r.K, kmask(reflect.Ptr))
			}
			return r, true
		}
	}
	for _, m := range []string{"Pointer", "UnsafePointer"} {
		m := m
		in.Models["(reflect.Value)."+m] = func(in *Interp, site ssa.Instruction, cc *ssa.CallCommon, a []AVal) (AVal, bool) {
			w.need(site, keyOf(a[0]), m, kmask(reflect.Chan, reflect.Func, reflect.Map, reflect.Ptr, reflect.Slice, reflect.UnsafePointer))
			return Sym{K: keyOf(a[0]) + "." + m + "()", T: cc.Signature().Results().At(0).Type()}, true
		}
	}
	// --- reflect.Type methods (interface calls)
	for _, m := range []string{"Kind", "Key", "Elem", "NumField", "Field", "Name", "String", "PkgPath", "Len", "Bits"} {
		m := m
		in.Models["invoke:"+m+"@reflect.Type"] = func(in *Interp, site ssa.Instruction, cc *ssa.CallCommon, a []AVal) (AVal, bool) {
			key := keyOf(a[0])
			if c, ok := a[0].(Cst); ok && c.V == nil {
				w.site(site, "Type."+m).Panics["nil reflect.Type"] = true
				in.Panics(site, "method %s on a nil reflect.Type", m)
			}
			if m == "Kind" {
				w.site(site, "Type."+m)
				return Tok{Dom: "kindof", Name: kindKey(key)}, true
			}
			if mask, ok := typeNeedMask[m]; ok {
				w.need(site, key, "Type."+m, mask)
			} else {
				w.site(site, "Type."+m)
			}
			var ks []string
			for _, x := range a[1:] {
				ks = append(ks, keyOf(x))
			}
			return Sym{K: key + "." + m + "(" + strings.Join(ks, ", ") + ")", T: retype(cc)}, true
		}
	}
	in.Models["reflect.ValueOf"] = func(in *Interp, site ssa.Instruction, cc *ssa.CallCommon, a []AVal) (AVal, bool) {
		w.site(site, "ValueOf")
		switch x := a[0].(type) {
		case Cst:
			if x.V == nil {
				r := Sym{K: "reflect.ValueOf(nil)", T: retype(cc)}
				w.set(r.K, 1)
				return r, true
			}
		case Ifc:
			if isReflectValue(x.Dyn) {
				in.Emit("valueof-of-value", site, x.V)
			}
			r := Sym{K: "reflect.ValueOf(" + keyOf(x.V) + ")", T: retype(cc)}
			if b, ok := x.Dyn.Underlying().(*types.Basic); ok && b.Info()&types.IsString != 0 {
				w.set(r.K, kmask(reflect.String))
			}
			return r, true
		}
		key := keyOf(a[0])
		r := Sym{K: "reflect.ValueOf(" + key + ")", T: retype(cc)}
		if in.Choose("eq(nil,"+key+")", 2) == 1 { // nil interface: the zero Value
			w.set(r.K, 1)
		}
		return r, true
	}
	in.Models["reflect.Indirect"] = func(in *Interp, site ssa.Instruction, cc *ssa.CallCommon, a []AVal) (AVal, bool) {
		w.site(site, "Indirect")
		key := keyOf(a[0])
		if w.split(key, kmask(reflect.Ptr), "ptr") {
			return Sym{K: key + ".Elem()", T: retype(cc)}, true // may be Invalid (nil pointer)
		}
		return a[0], true
	}
	in.Models["reflect.TypeOf"] = func(in *Interp, site ssa.Instruction, cc *ssa.CallCommon, a []AVal) (AVal, bool) {
		return Sym{K: "reflect.TypeOf(" + keyOf(a[0]) + ")", T: retype(cc)}, true
	}
	in.Models["(*reflect.MapIter).Next"] = func(in *Interp, site ssa.Instruction, cc *ssa.CallCommon, a []AVal) (AVal, bool) {
		k := "next:" + keyOf(a[0])
		n := w.nextN[k]
		w.nextN[k] = n + 1
		return cstBool(in.Choose(fmt.Sprintf("%s#%d", k, n), 2) == 1), true
	}
	for _, m := range []string{"Key", "Value"} {
		m := m
		in.Models["(*reflect.MapIter)."+m] = func(in *Interp, site ssa.Instruction, cc *ssa.CallCommon, a []AVal) (AVal, bool) {
			return Sym{K: keyOf(a[0]) + "." + m + "()", T: retype(cc)}, true
		}
	}
	// a constant table indexed by a kind: partition the trace on the table's distinct values
	in.TableHook = func(in *Interp, idx AVal, valueOf func(k int64) (AVal, bool), zero AVal) (AVal, bool) {
		t, ok := idx.(Tok)
		if !ok || t.Dom != "kindof" {
			return nil, false
		}
		cur := w.get(t.Name)
		type class struct {
			v    AVal
			mask uint32
			none bool
		}
		var classes []*class
		byKey := map[string]*class{}
		for k := 0; k <= int(reflect.UnsafePointer); k++ {
			if cur&(1<<uint(k)) == 0 {
				continue
			}
			v, found := valueOf(int64(k))
			key := "∅"
			if found {
				key = keyOf(v)
			}
			c := byKey[key]
			if c == nil {
				c = &class{v: v, none: !found}
				byKey[key] = c
				classes = append(classes, c)
			}
			c.mask |= 1 << uint(k)
		}
		if len(classes) == 0 {
			return nil, false
		}
		for i, c := range classes {
			if i == len(classes)-1 || w.split(t.Name, c.mask, fmt.Sprintf("table:0x%x", c.mask)) {
				if c.none {
					if zero == nil {
						return nil, false // index outside the array: left to the ordinary (panicking) path
					}
					return zero, true
				}
				return c.v, true
			}
		}
		return nil, false
	}
	// kind comparisons and length-vs-zero comparisons
	in.BinHook = func(in *Interp, op token.Token, x, y AVal) (AVal, bool) {
		if op != token.EQL && op != token.NEQ && op != token.LSS && op != token.LEQ && op != token.GTR && op != token.GEQ {
			return nil, false
		}
		tx, okx := x.(Tok)
		ty, oky := y.(Tok)
		flip := map[token.Token]token.Token{token.LSS: token.GTR, token.GTR: token.LSS, token.LEQ: token.GEQ, token.GEQ: token.LEQ, token.EQL: token.EQL, token.NEQ: token.NEQ}
		if oky && !okx {
			tx, okx, x, y, op = ty, true, y, x, flip[op]
		}
		if !okx {
			return nil, false
		}
		c, isC := y.(Cst)
		switch tx.Dom {
		case "kindof":
			if isC && c.V != nil && (op == token.EQL || op == token.NEQ) {
				k, _ := constant.Int64Val(c.V)
				in2 := w.split(tx.Name, 1<<uint(k), kindNames[k])
				return cstBool(in2 == (op == token.EQL)), true
			}
			if isC && c.V != nil && c.V.Kind() == constant.Int {
				// ordered comparison with a kind constant: reflect.Kind is an ordered enumeration, the
				// comparison selects a contiguous range of kinds
				k, _ := constant.Int64Val(c.V)
				var mask uint32
				for j := int64(0); j <= int64(reflect.UnsafePointer); j++ {
					var in bool
					switch op {
					case token.LSS:
						in = j < k
					case token.LEQ:
						in = j <= k
					case token.GTR:
						in = j > k
					case token.GEQ:
						in = j >= k
					}
					if in {
						mask |= 1 << uint(j)
					}
				}
				label := fmt.Sprintf("%s%s", op.String(), kindNames[clampKind(k)])
				return cstBool(w.split(tx.Name, mask, label)), true
			}
			if ty2, ok := y.(Tok); ok && ty2.Dom == "kindof" && ty2.Name == tx.Name {
				return cstBool(op == token.EQL || op == token.LEQ || op == token.GEQ), true
			}
		case "len":
			if isC && c.V != nil && c.V.Kind() == constant.Int {
				v, _ := constant.Int64Val(c.V)
				// decide only the zero / non-zero question
				var wantZero, decidable bool
				switch {
				case v == 0 && op == token.EQL, v == 0 && op == token.LEQ, v == 1 && op == token.LSS:
					wantZero, decidable = true, true
				case v == 0 && op == token.NEQ, v == 0 && op == token.GTR, v == 1 && op == token.GEQ:
					wantZero, decidable = false, true
				case v == 0 && op == token.GEQ:
					return cstBool(true), true
				case v == 0 && op == token.LSS:
					return cstBool(false), true
				}
				if decidable {
					z := in.truth(Sym{K: "len0(" + tx.Name + ")"})
					return cstBool(z == wantZero), true
				}
			}
		}
		return nil, false
	}
}

// kind-switch support: the SSA compare chain compares the same Kind() result with several
// constants; each comparison refines the set, so later cases see the remaining kinds.

// KSnapshot returns the kind set currently associated with a key (for events).
func (w *WalkEnv) KSnapshot(key string) uint32 { return w.get(key) }

func clampKind(k int64) int {
	if k < 0 {
		return 0
	}
	if k > int64(reflect.UnsafePointer) {
		return int(reflect.UnsafePointer)
	}
	return int(k)
}
