package engine

import (
	"fmt"
	"go/token"
	"go/types"
	"strings"

	"golang.org/x/tools/go/ssa"
)

// MERGE rules (C06, C07): dataflow shape of the key-wise merge tagItems.override and of the
// tokeniser newTagItems. They decide necessary conditions of "a key already present keeps
// its position and takes the injected value; new keys are appended" and of idempotence:
//
//   keycmp   the match test compares the key of the receiver's element at the outer index
//            with the key of an element of the injected list (==), nothing else
//   once     every iteration over the receiver appends exactly one element to the result
//            (no path keeps the result unchanged = an existing key dropped; none appends two)
//   keep     the receiver's own element is appended only where no match was found
//   take     where a match was found the element appended is the injected list's element at
//            the matched index (the injected value wins, position kept)
//   remove   the matched element is removed from the remainder, so that it is not appended a
//            second time after the loop (a duplicate key; every further run grows the tag)
//   tail     result = append(merged, remainder...)
//
// The rule recognises the index-based nested-loop merge used by the repository (range or
// counted loops, found flag as an index with a sentinel). A merge written in another way
// (e.g. through a map of keys) is reported as undecided.

func elemOfVariadic(v ssa.Value) ssa.Value {
	// slice (new [1]T)[:] with one store to index 0 -> stored value
	sl, ok := v.(*ssa.Slice)
	if !ok {
		return nil
	}
	al, ok := sl.X.(*ssa.Alloc)
	if !ok {
		return nil
	}
	var stored ssa.Value
	n := 0
	for _, r := range refs(al) {
		ia, ok := r.(*ssa.IndexAddr)
		if !ok {
			continue
		}
		for _, rr := range refs(ia) {
			if st, ok := rr.(*ssa.Store); ok && st.Addr == ia {
				stored = st.Val
				n++
			}
		}
	}
	if n != 1 {
		return nil
	}
	return stored
}

// loadOfIndex: v = *(&X[i]) -> (X, i)
func loadOfIndex(v ssa.Value) (ssa.Value, ssa.Value, bool) {
	ld, ok := v.(*ssa.UnOp)
	if !ok || ld.Op != token.MUL {
		return nil, nil, false
	}
	// a range variable of struct type lives in a local: e := list[i] (one store), then *e
	if sv := soleStoreTo(ld.X); sv != nil {
		return loadOfIndex(sv)
	}
	ia, ok := ld.X.(*ssa.IndexAddr)
	if !ok {
		return nil, nil, false
	}
	return ia.X, ia.Index, true
}

// soleStoreTo: addr is a function-local cell written by exactly one store of a whole value and
// otherwise only read (loads, field reads): the value stored.
func soleStoreTo(addr ssa.Value) ssa.Value {
	al, ok := addr.(*ssa.Alloc)
	if !ok || al.Heap {
		return nil
	}
	var stored ssa.Value
	for _, r := range refs(al) {
		switch x := r.(type) {
		case *ssa.Store:
			if x.Addr != ssa.Value(al) || stored != nil {
				return nil
			}
			stored = x.Val
		case *ssa.UnOp:
			if x.Op != token.MUL {
				return nil
			}
		case *ssa.FieldAddr:
			for _, rr := range refs(x) {
				if u, ok := rr.(*ssa.UnOp); !ok || u.Op != token.MUL {
					return nil
				}
			}
		default:
			return nil
		}
	}
	return stored
}

// listRoots: the parameters / fresh literals a slice value derives from, through phis,
// type changes, reslicing and appends onto it (first operand only).
func listRoots(v ssa.Value, seen map[ssa.Value]bool, out map[string]bool) {
	if v == nil || seen[v] {
		return
	}
	seen[v] = true
	switch x := v.(type) {
	case *ssa.Parameter:
		out["param:"+x.Name()] = true
	case *ssa.ChangeType:
		listRoots(x.X, seen, out)
	case *ssa.Phi:
		for _, e := range x.Edges {
			listRoots(e, seen, out)
		}
	case *ssa.Slice:
		if al, ok := x.X.(*ssa.Alloc); ok {
			if arr, ok := al.Type().(*types.Pointer).Elem().Underlying().(*types.Array); ok && arr.Len() == 0 {
				out["fresh"] = true
				return
			}
			out["other"] = true
			return
		}
		listRoots(x.X, seen, out)
	case *ssa.Call:
		if calleeName(&x.Call) == "builtin.append" {
			listRoots(x.Call.Args[0], seen, out)
			return
		}
		out["other"] = true
	case *ssa.MakeSlice:
		out["fresh"] = true
	case *ssa.Const:
		if x.IsNil() {
			out["fresh"] = true
		} else {
			out["other"] = true
		}
	default:
		out["other"] = true
	}
}

func listRootsOf(v ssa.Value) map[string]bool {
	out := map[string]bool{}
	listRoots(v, map[ssa.Value]bool{}, out)
	return out
}

func onlyRoot(v ssa.Value, want string) bool {
	r := listRootsOf(v)
	return len(r) == 1 && r[want]
}

// edgeDominates: block b is dominated by the edge from->to (to has a single predecessor).
func edgeDominates(from, to, b *ssa.BasicBlock) bool {
	return len(to.Preds) == 1 && to.Preds[0] == from && to.Dominates(b)
}

func runMerge(c *Ctx, prop string) {
	p := c.P
	rule := prop + "-MERGE"
	c.Rule(rule, "override: match on key equality only; each existing key appended exactly once per iteration — its own element when unmatched, the injected element at the matched index otherwise; matched element removed from the remainder; result = merged ++ remainder. newTagItems: all rTags tokens, key = text before the first ':', value = text after it", 7)
	ov := p.Method("file", "tagItems", "override")
	if ov == nil {
		c.Unk(rule, "file.tagItems.override", "anchor", token.NoPos, "merge function not found")
		return
	}
	c.Funcs[fnName(ov)] = true
	fnm := fnName(ov)
	if len(ov.Params) != 2 {
		c.Unk(rule, fnm, "anchor", ov.Pos(), "unexpected signature")
		return
	}
	recvRoot, argRoot := "param:"+ov.Params[0].Name(), "param:"+ov.Params[1].Name()

	// ---- key comparison(s)
	type keyCmp struct {
		bin            *ssa.BinOp
		recvIdx, inIdx ssa.Value
	}
	var cmps []keyCmp
	var badCmp []string
	for _, b := range ov.Blocks {
		for _, ins := range b.Instrs {
			bo, ok := ins.(*ssa.BinOp)
			if !ok || (bo.Op != token.EQL && bo.Op != token.NEQ) {
				continue
			}
			side := func(v ssa.Value) (root string, idx ssa.Value, field string, ok bool) {
				// value form (for _, e := range list): field of a copy of list[idx]
				if fv, isF := v.(*ssa.Field); isF {
					if X, ix, okL := loadOfIndex(fv.X); okL {
						r := listRootsOf(X)
						if len(r) != 1 {
							return
						}
						for k := range r {
							root = k
						}
						return root, ix, fieldValName(fv), true
					}
					return
				}
				ld, isLd := v.(*ssa.UnOp)
				if !isLd || ld.Op != token.MUL {
					return
				}
				fa, isFa := ld.X.(*ssa.FieldAddr)
				if !isFa {
					return
				}
				if sv := soleStoreTo(fa.X); sv != nil {
					if X, ix, okL := loadOfIndex(sv); okL {
						r := listRootsOf(X)
						if len(r) != 1 {
							return
						}
						for k := range r {
							root = k
						}
						return root, ix, fieldAddrName(fa), true
					}
					return
				}
				ia, isIa := fa.X.(*ssa.IndexAddr)
				if !isIa {
					return
				}
				r := listRootsOf(ia.X)
				if len(r) != 1 {
					return
				}
				for k := range r {
					root = k
				}
				return root, ia.Index, fieldAddrName(fa), true
			}
			r1, i1, f1, ok1 := side(bo.X)
			r2, i2, f2, ok2 := side(bo.Y)
			if !ok1 || !ok2 {
				continue
			}
			c.Sites++
			if f1 != "key" || f2 != "key" {
				badCmp = append(badCmp, fmt.Sprintf("elements are matched on %s/%s, not on their keys, at %s", f1, f2, p.Pos(bo.Pos())))
				continue
			}
			switch {
			case r1 == recvRoot && r2 == argRoot:
				cmps = append(cmps, keyCmp{bo, i1, i2})
			case r2 == recvRoot && r1 == argRoot:
				cmps = append(cmps, keyCmp{bo, i2, i1})
			default:
				badCmp = append(badCmp, "key comparison is not between an existing element and an injected element at "+p.Pos(bo.Pos()))
			}
		}
	}
	var dup ssa.Value
	var sentinel int64
	var recvIdx ssa.Value
	var cmpPos token.Pos
	helperMode := false
	// direct form: no 'matched index' variable; the match is handled on the equal edge itself and the
	// 'no match' case is the search loop running to its end
	directMode := false
	var dEqFrom, dEqTo, dExitFrom, dExitTo *ssa.BasicBlock
	if len(cmps) == 0 && len(badCmp) == 0 {
		// the search may have been extracted: dup := injected.indexOfKey(existing[i].key)
		for _, b := range ov.Blocks {
			for _, ins := range b.Instrs {
				call, ok := ins.(*ssa.Call)
				if !ok {
					continue
				}
				h := staticCallee(&call.Call)
				if h == nil || h.Pkg != ov.Pkg || h.Object() == nil || h.Object().Exported() || len(call.Call.Args) != 2 {
					continue
				}
				listArg, keyArg := -1, -1
				var ri ssa.Value
				for ai, a := range call.Call.Args {
					if onlyRoot(a, argRoot) {
						listArg = ai
					}
					if ld, ok := a.(*ssa.UnOp); ok && ld.Op == token.MUL {
						if fa, ok := ld.X.(*ssa.FieldAddr); ok && fieldAddrName(fa) == "key" {
							if ia, ok := fa.X.(*ssa.IndexAddr); ok && onlyRoot(ia.X, recvRoot) {
								keyArg, ri = ai, ia.Index
							}
						}
					}
				}
				if listArg < 0 || keyArg < 0 {
					continue
				}
				sent, why := analyseSearchHelper(h, listArg, keyArg)
				c.Funcs[fnName(h)] = true
				c.Sites++
				if why != "" {
					c.Bad(rule, fnm, "keycmp", call.Pos(), "search helper "+h.Name()+": "+why)
					return
				}
				helperMode, dup, sentinel, recvIdx, cmpPos = true, call, sent, ri, call.Pos()
				c.OK(rule, fnm, "keycmp", call.Pos(), "existing[i].key searched in the injected list by "+h.Name()+" (first equal key, ascending, negative when absent)")
				c.OK(rule, fnm, "first-match", call.Pos(), "ascending search in "+h.Name()+", returns at the first equal key")
			}
		}
	}
	if !helperMode {
		if len(cmps) != 1 && len(badCmp) == 0 {
			c.Unk(rule, fnm, "keycmp", ov.Pos(), fmt.Sprintf("expected one key comparison between an existing and an injected element, found %d: merge shape not recognised", len(cmps)))
			return
		}
		if len(badCmp) > 0 {
			c.Bad(rule, fnm, "keycmp", ov.Pos(), strings.Join(badCmp, "; "))
			return
		}
		kc := cmps[0]
		recvIdx, cmpPos = kc.recvIdx, kc.bin.Pos()
		c.OK(rule, fnm, "keycmp", kc.bin.Pos(), "existing[i].key == injected[j].key")

		// ---- the matched index: a phi (or the inner index itself) with a constant sentinel
		//      and the inner index arriving only from the equal edge
		eqEdgeFrom := kc.bin.Block()
		var eqTo *ssa.BasicBlock
		if iff, ok := eqEdgeFrom.Instrs[len(eqEdgeFrom.Instrs)-1].(*ssa.If); ok && iff.Cond == kc.bin {
			if kc.bin.Op == token.EQL {
				eqTo = eqEdgeFrom.Succs[0]
			} else {
				eqTo = eqEdgeFrom.Succs[1]
			}
		}
		if eqTo == nil {
			c.Unk(rule, fnm, "take", kc.bin.Pos(), "the key comparison does not decide a branch: merge shape not recognised")
			return
		}
		// first match: the injected list is searched from its first element upwards and the search stops
		// at the first equal key (with a key repeated in the comment, taking the last one — a descending
		// search, or one that keeps going — makes the two values swap places on every run)
		{
			var bad []string
			var inner *loopInfo
			for _, l := range naturalLoops(ov) {
				if l.Body[kc.bin.Block()] && (inner == nil || len(l.Body) < len(inner.Body)) {
					inner = l
				}
			}
			if inner == nil {
				bad = append(bad, "the key comparison is not inside a search loop")
			} else {
				if inner.Body[eqTo] && eqTo != inner.Header {
					// still inside: allowed only if it leads straight out (e.g. sets the index then breaks)
					leaves := false
					for _, s2 := range eqTo.Succs {
						if !inner.Body[s2] {
							leaves = true
						}
					}
					if !leaves {
						bad = append(bad, "the search goes on after a matching key was found (the last match wins)")
					}
				} else if eqTo == inner.Header {
					bad = append(bad, "the search goes on after a matching key was found (the last match wins)")
				}
				// ascending induction of the injected index
				asc := false
				var iv ssa.Value = kc.inIdx
				if bo, ok := iv.(*ssa.BinOp); ok && bo.Op == token.ADD { // range loops index with phi+1
					if k, isK := constInt(bo.Y); isK && k == 1 {
						iv = bo.X
					}
				}
				if ph, ok := iv.(*ssa.Phi); ok && ph.Block() == inner.Header {
					asc = true
					for i, e := range ph.Edges {
						if !inner.Body[ph.Block().Preds[i]] {
							if k, isK := constInt(e); !isK || (k != 0 && k != -1) {
								asc = false
							}
							continue
						}
						bo, ok := e.(*ssa.BinOp)
						if !ok || bo.Op != token.ADD {
							asc = false
							continue
						}
						if k, isK := constInt(bo.Y); !isK || k != 1 || bo.X != ph {
							asc = false
						}
					}
				}
				if !asc {
					bad = append(bad, "the injected list is not searched from its first element upwards")
				}
			}
			c.Sites++
			c.Check(len(bad) == 0, rule, fnm, "first-match", kc.bin.Pos(), "ascending search, stops at the first equal key", strings.Join(bad, "; "))
		}
		// dup candidates: phis one of whose edges is kc.inIdx arriving from a block dominated by the equal edge
		for _, b := range ov.Blocks {
			for _, ins := range b.Instrs {
				ph, ok := ins.(*ssa.Phi)
				if !ok {
					continue
				}
				hasIdx, hasConst, other := false, false, false
				var k int64
				for i, e := range ph.Edges {
					if e == kc.inIdx {
						pred := b.Preds[i]
						if pred == eqTo || edgeDominates(eqEdgeFrom, eqTo, pred) || (pred == eqEdgeFrom && false) {
							hasIdx = true
						} else {
							other = true
						}
					} else if kv, ok := constInt(e); ok {
						if hasConst && kv != k {
							other = true
						}
						hasConst, k = true, kv
					} else if e == ph {
						// self edge
					} else {
						other = true
					}
				}
				if hasIdx && hasConst && !other {
					dup, sentinel = ph, k
				}
			}
		}
		if dup == nil {
			var inner *loopInfo
			for _, l := range naturalLoops(ov) {
				if l.Body[kc.bin.Block()] && (inner == nil || len(l.Body) < len(inner.Body)) {
					inner = l
				}
			}
			if inner != nil && !inner.Body[eqTo] {
				exits := inner.exitEdges()
				var hdrExit [][2]*ssa.BasicBlock
				for _, ee := range exits {
					if ee[0] == inner.Header {
						hdrExit = append(hdrExit, ee)
					}
				}
				// the loop is left either over the equal edge or because the list is exhausted
				if len(exits) == 2 && len(hdrExit) == 1 {
					directMode = true
					dup = kc.inIdx
					dEqFrom, dEqTo = eqEdgeFrom, eqTo
					dExitFrom, dExitTo = hdrExit[0][0], hdrExit[0][1]
				}
			}
		}
	} // !helperMode
	if dup == nil {
		c.Unk(rule, fnm, "take", cmpPos, "no 'matched index' variable (sentinel, or the injected index on the equal edge) found: merge shape not recognised")
		return
	}
	// found-flag form: the index variable has no reserved value; whether a match was found is kept
	// in a separate boolean that is set to true exactly where the index is taken
	var foundFlag *ssa.Phi
	if sentinel >= 0 && !directMode && !helperMode {
		if dph, ok := dup.(*ssa.Phi); ok {
			for _, ins := range dph.Block().Instrs {
				fp, isPhi := ins.(*ssa.Phi)
				if !isPhi || fp == dph || len(fp.Edges) != len(dph.Edges) {
					continue
				}
				if bt, ok := fp.Type().Underlying().(*types.Basic); !ok || bt.Kind() != types.Bool {
					continue
				}
				agree := true
				for i, e := range fp.Edges {
					b, known := constBool(e)
					taken := dph.Edges[i] != dph && func() bool { _, isC := constInt(dph.Edges[i]); return !isC }()
					if e == ssa.Value(fp) && dph.Edges[i] == ssa.Value(dph) {
						continue // both carried unchanged
					}
					if !known || b != taken {
						agree = false
					}
				}
				if agree {
					foundFlag = fp
				}
			}
		}
	}
	if sentinel >= 0 && !directMode && foundFlag == nil {
		c.Bad(rule, fnm, "take", dup.Pos(), fmt.Sprintf("the 'no match' sentinel %d is a valid index of the injected list", sentinel))
		return
	}
	// the test dup == sentinel
	var noMatchFrom, noMatchTo, matchTo *ssa.BasicBlock
	var matchFrom *ssa.BasicBlock
	if directMode {
		noMatchFrom, noMatchTo, matchFrom, matchTo = dExitFrom, dExitTo, dEqFrom, dEqTo
	}
	if foundFlag != nil {
		for _, r := range refs(foundFlag) {
			if iff, ok := r.(*ssa.If); ok && iff.Cond == ssa.Value(foundFlag) {
				noMatchFrom, matchTo, noMatchTo = iff.Block(), iff.Block().Succs[0], iff.Block().Succs[1]
			}
		}
	}
	for _, r := range refs(dup) {
		if directMode || foundFlag != nil {
			break
		}
		bo, ok := r.(*ssa.BinOp)
		if !ok {
			continue
		}
		var other ssa.Value
		if bo.X == dup {
			other = bo.Y
		} else {
			other = bo.X
		}
		kv, isK := constInt(other)
		iff, isIf := bo.Block().Instrs[len(bo.Block().Instrs)-1].(*ssa.If)
		if !isIf || iff.Cond != bo {
			continue
		}
		t, f := bo.Block().Succs[0], bo.Block().Succs[1]
		switch {
		case isK && kv == sentinel && bo.Op == token.EQL:
			noMatchFrom, noMatchTo, matchTo = bo.Block(), t, f
		case isK && kv == sentinel && bo.Op == token.NEQ:
			noMatchFrom, noMatchTo, matchTo = bo.Block(), f, t
		case isK && kv == sentinel+1 && bo.Op == token.LSS && bo.X == dup: // dup < 0
			noMatchFrom, noMatchTo, matchTo = bo.Block(), t, f
		case isK && kv == sentinel+1 && bo.Op == token.GEQ && bo.X == dup: // dup >= 0
			noMatchFrom, noMatchTo, matchTo = bo.Block(), f, t
		case isK && kv == sentinel && bo.Op == token.GTR && bo.X == dup: // dup > -1
			noMatchFrom, noMatchTo, matchTo = bo.Block(), f, t
		}
	}
	if matchFrom == nil {
		matchFrom = noMatchFrom
	}
	if noMatchFrom == nil {
		c.Unk(rule, fnm, "keep", dup.Pos(), "no test of the matched index against its sentinel found: merge shape not recognised")
		return
	}

	// ---- result: return append(R, REM...)
	var ret *ssa.Return
	nret := 0
	for _, b := range ov.Blocks {
		if r, ok := b.Instrs[len(b.Instrs)-1].(*ssa.Return); ok && len(r.Results) == 1 {
			// `if len(inject) == 0 { return own }`: merging nothing yields the own list, element for element
			isOwn := func(v ssa.Value) bool {
				if v == ssa.Value(ov.Params[0]) {
					return true
				}
				// append(fresh empty list, own...)
				ap, ok := v.(*ssa.Call)
				return ok && calleeName(&ap.Call) == "builtin.append" && len(ap.Call.Args) == 2 && unwrapChange(ap.Call.Args[1]) == ssa.Value(ov.Params[0]) &&
					(isFreshEmptySlice(ap.Call.Args[0]) || isNilConst(ap.Call.Args[0]))
			}
			if len(ov.Params) == 2 && isOwn(unwrapChange(r.Results[0])) && len(b.Preds) == 1 {
				if iff, ok := b.Preds[0].Instrs[len(b.Preds[0].Instrs)-1].(*ssa.If); ok {
					if bo, ok := iff.Cond.(*ssa.BinOp); ok {
						k, isK := constInt(bo.Y)
						ln, isLen := bo.X.(*ssa.Call)
						onTrue := b.Preds[0].Succs[0] == b
						if isK && k == 0 && isLen && calleeName(&ln.Call) == "builtin.len" && ln.Call.Args[0] == ssa.Value(ov.Params[1]) &&
							((bo.Op == token.EQL && onTrue) || (bo.Op == token.NEQ && !onTrue) || (bo.Op == token.GTR && !onTrue)) {
							continue
						}
					}
				}
			}
			ret = r
			nret++
		}
	}
	if nret != 1 {
		c.Unk(rule, fnm, "tail", ov.Pos(), "expected one return")
		return
	}
	final, ok := unwrapChange(ret.Results[0]).(*ssa.Call)
	if !ok || calleeName(&final.Call) != "builtin.append" {
		c.Bad(rule, fnm, "tail", ret.Pos(), "the result is not append(merged, remainder...): keys that were only injected are lost or misplaced")
		return
	}
	R, REM := final.Call.Args[0], unwrapChange(final.Call.Args[1])
	if !onlyRoot(R, "fresh") {
		c.Bad(rule, fnm, "tail", ret.Pos(), "the merged list is not built up from an empty list")
		return
	}
	if !onlyRoot(REM, argRoot) {
		c.Bad(rule, fnm, "tail", ret.Pos(), "what is appended after the loop is not the remainder of the injected list")
		return
	}
	c.OK(rule, fnm, "tail", ret.Pos(), "append(merged, remainder...)")

	// ---- loop-carried R and REM
	rphi, ok := R.(*ssa.Phi)
	if !ok {
		c.Unk(rule, fnm, "once", ret.Pos(), "merged list is not loop-carried: merge shape not recognised")
		return
	}
	var outer *loopInfo
	for _, l := range naturalLoops(ov) {
		if l.Header == rphi.Block() {
			outer = l
		}
	}
	if outer == nil {
		c.Unk(rule, fnm, "once", ret.Pos(), "merged list is not carried by a loop over the existing keys")
		return
	}
	var onceBad, keepBad, takeBad []string
	nKeep, nTake := 0, 0
	var takeBlocks []*ssa.BasicBlock
	var takeLoads []ssa.Instruction // the reads of the injected element that is installed
	// values arriving over the back edges, looking through merge phis inside the loop body
	// (a counted loop joins the branches in its post block before jumping back)
	type leaf struct {
		v    ssa.Value
		pred *ssa.BasicBlock
	}
	var flatten func(v ssa.Value, pred *ssa.BasicBlock, hdr *ssa.Phi, d int) []leaf
	flatten = func(v ssa.Value, pred *ssa.BasicBlock, hdr *ssa.Phi, d int) []leaf {
		if ph, ok := v.(*ssa.Phi); ok && ph != hdr && outer.Body[ph.Block()] && ph.Block() != outer.Header && d < 6 {
			var out []leaf
			for i, e := range ph.Edges {
				out = append(out, flatten(e, ph.Block().Preds[i], hdr, d+1)...)
			}
			return out
		}
		return []leaf{{v, pred}}
	}
	var rLeaves []leaf
	for i, e := range rphi.Edges {
		pred := rphi.Block().Preds[i]
		if !outer.Body[pred] {
			continue // entry edge
		}
		rLeaves = append(rLeaves, flatten(e, pred, rphi, 0)...)
	}
	for _, lf := range rLeaves {
		e := lf.v
		call, isApp := e.(*ssa.Call)
		if !isApp || calleeName(&call.Call) != "builtin.append" {
			if e == rphi {
				onceBad = append(onceBad, "a path through one iteration leaves the merged list unchanged: an existing key is dropped")
			} else {
				onceBad = append(onceBad, "merged list updated by something other than an append")
			}
			continue
		}
		c.Sites++
		if call.Call.Args[0] != rphi {
			onceBad = append(onceBad, "more than one element appended on a path through one iteration at "+p.Pos(call.Pos()))
			continue
		}
		el := elemOfVariadic(call.Call.Args[1])
		if el == nil {
			onceBad = append(onceBad, "an iteration appends something other than one element at "+p.Pos(call.Pos()))
			continue
		}
		X, idx, okL := loadOfIndex(el)
		if !okL {
			onceBad = append(onceBad, "appended element is not an element of either list at "+p.Pos(call.Pos()))
			continue
		}
		switch {
		case onlyRoot(X, recvRoot):
			nKeep++
			if idx != recvIdx {
				keepBad = append(keepBad, "the existing element appended is not the one whose key was compared at "+p.Pos(call.Pos()))
			}
			if !(noMatchTo == call.Block() && (!directMode || len(noMatchTo.Preds) == 1) || edgeDominates(noMatchFrom, noMatchTo, call.Block())) {
				keepBad = append(keepBad, "the existing element is kept although a matching injected key may have been found (old value wins) at "+p.Pos(call.Pos()))
			}
		case onlyRoot(X, argRoot):
			nTake++
			takeBlocks = append(takeBlocks, call.Block())
			if ld, ok := el.(*ssa.UnOp); ok {
				var li ssa.Instruction = ld
				if sv := soleStoreTo(ld.X); sv != nil {
					if ld2, ok := sv.(*ssa.UnOp); ok {
						li = ld2
					}
				}
				takeLoads = append(takeLoads, li)
			}
			if idx != dup {
				takeBad = append(takeBad, "the injected element appended is not the one at the matched index at "+p.Pos(call.Pos()))
			}
			if !(matchTo == call.Block() && (!directMode || len(matchTo.Preds) == 1) || edgeDominates(matchFrom, matchTo, call.Block())) {
				takeBad = append(takeBad, "an injected element is appended where no match was found at "+p.Pos(call.Pos()))
			}
			if X != REM {
				takeBad = append(takeBad, "the matched index is applied to a different list than the one searched at "+p.Pos(call.Pos()))
			}
		default:
			onceBad = append(onceBad, "appended element comes from neither list at "+p.Pos(call.Pos()))
		}
	}
	if nKeep == 0 {
		keepBad = append(keepBad, "no path keeps an unmatched existing key")
	}
	if nTake == 0 {
		takeBad = append(takeBad, "no path installs the injected value for a matched key (the old value wins, or the key is dropped)")
	}
	c.Check(len(onceBad) == 0, rule, fnm, "once", rphi.Pos(), "one append per existing key on every path", strings.Join(uniqStrings(onceBad), "; "))
	c.Check(len(keepBad) == 0, rule, fnm, "keep", rphi.Pos(), "own element appended only under 'no match'", strings.Join(uniqStrings(keepBad), "; "))
	c.Check(len(takeBad) == 0, rule, fnm, "take", rphi.Pos(), "injected element at the matched index appended under 'match'", strings.Join(uniqStrings(takeBad), "; "))

	// ---- removal of the matched element from the remainder
	{
		var bad []string
		remphi, ok := REM.(*ssa.Phi)
		if !ok || remphi.Block() != rphi.Block() {
			bad = append(bad, "the remainder appended after the loop is the injected list unchanged: every matched key is appended a second time (duplicate key; each further run grows the tag)")
		} else {
			removed := 0
			var remLeaves []leaf
			for i, e := range remphi.Edges {
				pred := remphi.Block().Preds[i]
				if !outer.Body[pred] {
					if !onlyRoot(e, argRoot) {
						bad = append(bad, "remainder does not start as the injected list")
					}
					continue
				}
				remLeaves = append(remLeaves, flatten(e, pred, remphi, 0)...)
			}
			for _, lf := range remLeaves {
				e, pred := lf.v, lf.pred
				if e == remphi {
					// unchanged on this path: must not be a match path
					for _, tb := range takeBlocks {
						if tb == pred || tb.Dominates(pred) {
							bad = append(bad, "on the match path the matched element stays in the remainder: it is appended a second time after the loop")
						}
					}
					continue
				}
				// append(slice C[:dup], slice C[dup+1:]...)
				call, isApp := unwrapChange(e).(*ssa.Call)
				if !isApp || calleeName(&call.Call) != "builtin.append" {
					bad = append(bad, "remainder updated by something other than removing one element")
					continue
				}
				lo, ok1 := unwrapChange(call.Call.Args[0]).(*ssa.Slice)
				hi, ok2 := unwrapChange(call.Call.Args[1]).(*ssa.Slice)
				if !ok1 || !ok2 || unwrapChange(lo.X) != remphi || unwrapChange(hi.X) != remphi {
					bad = append(bad, "remainder updated by something other than removing one element of itself")
					continue
				}
				okLo := lo.Low == nil && lo.High == dup
				okHi := false
				if hi.High == nil && hi.Low != nil {
					if bo, ok := hi.Low.(*ssa.BinOp); ok && bo.Op == token.ADD {
						if k, isK := constInt(bo.Y); isK && k == 1 && bo.X == dup {
							okHi = true
						}
						if k, isK := constInt(bo.X); isK && k == 1 && bo.Y == dup {
							okHi = true
						}
					}
				}
				if !okLo || !okHi {
					bad = append(bad, "the element removed from the remainder is not exactly the matched one (want rem[:m] ++ rem[m+1:]) at "+p.Pos(call.Pos()))
					continue
				}
				isTake := false
				for _, tb := range takeBlocks {
					if tb == call.Block() || tb.Dominates(call.Block()) || call.Block().Dominates(tb) {
						isTake = true
					}
				}
				if !isTake {
					bad = append(bad, "an element is removed from the remainder outside the match path")
				}
				// the removal shifts the following elements down in place: the matched element must have
				// been read before
				for _, ld := range takeLoads {
					after := false
					if ld.Block() == call.Block() {
						for _, x := range call.Block().Instrs {
							if x == ssa.Instruction(call) {
								after = true
								break
							}
							if x == ld {
								break
							}
						}
					} else if call.Block().Dominates(ld.Block()) {
						after = true
					}
					if after {
						bad = append(bad, "the injected element is read at "+p.Pos(instrPos(ld))+" after the matched element was removed in place at "+p.Pos(call.Pos())+": what is installed is the element that followed it")
					}
				}
				removed++
			}
			if removed == 0 && len(bad) == 0 {
				bad = append(bad, "the matched element is never removed from the remainder")
			}
		}
		c.Sites++
		c.Check(len(bad) == 0, rule, fnm, "remove", rphi.Pos(), "matched element removed from the remainder (rem[:m] ++ rem[m+1:])", strings.Join(uniqStrings(bad), "; "))
	}

	// ---- newTagItems
	nt := p.Func("file", "newTagItems")
	wantSites := 1
	if nt == nil {
		// the tokeniser may have been inlined into injectTag: once for the current tag, once for the
		// injected one; each copy is held to the same contract
		nt = p.Func("file", "injectTag")
		wantSites = 2
		if nt == nil || len(callsIn(nt, "(*regexp.Regexp).FindAllString")) != 2 {
			c.Unk(rule, "file.newTagItems", "anchor", token.NoPos, "tokeniser not found")
			return
		}
	}
	c.Funcs[fnName(nt)] = true
	{
		var bad []string
		fa := callsIn(nt, "(*regexp.Regexp).FindAllString")
		if len(fa) != wantSites {
			bad = append(bad, "tokens are not taken by one FindAllString")
		}
		for _, f1 := range fa {
			if g, ok := f1.Call.Args[0].(*ssa.UnOp); !ok {
				bad = append(bad, "tokeniser pattern is not the rTags global")
			} else if gl, ok := g.X.(*ssa.Global); !ok || gl.Name() != "rTags" {
				bad = append(bad, "tokeniser pattern is not the rTags global")
			}
			if wantSites == 1 {
				if f1.Call.Args[1] != nt.Params[0] {
					bad = append(bad, "the text tokenised is not the tag passed in")
				}
			} else {
				// inlined: the text is one of the area's two tag texts (which one: C06-ROLE)
				okTxt := false
				if ld, ok := f1.Call.Args[1].(*ssa.UnOp); ok {
					if fad, ok := ld.X.(*ssa.FieldAddr); ok && (fieldAddrName(fad) == "CurrentTag" || fieldAddrName(fad) == "InjectTag") {
						okTxt = true
					}
				}
				if !okTxt {
					bad = append(bad, "the text tokenised is not a tag text of the area")
				}
			}
			if n, ok := constInt(f1.Call.Args[2]); !ok || n >= 0 {
				bad = append(bad, "FindAllString is limited to a fixed number of tokens: further keys of the tag are dropped")
			}
		}
		c.Sites++
		c.Check(len(bad) == 0, rule, fnName(nt), "tokens", nt.Pos(), "rTags.FindAllString(tag, -1)", strings.Join(bad, "; "))
	}
	{
		var bad []string
		nk, nv := 0, 0
		for _, b := range nt.Blocks {
			for _, ins := range b.Instrs {
				st, ok := ins.(*ssa.Store)
				if !ok {
					continue
				}
				fad, ok := st.Addr.(*ssa.FieldAddr)
				if !ok || !strings.Contains(fad.X.Type().String(), "tagItem") {
					continue
				}
				// splitting form: kv := strings.SplitN(t, ":", 2); key = kv[0], value = kv[1]
				// (exactly two parts: a value may itself contain ':')
				if X, idx, ok := loadOfIndex(st.Val); ok {
					if call, isCall := X.(*ssa.Call); isCall && calleeName(&call.Call) == "strings.SplitN" {
						sep, _ := constString(call.Call.Args[1])
						n, okN := constInt(call.Call.Args[2])
						k, okK := constInt(idx)
						c.Sites++
						switch {
						case sep != ":" || !okN || n != 2 || !okK:
							bad = append(bad, fieldAddrName(fad)+" is not taken from the token split once at its first ':'")
						case fieldAddrName(fad) == "key":
							nk++
							if k != 0 {
								bad = append(bad, "key is not the token's text before its first ':'")
							}
						case fieldAddrName(fad) == "value":
							nv++
							if k != 1 {
								bad = append(bad, "value is not the token's text after its first ':'")
							}
						}
						continue
					}
				}
				sl, isSl := st.Val.(*ssa.Slice)
				if !isSl {
					bad = append(bad, fieldAddrName(fad)+" is not a substring of the token")
					continue
				}
				sepOK := func(v ssa.Value, plus int64) bool {
					if v == nil {
						return false
					}
					if plus != 0 {
						bo, ok := v.(*ssa.BinOp)
						if !ok || bo.Op != token.ADD {
							return false
						}
						k, isK := constInt(bo.Y)
						if !isK || k != plus {
							return false
						}
						v = bo.X
					}
					call, ok := v.(*ssa.Call)
					if !ok {
						return false
					}
					nm := calleeName(&call.Call)
					if nm != "strings.Index" && nm != "strings.IndexByte" {
						return false
					}
					if call.Call.Args[0] != sl.X {
						return false
					}
					if s, ok := constString(call.Call.Args[1]); ok {
						return s == ":"
					}
					if k, ok := constInt(call.Call.Args[1]); ok {
						return k == ':'
					}
					return false
				}
				c.Sites++
				switch fieldAddrName(fad) {
				case "key":
					nk++
					if sl.Low != nil || !sepOK(sl.High, 0) {
						bad = append(bad, "key is not the token's text before its first ':'")
					}
				case "value":
					nv++
					if sl.High != nil || !sepOK(sl.Low, 1) {
						bad = append(bad, "value is not the token's text after its first ':'")
					}
				}
			}
		}
		if nk != wantSites || nv != wantSites {
			bad = append(bad, "key/value construction not recognised")
		}
		// every token appended: the append sits in the loop body with no branch around it
		for _, l := range naturalLoops(nt) {
			for b := range l.Body {
				if b == l.Header {
					continue
				}
				if iff, isIf := b.Instrs[len(b.Instrs)-1].(*ssa.If); isIf {
					// a guard "no ':' in the token" can never fire: every match of the tag pattern contains a ':'
					// (language inclusion, engine R) — dead code, not a filter
					if cmp, ok := iff.Cond.(*ssa.BinOp); ok {
						idx, isCall := cmp.X.(*ssa.Call)
						k, isK := constInt(cmp.Y)
						if isCall && isK && (k == 0 && cmp.Op == token.LSS || k == -1 && (cmp.Op == token.EQL || cmp.Op == token.LEQ)) {
							nm := calleeName(&idx.Call)
							sepIsColon := false
							if nm == "strings.Index" {
								if sv, ok := constString(idx.Call.Args[1]); ok && sv == ":" {
									sepIsColon = true
								}
							}
							if nm == "strings.IndexByte" {
								if kv, ok := constInt(idx.Call.Args[1]); ok && kv == ':' {
									sepIsColon = true
								}
							}
							if sepIsColon && everyTagTokenHasColon(p) {
								continue
							}
						}
					}
					bad = append(bad, "tokens are filtered inside the tokeniser loop: some keys of the existing tag may be dropped")
				}
			}
		}
		c.Check(len(bad) == 0, rule, fnName(nt), "split", nt.Pos(), "key = t[:Index(t,':')], value = t[Index(t,':')+1:], every token kept", strings.Join(uniqStrings(bad), "; "))
	}
}

// runInjectorState: the injector is a pure function of the file it is given: package `file`
// keeps no state between files or between fields. Every package-level variable of `file`
// is assigned only in package initialisation and is never mutated afterwards (no store, no
// map update/delete, no element store, no mutating method call on sync.Map-like values); only
// compiled regexps, which are safe to share, are allowed to be used from the functions.
// A memo of parsed tags, a shared FileSet, a scratch buffer kept in a global all break "the
// result for one field/file depends only on that field/file" — and with it idempotence.
func runInjectorState(c *Ctx, rule string) {
	p := c.P
	c.Rule(rule, "package file keeps no mutable package-level state: every global is written only during package initialisation and is a compiled regexp or plain constant data never mutated by a function", 1)
	sp := p.Pkg("file")
	if sp == nil {
		c.Unk(rule, "file", "globals", token.NoPos, "package file not loaded")
		return
	}
	var globals []*ssa.Global
	for _, m := range sp.Members {
		if g, ok := m.(*ssa.Global); ok {
			globals = append(globals, g)
		}
	}
	sortGlobals(globals)
	for _, g := range globals {
		c.Sites++
		var bad []string
		elem := g.Type().(*types.Pointer).Elem()
		safeType := isNamed(elem, "regexp", "Regexp") || func() bool {
			if pt, ok := elem.(*types.Pointer); ok {
				return isNamed(pt.Elem(), "regexp", "Regexp")
			}
			_, isBasic := elem.Underlying().(*types.Basic)
			return isBasic
		}()
		for _, fn := range p.Funcs {
			if fn.Pkg != sp {
				continue
			}
			isInit := fn.Name() == "init" && fn.Signature.Recv() == nil && fn.Parent() == nil
			for _, b := range fn.Blocks {
				for _, ins := range b.Instrs {
					switch x := ins.(type) {
					case *ssa.Store:
						if x.Addr == g && !isInit {
							bad = append(bad, fnName(fn)+" assigns it at "+p.Pos(x.Pos()))
						}
					case *ssa.UnOp:
						if x.Op != token.MUL || x.X != g || isInit {
							continue
						}
						// uses of the loaded value
						for _, r := range refs(x) {
							switch u := r.(type) {
							case *ssa.MapUpdate:
								if u.Map == x {
									bad = append(bad, fnName(fn)+" updates the map at "+p.Pos(u.Pos()))
								}
							case *ssa.IndexAddr:
								for _, r2 := range refs(u) {
									if st, ok := r2.(*ssa.Store); ok && st.Addr == u {
										bad = append(bad, fnName(fn)+" stores into it at "+p.Pos(st.Pos()))
									}
								}
							case *ssa.Call:
								if calleeName(&u.Call) == "builtin.delete" || calleeName(&u.Call) == "builtin.append" {
									bad = append(bad, fnName(fn)+" mutates it ("+calleeName(&u.Call)+") at "+p.Pos(u.Pos()))
								}
							}
						}
						if !safeType {
							bad = append(bad, fnName(fn)+" reads the mutable-typed global at "+p.Pos(x.Pos())+" (its contents can be changed through the shared reference)")
						}
					case ssa.CallInstruction:
						// method calls with the global's address as receiver (sync.Map, bytes.Buffer, token.FileSet held by value ...)
						cc := x.Common()
						if len(cc.Args) > 0 && cc.Args[0] == g && !isInit {
							bad = append(bad, fnName(fn)+" calls "+calleeName(cc)+" on it at "+p.Pos(x.Pos()))
						}
					}
				}
			}
		}
		c.Check(len(bad) == 0, rule, "file."+g.Name(), "immutable", g.Pos(), "written only by package initialisation", "package-level state in the injector: "+uniqJoin(bad, 3)+" — what one field or file leaves there changes the result for the next")
	}
	if len(globals) == 0 {
		c.OK(rule, "file", "immutable", token.NoPos, "package file has no package-level variables")
	}
}

func sortGlobals(gs []*ssa.Global) {
	for i := 1; i < len(gs); i++ {
		for j := i; j > 0 && gs[j-1].Name() > gs[j].Name(); j-- {
			gs[j-1], gs[j] = gs[j], gs[j-1]
		}
	}
}

// analyseSearchHelper: h(list, key) (in either parameter order) must be "index of the first
// element of list whose key equals key, a negative constant when there is none": one ascending
// loop over the list parameter, one equality test between the element's key field and the key
// parameter whose true edge returns the loop index, and a negative constant returned otherwise.
func analyseSearchHelper(h *ssa.Function, listArg, keyArg int) (sentinel int64, why string) {
	if len(h.Params) != 2 {
		return 0, "unexpected signature"
	}
	list, key := h.Params[listArg], h.Params[keyArg]
	loops := naturalLoops(h)
	if len(loops) != 1 {
		return 0, fmt.Sprintf("expected one search loop, found %d", len(loops))
	}
	l := loops[0]
	var cmp *ssa.BinOp
	var idx ssa.Value
	for b := range l.Body {
		for _, ins := range b.Instrs {
			bo, ok := ins.(*ssa.BinOp)
			if !ok || (bo.Op != token.EQL && bo.Op != token.NEQ) {
				continue
			}
			for _, pair := range [][2]ssa.Value{{bo.X, bo.Y}, {bo.Y, bo.X}} {
				if pair[1] != ssa.Value(key) {
					continue
				}
				ld, ok := pair[0].(*ssa.UnOp)
				if !ok {
					continue
				}
				fa, ok := ld.X.(*ssa.FieldAddr)
				if !ok {
					continue
				}
				ia, ok := fa.X.(*ssa.IndexAddr)
				if !ok || ia.X != ssa.Value(list) {
					continue
				}
				if fieldAddrName(fa) != "key" {
					return 0, "elements are matched on " + fieldAddrName(fa) + ", not on their keys"
				}
				cmp, idx = bo, ia.Index
			}
		}
	}
	if cmp == nil {
		return 0, "no comparison of an element's key with the searched key"
	}
	iff, ok := cmp.Block().Instrs[len(cmp.Block().Instrs)-1].(*ssa.If)
	if !ok || iff.Cond != cmp {
		return 0, "the key comparison does not decide a branch"
	}
	eqTo := cmp.Block().Succs[0]
	if cmp.Op == token.NEQ {
		eqTo = cmp.Block().Succs[1]
	}
	ret, isRet := eqTo.Instrs[len(eqTo.Instrs)-1].(*ssa.Return)
	if !isRet || len(ret.Results) != 1 || ret.Results[0] != idx {
		return 0, "a matching key does not return its index at once (the last match would win)"
	}
	// ascending induction
	iv := idx
	if bo, ok := iv.(*ssa.BinOp); ok && bo.Op == token.ADD {
		if k, isK := constInt(bo.Y); isK && k == 1 {
			iv = bo.X
		}
	}
	ph, ok := iv.(*ssa.Phi)
	if !ok || ph.Block() != l.Header {
		return 0, "the list is not searched from its first element upwards"
	}
	for i, e := range ph.Edges {
		if !l.Body[ph.Block().Preds[i]] {
			if k, isK := constInt(e); !isK || (k != 0 && k != -1) {
				return 0, "the list is not searched from its first element upwards"
			}
			continue
		}
		bo, ok := e.(*ssa.BinOp)
		if !ok || bo.Op != token.ADD || bo.X != ssa.Value(ph) {
			return 0, "the list is not searched from its first element upwards"
		}
		if k, isK := constInt(bo.Y); !isK || k != 1 {
			return 0, "the list is not searched from its first element upwards"
		}
	}
	// other returns: one negative constant
	found := false
	for _, b := range h.Blocks {
		r, isRet := b.Instrs[len(b.Instrs)-1].(*ssa.Return)
		if !isRet || b == eqTo {
			continue
		}
		k, isK := constInt(r.Results[0])
		if !isK || k >= 0 {
			return 0, "'not found' is not reported by a negative constant"
		}
		if found && k != sentinel {
			return 0, "several 'not found' values"
		}
		sentinel, found = k, true
	}
	if !found {
		return 0, "no 'not found' result"
	}
	return sentinel, ""
}

// everyTagTokenHasColon: language inclusion (engine R) — every match of the tag-token pattern contains ':'.
func everyTagTokenHasColon(p *Prog) bool {
	if pg, ok := patternGlobals(p, "file")["rTags"]; ok {
		if inc, _, err := RxIncluded("^(?:"+pg.Pat+")$", "(?s):"); err == nil && inc {
			return true
		}
	}
	return false
}
