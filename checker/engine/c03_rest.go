package engine

import (
	"fmt"
	"go/token"
	"reflect"
	"strings"

	"golang.org/x/tools/go/ssa"
)

// reachableFrom: functions reachable from fn through static calls inside the repository.
func reachableFrom(fn *ssa.Function) map[*ssa.Function]bool {
	seen := map[*ssa.Function]bool{}
	var walk func(f *ssa.Function)
	walk = func(f *ssa.Function) {
		if f == nil || seen[f] || f.Blocks == nil {
			return
		}
		seen[f] = true
		for _, b := range f.Blocks {
			for _, ins := range b.Instrs {
				switch x := ins.(type) {
				case ssa.CallInstruction:
					if c := staticCallee(x.Common()); c != nil && c.Pkg != nil && strings.HasPrefix(c.Pkg.Pkg.Path(), ModPath) {
						walk(c)
					}
				case *ssa.MakeClosure:
					walk(x.Fn.(*ssa.Function))
				}
			}
		}
	}
	walk(fn)
	return seen
}

// runC03Missing: a walker whose input is keyed (map, URL query) can only see an absent
// entry if it enumerates the keys of the rule map somewhere.
func runC03Missing(c *Ctx) {
	p := c.P
	c.Rule("C03-MISSING", "the map and URL walkers (walkers that look rules up by the input's own keys) also range over the rule map, so a required key that is absent from the input can be reported", 2)
	for _, w := range findWalkers(p) {
		// keyed walker: looks the rule string up with a key that comes from the input
		// (RM.Get called with a non-constant argument inside a loop over the input)
		recv := recvNamed(w.Fn)
		if recv == nil {
			continue
		}
		name := recv.Obj().Name()
		if name != "VMap" && name != "VUrl" {
			// role check instead of name: does the walker call RM.Get with a constant key only?
			keyed := false
			for _, b := range w.Fn.Blocks {
				for _, ins := range b.Instrs {
					if call, ok := ins.(*ssa.Call); ok && calleeName(&call.Call) == "(valid.RM).Get" {
						if _, isConst := call.Call.Args[1].(*ssa.Const); !isConst {
							if _, isField := call.Call.Args[1].(*ssa.UnOp); !isField {
								keyed = true
							}
						}
					}
				}
			}
			if !keyed {
				continue
			}
			if name == "VStruct" {
				continue // struct fields are enumerated from the type, nothing can be missing
			}
		}
		found := false
		var where token.Pos
		for f := range reachableFrom(w.Fn) {
			for _, b := range f.Blocks {
				for _, ins := range b.Instrs {
					if r, ok := ins.(*ssa.Range); ok && isNamed(r.X.Type(), ModPath+"/valid", "RM") {
						found, where = true, r.Pos()
					}
				}
			}
		}
		c.Sites++
		if found {
			c.OK("C03-MISSING", fnName(w.Fn), "rule-keys", where, "the rule map's keys are enumerated on the walker's path")
		} else {
			c.Bad("C03-MISSING", fnName(w.Fn), "rule-keys", w.Fn.Pos(), "only the input's entries are walked: a key that has a required rule but is absent from the input is never reported")
		}
	}
}

// runC03Iface: map elements of interface type must be unwrapped before being judged.
func runC03Iface(c *Ctx, wl *walkLayers) {
	p := c.P
	c.Rule("C03-IFACE", "a value read out of a map (MapRange().Value()) can have kind Interface; it must be unwrapped before it is tested for emptiness or handed to a rule function", 1)
	type agg struct {
		n, bad int
		pos    token.Pos
	}
	per := map[string]*agg{}
	for _, we := range walkEvents(wl, "rulecall") {
		if len(we.E.Args) < 8 {
			continue
		}
		vk := keyOf(we.E.Args[5])
		if !strings.Contains(vk, ".MapRange().Value()") {
			continue
		}
		fn := fnName(we.E.Site.Parent())
		a := per[fn]
		if a == nil {
			a = &agg{pos: instrPos(we.E.Site)}
			per[fn] = a
		}
		a.n++
		c.Sites++
		m, _ := isCstInt(we.E.Args[len(we.E.Args)-1])
		if uint32(m)&kmask(reflect.Interface) != 0 {
			a.bad++
		}
	}
	if len(per) == 0 {
		c.Unk("C03-IFACE", "-", "unwrap", token.NoPos, "no walker hands a map element to a rule function (anchor unresolved)")
	}
	for fn, a := range per {
		if a.bad > 0 {
			c.Bad("C03-IFACE", fn, "unwrap", a.pos, fmt.Sprintf("on %d of %d call paths the map element may still be of kind Interface (map[string]interface{}): IsZero then means 'nil interface' and no rule function has an Interface case, so \"\" passes required and every other rule is silently skipped", a.bad, a.n))
		} else {
			c.OK("C03-IFACE", fn, "unwrap", a.pos, fmt.Sprintf("%d call paths, element never of kind Interface", a.n))
		}
	}
	_ = p
}
