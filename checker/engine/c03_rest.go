package engine

import (
	"fmt"
	"go/token"
	"go/types"
	"reflect"
	"strings"

	"golang.org/x/tools/go/ssa"
)

// reachableFrom: functions reachable from fn through static calls inside the repository.
func reachableFrom(fn *ssa.Function) map[*ssa.Function]bool {
	seen := map[*ssa.Function]bool{}
	var walk func(f *ssa.Function)
	walk = func(f *ssa.Function) {
		if f == nil || seen[f] || f.Blocks == nil {
			return
		}
		seen[f] = true
		for _, b := range f.Blocks {
			for _, ins := range b.Instrs {
				switch x := ins.(type) {
				case ssa.CallInstruction:
					if c := staticCallee(x.Common()); c != nil && c.Pkg != nil && strings.HasPrefix(c.Pkg.Pkg.Path(), ModPath) {
						walk(c)
					}
				case *ssa.MakeClosure:
					walk(x.Fn.(*ssa.Function))
				}
			}
		}
	}
	walk(fn)
	return seen
}

// runC03Missing: a walker whose input is keyed (map, URL query) can only see an absent
// entry if it enumerates the keys of the rule map somewhere.
func runC03Missing(c *Ctx) {
	p := c.P
	c.Rule("C03-MISSING", "the map and URL walkers (walkers that look rules up by the input's own keys) also range over the rule map, so a required key that is absent from the input can be reported", 2)
	for _, w := range findWalkers(p) {
		// keyed walker: looks the rule string up with a key that comes from the input
		// (RM.Get called with a non-constant argument inside a loop over the input)
		recv := recvNamed(w.Fn)
		if recv == nil {
			continue
		}
		name := recv.Obj().Name()
		if name != "VMap" && name != "VUrl" {
			// role check instead of name: does the walker call RM.Get with a constant key only?
			keyed := false
			for _, b := range w.Fn.Blocks {
				for _, ins := range b.Instrs {
					if call, ok := ins.(*ssa.Call); ok && calleeName(&call.Call) == "(valid.RM).Get" {
						if _, isConst := call.Call.Args[1].(*ssa.Const); !isConst {
							if _, isField := call.Call.Args[1].(*ssa.UnOp); !isField {
								keyed = true
							}
						}
					}
				}
			}
			if !keyed {
				continue
			}
			if name == "VStruct" {
				continue // struct fields are enumerated from the type, nothing can be missing
			}
		}
		found := false
		var where token.Pos
		for f := range reachableFrom(w.Fn) {
			for _, b := range f.Blocks {
				for _, ins := range b.Instrs {
					if r, ok := ins.(*ssa.Range); ok && isNamed(r.X.Type(), ModPath+"/valid", "RM") {
						found, where = true, r.Pos()
					}
				}
			}
		}
		c.Sites++
		if found {
			c.OK("C03-MISSING", fnName(w.Fn), "rule-keys", where, "the rule map's keys are enumerated on the walker's path")
		} else {
			c.Bad("C03-MISSING", fnName(w.Fn), "rule-keys", w.Fn.Pos(), "only the input's entries are walked: a key that has a required rule but is absent from the input is never reported")
		}
	}
}

// runC03Iface: map elements of interface type must be unwrapped before being judged.
func runC03Iface(c *Ctx, wl *walkLayers) {
	p := c.P
	c.Rule("C03-IFACE", "a value read out of a map (MapRange().Value()) can have kind Interface; it must be unwrapped before it is tested for emptiness or handed to a rule function", 1)
	type agg struct {
		n, bad int
		pos    token.Pos
	}
	per := map[string]*agg{}
	for _, we := range walkEvents(wl, "rulecall") {
		if len(we.E.Args) < 8 {
			continue
		}
		vk := keyOf(we.E.Args[5])
		if !strings.Contains(vk, ".MapRange().Value()") {
			continue
		}
		fn := fnName(we.E.Site.Parent())
		a := per[fn]
		if a == nil {
			a = &agg{pos: instrPos(we.E.Site)}
			per[fn] = a
		}
		a.n++
		c.Sites++
		m, _ := isCstInt(we.E.Args[len(we.E.Args)-1])
		if uint32(m)&kmask(reflect.Interface) != 0 {
			a.bad++
		}
	}
	if len(per) == 0 {
		c.Unk("C03-IFACE", "-", "unwrap", token.NoPos, "no walker hands a map element to a rule function (anchor unresolved)")
	}
	for fn, a := range per {
		if a.bad > 0 {
			c.Bad("C03-IFACE", fn, "unwrap", a.pos, fmt.Sprintf("on %d of %d call paths the map element may still be of kind Interface (map[string]interface{}): IsZero then means 'nil interface' and no rule function has an Interface case, so \"\" passes required and every other rule is silently skipped", a.bad, a.n))
		} else {
			c.OK("C03-IFACE", fn, "unwrap", a.pos, fmt.Sprintf("%d call paths, element never of kind Interface", a.n))
		}
	}
	_ = p
}

// runC03Seen: the bookkeeping behind "missing entry" in the keyed walkers (map, URL).
//
//	fresh    the set of keys seen in the input is created in the very pass that fills it
//	         (a set kept on the validator survives from one element of a slice of maps to the
//	         next, hiding keys that are absent from later elements)
//	fill     every iteration over the input's entries records its key in that set, with the key
//	         that is also used to look the rules up
//	report   the function that ranges over the rule map is called with the rule map the walker
//	         validates against and that set, after the input loop, on the pass's normal return
//	skip     inside it an entry is skipped iff its key was seen (or is the unnamed key), a rule is
//	         skipped iff it is not `required`, and every remaining one writes exactly one clause
func runC03Seen(c *Ctx) {
	p := c.P
	c.Rule("C03-SEEN", "keyed walkers: fresh per-pass key set, filled on every iteration with the lookup key, handed with the walker's rule map to the missing-key reporter after the input loop; the reporter skips exactly the seen keys and the non-required rules", 3)
	// the reporter: the function in package valid that ranges over a parameter of type RM
	var reporter *ssa.Function
	var rmParam, seenParam *ssa.Parameter
	for _, fn := range p.Funcs {
		if fn.Pkg == nil || fn.Pkg != p.Pkg("valid") || fn.Signature.Recv() != nil {
			continue
		}
		for _, b := range fn.Blocks {
			for _, ins := range b.Instrs {
				if r, ok := ins.(*ssa.Range); ok {
					if prm, ok := r.X.(*ssa.Parameter); ok && isNamed(prm.Type(), ModPath+"/valid", "RM") {
						reporter, rmParam = fn, prm
					}
				}
			}
		}
	}
	if reporter == nil {
		c.Unk("C03-SEEN", "-", "reporter", token.NoPos, "no function ranges over a rule-map parameter (missing-key reporter not found)")
		return
	}
	for _, prm := range reporter.Params {
		if _, ok := prm.Type().Underlying().(*types.Map); ok && prm != rmParam {
			seenParam = prm
		}
	}
	c.Funcs[fnName(reporter)] = true
	// ---- skip conditions inside the reporter
	{
		var bad []string
		if seenParam == nil {
			bad = append(bad, "the reporter takes no set of seen keys")
		} else {
			okSeen := false
			for _, r := range refs(seenParam) {
				lk, ok := r.(*ssa.Lookup)
				if !ok {
					continue
				}
				// membership: the comma-ok result, or — for a set kept as map[K]bool — the value itself
				// (the walkers only ever store true: checked with the walkers below)
				var members []ssa.Value
				if lk.CommaOk {
					for _, rr := range refs(lk) {
						if ex, ok := rr.(*ssa.Extract); ok && ex.Index == 1 {
							members = append(members, ex)
						}
					}
				} else if bt, ok := lk.Type().Underlying().(*types.Basic); ok && bt.Kind() == types.Bool {
					members = append(members, lk)
				} else {
					continue
				}
				// key of the lookup is the range key
				if ex, ok := lk.Index.(*ssa.Extract); !ok || ex.Index != 1 {
					bad = append(bad, "seen-set consulted with something other than the rule map's current key")
					continue
				}
				for _, mem := range members {
					// the membership must lead (possibly through || with key=="") to skipping: find the If using it
					for _, r3 := range refs(mem) {
						if iff, ok := r3.(*ssa.If); ok {
							// true edge must not reach a clause write without passing the loop header
							if reachesWriteBeforeHeader(iff.Block().Succs[0], reporter) {
								bad = append(bad, "an entry whose key WAS seen in the input is still reported as missing")
							} else {
								okSeen = true
							}
							if !reachesWriteBeforeHeader(iff.Block().Succs[1], reporter) {
								bad = append(bad, "an entry whose key was not seen in the input is skipped")
							}
						}
					}
				}
			}
			if !okSeen && len(bad) == 0 {
				bad = append(bad, "the reporter does not decide on membership in the seen set")
			}
		}
		// rule filter: comparison with the constant "required"
		okReq := false
		for _, b := range reporter.Blocks {
			for _, ins := range b.Instrs {
				bo, ok := ins.(*ssa.BinOp)
				if !ok || (bo.Op != token.EQL && bo.Op != token.NEQ) {
					continue
				}
				s, isS := constString(bo.Y)
				if !isS || s != "required" {
					continue
				}
				ex, isEx := bo.X.(*ssa.Extract)
				if !isEx || ex.Index != 0 {
					bad = append(bad, "the rule filter does not compare the parsed rule key")
					continue
				}
				if call, ok := ex.Tuple.(*ssa.Call); !ok || calleeName(&call.Call) != "valid.ParseValidNameKV" {
					bad = append(bad, "the rule filter does not compare the key part of ParseValidNameKV")
					continue
				}
				iff, isIf := bo.Block().Instrs[len(bo.Block().Instrs)-1].(*ssa.If)
				if !isIf || iff.Cond != bo {
					continue
				}
				reqEdge, otherEdge := bo.Block().Succs[0], bo.Block().Succs[1]
				if bo.Op == token.NEQ {
					reqEdge, otherEdge = otherEdge, reqEdge
				}
				if !reachesWriteBeforeHeader(reqEdge, reporter) {
					bad = append(bad, "a missing key under `required` produces no clause")
				}
				if reachesWriteBeforeHeader(otherEdge, reporter) {
					bad = append(bad, "a missing key produces a clause for a rule other than `required`")
				}
				okReq = true
			}
		}
		if !okReq {
			bad = append(bad, "the reporter does not select the `required` rule")
		}
		c.Sites++
		c.Check(len(bad) == 0, "C03-SEEN", fnName(reporter), "skip", reporter.Pos(), "skips seen keys and non-required rules only", uniqJoin(bad, 3))
	}
	// ---- the keyed walkers
	nWalk := 0
	for _, w := range findWalkers(p) {
		fn := w.Fn
		var calls []*ssa.Call
		for _, b := range fn.Blocks {
			for _, ins := range b.Instrs {
				if call, ok := ins.(*ssa.Call); ok && staticCallee(&call.Call) == reporter {
					calls = append(calls, call)
				}
			}
		}
		recv := recvNamed(fn)
		if len(calls) == 0 {
			continue // C03-MISSING reports a keyed walker that never reaches the reporter
		}
		nWalk++
		name := fnName(fn)
		_ = recv
		idx := func(prm *ssa.Parameter) int {
			for i, q := range reporter.Params {
				if q == prm {
					return i
				}
			}
			return -1
		}
		for ci, call := range calls {
			c.Sites++
			disc := func(s string) string {
				if ci == 0 {
					return s
				}
				return fmt.Sprintf("%s#%d", s, ci+1)
			}
			seenArg := call.Call.Args[idx(seenParam)]
			rmArg := call.Call.Args[idx(rmParam)]
			// fresh
			mk, isMake := seenArg.(*ssa.MakeMap)
			if !isMake {
				c.Bad("C03-SEEN", name, disc("fresh"), call.Pos(), "the set of seen keys is not created in the pass that fills it (it outlives one input element): keys seen in an earlier element of a slice of maps hide keys missing from later ones")
				continue
			}
			c.OK("C03-SEEN", name, disc("fresh"), mk.Pos(), "seen set is a fresh map of this pass")
			// fill: MapUpdate on mk in a loop, executed on every iteration, key = key used for RM.Get
			var bad []string
			var upd *ssa.MapUpdate
			for _, r := range refs(mk) {
				if mu, ok := r.(*ssa.MapUpdate); ok && mu.Map == mk {
					upd = mu
				}
			}
			var loop *loopInfo
			if upd != nil {
				for _, l := range naturalLoops(fn) {
					if l.Body[upd.Block()] && (loop == nil || len(l.Body) > len(loop.Body)) {
						loop = l // outermost loop containing the update: the loop over the input's entries
					}
				}
			}
			// a set kept as map[K]bool records a key by storing true (the reporter reads the value)
			if upd != nil {
				if bt, ok := upd.Value.Type().Underlying().(*types.Basic); ok && bt.Kind() == types.Bool {
					if b, known := constBool(upd.Value); !known || !b {
						bad = append(bad, "a key is recorded in the seen set with a value other than true")
					}
				}
			}
			switch {
			case upd == nil:
				bad = append(bad, "no key is ever recorded in the seen set")
			case loop == nil:
				bad = append(bad, "keys are recorded outside the loop over the input's entries")
			default:
				for b := range loop.Body {
					for _, s := range b.Succs {
						if s == loop.Header && b != loop.Header && !upd.Block().Dominates(b) {
							bad = append(bad, "an iteration over the input can complete without recording its key (a present key may be reported as missing)")
						}
					}
				}
				// same key as the rule lookup
				var getKey ssa.Value
				for b := range loop.Body {
					for _, ins := range b.Instrs {
						if g, ok := ins.(*ssa.Call); ok && calleeName(&g.Call) == "(valid.RM).Get" {
							getKey = g.Call.Args[1]
						}
					}
				}
				if getKey == nil {
					bad = append(bad, "no rule lookup by the entry's key inside the input loop")
				} else if !sameSSAValue(getKey, upd.Key) {
					bad = append(bad, "the key recorded as seen is not the key the rules are looked up by")
				}
				// report after the loop
				if loop.Body[call.Block()] {
					bad = append(bad, "missing keys are reported inside the input loop (before all entries were seen)")
				}
			}
			c.Check(len(bad) == 0, "C03-SEEN", name, disc("fill"), call.Pos(), "every iteration records the lookup key", uniqJoin(bad, 3))
			// report: same rule map as the lookups; on the normal return path
			var bad2 []string
			isRuleObj := func(v ssa.Value) string {
				if ld, ok := v.(*ssa.UnOp); ok {
					if fa, ok := ld.X.(*ssa.FieldAddr); ok {
						return fieldAddrName(fa)
					}
				}
				return "?"
			}
			var getRM string
			for _, b := range fn.Blocks {
				for _, ins := range b.Instrs {
					if g, ok := ins.(*ssa.Call); ok && calleeName(&g.Call) == "(valid.RM).Get" {
						getRM = isRuleObj(g.Call.Args[0])
					}
				}
			}
			if r := isRuleObj(rmArg); r == "?" || r != getRM {
				bad2 = append(bad2, "the rule map handed to the reporter is not the one the entries are validated against")
			}
			// every return reachable from the loop exit passes the call
			if loop != nil {
				for _, ee := range loop.exitEdges() {
					if !call.Block().Dominates(ee[1]) && ee[1] != call.Block() && !blockAlwaysReaches(ee[1], call.Block()) {
						bad2 = append(bad2, "after the input loop the pass can return without reporting missing keys")
					}
				}
			}
			c.Check(len(bad2) == 0, "C03-SEEN", name, disc("report"), call.Pos(), "reporter called with the walker's rule map after the loop", uniqJoin(bad2, 3))
		}
	}
	if nWalk < 2 {
		c.Unk("C03-SEEN", "-", "walkers", token.NoPos, fmt.Sprintf("expected 2 keyed walkers calling the missing-key reporter, found %d", nWalk))
	}
}

// reachesWriteBeforeHeader: from block b, can a WriteString on a builder be reached without
// first passing the header of a loop that contains b (i.e. within the current iteration of
// every enclosing loop)? b being such a header itself means the iteration is over.
func reachesWriteBeforeHeader(b *ssa.BasicBlock, fn *ssa.Function) bool {
	stop := map[*ssa.BasicBlock]bool{}
	for _, l := range naturalLoops(fn) {
		if l.Body[b] {
			stop[l.Header] = true
		}
	}
	seen := map[*ssa.BasicBlock]bool{}
	var walk func(x *ssa.BasicBlock) bool
	walk = func(x *ssa.BasicBlock) bool {
		if seen[x] || stop[x] {
			return false
		}
		seen[x] = true
		for _, ins := range x.Instrs {
			if call, ok := ins.(*ssa.Call); ok && calleeName(&call.Call) == "(*strings.Builder).WriteString" {
				return true
			}
		}
		for _, s := range x.Succs {
			if walk(s) {
				return true
			}
		}
		return false
	}
	return walk(b)
}

// blockAlwaysReaches: every path from a reaches b (b post-dominates a), computed by search.
func blockAlwaysReaches(a, b *ssa.BasicBlock) bool {
	seen := map[*ssa.BasicBlock]bool{}
	var walk func(x *ssa.BasicBlock) bool
	walk = func(x *ssa.BasicBlock) bool {
		if x == b {
			return true
		}
		if seen[x] {
			return true
		}
		seen[x] = true
		if len(x.Succs) == 0 {
			return false
		}
		for _, s := range x.Succs {
			if !walk(s) {
				return false
			}
		}
		return true
	}
	return walk(a)
}
