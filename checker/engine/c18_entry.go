package engine

import (
	"fmt"
	"go/constant"
	"go/token"
	"go/types"
	"golang.org/x/tools/go/ssa"
	"reflect"
	"regexp"
	"sort"
	"strings"
)

func init() {
	register(&PropDef{
		ID: "C18",
		Explain: "Sibling cross-check of the four walkers on their abstract interpretation: each one performs the same steps for a rule item — default-separator split of the rule string, skip of empty items, ParseValidNameKV of the item, lookup by its key part, error clause on a miss, built-ins only when the table holds nil, zero-skip, and a call fn(error buffer, UNPARSED item, object, field, the scalar's own reflect.Value). " +
			"C18-URL: a query parameter's value is everything after the first '=' and percent-decoding does not precede delimiter splitting; C18-IFACE: interface-typed map elements are unwrapped. Differences are allowed only in the path arguments. " +
			"Not covered: agreement of concrete values after URL decoding beyond these two structural hazards.",
		Assume:  []string{"the rule functions themselves are entry-point agnostic (they only see a reflect.Value): checked by C01/C05 for every kind"},
		Trusted: []string{"go/types", "go/ssa"},
		Run: func(c *Ctx) {
			runC18(c)
			runC18VarKinds(c)
			runFieldIdentity(c, "C18-FIELDID")
			runFacadeForward(c, "C18-FORWARD")
			runLiveSettings(c, "C18-LIVE")
			base(c, "DECLARED", "STATE", "ALIAS", "TEXT", "MAT", "RULESRC", "EXPORT", "ZEROSKIP")
			importRules(c, "C03", runC03, "C18-REQUIRED", "the built-in required has the same notion of 'missing' in every walker: a clause exactly when the value is zero or an empty collection (rule C03-REQ) — a walker that also treats e.g. blank strings as missing disagrees with its siblings on the same scalar", 4, ruleIn("C03-REQ"))
			importRules(c, "C14", runC14Set, "C18-RULETEXT", "a rule given programmatically (Var, Map, Url and rule overrides all go through RM.Set) is the text the caller wrote, as a struct tag is: RM.Set stores the joined rules unchanged (rule C14-SET) — a setter that trims, de-duplicates or rewrites rule text makes the same rule string judge differently through the struct tag and through the other entry points", 1, nil)
			importRules(c, "C02", runC02Loop, "C18-LOOP", "every walker evaluates every rule item of a field: its rule loop leaves only through its header (rule C02-LOOP) — a walker that stops early at some item disagrees with its siblings on the rules after it", 4, nil)
		},
	})
	register(&PropDef{
		ID: "C16",
		Explain: "C16-LOOKUP on every path of every walker the rule function comes from the per-call table when it has the name, from the global table only after the per-call table missed, and a double miss writes an error clause for that field and continues with the next rule; " +
			"C16-REPLACE the rule string of a field is exactly the programmatic rule when one is set (non-empty), else the tag rule; C16-SCOPE the unscoped rule set is consulted only for the outermost object and only when no type-scoped set exists, nested objects use the set registered for their type; SetRule keys by the pointer-stripped type or the sentinel. " +
			"Not covered: the (ambiguous) treatment of top-level slices as outermost.",
		Assume:  []string{"Go map lookup semantics"},
		Trusted: []string{"go/types", "go/ssa"},
		Run: func(c *Ctx) {
			runC16(c)
			runC16More(c)
			runC16Delegate(c)
			runSetFnStore(c, "C16-SETFN")
			importRules(c, "C04", runC04, "C16-NESTPATH", "the walker recognises the outermost object by its empty path, so every nested object must be handed a non-empty path of its own: Parent.Field, Parent.Field[i], Parent.Field[key] (rule C04-LABEL) — a nested call that is given the parent's path unchanged (an embedded field 'flattened' into its parent) is taken for the outermost object when the parent's path is empty and receives the unscoped rule set", 2, ruleIn("C04-LABEL"))
			sharedDeclaredRules(c)
			base(c, "STATE", "LOOP", "TEXT", "EXPORT", "FACADE")
		},
	})
}

var (
	reItem     = regexp.MustCompile(`^valid\.ValidNamesSplit\((.*), nil\)\[[^\[\]]*\]$`)
	reFnLookup = regexp.MustCompile(`^(v\.vc\.validFn|valid\.validName2FnMap)\[valid\.ParseValidNameKV\((.*)\)#0\]$`)
)

type ruleCall struct {
	we                         walkEvent
	fn, buf, item, obj, fld, v string
	zero                       int64
	mask                       uint32
}

func ruleCalls(wl *walkLayers) []ruleCall {
	var out []ruleCall
	for _, we := range walkEvents(wl, "rulecall") {
		a := we.E.Args
		if len(a) < 8 {
			continue
		}
		z, _ := isCstInt(a[6])
		m, _ := isCstInt(a[7])
		out = append(out, ruleCall{we, keyOf(a[0]), keyOf(a[1]), keyOf(a[2]), keyOf(a[3]), keyOf(a[4]), keyOf(a[5]), z, uint32(m)})
	}
	return out
}

func runC18(c *Ctx) {
	p := c.P
	wl := runWalkLayers(p)
	for _, r := range wl.Runs {
		c.Funcs[fnName(r.Fn)] = true
	}
	for _, cut := range uniqStrings(wl.Cuts) {
		c.Unk("C18-SKEL", "-", "explore:"+shorten(cut, 60), token.NoPos, cut)
	}
	c.Rule("C18-SKEL", "per walker, on every path that calls a rule function: item comes from the default-separator split, the empty item was skipped, the function was looked up by the key part of that very item and found non-nil, and the call passes (the walker's error buffer, the unparsed item, object, field, the value)", 4)
	type agg struct {
		n   int
		bad []string
	}
	per := map[string]*agg{}
	walkers := findWalkers(p)
	for _, w := range walkers {
		per[fnName(w.Fn)] = &agg{}
	}
	for _, rc := range ruleCalls(wl) {
		fn := fnName(rc.we.E.Site.Parent())
		a := per[fn]
		if a == nil {
			a = &agg{}
			per[fn] = a
		}
		a.n++
		c.Sites++
		at := p.Pos(instrPos(rc.we.E.Site))
		pc := rc.we.E.PC
		if !strings.HasSuffix(rc.buf, ".errBuf") {
			a.bad = append(a.bad, at+": first argument is not the walker's error buffer: "+rc.buf)
		}
		m := reItem.FindStringSubmatch(rc.item)
		if m == nil {
			a.bad = append(a.bad, at+": the item handed to the rule function is not an element of the default-separator split of the rule string (ValidNamesSplit(rules)[i]): "+shorten(rc.item, 120))
			continue
		}
		fm := reFnLookup.FindStringSubmatch(rc.fn)
		if fm == nil {
			// a fallback consulted LAST: an alias table (read-only package-level map) indexed by the item's key
			// part, reached only on the path where the per-call AND the global table missed — built-ins and
			// registered functions of that name still win
			if tab, item, ok := aliasLookup(p, rc.fn); ok {
				local := "has(v.vc.validFn[valid.ParseValidNameKV(" + item + ")#0])"
				global := "has(valid.validName2FnMap[valid.ParseValidNameKV(" + item + ")#0])"
				lv, lok := pc[local]
				gv, gok := pc[global]
				if lok && gok && lv == 0 && gv == 0 {
					fm = []string{rc.fn, "alias:" + tab, item}
				}
			}
		}
		if fm == nil {
			a.bad = append(a.bad, at+": the function called does not come from the per-call or global rule table indexed by the item's key part: "+shorten(rc.fn, 120))
		} else if fm[2] != rc.item {
			a.bad = append(a.bad, at+": the function was looked up with the key of a different text than the item passed to it")
		}
		if v, ok := pc[`eq("",`+rc.item+`)`]; !ok || v != 0 {
			a.bad = append(a.bad, at+": the empty rule item is not skipped before the call")
		}
		if v, ok := pc["eq(nil,"+rc.fn+")"]; !ok || v != 0 {
			a.bad = append(a.bad, at+": the function value is not tested for nil (built-in rules) before the call")
		}
	}
	var names []string
	for n := range per {
		names = append(names, n)
	}
	sort.Strings(names)
	for _, n := range names {
		a := per[n]
		pos := token.NoPos
		if f := p.funcByName(n); f != nil {
			pos = f.Pos()
		}
		switch {
		case a.n == 0:
			c.Unk("C18-SKEL", n, "skeleton", pos, "no rule-function call observed")
		case len(a.bad) > 0:
			c.Bad("C18-SKEL", n, "skeleton", pos, uniqJoin(a.bad, 4))
		default:
			c.OK("C18-SKEL", n, "skeleton", pos, fmt.Sprintf("%d call paths follow the common skeleton", a.n))
		}
	}
	// --- C18-URL
	c.Rule("C18-URL", "a URL parameter's value keeps everything after the first '=' (no Split(...)[1]); the result of percent-decoding does not flow into the '?', '&', '=' splitting", 2)
	nURL := 0
	var lossy, decodeFirst []string
	var urlPos token.Pos
	for _, rc := range ruleCalls(wl) {
		if !strings.HasPrefix(rc.v, "reflect.ValueOf(") {
			continue
		}
		inner := strings.TrimSuffix(strings.TrimPrefix(rc.v, "reflect.ValueOf("), ")")
		if !strings.Contains(inner, `"="`) && !strings.Contains(inner, "61") {
			continue
		}
		nURL++
		urlPos = rc.we.Run.Fn.Pos()
		if regexp.MustCompile(`^strings\.Split\(.*, "="\)\[1\]$`).MatchString(inner) {
			lossy = append(lossy, "value is strings.Split(pair, \"=\")[1]: everything after a second '=' is dropped (a=x=yz is judged as x)")
		}
		if m := regexp.MustCompile(`^strings\.SplitN\(.*, "=", (-?\d+)\)\[1\]$`).FindStringSubmatch(inner); m != nil && m[1] != "2" {
			lossy = append(lossy, "value is strings.SplitN(pair, \"=\", "+m[1]+")[1]: everything after a second '=' is dropped (a=x=yz is judged as x)")
		}
		// decode before split: QueryUnescape(...) appears as the subject of a Split/Index
		if regexp.MustCompile(`strings\.(Split|SplitN|Index|Cut)\([^"]*net/url\.(QueryUnescape|PathUnescape)\(`).MatchString(inner) {
			decodeFirst = append(decodeFirst, "the whole URL is percent-decoded before it is split at '?', '&', '=': an encoded delimiter inside a value (a=x%26yz) truncates the value")
		}
	}
	if nURL == 0 {
		c.Unk("C18-URL", "(*valid.VUrl).validate", "split", token.NoPos, "no URL parameter value reaches a rule function (anchor unresolved)")
	} else {
		// the value judged is the QUERY-decoded text: '+' is a blank and %XX is decoded, as a form
		// value is (net/url.QueryUnescape; PathUnescape keeps '+'; no decoding keeps %20)
		var decBad []string
		for _, rc := range ruleCalls(wl) {
			if !strings.HasPrefix(rc.v, "reflect.ValueOf(") || !strings.Contains(rc.v, `"="`) {
				continue
			}
			switch {
			case strings.Contains(rc.v, "net/url.PathUnescape("):
				decBad = append(decBad, "the query is decoded with url.PathUnescape: a blank encoded as '+' reaches the rule functions as '+', so the same value is judged differently than through the other entry points")
			case strings.Contains(rc.v, `strings.Split("", `):
				// the URL had no query part: the only "parameter" is cut out of the empty string
			case nestedCall(rc.v, "net/url.QueryUnescape("):
				decBad = append(decBad, "a URL parameter value is percent-decoded more than once: a value that still contains %XX after the first decoding (\"%2541\" -> \"%41\") is changed again, so it is measured differently than through the other entry points")
			case !strings.Contains(rc.v, "net/url.QueryUnescape("):
				decBad = append(decBad, "a URL parameter value reaches the rule functions without query percent-decoding: "+shorten(rc.v, 300))
			}
			// the value judged is the parameter's text as cut out of the (decoded) query: anything else applied
			// to it on the way (TrimSpace, ToLower, Replace, …) makes the URL carrier measure a different
			// string than struct, Var and map do for the same value
			for _, m := range regexp.MustCompile(`([A-Za-z_][A-Za-z0-9_/\.]*)\(`).FindAllStringSubmatch(rc.v, -1) {
				switch m[1] {
				case "reflect.ValueOf", "net/url.QueryUnescape", "net/url.PathUnescape", "strings.Split", "strings.SplitN", "strings.Index", "strings.IndexByte", "strings.Cut", "len", "valid.cutByte", "valid.cutStr":
				default:
					if strings.HasPrefix(m[1], "strings.") || strings.HasPrefix(m[1], "bytes.") || strings.HasPrefix(m[1], "unicode") || strings.HasPrefix(m[1], "html.") || strings.HasPrefix(m[1], "strconv.") {
						decBad = append(decBad, "a URL parameter value is passed through "+m[1]+" before it is judged: the URL carrier measures a different string than struct, Var and map do for the same value")
					}
				}
			}
		}
		// each parameter is judged by its own text: neither the key nor the value handed on may be
		// carried over from the previous parameter (a loop-carried variable that is not reset)
		var carried []string
		for _, rc := range ruleCalls(wl) {
			if !strings.Contains(fnName(rc.we.Run.Fn), "VUrl") {
				continue
			}
			for what, expr := range map[string]string{"value": rc.v, "key": rc.fld} {
				for _, m := range regexp.MustCompile(`φ:[^:]*:(\d+):(t\d+):(\w+)`).FindAllStringSubmatch(expr, -1) {
					m = []string{m[0], m[3], m[1], m[2]}
					if m[1] != "rangeindex" && inductionPhi(rc.we.Run.Fn, m[2], m[3]) {
						// the counter of an index loop over the parameters (as the hidden index of a range loop is)
						continue
					}
					if m[1] != "rangeindex" && consumingCursor(rc.we.Run.Fn, m[2], m[3]) {
						// the rest of the text still to be scanned: cut shorter on every round
						continue
					}
					if m[1] != "rangeindex" {
						carried = append(carried, "the "+what+" judged for a parameter can be the one left over from the previous parameter (loop-carried variable "+m[1]+"): a parameter written without '=' inherits its neighbour's value")
					}
				}
			}
		}
		// the text walked is the caller's string as given: the URL entry point hands its argument
		// (string, or the pointee of *string) to the walker without transforming it
		if vv := c.P.Method("valid", "VUrl", "Valid"); vv != nil {
			var tb []string
			nCalls := 0
			for _, b := range vv.Blocks {
				for _, ins := range b.Instrs {
					call, ok := ins.(*ssa.Call)
					if !ok {
						continue
					}
					if cal := staticCallee(&call.Call); cal == nil || cal.Name() != "validate" || recvNamed(cal) == nil || recvNamed(cal).Obj().Name() != "VUrl" {
						continue
					}
					nCalls++
					seen := map[ssa.Value]bool{}
					var walk func(v ssa.Value, d int)
					walk = func(v ssa.Value, d int) {
						if v == nil || seen[v] || d > 6 {
							return
						}
						seen[v] = true
						switch x := v.(type) {
						case *ssa.Phi:
							for _, e := range x.Edges {
								walk(e, d+1)
							}
						case *ssa.Slice:
							// a PREFIX of the caller's string (src[:i], e.g. the part before a raw '#' when fragments
							// are to be ignored): cut before any decoding, it shortens the text but does not alter it
							if x.Low == nil {
								walk(x.X, d+1)
							} else {
								tb = append(tb, "the URL handed to the walker is a slice of the caller's string that does not start at its beginning")
							}
						case *ssa.Extract, *ssa.TypeAssert, *ssa.UnOp, *ssa.Const, *ssa.Parameter, *ssa.ChangeType:
						case *ssa.Call:
							tb = append(tb, "the URL is passed through "+calleeName(&x.Call)+" before it is walked: the value of the last parameter (or the whole text) can differ from what the caller supplied")
						default:
							tb = append(tb, fmt.Sprintf("the URL handed to the walker is a %T, not the caller's string", v))
						}
					}
					walk(call.Call.Args[1], 0)
				}
			}
			c.Check(len(tb) == 0 && nCalls > 0, "C18-URL", "(*valid.VUrl).Valid", "text-as-given", vv.Pos(), "the caller's string reaches the walker untransformed", uniqJoin(tb, 2))
		}
		c.Check(len(carried) == 0, "C18-URL", "(*valid.VUrl).validate", "own-text", urlPos, "key and value are cut from the parameter's own text", uniqJoin(carried, 2))
		c.Check(len(decBad) == 0, "C18-URL", "(*valid.VUrl).validate", "query-decoding", urlPos, "values are query-decoded (url.QueryUnescape)", uniqJoin(decBad, 1))
		c.Check(len(lossy) == 0, "C18-URL", "(*valid.VUrl).validate", "first-equals", urlPos, "value keeps everything after the first '='", uniqJoin(lossy, 1))
		// the query starts at the FIRST '?': a value may contain '?' itself (a nested URL, "what?")
		if ufn := p.Method("valid", "VUrl", "validate"); ufn != nil {
			var qbad []string
			firsts := 0
			for _, b := range ufn.Blocks {
				for _, ins := range b.Instrs {
					call, ok := ins.(*ssa.Call)
					if !ok || len(call.Call.Args) < 2 {
						continue
					}
					nm := calleeName(&call.Call)
					isQ := false
					if s, ok := constString(call.Call.Args[1]); ok && s == "?" {
						isQ = true
					}
					if k, ok := constInt(call.Call.Args[1]); ok && k == '?' {
						isQ = true
					}
					if !isQ || !strings.HasPrefix(nm, "strings.") {
						continue
					}
					if strings.HasPrefix(nm, "strings.LastIndex") {
						qbad = append(qbad, p.Pos(call.Pos())+": the query is cut at the LAST '?' ("+nm+"): a parameter value that contains '?' moves the start of the query into the value, the parameters before it are reported missing or never judged")
					} else {
						firsts++
					}
				}
			}
			c.Sites++
			c.Check(len(qbad) == 0 && firsts > 0, "C18-URL", "(*valid.VUrl).validate", "first-question-mark", urlPos, "query cut at the first '?'", uniqJoin(append(qbad, map[bool]string{true: "", false: "no search for '?' found"}[firsts > 0]), 2))
		}
		c.Check(len(decodeFirst) == 0, "C18-URL", "(*valid.VUrl).validate", "decode-after-split", urlPos, "decoding does not precede splitting", uniqJoin(decodeFirst, 1))
		// Which characters are looked for in text that has ALREADY been percent-decoded: each of them is
		// a delimiter whose encoded form inside a value is taken for the delimiter. '?', '&' and '=' are
		// the (recorded) consequence of whole-URL decoding; any further one is a new way for a value to be
		// truncated and for the parameters behind it to be lost, and is reported on its own.
		if ufn := p.Method("valid", "VUrl", "validate"); ufn != nil {
			var extra []string
			pos := urlPos
			dl := decodedDelimiters(p, ufn)
			var ds []string
			for d := range dl {
				ds = append(ds, d)
			}
			sort.Strings(ds)
			for _, d := range ds {
				if d == "?" || d == "&" || d == "=" {
					continue
				}
				pos = dl[d]
				if strings.HasPrefix(d, "<") {
					extra = append(extra, fmt.Sprintf("%s: the percent-decoded text is handed to %s, which cuts it at '#', '?', ';' and friends: a value that contains one of them in encoded form (%%23, %%3F, …) is cut there and every parameter behind it is lost or misjudged", p.Pos(dl[d]), strings.Trim(d, "<>")))
					continue
				}
				extra = append(extra, fmt.Sprintf("%s: the percent-decoded text is searched for %q: a value that contains this character in encoded form (%s) is cut there and every parameter behind it is lost or misjudged", p.Pos(dl[d]), d, encodedForm(d)))
			}
			c.Sites++
			c.Check(len(extra) == 0, "C18-URL", "(*valid.VUrl).validate", "decoded-delimiters", pos, fmt.Sprintf("no delimiter other than '?', '&', '=' is looked for in decoded text (searched: %s)", strings.Join(ds, " ")), uniqJoin(extra, 3))
		}
	}
	// --- C18-IFACE (same construct as C03-IFACE, judged for this property)
	c.Rule("C18-IFACE", "map elements of interface type are unwrapped before they reach the shared rule functions, so map[string]interface{} carries a scalar like map[string]T does", 1)
	nI, badI := 0, 0
	var posI token.Pos
	for _, rc := range ruleCalls(wl) {
		if strings.Contains(rc.v, ".MapRange().Value()") {
			nI++
			posI = instrPos(rc.we.E.Site)
			if rc.mask&kmask(reflect.Interface) != 0 {
				badI++
			}
		}
	}
	switch {
	case nI == 0:
		c.Unk("C18-IFACE", "(*valid.VMap).validate", "unwrap", token.NoPos, "no map element reaches a rule function")
	case badI > 0:
		c.Bad("C18-IFACE", "(*valid.VMap).validate", "unwrap", posI, fmt.Sprintf("on %d of %d call paths the element may still be of kind Interface: through map[string]interface{} every rule is skipped or misjudged while the same value in map[string]T is judged", badI, nI))
	default:
		c.OK("C18-IFACE", "(*valid.VMap).validate", "unwrap", posI, "never of kind Interface at the call")
	}
}

func runC16(c *Ctx) {
	p := c.P
	wl := runWalkLayers(p)
	for _, r := range wl.Runs {
		c.Funcs[fnName(r.Fn)] = true
	}
	c.Rule("C16-LOOKUP", "a rule function taken from the global table is used only after the per-call table missed; a double miss writes an error clause and no function is called", 4)
	type agg struct {
		n   int
		bad []string
	}
	per := map[string]*agg{}
	for _, w := range findWalkers(p) {
		per[fnName(w.Fn)] = &agg{}
	}
	for _, rc := range ruleCalls(wl) {
		fn := fnName(rc.we.E.Site.Parent())
		a := per[fn]
		if a == nil {
			continue
		}
		fm := reFnLookup.FindStringSubmatch(rc.fn)
		if fm == nil {
			continue // reported by C18-SKEL
		}
		a.n++
		c.Sites++
		local := "has(v.vc.validFn[valid.ParseValidNameKV(" + fm[2] + ")#0])"
		global := "has(valid.validName2FnMap[valid.ParseValidNameKV(" + fm[2] + ")#0])"
		pc := rc.we.E.PC
		switch fm[1] {
		case "valid.validName2FnMap":
			if v, ok := pc[local]; !ok || v != 0 {
				a.bad = append(a.bad, "a globally registered function is used although the per-call table was not consulted first (or had the name)")
			}
			if v, ok := pc[global]; !ok || v != 1 {
				a.bad = append(a.bad, "global function used without a successful lookup")
			}
		case "v.vc.validFn":
			if v, ok := pc[local]; !ok || v != 1 {
				a.bad = append(a.bad, "per-call function used without a successful lookup")
			}
		}
	}
	// double miss: passes where both lookups failed must write a field clause and call nothing
	for _, r := range wl.Runs {
		a := per[fnName(r.Fn)]
		if a == nil {
			continue
		}
		sawMiss := false
		for _, ps := range passesOf(r) {
			var missKey string
			for k, v := range ps.PC {
				if strings.HasPrefix(k, "has(valid.validName2FnMap[") && v == 0 {
					missKey = k
				}
			}
			if missKey == "" {
				continue
			}
			// an alias table that answers after the double miss: the name is not unknown on this pass
			aliasHit := false
			for k, v := range ps.PC {
				if v == 1 && strings.HasPrefix(k, "has(valid.") && !strings.HasPrefix(k, "has(valid.validName2FnMap[valid.ParseValidNameKV(") {
					if g := p.Global("valid", strings.TrimPrefix(strings.SplitN(k, "[", 2)[0], "has(valid.")); g != nil && readOnlyGlobalMap(p, g) {
						aliasHit = true
					}
				}
			}
			if aliasHit {
				continue
			}
			sawMiss = true
			nW, nCall := 0, 0
			for _, e := range ps.Events {
				if v, ok := e.PC[missKey]; !ok || v != 0 {
					continue
				}
				switch e.Kind {
				case "write":
					if classifyWrite(e).Class == "E" {
						nW++
					}
				case "rulecall":
					nCall++
				}
			}
			if nW != 1 || nCall != 0 {
				a.bad = append(a.bad, fmt.Sprintf("unknown rule name: %d error clauses and %d rule calls (want 1 and 0)", nW, nCall))
			}
		}
		if !sawMiss {
			a.bad = append(a.bad, "no path on which both tables miss was found (unknown names must produce an error clause)")
		}
	}
	var names []string
	for n := range per {
		names = append(names, n)
	}
	sort.Strings(names)
	for _, n := range names {
		a := per[n]
		pos := token.NoPos
		if f := p.funcByName(n); f != nil {
			pos = f.Pos()
		}
		switch {
		case a.n == 0:
			c.Unk("C16-LOOKUP", n, "order", pos, "no rule-function call observed")
		case len(a.bad) > 0:
			c.Bad("C16-LOOKUP", n, "order", pos, uniqJoin(a.bad, 3))
		default:
			c.OK("C16-LOOKUP", n, "order", pos, fmt.Sprintf("%d call paths: per-call table first, then global, error clause on a double miss", a.n))
		}
	}
	runC16Struct(c, wl)
}

// runC18VarKinds: the variable entry point admits a scalar by asking ReflectKindIsNum(kind, true).
// The helper is interpreted for every reflect kind x {no flag, false, true} (a finite domain,
// enumerated completely): it must answer true exactly for Int..Int64, Uint..Uint64 and — only
// with the flag — Float32 and Float64. A kind dropped here is refused by Var ("src no support")
// while the struct, map and URL walkers still judge it.
func runC18VarKinds(c *Ctx) {
	p := c.P
	c.Rule("C18-VARKINDS", "ReflectKindIsNum(kind[, canFloat]) ⇔ kind ∈ Int..Int64 ∪ Uint..Uint64 ∪ (canFloat ? {Float32, Float64} : ∅), for every kind and flag", 1)
	fn := p.Func("valid", "ReflectKindIsNum")
	if fn == nil || len(fn.Params) != 2 {
		c.Unk("C18-VARKINDS", "valid.ReflectKindIsNum", "table", token.NoPos, "helper not found")
		return
	}
	c.Funcs[fnName(fn)] = true
	var bad, unk []string
	n := 0
	for k := 0; k <= int(reflect.UnsafePointer); k++ {
		for flag := 0; flag < 3; flag++ { // 0 absent, 1 false, 2 true
			w := NewWalkEnv(p)
			elemT := fn.Params[1].Type().(*types.Slice).Elem()
			arr := &Cell{ID: 2000, T: types.NewArray(elemT, 1)}
			hi := 0
			if flag > 0 {
				arr.Elems = append(arr.Elems, &Cell{ID: 2001, T: elemT, V: cstBool(flag == 2)})
				hi = 1
			}
			args := []AVal{Cst{V: constant.MakeInt64(int64(k)), T: fn.Params[0].Type()}, Slc{Arr: arr, Lo: 0, Hi: hi}}
			trs := w.In.Explore(fn, args, 200)
			want := false
			rk := reflect.Kind(k)
			switch {
			case rk >= reflect.Int && rk <= reflect.Int64, rk >= reflect.Uint && rk <= reflect.Uint64:
				want = true
			case rk == reflect.Float32 || rk == reflect.Float64:
				want = flag == 2
			}
			for _, t := range trs {
				if t.Converged {
					continue
				}
				n++
				c.Sites++
				if t.Cut != "" || t.Panic != "" {
					unk = append(unk, "not decided for kind "+kindNames[k]+": "+t.Cut+t.Panic)
					continue
				}
				got, ok := isCstBool(t.Ret)
				if !ok {
					unk = append(unk, "result not a constant for kind "+kindNames[k]+": "+keyOf(t.Ret))
					continue
				}
				if got != want {
					bad = append(bad, fmt.Sprintf("kind %s (flag %s): answers %v, want %v", kindNames[k], []string{"absent", "false", "true"}[flag], got, want))
				}
			}
		}
	}
	// the Var entry point admits floats: it asks with the float flag set (struct fields and map
	// values of float kinds are judged by the same rules, so Var must let them through as well)
	if vv := p.Method("valid", "VVar", "Valid"); vv != nil {
		calls := callsIn(vv, fnName(fn))
		okFlag := len(calls) > 0
		for _, call := range calls {
			c.Sites++
			el := variadicElems(call.Call.Args[1])
			if len(el) != 1 {
				okFlag = false
				continue
			}
			if b, known := constBool(el[0]); !known || !b {
				okFlag = false
			}
		}
		c.Check(okFlag, "C18-VARKINDS", fnName(vv), "admits-floats", vv.Pos(), "the variable entry point asks ReflectKindIsNum with the float flag set", "the variable entry point does not ask ReflectKindIsNum(kind, true): float32/float64 values are refused by Var (\"src no support\") although the same value is judged when it is a struct field or a map value")
	}
	switch {
	case len(unk) > 0:
		c.Unk("C18-VARKINDS", fnName(fn), "table", fn.Pos(), uniqJoin(unk, 3))
	default:
		c.Check(len(bad) == 0 && n >= 81, "C18-VARKINDS", fnName(fn), "table", fn.Pos(), fmt.Sprintf("%d (kind, flag) cases agree", n), uniqJoin(append(bad, fmt.Sprintf("%d cases", n)), 4))
	}
}

// runFieldIdentity: in the struct walker the value judged (or descended into) for a field is
// the field at the recorded offset of the very cache entry whose name and rule list are used:
// value = <object>.Field(<entry>.offset) and field name = <entry>.name for the same <entry>.
// Reading the value by any other index (the position in a compacted list, a loop counter)
// applies one field's rules to its neighbour as soon as some field is left out of the list.
func runFieldIdentity(c *Ctx, rule string) {
	c.Rule(rule, "struct walker: value = object.Field(entry.offset) and name = entry.name for the same cached entry, at every rule call and every nested descent", 1)
	wl := runWalkLayers(c.P)
	var bad []string
	n := 0
	check := func(fld, val, at string) {
		n++
		c.Sites++
		if !strings.HasSuffix(fld, ".name") {
			bad = append(bad, at+": the field name does not come from a cached field entry: "+shorten(fld, 80))
			return
		}
		entry := strings.TrimSuffix(fld, ".name")
		if !strings.Contains(val, ".Field("+entry+".offset)") {
			bad = append(bad, at+": the value is not read at the recorded offset of the entry that names the field (value "+shorten(val, 90)+")")
		}
	}
	for _, rc := range ruleCalls(wl) {
		if !strings.Contains(fnName(rc.we.E.Site.Parent()), "VStruct") {
			continue
		}
		check(rc.fld, rc.v, c.P.Pos(instrPos(rc.we.E.Site)))
	}
	for _, we := range walkEvents(wl, "call") {
		a := we.E.Args
		name, _ := isCstStr(a[0])
		if (name != "(*valid.VStruct).required" && name != "(*valid.VStruct).exist") || we.E.Fn == nil || we.E.Fn.Name() != "validate" {
			continue
		}
		// required(structName, fieldName, cusMsg, value) / exist(flag, structName, fieldName, cusMsg, value)
		var fld, val string
		if name == "(*valid.VStruct).required" && len(a) >= 6 {
			fld, val = keyOf(a[3]), keyOf(a[5])
		} else if len(a) >= 7 {
			fld, val = keyOf(a[4]), keyOf(a[6])
		} else {
			continue
		}
		check(fld, val, c.P.Pos(instrPos(we.E.Site)))
	}
	runC04CacheRule(c, rule) // and entry.offset is the index of the field whose name/tag the entry holds
	c.Check(len(bad) == 0 && n > 0, rule, "(*valid.VStruct).validate", "field-identity", token.NoPos, fmt.Sprintf("%d uses of a field value, all read at the entry's own offset", n), uniqJoin(append(bad, fmt.Sprintf("%d uses", n)), 3))
}

// nestedCall: does the expression text contain a call of fn whose argument text itself contains
// a call of fn (f(... f(...) ...))?
func nestedCall(expr, fn string) bool {
	for i := 0; ; {
		j := strings.Index(expr[i:], fn)
		if j < 0 {
			return false
		}
		start := i + j + len(fn)
		depth := 1
		k := start
		for k < len(expr) && depth > 0 {
			switch expr[k] {
			case '(':
				depth++
			case ')':
				depth--
			}
			k++
		}
		if strings.Contains(expr[start:k], fn) {
			return true
		}
		i = start
	}
}

// consumingCursor: the loop-carried string φ named reg in block blk of fn is the not yet scanned
// rest of a text: over every back edge it arrives as a proper suffix of itself that starts behind a
// delimiter found in it (φ[Index(φ, d)+1:]), or unchanged on an edge over which the loop's own
// condition variable arrives as false (the round that found no further delimiter is the last).
func consumingCursor(fn *ssa.Function, blk, reg string) bool {
	var ph *ssa.Phi
	for _, b := range fn.Blocks {
		if fmt.Sprint(b.Index) != blk {
			continue
		}
		for _, ins := range b.Instrs {
			if x, ok := ins.(*ssa.Phi); ok && x.Name() == reg {
				ph = x
			}
		}
	}
	if ph == nil {
		return false
	}
	if bt, ok := ph.Type().Underlying().(*types.Basic); !ok || bt.Kind() != types.String {
		return false
	}
	var loop *loopInfo
	for _, l := range naturalLoops(fn) {
		if l.Header == ph.Block() {
			loop = l
		}
	}
	if loop == nil {
		return false
	}
	// the loop condition: a boolean φ of the header deciding the header's branch into the body
	var condPhi *ssa.Phi
	if iff, ok := loop.Header.Instrs[len(loop.Header.Instrs)-1].(*ssa.If); ok {
		if cp, ok := iff.Cond.(*ssa.Phi); ok && cp.Block() == loop.Header && loop.Body[loop.Header.Succs[0]] {
			condPhi = cp
		}
	}
	// edge value of φ x for the path (mergeBlock, edge) taken
	type step struct {
		blk  *ssa.BasicBlock
		edge int
	}
	var valueAlong func(v ssa.Value, path []step) ssa.Value
	valueAlong = func(v ssa.Value, path []step) ssa.Value {
		for {
			x, ok := v.(*ssa.Phi)
			if !ok {
				return v
			}
			found := false
			for _, st := range path {
				if st.blk == x.Block() {
					v, found = x.Edges[st.edge], true
					break
				}
			}
			if !found {
				return v
			}
		}
	}
	okAll, consumed := true, 0
	var visit func(v ssa.Value, path []step, d int)
	visit = func(v ssa.Value, path []step, d int) {
		if x, ok := v.(*ssa.Phi); ok && x != ph && loop.Body[x.Block()] && x.Block() != loop.Header && d < 6 {
			for i, e := range x.Edges {
				visit(e, append(append([]step{}, path...), step{x.Block(), i}), d+1)
			}
			return
		}
		if v == ssa.Value(ph) {
			// unchanged: only on a last round
			if condPhi == nil {
				okAll = false
				return
			}
			cv := valueAlong(condPhi.Edges[path[0].edge], path[1:])
			if cst, ok := cv.(*ssa.Const); !ok || cst.Value == nil || cst.Value.String() != "false" {
				okAll = false
			}
			return
		}
		sl, ok := v.(*ssa.Slice)
		if !ok || sl.X != ssa.Value(ph) || sl.High != nil || sl.Low == nil {
			okAll = false
			return
		}
		bo, ok := sl.Low.(*ssa.BinOp)
		if !ok || bo.Op != token.ADD {
			okAll = false
			return
		}
		k, isK := constInt(bo.Y)
		call, isCall := bo.X.(*ssa.Call)
		if !isK || k < 1 || !isCall {
			okAll = false
			return
		}
		nm := calleeName(&call.Call)
		if (nm != "strings.IndexByte" && nm != "strings.Index") || call.Call.Args[0] != ssa.Value(ph) {
			okAll = false
			return
		}
		consumed++
	}
	for i, e := range ph.Edges {
		if !loop.Body[ph.Block().Preds[i]] {
			continue
		}
		visit(e, []step{{ph.Block(), i}}, 0)
	}
	return okAll && consumed > 0
}

// inductionPhi: the φ named reg in block blk of fn is an integer loop counter: a constant on the
// entry edge, itself plus or minus a constant on every back edge.
func inductionPhi(fn *ssa.Function, blk, reg string) bool {
	for _, b := range fn.Blocks {
		if fmt.Sprint(b.Index) != blk {
			continue
		}
		for _, ins := range b.Instrs {
			ph, ok := ins.(*ssa.Phi)
			if !ok || ph.Name() != reg {
				continue
			}
			if bt, ok := ph.Type().Underlying().(*types.Basic); !ok || bt.Info()&types.IsInteger == 0 {
				return false
			}
			var loop *loopInfo
			for _, l := range naturalLoops(fn) {
				if l.Header == b {
					loop = l
				}
			}
			if loop == nil {
				return false
			}
			steps := 0
			for i, e := range ph.Edges {
				if !loop.Body[b.Preds[i]] {
					if _, isK := constInt(e); !isK {
						// start value: a constant or a length minus one (reverse loops)
						if bo, ok := e.(*ssa.BinOp); !ok || bo.Op != token.SUB {
							return false
						}
					}
					continue
				}
				bo, ok := e.(*ssa.BinOp)
				if !ok || (bo.Op != token.ADD && bo.Op != token.SUB) || bo.X != ssa.Value(ph) {
					return false
				}
				if _, isK := constInt(bo.Y); !isK {
					return false
				}
				steps++
			}
			return steps > 0
		}
	}
	return false
}

// decodedDelimiters: the delimiters that (*VUrl).validate (and the repository helpers it hands the text
// to, two levels deep) looks for in text that derives from the result of url.QueryUnescape /
// url.PathUnescape. Each of them is a character whose percent-encoded form inside a value is mistaken for
// the delimiter itself. Returned: delimiter text -> position of one search site.
func decodedDelimiters(p *Prog, fn *ssa.Function) map[string]token.Pos {
	out := map[string]token.Pos{}
	var scan func(fn *ssa.Function, seed map[ssa.Value]bool, depth int)
	scan = func(fn *ssa.Function, seed map[ssa.Value]bool, depth int) {
		if fn == nil || fn.Blocks == nil || depth > 2 {
			return
		}
		taint := map[ssa.Value]bool{}
		for v := range seed {
			taint[v] = true
		}
		tainted := func(v ssa.Value) bool { return v != nil && taint[v] }
		searchFns := map[string]bool{"Index": true, "IndexByte": true, "IndexRune": true, "IndexAny": true, "LastIndex": true, "LastIndexByte": true, "LastIndexAny": true,
			"Split": true, "SplitN": true, "SplitAfter": true, "SplitAfterN": true, "Cut": true, "FieldsFunc": false}
		carryFns := map[string]bool{"Split": true, "SplitN": true, "SplitAfter": true, "SplitAfterN": true, "Cut": true, "Fields": true, "TrimSpace": true, "Trim": true, "TrimLeft": true, "TrimRight": true,
			"TrimPrefix": true, "TrimSuffix": true, "ToLower": true, "ToUpper": true, "Clone": true, "Replace": true, "ReplaceAll": true}
		for changed, rounds := true, 0; changed && rounds < 12; rounds++ {
			changed = false
			mark := func(v ssa.Value) {
				if v != nil && !taint[v] {
					taint[v] = true
					changed = true
				}
			}
			for _, b := range fn.Blocks {
				for _, ins := range b.Instrs {
					switch x := ins.(type) {
					case *ssa.Call:
						nm := calleeName(&x.Call)
						if nm == "net/url.QueryUnescape" || nm == "net/url.PathUnescape" {
							mark(x)
							continue
						}
						args := callArgs(&x.Call)
						if (strings.HasPrefix(nm, "strings.") || strings.HasPrefix(nm, "bytes.")) && len(args) > 0 && tainted(args[0]) {
							if carryFns[nm[strings.Index(nm, ".")+1:]] {
								mark(x)
							}
						}
					case *ssa.Extract:
						if tainted(x.Tuple) && x.Index == 0 {
							mark(x)
						}
						if c, ok := x.Tuple.(*ssa.Call); ok && tainted(x.Tuple) && strings.HasSuffix(calleeName(&c.Call), ".Cut") && x.Index <= 1 {
							mark(x)
						}
						if nx, ok := x.Tuple.(*ssa.Next); ok && tainted(nx) {
							mark(x)
						}
					case *ssa.Slice:
						if tainted(x.X) {
							mark(x)
						}
					case *ssa.Phi:
						for _, e := range x.Edges {
							if tainted(e) {
								mark(x)
							}
						}
					case *ssa.Index:
						if tainted(x.X) {
							mark(x)
						}
					case *ssa.IndexAddr:
						if tainted(x.X) {
							mark(x)
						}
					case *ssa.Lookup:
						if tainted(x.X) {
							mark(x)
						}
					case *ssa.UnOp:
						if x.Op == token.MUL && tainted(x.X) {
							mark(x)
						}
					case *ssa.Store:
						if tainted(x.Val) {
							mark(x.Addr)
						}
					case *ssa.Range:
						if tainted(x.X) {
							mark(x)
						}
					case *ssa.Next:
						if tainted(x.Iter) {
							mark(x)
						}
					case *ssa.Convert:
						if tainted(x.X) {
							mark(x)
						}
					case *ssa.ChangeType:
						if tainted(x.X) {
							mark(x)
						}
					case *ssa.BinOp:
						if x.Op == token.ADD && (tainted(x.X) || tainted(x.Y)) {
							mark(x)
						}
					}
				}
			}
		}
		for _, b := range fn.Blocks {
			for _, ins := range b.Instrs {
				switch x := ins.(type) {
				case *ssa.Call:
					nm := calleeName(&x.Call)
					args := callArgs(&x.Call)
					if (strings.HasPrefix(nm, "strings.") || strings.HasPrefix(nm, "bytes.")) && len(args) >= 2 && tainted(args[0]) && searchFns[nm[strings.Index(nm, ".")+1:]] {
						d := ""
						if s, ok := constString(args[1]); ok {
							d = s
						} else if k, ok := constInt(args[1]); ok {
							d = string(rune(k))
						} else {
							d = "<non-constant>"
						}
						if _, had := out[d]; !had {
							out[d] = x.Pos()
						}
					}
					if (nm == "net/url.Parse" || nm == "net/url.ParseQuery" || nm == "net/url.ParseRequestURI") && len(args) >= 1 && tainted(args[0]) {
						if _, had := out["<"+nm+">"]; !had {
							out["<"+nm+">"] = x.Pos()
						}
					}
					// a repository helper that receives decoded text
					if cal := staticCallee(&x.Call); cal != nil && cal.Blocks != nil && cal.Pkg != nil && strings.HasPrefix(cal.Pkg.Pkg.Path(), ModPath) {
						sub := map[ssa.Value]bool{}
						for i, a := range args {
							if tainted(a) && i < len(cal.Params) {
								sub[cal.Params[i]] = true
							}
						}
						if len(sub) > 0 {
							scan(cal, sub, depth+1)
						}
					}
				case *ssa.BinOp:
					// a hand-written scanner: one byte of the decoded text compared with a constant
					if x.Op != token.EQL && x.Op != token.NEQ {
						continue
					}
					for _, pr := range [][2]ssa.Value{{x.X, x.Y}, {x.Y, x.X}} {
						k, ok := constInt(pr[1])
						if !ok {
							continue
						}
						v := pr[0]
						if cv, ok := v.(*ssa.Convert); ok {
							v = cv.X
						}
						isElem := false
						switch e := v.(type) {
						case *ssa.Index:
							isElem = tainted(e.X)
						case *ssa.Lookup:
							isElem = tainted(e.X)
						case *ssa.UnOp:
							if ia, ok := e.X.(*ssa.IndexAddr); ok && e.Op == token.MUL {
								isElem = tainted(ia.X)
							}
						case *ssa.Extract: // rune / byte of a range over the text
							if nx, ok := e.Tuple.(*ssa.Next); ok && e.Index == 2 {
								isElem = tainted(nx)
							}
						}
						if isElem {
							d := string(rune(k))
							if _, had := out[d]; !had {
								out[d] = x.Pos()
							}
						}
					}
				}
			}
		}
	}
	scan(fn, nil, 0)
	return out
}

func encodedForm(d string) string {
	if len(d) == 1 {
		return fmt.Sprintf("%%%02X", d[0])
	}
	return "its %XX form"
}

// aliasLookup: fn is `T[key(item)]` or `validName2FnMap[T[key(item)]]` for a read-only package-level map T
// of package valid other than the two rule tables (a constant alias / fallback table).
func aliasLookup(p *Prog, fn string) (table, item string, ok bool) {
	for _, re := range []*regexp.Regexp{
		regexp.MustCompile(`^valid\.(\w+)\[valid\.ParseValidNameKV\((.*)\)#0\]$`),
		regexp.MustCompile(`^valid\.validName2FnMap\[valid\.(\w+)\[valid\.ParseValidNameKV\((.*)\)#0\]\]$`),
	} {
		m := re.FindStringSubmatch(fn)
		if m == nil || m[1] == "validName2FnMap" {
			continue
		}
		g := p.Global("valid", m[1])
		if g == nil || !readOnlyGlobalMap(p, g) {
			continue
		}
		return m[1], m[2], true
	}
	return "", "", false
}

// readOnlyGlobalMap: a package-level map that is filled by the package initialiser only: outside init it
// is looked up, ranged over or measured, never updated, deleted from, reassigned or handed to a call.
func readOnlyGlobalMap(p *Prog, g *ssa.Global) bool {
	if _, isMap := g.Type().(*types.Pointer).Elem().Underlying().(*types.Map); !isMap {
		return false
	}
	for _, fn := range p.Funcs {
		if fn.Name() == "init" && fn.Signature.Recv() == nil {
			continue
		}
		for _, b := range fn.Blocks {
			for _, ins := range b.Instrs {
				for _, op := range ins.Operands(nil) {
					if op == nil || *op != ssa.Value(g) {
						continue
					}
					ld, ok := ins.(*ssa.UnOp)
					if !ok || ld.Op != token.MUL {
						return false // stored to, or its address taken
					}
					for _, r := range refs(ld) {
						switch x := r.(type) {
						case *ssa.Lookup, *ssa.Range:
						case *ssa.Call:
							if calleeName(&x.Call) != "builtin.len" {
								return false
							}
						case *ssa.DebugRef:
						default:
							return false
						}
					}
				}
			}
		}
	}
	return true
}
