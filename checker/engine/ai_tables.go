package engine

import (
	"fmt"
	"go/token"
	"go/types"
	"sort"
	"strings"
	"sync"

	"golang.org/x/tools/go/ssa"
)

// Constant tables. A package-level variable initialised with a map or array literal of constants
// and only ever read afterwards (no update, no element store, never handed to anything but a
// lookup, range or len) is a constant table: a lookup with a constant key is decided by the
// literal. "switch on the kind" rewritten as "kindClass[kind]" is then evaluated exactly as the
// switch was.

// CstMap is the abstract value of such a map.
type CstMap struct {
	Name    string
	Entries map[string]AVal // keyOf(constant key) -> constant value
	T       types.Type
}

func (m CstMap) Key() string { return m.Name }

type constTable struct {
	m    *CstMap
	arr  []AVal // array elements (all constants), nil for a map
	elem types.Type
}

func constTables(p *Prog) map[*ssa.Global]*constTable {
	out := map[*ssa.Global]*constTable{}
	// globals have no referrer lists: collect the instructions that mention each one
	uses := map[*ssa.Global][]ssa.Instruction{}
	var fns []*ssa.Function
	fns = append(fns, p.Funcs...)
	for _, sp := range p.SPkgs {
		if ini := sp.Func("init"); ini != nil {
			dup := false
			for _, f := range fns {
				dup = dup || f == ini
			}
			if !dup {
				fns = append(fns, ini)
			}
		}
	}
	var rands []*ssa.Value
	for _, fn := range fns {
		for _, b := range fn.Blocks {
			for _, ins := range b.Instrs {
				rands = ins.Operands(rands[:0])
				for _, r := range rands {
					if r == nil || *r == nil {
						continue
					}
					if g, ok := (*r).(*ssa.Global); ok {
						uses[g] = append(uses[g], ins)
					}
				}
			}
		}
	}
	grefs := func(v ssa.Value) []ssa.Instruction {
		if g, ok := v.(*ssa.Global); ok {
			return uses[g]
		}
		return refs(v)
	}
	for _, sp := range p.SPkgs {
		ini := sp.Func("init")
		if ini == nil {
			continue
		}
		// map literals: t = make map; t[k] = v ...; *g = t
		mapOf := map[ssa.Value]*CstMap{}
		okMap := map[ssa.Value]bool{}
		for _, b := range ini.Blocks {
			for _, ins := range b.Instrs {
				switch x := ins.(type) {
				case *ssa.MakeMap:
					mapOf[x] = &CstMap{Entries: map[string]AVal{}, T: x.Type()}
					okMap[x] = true
				case *ssa.MapUpdate:
					m := mapOf[x.Map]
					if m == nil {
						continue
					}
					k, ok1 := x.Key.(*ssa.Const)
					v, ok2 := x.Value.(*ssa.Const)
					if !ok1 || !ok2 {
						okMap[x.Map] = false
						continue
					}
					m.Entries[keyOf(Cst{V: k.Value, T: k.Type()})] = Cst{V: v.Value, T: v.Type()}
				case *ssa.Store:
					g, isG := x.Addr.(*ssa.Global)
					if !isG {
						continue
					}
					v := x.Val
					if ct, ok := v.(*ssa.ChangeType); ok {
						v = ct.X
					}
					if m := mapOf[v]; m != nil && okMap[v] {
						m.Name = fnNameGlobal(g)
						m.T = g.Type().(*types.Pointer).Elem()
						out[g] = &constTable{m: m, elem: m.T.Underlying().(*types.Map).Elem()}
					}
				}
			}
		}
		// array literals: *(&g[i]) = c
		for _, mem := range sp.Members {
			g, ok := mem.(*ssa.Global)
			if !ok {
				continue
			}
			at, ok := g.Type().(*types.Pointer).Elem().Underlying().(*types.Array)
			if !ok || at.Len() > 4096 {
				continue
			}
			if _, basic := at.Elem().Underlying().(*types.Basic); !basic {
				continue
			}
			elems := make([]AVal, at.Len())
			for i := range elems {
				elems[i] = zeroOf(at.Elem())
			}
			good, any := true, false
			for _, r := range grefs(g) {
				ia, ok := r.(*ssa.IndexAddr)
				if !ok || ia.Parent() != ini {
					continue
				}
				k, isK := constInt(ia.Index)
				for _, rr := range refs(ia) {
					st, ok := rr.(*ssa.Store)
					if !ok || st.Addr != ssa.Value(ia) {
						continue
					}
					c, isC := st.Val.(*ssa.Const)
					if !isK || !isC || k < 0 || k >= at.Len() {
						good = false
						continue
					}
					elems[k] = Cst{V: c.Value, T: c.Type()}
					any = true
				}
			}
			if good && any {
				out[g] = &constTable{arr: elems, elem: at.Elem()}
			}
		}
	}
	// read-only everywhere else
	for g := range out {
		ro := true
		var check func(v ssa.Value, d int)
		check = func(v ssa.Value, d int) {
			if d > 4 {
				ro = false
				return
			}
			for _, r := range grefs(v) {
				if r.Parent() != nil && r.Parent().Name() == "init" && r.Parent().Signature.Recv() == nil && r.Parent().Pkg == g.Pkg {
					continue
				}
				switch x := r.(type) {
				case *ssa.UnOp:
					if x.Op != token.MUL {
						ro = false
						return
					}
					if _, isArr := x.Type().Underlying().(*types.Array); isArr {
						// a copy of the array: its uses cannot touch the table
						continue
					}
					check(x, d+1)
				case *ssa.Lookup, *ssa.Range, *ssa.Index:
				case *ssa.ChangeType:
					check(x, d+1)
				case *ssa.IndexAddr:
					for _, rr := range refs(x) {
						if u, ok := rr.(*ssa.UnOp); !ok || u.Op != token.MUL {
							ro = false
						}
					}
				case *ssa.Call:
					if calleeName(&x.Call) != "builtin.len" {
						ro = false
					}
				case *ssa.DebugRef:
				default:
					ro = false
				}
				if !ro {
					return
				}
			}
		}
		check(g, 0)
		if !ro {
			delete(out, g)
		}
	}
	return out
}

func (t *constTable) describe() string {
	if t.m != nil {
		var ks []string
		for k := range t.m.Entries {
			ks = append(ks, k)
		}
		sort.Strings(ks)
		return fmt.Sprintf("map literal with %d constant entries (%s)", len(ks), strings.Join(ks, ","))
	}
	return fmt.Sprintf("array literal of %d constants", len(t.arr))
}

var constTabCache sync.Map // *Prog -> map[*ssa.Global]*constTable

func constTablesOf(p *Prog) map[*ssa.Global]*constTable {
	if v, ok := constTabCache.Load(p); ok {
		return v.(map[*ssa.Global]*constTable)
	}
	t := constTables(p)
	constTabCache.Store(p, t)
	return t
}

// DebugTables prints the constant tables found (pgv -debug tables).
func DebugTables(p *Prog) {
	for g, t := range constTablesOf(p) {
		fmt.Println(fnNameGlobal(g), t.describe())
	}
}
